"""Auth family pipeline: C10 (privileged entry points act only for their rightful caller).

1. exhaustive TLC run of MC_Auth_q (statement model, DEVS = {}): every entry x caller cell in every
   state reachable by one effective call; invariants = the property.
   Vacuity guard for the known-findings file: MC_Auth_dev (DEVS = deviations of the current tree)
   MUST violate InvRejectNoChange.
2. MC_Auth_gen (breadth-first, MAXOPS = 1) prints EVERY cell of the matrix as a behaviour;
   MC_Auth_sim (-simulate, seed) adds multi-step behaviours (state evolves between the calls).
3. `harness auth` executes every cell on the real code (precompile Run with a hand-built contract,
   real Ethereum / cosmos transactions through DeliverTx, gov-style handler execution).
4. Trace_Auth validates the trace: property lane C10_*, notes NOTE_*, strict lane STRICT_*.
"""
import collections
import json
import os
import shutil

import vlib

PROPERTIES = ["C10"]

TAG_UNIVERSE = {"C10": ["C10_UnauthorizedEffect", "C10_WrongPrincipal"]}

MARK = "BEHAVIOUR "


def _c(**k):
    d = dict(kind="-", via="-", sender="-", origin="-", claimed="-", key="-", sig="-", carrier="-")
    d["from"] = "-"
    d.update(k)
    return d


def _ev(e, c, base="B1", chain="main"):
    return {"ev": "Call", "a": {"base": base, "chain": chain, "e": e, "c": c}}


def _scenarios():
    """hand-written multi-step behaviours in which the set of rightful callers CHANGES: a second owner is
    listed and acts, the gateway address is moved by governance and the old gateway is refused, association
    is made and removed again.  Validated like every other behaviour (both lanes)."""
    gw = _c(kind="evm", via="run", **{"from": "gw"})
    a2 = _c(kind="evm", via="run", **{"from": "a2"})
    own1 = _c(kind="evm", via="run", sender="a1", origin="a1", **{"from": "cA"})
    own2 = _c(kind="evm", via="run", sender="a2", origin="a2", **{"from": "cA"})
    gov = _c(kind="gov", via="exec", claimed="gov")
    return [
        [_ev("associateOperatorWithStaker", gw), _ev("dissociate_s1", gw), _ev("associateOperatorWithStaker", gw)],
        [_ev("dissociateOperatorFromStaker", gw), _ev("associate_s2", gw), _ev("dissociateOperatorFromStaker", gw)],
        [_ev("createTask", own2), _ev("updateAVS2", own1), _ev("createTask", own2), _ev("updateAVS", own2), _ev("createTask", own2)],
        [_ev("depositLST", a2), _ev("UpdateParams_assets", gov), _ev("depositLST", gw), _ev("depositLST", a2)],
        [_ev("deregisterAVS", own1), _ev("createTask", own1), _ev("registerAVS2", own2), _ev("deregisterAVS", own2)],
    ]


def _behaviours_from(out):
    res, seen = [], set()
    for line in out.split("\n"):
        line = line.strip()
        if line.startswith('"' + MARK):
            try:
                s = json.loads(line)[len(MARK):]
            except json.JSONDecodeError:
                continue
            if s not in seen:
                seen.add(s)
                res.append(json.loads(s))
    return res


def _order(behs):
    """isolated single cells first, grouped by base state (they share one world), then tx cells"""
    def key(b):
        a = b[0]["a"]
        c = a["c"]
        iso = len(b) == 1 and c["via"] in ("run", "exec")
        return (0 if iso else 1 if len(b) == 1 else 2, a["base"], a["chain"], a["e"], json.dumps(b, sort_keys=True))
    return sorted(behs, key=key)


def _cell_class(line):
    c = line["a"]["c"]
    return c["kind"] + "/" + c["via"]


def run(tier, seed):
    harness = vlib.build_harness()
    d = vlib.scratch("auth")
    try:
        return _run(tier, seed, harness, d)
    finally:
        shutil.rmtree(d, ignore_errors=True)


def _validate(d, harness, behs, name):
    dt = os.path.join(d, "trace-" + name)
    os.makedirs(dt)
    vlib.stage_specs(dt, with_override=False)
    bpath = os.path.join(dt, "beh.ndjson")
    open(bpath, "w").write("\n".join(json.dumps(b) for b in behs) + "\n")
    p = vlib.sh([harness, "auth", "-in", bpath, "-out", os.path.join(dt, "trace.ndjson")], timeout=1200, check=False)
    if p.returncode != 0:
        raise vlib.Infra("harness auth failed:\n" + p.stdout[-3000:])
    lines = [json.loads(x) for x in open(os.path.join(dt, "trace.ndjson")) if x.strip()]
    tags, nstates = vlib.tlc_trace(dt, "Trace_Auth.tla", "Trace_Auth.cfg", timeout=1800)
    if nstates != len(lines) + 1:
        raise vlib.Infra(f"trace not fully consumed: {nstates} states for {len(lines)} lines")
    bidx, cur = [], -1
    for ln in lines:
        if ln["ev"] == "reset":
            cur += 1
        bidx.append(cur)
    if cur + 1 != len(behs):
        raise vlib.Infra(f"harness executed {cur + 1} behaviours of {len(behs)}")
    for t in tags:
        li = t["l"] - 1
        t["behaviour"] = behs[bidx[li]]
        if lines[li]["ev"] == "reset":
            # a tag on the reset line: the base state the code built differs from the model's (STRICT_base_*)
            lines[li]["a"] = dict(behs[bidx[li]][0]["a"], e="reset")
        t["world"] = lines[li]["a"]["base"] + "/" + lines[li]["a"]["chain"]
        t["cell"] = lines[li]["a"]
        t["observed"] = {k: lines[li].get(k) for k in ("ev", "a", "ok", "out", "code", "err", "panic", "changed", "fee")}
    return lines, tags


def _run(tier, seed, harness, d):
    res = {"family": "auth", "mc": [], "tags": [], "samples": [], "tag_universe": TAG_UNIVERSE,
           "assumptions": [
               "every cell is executed with ONE fixed well-formed payload per entry point (harness/auth.go: authEvm, authMsgs)",
               "caller identities of the precompiles: contract.CallerAddress set through precompile.Run with a hand-built vm.Contract (what the EVM does for a CALL) and, for identities holding a key, real Ethereum transactions through DeliverTx",
               "governance authority = the message executed through the msg-service router as x/gov does for a passed proposal (the module account cannot sign)",
               "state change = any difference in the sorted kv content of any KVStore of the app, except fee payment (payer -> fee collector) and the payer's account sequence / first public key; the accounts of the precompile addresses pre-exist",
               "signature validity is an input class produced by the harness; cryptography itself is trusted",
               "the oracle's in-memory aggregator state is not observed (KV stores only)"]}
    # 1. exhaustive: statement model
    dm = os.path.join(d, "mc")
    os.makedirs(dm)
    vlib.stage_specs(dm, with_override=False)
    m = vlib.tlc_mc(dm, "MC_Auth_q.tla", "MC_Auth_q.cfg", timeout=900)
    if m["violated"]:
        raise vlib.Infra(f"model counterexample in MC_Auth_q.cfg: {m['violated']} (lead, not a verdict)\n" + m["out"][-3000:])
    res["mc"].append(m)
    if tier != "quick":
        mt = vlib.tlc_mc(dm, "MC_Auth_q.tla", "MC_Auth_t.cfg", timeout=3000)
        if mt["violated"]:
            raise vlib.Infra(f"model counterexample in MC_Auth_t.cfg: {mt['violated']} (lead, not a verdict)\n" + mt["out"][-3000:])
        res["mc"].append(mt)
    mdev = vlib.tlc_mc(dm, "MC_Auth_q.tla", "MC_Auth_dev.cfg", timeout=900)
    if "InvRejectNoChange" not in mdev["violated"]:
        raise vlib.Infra("MC_Auth_dev.cfg (model with the deviations of the current tree) no longer violates InvRejectNoChange: "
                         "the deviation set of Trace_Auth / known_findings.json is stale")
    # 2. generation: the whole matrix + seeded multi-step behaviours
    dg = os.path.join(d, "gen")
    os.makedirs(dg)
    vlib.stage_specs(dg, with_override=False)
    out, _ = vlib.tlc(dg, "MC_Auth_q.tla", "MC_Auth_gen.cfg", workers=1, timeout=900)
    cells = _behaviours_from(out)
    if len(cells) < 900:
        raise vlib.Infra("matrix generation produced too few cells:\n" + out[-2000:])
    nsim = 25 if tier == "quick" else 300
    sims = [json.loads(s) for s in vlib.tlc_simulate(dg, "MC_Auth_q.tla", "MC_Auth_sim.cfg", num=nsim, depth=4, seed=seed + 1000)]
    sims = [b for b in sims if len(b) > 1]
    behs = _order(cells) + _order(sims) + _scenarios()
    # 3 + 4
    lines, tags = _validate(d, harness, behs, "all")
    res["tags"] = tags
    counts = collections.Counter()
    distinct = set()
    for ln in lines:
        if ln["ev"] == "reset":
            continue
        eff = "effect" if ln["changed"] else "noeffect"
        counts[f"{ln['a']['e']}:{_cell_class(ln)}:{'ok' if ln['ok'] else 'rej'}:{eff}"] += 1
        distinct.add(json.dumps([ln["a"], ln["ok"], ln["changed"]], sort_keys=True))
    notes = collections.Counter()
    for t in tags:
        for x in t["tags"]:
            if x.startswith("NOTE_"):
                notes[x + ":" + t["cell"]["e"]] += 1
    res["behaviours"] = len(behs)
    res["events"] = len(lines)
    res["event_counts"] = dict(counts)
    res["notes"] = dict(notes)
    res["distinct_nontrivial"] = len(distinct)
    res["samples"] = [{"behaviour": behs[0], "first_trace_lines": [{k: v for k, v in ln.items() if k not in ("st", "dg")} for ln in lines[1:3]]},
                      {"behaviour": behs[-1]}]
    res["rule"] = (f"behaviours = the complete Entry x Caller matrix printed by TLC from MC_Auth_gen ({len(cells)} cells, one behaviour each) + "
                   f"{len(sims)} seeded multi-step behaviours of MC_Auth_sim + {len(_scenarios())} hand-written scenarios in which the rightful callers change; every one executed on the real app; "
                   f"MC_Auth_dev (deviations of the current tree) violates {mdev['violated']} as required "
                   f"({mdev['states']} states); notes (no violation): {dict(notes)}; "
                   "distinct_nontrivial = distinct (cell, result, changed stores) triples")
    return res


def finding_matches(f, t):
    """does tag occurrence t match the known finding f?  match = {"e": [...entries], optional "sig": [...],
    optional "kind": ...}: the offending cell must be one of the listed entry points (and signature classes)."""
    m = f.get("match", {})
    cell = t.get("cell") or (t.get("observed") or {}).get("a")
    if not cell:
        return False
    c = cell["c"]
    if cell["e"] not in m.get("e", []):
        return False
    if "sig" in m and c.get("sig") not in m["sig"]:
        return False
    if "kind" in m and c.get("kind") != m["kind"]:
        return False
    if m.get("sender_is_not_origin") and c.get("sender") == c.get("origin"):
        return False
    return True


def replay(path):
    j = json.load(open(path))
    harness = vlib.build_harness()
    d = vlib.scratch("auth-replay")
    try:
        lines, tags = _validate(d, harness, [j["behaviour"]], "replay")
        return {"family": "auth", "mc": [], "tags": tags, "behaviours": 1, "events": len(lines), "samples": [j["behaviour"]], "tag_universe": TAG_UNIVERSE}
    finally:
        shutil.rmtree(d, ignore_errors=True)
