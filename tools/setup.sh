#!/bin/bash
# Offline setup: compile the TLC numeric override and build the harness once (warms the Go cache).
set -euo pipefail
cd /verif
command -v tlc >/dev/null && command -v java >/dev/null && command -v go >/dev/null
javac -cp /opt/veriftools/tla/tla2tools.jar -d spec spec/Num.java
tools/build.sh
bin/harness ping >/dev/null
echo setup ok
