"""Liveness family pipeline: C11 (no input or reachable state halts block processing)."""
import collections
import json
import os
import shutil

import vlib

PROPERTIES = ["C11"]
TAG_UNIVERSE = {"C11": ["C11_Halt"]}


def run(tier, seed):
    harness = vlib.build_harness()
    d = vlib.scratch("liveness")
    try:
        return _run(tier, seed, harness, d)
    finally:
        shutil.rmtree(d, ignore_errors=True)


def _validate(harness, d, behs, seed):
    vlib.stage_specs(d, with_override=False)
    open(os.path.join(d, "beh.ndjson"), "w").write("\n".join(behs) + "\n")
    p = vlib.sh([harness, "liveness", "-in", os.path.join(d, "beh.ndjson"), "-out", os.path.join(d, "trace.ndjson"), "-seed", str(seed)], timeout=1500, check=False)
    if p.returncode != 0:
        raise vlib.Infra("harness liveness failed:\n" + p.stdout[-3000:])
    lines = [json.loads(x) for x in open(os.path.join(d, "trace.ndjson")) if x.strip()]
    tags, nstates = vlib.tlc_trace(d, "Trace_Liveness.tla", "Trace_Liveness.cfg", timeout=1500)
    if nstates != len(lines) + 1:
        raise vlib.Infra(f"trace not fully consumed: {nstates} states for {len(lines)} lines")
    return lines, tags


def _run(tier, seed, harness, d):
    res = {"family": "liveness", "mc": [], "tags": [], "samples": [], "tag_universe": TAG_UNIVERSE,
           "assumptions": ["hazard scripts are executed with real ABCI calls on a fresh full app per behaviour; user inputs inside a block are applied "
                           "through the keepers on the deliver-state context inside a cache context (what baseapp does for a transaction)",
                           "byte-level malformed transactions are not enumerated here: DeliverTx recovers panics; the hazard is stored state that "
                           "later breaks Begin/EndBlock"]}
    dm = os.path.join(d, "mc")
    os.makedirs(dm)
    vlib.stage_specs(dm, with_override=False)
    m = vlib.tlc_mc(dm, "Liveness.tla", "MC_Liveness_q.cfg", timeout=900)
    if m["violated"]:
        raise vlib.Infra("model counterexample in MC_Liveness_q")
    res["mc"].append(m)
    dg = os.path.join(d, "gen")
    os.makedirs(dg)
    vlib.stage_specs(dg, with_override=False)
    n = 30 if tier == "quick" else 400
    behs = vlib.tlc_simulate(dg, "Liveness.tla", "MC_Liveness_gen.cfg", num=n, depth=20, seed=seed + 7)[:n]
    # scenario seeds derived from model-level reasoning (hazard chains too long for random simulation)
    scen = os.path.join(vlib.SPEC, "scenarios_liveness.ndjson")
    if os.path.exists(scen):
        behs = [x.strip() for x in open(scen) if x.strip() and not x.startswith("#")] + behs
    dt = os.path.join(d, "trace")
    os.makedirs(dt)
    lines, tags = _validate(harness, dt, behs, seed)
    starts = [i for i, ln in enumerate(lines) if ln["ev"] == "reset"]
    counts = collections.Counter(ln["ev"] + (":panic" if ln.get("panic") else "") for ln in lines)
    for t in tags:
        li = t["l"] - 1
        b = max(i for i, s in enumerate(starts) if s <= li)
        t["behaviour"] = json.loads(behs[b])
        t["observed"] = {k: lines[li].get(k) for k in ("ev", "h", "why", "err", "panic")}
        t["history"] = [{k: v for k, v in x.items() if k in ("ev", "a", "ok", "h", "why", "panic")} for x in lines[starts[b] + 1:li + 1]][-12:]
        res["tags"].append(t)
    res["behaviours"] = len(behs)
    res["events"] = len(lines)
    res["event_counts"] = dict(counts)
    res["distinct_nontrivial"] = len({json.dumps(b) for b in behs})
    res["rule"] = "hazard scripts from TLC -simulate of Liveness.tla plus model-derived scenario chains; distinct scripts counted"
    res["samples"] = [{"behaviour": json.loads(behs[0]), "phases": [{k: v for k, v in ln.items()} for ln in lines[1:6]]}]
    return res


def _panic_site(t):
    return (t.get("observed") or {}).get("err", "")


MATCHERS = {
    "votepower_int64_overflow": lambda t: "Int64() out of bound" in _panic_site(t) and t["observed"]["ev"] == "EndBlock",
    "slash_zero_value_division": lambda t: "division by zero" in _panic_site(t) and t["observed"]["ev"] == "BeginBlock",
}


def finding_matches(f, t):
    m = MATCHERS.get(f.get("match", {}).get("matcher"))
    return bool(m and m(t))


def replay(path):
    j = json.load(open(path))
    harness = vlib.build_harness()
    d = vlib.scratch("liveness-replay")
    try:
        lines, tags = _validate(harness, d, [json.dumps(j["behaviour"])], 1)
        for t in tags:
            t["behaviour"] = j["behaviour"]
            t["observed"] = {k: lines[t["l"] - 1].get(k) for k in ("ev", "h", "why", "err", "panic")}
        return {"family": "liveness", "mc": [], "tags": tags, "behaviours": 1, "events": len(lines), "samples": [j["behaviour"]], "tag_universe": TAG_UNIVERSE}
    finally:
        shutil.rmtree(d, ignore_errors=True)
