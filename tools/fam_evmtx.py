"""EvmTx family pipeline: C19 (Ethereum transactions: exact fee, nonce and revert accounting)."""
import collections
import json
import os
import shutil

import vlib

PROPERTIES = ["C19", "C09"]   # C09: only through the alias below (a FAILED Ethereum tx changed module state)
TAG_ALIASES = {"C19_FailedChangedState": ["C09_FailedButChanged_EthTx"]}

# Deviations (spec/EvmTx.tla DEVS): name -> (action property TLC must refute with the deviation on, cfg).
# The ACTIVE ones are those named by a C19 entry of known_findings.json ("dev" field) that is not `fixed`:
# moving an entry from "findings" to "fixed" is the only switch needed when a defect is repaired - the
# generation model, the trace header (strict lane) and the vacuity runs all follow.
DEV_RUNS = {"DEV_SplitBalanceCheck": ("PropAdmission", "MC_EvmTx_dev1.cfg"),
            "DEV_RevertedFrameKeepsPrecompileWrites": ("PropFrame", "MC_EvmTx_dev2.cfg"),
            "DEV_BatchCreateResetsNonce": ("PropAccounting", "MC_EvmTx_dev3.cfg")}


def active_devs():
    return sorted({f["dev"] for f in vlib.known_findings().get("findings", []) if f.get("property") == "C19" and f.get("dev") in DEV_RUNS})


def _stage_gen(d, devs):
    """generation config with the active deviation set"""
    p = os.path.join(d, "MC_EvmTx_gen.cfg")
    c = open(p).read()
    import re
    c2 = re.sub(r"(?m)^  DEVS = .*$", "  DEVS = {" + ", ".join('"%s"' % x for x in devs) + "}", c)
    open(p, "w").write(c2)


WORLDS = {
    # EIP-1559 base fee on, no min gas price, default multiplier, finite block gas, contract gateway
    "basefee": dict(name="basefee", noBaseFee=False, baseFee="1000000000", minGasPrice="0", minGasMult="0.5",
                    maxGas=1000000, gateway="gw", bigGas=400000),
    # no base fee (base fee 0), fractional min gas price, multiplier with a fractional product, unlimited block gas,
    # an externally owned account as gateway
    "mingp": dict(name="mingp", noBaseFee=True, baseFee="0", minGasPrice="10.5", minGasMult="0.333333333333333333",
                  maxGas=0, gateway="a1", bigGas=300000),
    # base fee with a min gas price floor, multiplier 1 (no refund at all), block gas limit exceeded by the second big tx of a block
    "full": dict(name="full", noBaseFee=False, baseFee="100", minGasPrice="7.5", minGasMult="1",
                 maxGas=700000, gateway="gw", bigGas=400000),
    # nothing charged by default: base fee 0 and min gas price 0 (zero-fee transactions), multiplier 0
    "free": dict(name="free", noBaseFee=True, baseFee="0", minGasPrice="0", minGasMult="0",
                 maxGas=2000000, gateway="gw", bigGas=400000),
}

TAG_UNIVERSE = {
    "C19": ["C19_Nonce", "C19_GasBounds", "C19_SenderPays", "C19_CollectorReceives", "C19_RecipientGets", "C19_ZeroSum",
            "C19_FailedChangedState", "C19_RejectedChangedState", "C19_InadmissibleIncluded", "C19_RevertedFrameKeptState"],
    "C09": ["C09_FailedButChanged_EthTx"],
}


def run(tier, seed):
    harness = vlib.build_harness()
    d = vlib.scratch("evmtx")
    try:
        return _run(tier, seed, harness, d)
    finally:
        shutil.rmtree(d, ignore_errors=True)


def _classify(ln, prev=None):
    """coarse outcome class of a Tx line (for event_counts / vacuity)"""
    o, r, k = ln["o"], ln["r"], ln["a"]["k"]
    kind = "transfer" if k["to"].startswith("a") else k["to"]
    if o["code"] == 0:
        res = "ok" if not o["vmfail"] else {"execution reverted": "reverted", "out of gas": "outofgas",
                                             "insufficient balance for transfer": "nofunds"}.get(r["vmerr"], "vmerr")
        if kind == "pre" and res == "ok":
            res = "ok-ret" + r.get("retok", "na")
    elif prev is not None and prev["st"]["nonce"] != ln["st"]["nonce"]:
        res = "included-failed%d" % o["code"]     # ante passed, message failed: charged for the whole gas limit
    else:
        res = "rej%d" % o["code"]
    return f"Tx:{kind}:{k['ty']}:{res}"


def _run(tier, seed, harness, d):
    res = {"family": "evmtx", "mc": [], "tags": [], "samples": [], "tag_universe": TAG_UNIVERSE,
           "assumptions": ["abci-mode: signed Ethereum txs through app.DeliverTx of a full ExocoreApp, real block boundaries",
                           "EVM opcode semantics not modelled: gas consumed by the EVM and the vm-error flag are logged inputs",
                           "London rules always on; Cosmos txs with one or two MsgEthereumTx; mempool admission observed through the ante handler in CheckTx mode on the deliver state (real CheckTx state not exercised)",
                           "base fee of each block and fee collector balance at block boundaries are logged inputs"]}
    # 1. exhaustive model check (pure TLA+ numbers: no override in this directory)
    dm = os.path.join(d, "mc")
    os.makedirs(dm)
    vlib.stage_specs(dm, with_override=False)
    mcs = [("MC_EvmTx_q.tla", "MC_EvmTx_q.cfg")] if tier == "quick" else [("MC_EvmTx_q.tla", "MC_EvmTx_q.cfg"), ("MC_EvmTx_q.tla", "MC_EvmTx_t.cfg")]
    for module, cfg in mcs:
        if not os.path.exists(os.path.join(dm, cfg)):
            continue
        m = vlib.tlc_mc(dm, module, cfg, timeout=3000)
        if m["violated"]:
            raise vlib.Infra(f"model counterexample in {cfg}: {m['violated']} (lead, not a verdict)\n" + m["out"][-3000:])
        res["mc"].append(m)
    # vacuity guard for the known findings: with the deviation switched on TLC must refute the clause
    devs = active_devs()
    res["deviations"] = devs
    for dev in devs:
        prop, cfg = DEV_RUNS[dev]
        if not os.path.exists(os.path.join(dm, cfg)):
            raise vlib.Infra(f"missing {cfg}")
        m = vlib.tlc_mc(dm, "MC_EvmTx_q.tla", cfg, timeout=600)
        if prop not in m["violated"]:
            raise vlib.Infra(f"{cfg}: expected TLC to refute {prop} under {dev}, got {m['violated']}")
        res.setdefault("deviation_runs", []).append({"dev": dev, "cfg": cfg, "refuted": prop, "states": m["states"]})
    # 2..4 per world: generate, replay on the real code, validate
    nbeh = 40 if tier == "quick" else 400
    counts = collections.Counter()
    distinct = set()
    total_beh = total_ev = 0
    for wi, (wname, w) in enumerate(WORLDS.items()):
        dg = os.path.join(d, "gen-" + wname)
        os.makedirs(dg)
        vlib.stage_specs(dg, with_override=False)
        _stage_gen(dg, devs)
        behs = vlib.tlc_simulate(dg, "MC_EvmTx_q.tla", "MC_EvmTx_gen.cfg", num=nbeh, depth=16, seed=seed * 100 + wi + 1000)
        chunk = 100
        for ci in range(0, len(behs), chunk):
            dt = os.path.join(d, f"trace-{wname}-{ci}")
            os.makedirs(dt)
            vlib.stage_specs(dt, with_override=True)
            cpath = os.path.join(dt, "beh.ndjson")
            open(cpath, "w").write("\n".join(behs[ci:ci + chunk]) + "\n")
            p = vlib.sh([harness, "evmtx", "-in", cpath, "-out", os.path.join(dt, "trace.ndjson"), "-seed", str(seed * 1000 + ci), "-cfg", json.dumps(dict(w, devs=devs))], timeout=900, check=False)
            if p.returncode != 0:
                raise vlib.Infra("harness evmtx failed:\n" + p.stdout[-3000:])
            lines = [json.loads(x) for x in open(os.path.join(dt, "trace.ndjson")) if x.strip()]
            tags, nstates = vlib.tlc_trace(dt, "Trace_EvmTx.tla", "Trace_EvmTx.cfg", timeout=3000)
            if nstates != len(lines) + 1:
                raise vlib.Infra(f"trace not fully consumed: {nstates} states for {len(lines)} lines")
            bidx, starts = [], []
            cur = -1
            for i, ln in enumerate(lines):
                if ln["ev"] == "reset":
                    cur += 1
                    starts.append(i)
                bidx.append(cur)
            for li0, ln in enumerate(lines):
                if ln["ev"] == "Tx":
                    counts[_classify(ln, lines[li0 - 1])] += 1
                    tt = ln["a"]["t"]
                    if tt["to"] == "c" and ln["o"]["code"] == 0 and not ln["o"]["vmfail"]:
                        # storage histories and whether the minimum-gas floor bound (refund counter > 0 only for "clear")
                        w0, w1 = int(lines[li0 - 1]["st"]["stor"]["c"]), int(tt["word"])
                        trn = "noop" if w0 == w1 else "set" if w0 == 0 else "clear" if w1 == 0 else "overwrite"
                        flo = int(lines[0]["cfg"]["mult"]) * int(tt["gas"]) // 10**18
                        counts["Store:%s:%s:%s" % (trn, tt["ty"], "floor-binds" if ln["o"]["gu"] == flo else "above-floor")] += 1
                    distinct.add(json.dumps([ln["a"]["k"], ln["o"]], sort_keys=True))
                elif ln["ev"] == "Batch":
                    o = ln["o"]
                    if o["code"] == 0:
                        cls = "ok:" + "".join("F" if f else "S" for f in o["vmfails"])     # per message: S success, F vm error
                    elif lines[li0 - 1]["st"]["nonce"] != ln["st"]["nonce"]:
                        cls = "included-failed%d" % o["code"]
                    else:
                        cls = "rej%d" % o["code"]
                    counts["Batch:" + cls] += 1
                    distinct.add(json.dumps([ln["a"]["ks"], o["code"], o["vmfails"]], sort_keys=True))
                elif ln["ev"] == "NewBlock":
                    counts["NewBlock"] += 1
            for t in tags:
                li = t["l"] - 1
                b = bidx[li]
                ln = lines[li]
                t["world"] = wname
                t["behaviour"] = json.loads(behs[ci + b])
                t["step"] = li - starts[b]
                t["hseed"] = seed * 1000 + ci
                t["observed"] = {"ev": ln["ev"], "k": ln["a"].get("k") or ln["a"].get("ks"), "t": ln["a"].get("t"), "ts": ln["a"].get("ts"), "o": ln.get("o"), "r": ln.get("r"),
                                 "pre": {k: v for k, v in lines[li - 1]["st"].items()}, "post": ln["st"]}
                res["tags"].append(t)
            total_beh += cur + 1
            total_ev += len(lines)
            if len(res["samples"]) < 2:
                res["samples"].append({"world": wname, "behaviour": json.loads(behs[ci]),
                                       "first_trace_lines": [{k: v for k, v in ln.items() if k not in ("st", "dg")} for ln in lines[1:4]]})
    res["behaviours"] = total_beh
    res["events"] = total_ev
    res["event_counts"] = dict(sorted(counts.items()))
    res["distinct_nontrivial"] = len(distinct)
    res["rule"] = ("behaviours = TLC -simulate runs of MC_EvmTx (every field of a tx chosen as a CLASS relative to the state; at most one "
                   "exceptional class per tx, half of the txs none), concretised per world (feemarket params, gateway, block gas) against "
                   "the real state into signed legacy/access-list/dynamic-fee txs and delivered through app.DeliverTx; "
                   "distinct_nontrivial = distinct (classes, result) pairs")
    return res


def finding_matches(f, t):
    """does tag occurrence t match the known finding f?  (t["tags"] holds the single tag under test)"""
    ob = t.get("observed") or {}
    tx, o, pre = ob.get("t"), ob.get("o"), ob.get("pre")
    m = f.get("match", {})
    if m.get("kind") == "batch-create-nonce":
        # a multi-message Cosmos tx, executed (code 0); the observed sequences are exactly what "every successful
        # creation sets the sender's nonce to its own nonce + 1" yields, and that differs from one increment per message
        ts, post = ob.get("ts"), ob.get("post")
        if ob.get("ev") != "Batch" or not ts or not o or o.get("code") != 0 or not pre or not post:
            return False
        good = dict(pre["nonce"])
        for x in ts:
            good[x["s"]] += 1          # the ante handler advances the sequence once per message, up front
        bad = dict(good)
        for i, x in enumerate(ts):     # then every successful creation overwrites it with its own nonce + 1
            if x["to"] in ("new", "newp") and not o["vmfails"][i]:
                bad[x["s"]] = int(x["nonce"]) + 1
        return post["nonce"] == bad and bad != good
    if not tx or not o or not pre:
        return False
    if m.get("kind") == "split-balance":
        # the ONLY admission check the tx fails is the balance one, in its split form: value <= balance,
        # fee <= balance, value + fee > balance (nonce, base fee, min gas price, block gas limit all fine);
        # it was included as a FAILED tx: either the EVM stopped it ("insufficient balance for transfer")
        # or, on top, the block gas meter overflowed (code 11) - no value moved in both cases
        from fractions import Fraction
        w = WORLDS.get(t.get("world"), {})
        bal = int(pre["bal"][tx["s"]])
        bf = int(pre["bf"])
        eff = min(int(tx["tip"]) + bf, int(tx["price"])) if tx["ty"] == "dyn" else int(tx["price"])
        fee = eff * int(tx["gas"])
        val = int(tx["value"])
        others_ok = (int(tx["nonce"]) == pre["nonce"][tx["s"]] and int(tx["price"]) >= bf
                     and Fraction(eff) >= Fraction(w.get("minGasPrice", "0"))
                     and (not w.get("maxGas") or int(tx["gas"]) <= w["maxGas"]))
        vmerr = (ob.get("r") or {}).get("vmerr")
        failed_inside = o["code"] == 0 and o["vmfail"] and vmerr == "insufficient balance for transfer"
        failed_blockgas = o["code"] == 11 and "block gas meter" in ((ob.get("r") or {}).get("log") or "")
        return others_ok and val <= bal and fee <= bal and val + fee > bal and (failed_inside or failed_blockgas)
    if m.get("kind") == "reverted-frame-deposit":
        # wrapper fixture: inner gateway frame reverted (slot 0 of w = 1) after a successful precompile call
        # (slot 1 = 2), tx succeeded, and the restaking state moved exactly as the reverted operation would have
        post = ob.get("post") or {}
        if not (tx["to"] == "w" and tx["mode"] == "irev" and o["code"] == 0 and not o["vmfail"]
                and post.get("stor", {}).get("w") == "1" and post.get("stor", {}).get("w1") == "2"):
            return False
        s_, amt = tx["s"], int(tx["amt"])
        d = lambda k: int(post[k]) - int(pre[k]) if k == "dep" else int(post[k][s_]) - int(pre[k][s_])
        others = all(post[k][a] == pre[k][a] for k in ("wd", "dl") for a in pre[k] if a != s_)
        exp = {"dep": (amt, amt, 0), "dlg": (0, -amt, amt), "und": (0, 0, -amt)}[tx.get("op", "dep")]
        return others and (d("dep"), d("wd"), d("dl")) == exp
    return False


def replay(path):
    j = json.load(open(path))
    harness = vlib.build_harness()
    d = vlib.scratch("evmtx-replay")
    try:
        w = WORLDS[j["world"]]
        vlib.stage_specs(d, with_override=True)
        open(os.path.join(d, "beh.ndjson"), "w").write(json.dumps(j["behaviour"]) + "\n")
        vlib.sh([harness, "evmtx", "-in", os.path.join(d, "beh.ndjson"), "-out", os.path.join(d, "trace.ndjson"), "-seed", "1", "-cfg", json.dumps(dict(w, devs=active_devs()))], timeout=600)
        lines = [json.loads(x) for x in open(os.path.join(d, "trace.ndjson")) if x.strip()]
        tags, _ = vlib.tlc_trace(d, "Trace_EvmTx.tla", "Trace_EvmTx.cfg")
        for t in tags:
            li = t["l"] - 1
            ln = lines[li]
            t["world"] = j["world"]
            t["behaviour"] = j["behaviour"]
            t["observed"] = {"ev": ln["ev"], "k": ln["a"].get("k"), "t": ln["a"].get("t"), "o": ln.get("o"), "r": ln.get("r"),
                             "pre": lines[li - 1]["st"], "post": ln["st"]}
        return {"family": "evmtx", "mc": [], "tags": tags, "behaviours": 1, "events": len(lines), "samples": [j["behaviour"]], "tag_universe": TAG_UNIVERSE}
    finally:
        shutil.rmtree(d, ignore_errors=True)
