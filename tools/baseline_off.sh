#!/bin/bash
# baseline_off.sh: run exocore's own test suite with the verif tag OFF on /repo's working tree and compare with
# the pinned list of stable-pass tests (/root/.vp/BASELINE.json). Prints the stable-pass tests that did not pass.
export GOFLAGS=-mod=mod GOPROXY=off GOSUMDB=off GOTOOLCHAIN=local
OUT=${1:-/verif/.scratch/baseline-off.json}
(cd /repo && nice go test -mod=mod -json -vet=off -count=1 -timeout 25m ./... > $OUT 2> ${OUT%.json}.err)
python3 - "$OUT" <<'PY'
import json,sys
passed=set(); failed=set()
for l in open(sys.argv[1]):
    try: j=json.loads(l)
    except: continue
    if j.get('Test') and j.get('Action') in ('pass','fail'):
        (passed if j['Action']=='pass' else failed).add(j['Package']+'::'+j['Test'])
b=json.load(open('/root/.vp/BASELINE.json'))
sp=set(b['stable_pass'])
missing=sorted(sp-passed)
print(f"stable_pass={len(sp)} passed_now={len(sp&passed)} not_passed={len(missing)} failed_total={len(failed)}")
for m in missing[:40]: print("  NOT PASSED:", m)
for m in sorted(failed)[:20]: print("  failed:", m)
PY
