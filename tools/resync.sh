#!/bin/bash
# resync.sh <fam> <pattern-for-spec> <props csv>: refresh a family's own files from the agent's copy and
# replace its known-findings entries
F=$1; PAT=$2; PROPS=$3; SRC=/tmp/fam/$F/verif
for f in $(cd $SRC && ls spec | grep -E "$PAT"); do cmp -s $SRC/spec/$f /verif/spec/$f || { cp $SRC/spec/$f /verif/spec/$f; echo "updated spec/$f"; }; done
for f in $(cd $SRC && ls harness/*.go | grep -iE "$F|${4:-XXXX}"); do cmp -s $SRC/$f /verif/$f || { cp $SRC/$f /verif/$f; echo "updated $f"; }; done
if [ -d $SRC/harness/overlay ]; then (cd $SRC && find harness/overlay -type f) | while read f; do cmp -s $SRC/$f /verif/$f || { mkdir -p /verif/$(dirname $f); cp $SRC/$f /verif/$f; echo "updated $f"; }; done; fi
for f in tools/fam_$F.py NOTES-$F.md; do [ -e $SRC/$f ] && { cmp -s $SRC/$f /verif/$f || { cp $SRC/$f /verif/$f; echo "updated $f"; }; }; done
[ -d $SRC/seeded ] && (cd $SRC && find seeded -type f) | while read f; do cmp -s $SRC/$f /verif/$f || { mkdir -p /verif/$(dirname $f); cp $SRC/$f /verif/$f; echo "updated $f"; }; done
python3 - "$SRC/known_findings.json" "$PROPS" <<'PY'
import json,sys,os
src,props=sys.argv[1],set(sys.argv[2].split(','))
if os.path.exists(src):
    k=json.load(open(src)); j=json.load(open('/verif/known_findings.json'))
    mine=[f for f in k.get('findings',[]) if f['property'] in props]
    keep=[f for f in j['findings'] if f['property'] not in props or f.get('owner')=='main']
    # keep main-owned entries for those properties that the agent does not have
    have={(f['id'],f['property'],f['tag']) for f in mine}
    for f in j['findings']:
        if f['property'] in props and (f['id'],f['property'],f['tag']) not in have and f.get('match',{}).get('matcher','') in KEEP if False else False: pass
    j['findings']=keep+mine
    hv={x.get('entry') for x in j['fixed']}
    for f in k.get('fixed',[]):
        if f.get('entry') not in hv: j['fixed'].append(f)
    json.dump(j,open('/verif/known_findings.json','w'),indent=1)
    print('kf: family entries', len(mine), 'total', len(j['findings']), 'fixed', len(j['fixed']))
PY
