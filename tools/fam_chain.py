"""Chain family pipeline: C08 (state-machine determinism) and C18 (genesis export / re-import).

TLC enumerates / simulates block-script SHAPES on spec/Chain.tla (MC_Chain), the shapes are
concretised (seed-driven) into block scripts, every script is executed by several independent OS
processes of `harness chain-node` (K full runs, one run that is stopped and restarted on the same
DB, one run that exports its genesis at chosen heights, one fresh process per exported document),
all observation streams are merged into one trace and TLC validates it against
spec/Trace_Chain.tla (property lane C08_* / C18_*, strict lane STRICT_*).
"""
import collections
import concurrent.futures
import json
import os
import random
import shutil

import vlib

PROPERTIES = ["C08", "C18"]

LISTED = ["assets", "delegation", "operator", "dogfood", "epochs", "oracle", "exomint", "feedistribution"]
TAG_UNIVERSE = {
    "C08": ["C08_AppHash", "C08_TxResult", "C08_ValUpdates", "C08_ConsParams", "C08_StoreDigest", "C08_Halt"],
    "C18": ["C18_ExportFails", "C18_ImportFails", "C18_SameFuture"] + ["C18_Invalid_" + m for m in LISTED] +
           ["C18_RoundTrip_" + m for m in LISTED] + ["C18_Stable_" + m for m in LISTED],
}

# the world every script runs in (constants of spec/Chain.tla are derived from it)
OPS = ["o1", "o2", "o3", "o4"]
KEYSEQ = {o: ["k%s%s" % (o[1:], sfx) for sfx in ("", "b", "c", "d")] for o in OPS}
GENVALS = ["o1", "o2", "o3"]
DEV = ["L13hold", "L13rev", "VALKEYS"]   # deviations of the CURRENT tree (strict-lane reference = code's behaviour)
H0, EP0, SEQ0, LZN0, UNBH = 2, 1, 3, 100, 10
ASSETS = ["lst", "lst2"]          # LST assets used by the noise generator
ALL_ASSETS = ["lst", "lst2", "nst"]  # the world also has the native-restaking asset (NST, 18 decimals)
WORKERS = int(os.environ.get("VERIF_CHAIN_PROCS", "6"))


def base_cfg(unb):
    # stakers: s1..s3 client-chain stakers / native delegators, s4 s5 EOAs that play AVS contracts, s6 gateway (last)
    return {"nOperators": 4, "nStakers": 6, "validators": [1, 2, 3], "assets": ALL_ASSETS, "decimals": [6, 8, 18], "prices": ["1", "2", "1"],
            "epochsUnbond": unb, "maxVals": 10, "oracleStart": 3, "oracleInterval": 6, "slashWindow": 4, "epochSeconds": 60}


def header(sid, unb, strict):
    return {"ev": "reset", "script": sid, "strict": strict,
            "cfg": {"ops": OPS, "keyseq": KEYSEQ, "genvals": GENVALS, "unb": unb, "unbh": UNBH, "dev": DEV},
            "init": {"h0": H0, "ep0": EP0, "seq0": SEQ0, "lzn0": LZN0}}


# ----------------------------------------------------------------------------------------------
# concretisation

def prologue():
    """blocks 1..H0: fund every position the structural transactions need"""
    b1 = []
    for s in ("s1", "s2", "s3"):
        b1.append({"k": "dep", "s": s, "a": "lst", "x": "9000000000"})
        b1.append({"k": "dep", "s": s, "a": "lst2", "x": "900000000000"})
    E18 = 10 ** 18
    for i, s in enumerate(("s1", "s2")):      # two NST stakers -> oracle staker list with 2 entries
        b1.append({"k": "depnst", "s": s, "key": f"v{i}a", "x": str(32 * E18)})
    b1.append({"k": "depnst", "s": "s1", "key": "v0b", "x": str(32 * E18)})
    b2, n = [], 0
    for i, s in enumerate(("s1", "s2")):
        for j, o in enumerate(("o1", "o2")):
            b2.append({"k": "del", "s": s, "a": "nst", "o": o, "x": str((3 + i + 2 * j) * E18), "n": 50 + 2 * i + j})
    for s in ("s1", "s2", "s3"):
        for o in OPS:
            n += 1
            b2.append({"k": "del", "s": s, "a": "lst", "o": o, "x": str(400000000 + 1000003 * n), "n": n})
            n += 1
            b2.append({"k": "del", "s": s, "a": "lst2", "o": o, "x": str(30000000000 + 100000007 * n), "n": n})
    for o in ("o1", "o3", "o4"):   # SEQ0 = 3 cosmos txs of s1
        b2.append({"k": "ndel", "s": "s1", "o": o, "x": "2000000000000000000"})
    return [{"dt": 1, "txs": b1}, {"dt": 1, "txs": b2}]


class Noise:
    """seed-driven transactions that do not touch the state modelled by spec/Chain.tla"""

    def __init__(self, rng, cfg):
        self.rng, self.cfg = rng, cfg
        self.lz = 1000
        self.round_plan = {}     # based block -> plan per feeder

    def some(self, h, vals_before):
        r, out = self.rng, []
        for _ in range(r.choice([0, 1, 1, 2, 3])):
            k = r.choice(["dep", "del", "wd", "send", "ndel", "assoc", "dissoc", "del", "dep", "wdfail", "delfail", "depnst", "wdnst", "delnst"])
            a = r.choice(ASSETS)
            o = r.choice(OPS)
            self.lz += 1
            if k == "dep":
                out.append({"k": "dep", "s": "s3", "a": a, "x": str(r.choice([1, 1000003, 250000000]))})
            elif k == "del":
                out.append({"k": "del", "s": "s3", "a": a, "o": o, "x": str(r.choice([1, 999, 1000003])), "n": self.lz})
            elif k == "wd":
                out.append({"k": "wd", "s": "s3", "a": a, "x": str(r.choice([1, 77, 1000]))})
            elif k == "wdfail":
                out.append({"k": "wd", "s": "s3", "a": a, "x": "99999999999999999999"})
            elif k == "delfail":
                out.append({"k": "del", "s": "s3", "a": a, "o": o, "x": "99999999999999999999", "n": self.lz})
            elif k == "send":
                out.append({"k": "send", "s": "s2", "o": r.choice(["s3", "o1", "o4"]), "x": str(r.choice([1, 12345, 10 ** 15]))})
            elif k == "ndel":
                out.append({"k": "ndel", "s": "s2", "o": o, "x": str(r.choice([10 ** 15, 3 * 10 ** 17]))})
            elif k == "depnst":
                self.nv = getattr(self, "nv", 0) + 1
                out.append({"k": "depnst", "s": r.choice(["s2", "s3"]), "key": f"n{self.nv}", "x": str(32 * 10 ** 18)})
            elif k == "wdnst":
                out.append({"k": "wdnst", "s": "s2", "key": "v1a", "x": str(r.choice([1, 2]) * 10 ** 18)})
            elif k == "delnst":
                out.append({"k": "del", "s": "s2", "a": "nst", "o": o, "x": str(r.choice([1, 10 ** 18])), "n": self.lz})
            elif k == "assoc":
                out.append({"k": "assoc", "s": "s3", "o": o})
            elif k == "dissoc":
                out.append({"k": "dissoc", "s": "s3"})
        out += self.oracle(h, vals_before)
        return out

    def oracle(self, h, vals):
        """price messages for the open rounds of both feeders: based block b = start + k*interval,
        messages are accepted in blocks b+1..b+3"""
        st, iv = self.cfg["oracleStart"], self.cfg["oracleInterval"]
        if h - 1 < st:
            return []
        based = (h - 1) - ((h - 1 - st) % iv)
        off = h - based          # 1..iv
        if off > 3 or not vals:
            return []
        r = self.rng
        if based not in self.round_plan:
            plan = {}
            for f in (1, 2, 3):
                plan[f] = {"mode": r.choice(["ok", "ok", "ok-spread", "fail-one", "fail-split", "none", "ok-second"]),
                           "price": str(r.choice([2, 3, 17, 100])), "det": str(r.randint(5, 90)), "sent": {}}
            self.round_plan[based] = plan
        out = []
        for f, p in sorted(self.round_plan[based].items()):
            vs = sorted(vals)
            mode = p["mode"]

            def msg(v, price, det):
                n = p["sent"].get(v, 0) + 1
                p["sent"][v] = n
                return {"k": "price", "key": v, "f": f, "p": price, "d": det, "n": n}
            if mode == "ok" and off == 1:
                out += [msg(v, p["price"], p["det"]) for v in vs]
            elif mode == "ok-spread":
                if off == 1:
                    out += [msg(v, p["price"], p["det"]) for v in vs[:1]]
                elif off == 2:
                    out += [msg(v, p["price"], p["det"]) for v in vs[1:]]
            elif mode == "ok-second":      # first message of every validator carries another det id, second completes
                if off == 1:
                    out += [msg(v, "1", str(int(p["det"]) - 1)) for v in vs]
                elif off == 2:
                    out += [msg(v, p["price"], p["det"]) for v in vs]
            elif mode == "fail-one" and off == 2:
                out += [msg(vs[0], p["price"], p["det"])]
            elif mode == "fail-split" and off == 1:
                out += [msg(v, str(int(p["price"]) + i), p["det"]) for i, v in enumerate(vs)]
        return out


def concretise(beh, sid, seed, unb):
    rng = random.Random(seed)
    cfg = base_cfg(unb)
    blocks = prologue()
    noise = Noise(rng, cfg)
    nkey = {o: (2 if o in GENVALS else 1) for o in OPS}
    lzn = LZN0
    vals_before = ["k1", "k2", "k3"]
    for i, mb in enumerate(beh["blocks"]):
        h = H0 + i + 1
        txs = []
        for ev in mb["evs"]:
            o = ev["o"]
            if ev["k"] == "undel":
                if ev["path"] == "pre":
                    lzn += 1
                    txs.append({"k": "undel", "s": "s2", "a": "lst", "o": o, "x": str(1000000 + 7 * lzn), "n": lzn})
                else:
                    txs.append({"k": "nundel", "s": "s1", "o": o, "x": str(10 ** 15 + 31 * h)})
            elif ev["k"] in ("optin", "setkey"):
                idx = nkey[o]
                nkey[o] += 1
                key = KEYSEQ[o][idx - 1] if idx <= len(KEYSEQ[o]) else ""
                txs.append({"k": ev["k"], "o": o, "key": key})
            elif ev["k"] == "optout":
                txs.append({"k": "optout", "o": o})
        txs += noise.some(h, vals_before)
        blocks.append({"dt": 60 if mb["ee"] else 1, "txs": txs, "m": {"ee": mb["ee"], "evs": mb["evs"]}})
        vals_before = beh["vals"][i]
    return {"id": sid, "cfg": cfg, "blocks": blocks}


def extra_scripts(seed, unb):
    """hand-shaped scripts for what the model does not describe (strict lane off): downtime jailing, duplicate-vote
    evidence, slashing of operators with pending undelegations, unjail"""
    rng = random.Random(seed * 7 + 1)
    out = []
    for variant in ("downtime", "evidence", "avs"):
        cfg = base_cfg(unb)
        blocks = prologue()
        noise = Noise(rng, cfg)
        vals = ["k1", "k2", "k3"]
        n = 18
        for i in range(n):
            h = H0 + i + 1
            txs, b = [], {}
            if i == 0 and variant != "avs":
                txs += [{"k": "nundel", "s": "s1", "o": "o3", "x": "1000000000000000"},
                        {"k": "undel", "s": "s2", "a": "lst", "o": "o3", "x": "1234567", "n": 101},
                        {"k": "optin", "o": "o4", "key": "k4"}]
            if variant == "downtime" and 4 <= i <= 9:
                b["miss"] = ["k3"]
            if variant == "downtime" and i == 14:
                txs.append({"k": "unjail", "o": "o3"})
            if variant == "evidence" and i == 5:
                b["evidence"] = [{"key": "k2", "h": h - 2}]
            if variant == "evidence" and i == 8:
                b["evidence"] = [{"key": "k3", "h": h - 1}]
            ee = i % 4 == 1
            if variant == "avs":
                # two AVSs played by the EOAs s4 / s5, operators o1 o2 opted into both, three tasks, two-phase results;
                # tasks start in the epoch after their creation (4), phase one until epoch 5, phase two in epoch 6 (i = 9..11);
                # the statistics hook at the end of epoch 6 (i = 12) groups the results by (task id, contract)
                ee = i in (1, 2, 5, 6, 8, 12, 16)
                ops2, tasks = ("o1", "o2"), (("s4", 1), ("s4", 2), ("s5", 1))
                if i == 0:
                    txs = [{"k": "avsreg", "s": "s4", "a": "lst,lst2"}, {"k": "avsreg", "s": "s5", "a": "lst2,nst"}]
                    txs += [{"k": "avsopt", "s": c, "o": o} for c in ("s4", "s5") for o in ops2]
                    txs += [{"k": "avsbls", "s": "s4", "o": o} for o in ops2]
                    txs += [{"k": "avsopt", "s": "s4", "o": "o1"}, {"k": "avstask", "s": "s4", "n": 9}]   # both fail
                elif i == 3:
                    txs = [{"k": "avstask", "s": c, "n": t} for c, t in tasks]
                elif i == 4:
                    txs = [{"k": "avsres", "o": o, "s": c, "n": t, "d": "1"} for c, t in tasks for o in ops2]
                    txs.append({"k": "avsres", "o": "o3", "s": "s4", "n": 1, "d": "1"})   # no BLS key: fails
                elif i == 9:
                    txs = [{"k": "avsres", "o": o, "s": c, "n": t, "d": "2"} for c, t in tasks for o in ops2 if not (o == "o2" and c == "s5")]
                    txs.append({"k": "avsres", "o": "o1", "s": "s4", "n": 1, "d": "1"})   # duplicate phase one: fails
            txs += noise.some(h, vals)
            b.update({"dt": 60 if ee else 1, "txs": txs})
            blocks.append(b)
        sc = {"id": f"x-{variant}-{seed}", "cfg": cfg, "blocks": blocks}
        if variant == "downtime":    # k3 misses blocks 7..12 (window 4): jailed in block 9, removed by the epoch end of block 12
            sc["plan"] = {"exports": [rng.choice([10, 11])], "exports_t": [8, 9, 10, 11, 13]}
        if variant == "evidence":    # duplicate-vote evidence against k3 in block 11, epoch end in block 12
            sc["plan"] = {"exports": [11], "exports_t": [7, 9, 11, 13]}
        out.append(sc)
    return out


NFEETIE = int(os.environ.get("VERIF_CHAIN_FEETIE_RUNS", "6"))    # independent executions of the fee-distribution tie scripts
NAVS = int(os.environ.get("VERIF_CHAIN_AVS_RUNS", "5"))          # independent executions of the AVS task script
NORACLE = int(os.environ.get("VERIF_CHAIN_ORACLE_RUNS", "12"))   # independent executions of the cheap oracle-only scripts


def oracle_scripts(seed, tier):
    """oracle-only stress scripts (strict off, no prologue): 8 token feeders in 4 pairs with staggered windows (pair p is based on
    start+p, interval 6, window 3 blocks), validators submit messages that mostly never reach a price, so that every EndBlock
    seals >= 2 rounds out of window (collected by ranging over the agc.rounds Go MAP) while >= 2 other feeders still hold nonce
    entries.  A dependence on that iteration order shows with probability ~1/8 per sealing event and execution, therefore these
    short scripts are executed by NORACLE independent processes."""
    out = []
    for v in range(2 if tier == "quick" else 6):
        rng = random.Random(seed * 101 + v)
        cfg = base_cfg(1)
        cfg.update({"oracleStart": 2 + v, "oracleInterval": 6, "extraFeeders": 5, "oracleStagger": 1})
        nfeed, iv, vals = 8, 6, ["k1", "k2", "k3"]
        plans, blocks = {}, []
        for h in range(1, 19):
            txs = []
            for f in range(1, nfeed + 1):
                st = cfg["oracleStart"] + ((f - 1) // 2) * cfg["oracleStagger"]
                if h - 1 < st:
                    continue
                based = (h - 1) - ((h - 1 - st) % iv)
                off = h - based
                if off > 3:
                    continue
                pl = plans.setdefault((f, based), {"mode": rng.choice(["split", "split", "split2", "one", "none", "ok", "late"]),
                                                   "det": str(rng.randint(5, 90)), "sent": {}})

                def msg(val, price, det, pl=pl, f=f):
                    n = pl["sent"].get(val, 0) + 1
                    pl["sent"][val] = n
                    return {"k": "price", "key": val, "f": f, "p": str(price), "d": det, "n": n}
                m = pl["mode"]
                if m == "split" and off == 1:
                    txs += [msg(x, 10 + i, pl["det"]) for i, x in enumerate(vals)]
                elif m == "split2":
                    if off == 1:
                        txs += [msg(x, 10 + i, pl["det"]) for i, x in enumerate(vals)]
                    elif off == 2:
                        txs += [msg(x, 20 + i, str(int(pl["det"]) + 1)) for i, x in enumerate(vals[:2])]
                elif m == "one" and off == 2:
                    txs.append(msg(vals[f % 3], 7, pl["det"]))
                elif m == "late" and off == 3:
                    txs += [msg(x, 30 + i, pl["det"]) for i, x in enumerate(vals)]
                elif m == "ok" and off == 2:
                    txs += [msg(x, 5, pl["det"]) for x in vals]
            if rng.random() < 0.3:
                txs.append({"k": "send", "s": "s2", "o": "s3", "x": str(rng.randint(1, 10 ** 6))})
            blocks.append({"dt": 1, "txs": txs})
        out.append({"id": f"o-{seed}-{v}", "cfg": cfg, "blocks": blocks})
    return out


def lifecycle_scripts(seed, tier):
    """operator lifecycle states AT THE MOMENT OF EXPORT (strict off, no noise on the validators): opted-in not yet active, active,
    key replaced (old key unbonding), jailed but still seated, opting out (unbonding), jailed and removed, unjailed not yet
    re-seated.  Epoch ends in blocks 4, 9, 13, 16, 19.
      3  optin o4 (k4), setkey o2 -> k2b                     export 3: opted-in-not-active, key-replaced
      4  epoch end: k4 and k2b seated, k2 unbonding
      5..7 k3 does not sign -> jailed in block 7 (downtime, x/slashing), stays seated until block 9
      8  optout o2                                            export 7/8: JAILED BUT SEATED (8: + opting out)
      9  epoch end: k3 and k2b leave the set                  export 10: jailed and removed, opt-out unbonding
      11 unjail o3                                            export 12: unjailed not yet re-seated
      13 epoch end: k3 seated again; 14 setkey o4 -> k4b      export 15: key replaced again
    the imported chains run through the following epoch ends with the original's inputs: validator set and validator updates
    must agree (C18 SameFuture)."""
    out = []
    for v in range(1 if tier == "quick" else 2):
        rng = random.Random(seed * 307 + v)
        cfg = base_cfg(1)
        blocks = prologue()
        ee = {4, 9, 13, 16, 19}
        for h in range(3, 21):
            txs, b = [], {}
            if h == 3:
                txs += [{"k": "optin", "o": "o4", "key": "k4"}, {"k": "setkey", "o": "o2", "key": "k2b"},
                        {"k": "nundel", "s": "s1", "o": "o3", "x": "1000000000000000"},
                        {"k": "undel", "s": "s2", "a": "lst", "o": "o3", "x": "1234567", "n": 101}]
            if h in (5, 6, 7):
                b["miss"] = ["k3"]
            if h == 8:
                txs.append({"k": "optout", "o": "o2"})
            if h == 11:
                txs.append({"k": "unjail", "o": "o3"})
            if h == 14:
                txs.append({"k": "setkey", "o": "o4", "key": "k4b"})
            if rng.random() < 0.5:
                txs.append({"k": "send", "s": "s2", "o": "s3", "x": str(rng.randint(1, 10 ** 6))})
            if rng.random() < 0.4:
                txs.append({"k": "dep", "s": "s3", "a": rng.choice(ASSETS), "x": str(rng.choice([1, 1000003]))})
            b.update({"dt": 60 if h in ee else 1, "txs": txs})
            blocks.append(b)
        out.append({"id": f"x-life-{seed}-{v}", "cfg": cfg, "blocks": blocks,
                    "plan": {"exports": [rng.choice([7, 8]), 10, 12], "exports_t": [3, 5, 7, 8, 10, 12, 15]}})
    return out


def feetie_scripts(seed, tier):
    """fee distribution with TIES (strict off): the dogfood AVS accepts three assets (lst, lst2, nst); every validator's operator
    gets stakers with exactly EQUAL USD value that hold DIFFERENT assets - a two-way tie at the top (s1: lst, s2: lst2; above the
    operator's self stake) and a three-way tie below it (s3: nst, s4: lst, s5: lst2).  AllocateTokensToStakers ranges over the Go
    map of the AVS assets to build its staker list and sorts by power only, so the position of tied stakers depends on the map
    order; anything position-dependent (dust to the first entry, first-wins, order of writes) differs between executions.  Prices
    stay fixed (no oracle messages), fees come from the per-epoch mint (odd amount -> truncation remainders) and from bank sends;
    almost every block ends an epoch: >= 13 distributions x 3 validators per execution."""
    out = []
    for v in range(1 if tier == "quick" else 3):
        rng = random.Random(seed * 211 + v)
        cfg = base_cfg(1)
        m = rng.choice([1, 3, 7])                     # common scale: keeps every tie exact
        E6, E8, E18 = 10 ** 6, 10 ** 8, 10 ** 18
        top = rng.choice([150, 200, 350])             # USD value of the top tie (> self stake 100)
        low = 64                                      # USD value of the lower tie (NST: 2 beacon validators of 32)
        ops3 = ["o1", "o2", "o3"]
        b1 = [{"k": "dep", "s": "s1", "a": "lst", "x": str(4 * top * m * E6)},
              {"k": "dep", "s": "s2", "a": "lst2", "x": str(4 * (top // 2) * m * E8)},      # lst2 price 2
              {"k": "dep", "s": "s4", "a": "lst", "x": str(4 * low * m * E6)},
              {"k": "dep", "s": "s5", "a": "lst2", "x": str(4 * (low // 2) * m * E8)}]
        b1 += [{"k": "depnst", "s": "s3", "key": f"t{i}", "x": str(32 * E18)} for i in range(2 * 3 * m)]
        b2, n = [], 0
        for o in ops3:
            for s_, a, x in (("s1", "lst", top * m * E6), ("s2", "lst2", (top // 2) * m * E8), ("s3", "nst", low * m * E18),
                             ("s4", "lst", low * m * E6), ("s5", "lst2", (low // 2) * m * E8)):
                n += 1
                b2.append({"k": "del", "s": s_, "a": a, "o": o, "x": str(x), "n": n})
        blocks = [{"dt": 1, "txs": b1}, {"dt": 1, "txs": b2}]
        bump = rng.randint(6, 10)
        for i in range(16):
            txs = []
            if rng.random() < 0.6:
                txs.append({"k": "send", "s": "s2", "o": rng.choice(["s3", "o1", "o4"]), "x": str(rng.randint(1, 10 ** 9))})
            if i == bump:      # both top stakers grow by the same USD value with every operator: the tie stays exact
                for o in ops3:
                    n += 2
                    txs += [{"k": "del", "s": "s1", "a": "lst", "o": o, "x": str(10 * m * E6), "n": n - 1},
                            {"k": "del", "s": "s2", "a": "lst2", "o": o, "x": str(5 * m * E8), "n": n}]
            blocks.append({"dt": 1 if i in (0, 7) else 60, "txs": txs})
        out.append({"id": f"x-feetie-{seed}-{v}", "cfg": cfg, "blocks": blocks})
    return out


# ----------------------------------------------------------------------------------------------
# execution of one script by independent processes

def run_node(harness, d, script_path, db, out, frm, to, run, role, export_at=None, export_prefix=None, init_from=None):
    cmd = [harness, "chain-node", "--db", db, "--script", script_path, "--from", str(frm), "--to", str(to), "--out", out, "--run", run, "--role", role]
    if export_at:
        cmd += ["--export-at", ",".join(str(x) for x in export_at), "--export-out", export_prefix]
    if init_from:
        cmd += ["--init-from-export", init_from]
    p = vlib.sh(cmd, cwd=d, timeout=600, check=False)
    if p.returncode != 0:
        raise vlib.Infra(f"chain-node failed ({p.returncode}) {run}/{role} {frm}->{to}:\n" + (p.stdout or "")[-3000:])
    return [json.loads(x) for x in open(out) if x.strip()]


def execute_script(harness, d, sc, K, seed, export_heights, restarts):
    """returns the list of trace lines of all runs of this script (without header)"""
    sd = os.path.join(d, "s-" + sc["id"])
    os.makedirs(sd, exist_ok=True)
    sp = os.path.join(sd, "script.json")
    json.dump(sc, open(sp, "w"))
    end = len(sc["blocks"])
    lines = []
    # run 0: the original chain, exporting
    lines += run_node(harness, sd, sp, os.path.join(sd, "db-orig"), os.path.join(sd, "orig.ndjson"), 0, end, "orig", "orig",
                      export_at=export_heights, export_prefix=os.path.join(sd, "exp-"))
    halted = [ln["h"] for ln in lines if ln["ev"] == "obs" and "halt" in ln]
    # K-1 further independent full runs
    for k in range(1, K):
        lines += run_node(harness, sd, sp, os.path.join(sd, f"db-n{k}"), os.path.join(sd, f"n{k}.ndjson"), 0, end, f"n{k}", "node")
    # restart variants: new process on the same DB at the chosen heights
    for ri, cuts in enumerate(restarts):
        frm = 0
        db = os.path.join(sd, f"db-r{ri}")
        for ci, to in enumerate(list(cuts) + [end]):
            if halted and frm >= halted[0] - 1:
                break
            if to <= frm:
                continue
            lines += run_node(harness, sd, sp, db, os.path.join(sd, f"r{ri}-{ci}.ndjson"), frm, to, f"r{ri}", "node")
            frm = to
    # imported chains
    for x in export_heights:
        ef = os.path.join(sd, f"exp-{x}.json")
        if not os.path.exists(ef):
            continue
        lines += run_node(harness, sd, sp, os.path.join(sd, f"db-i{x}"), os.path.join(sd, f"i{x}.ndjson"), x, end, f"i{x}", "imp", init_from=ef)
    shutil.rmtree(sd, ignore_errors=True) if not os.environ.get("VERIF_KEEP") else None
    return lines


def plan_script(sc, beh, seed, tier):
    """export heights and restart cuts (seed-chosen; export where the model has most collections non-empty)"""
    rng = random.Random(seed * 31 + len(sc["blocks"]))
    end = len(sc["blocks"])
    if beh is not None:
        score = beh["score"]
        cands = [(score[i], -abs(i - len(score) // 2), H0 + i + 1) for i in range(len(score)) if H0 + i + 1 <= end - 4]
        cands.sort(reverse=True)
        exports = [cands[0][2]]
        if tier != "quick":
            exports += [c[2] for c in cands[1:4]]
            exports += [h for h in range(H0 + 1, end - 3) if h not in exports][:: 2]
    elif "plan" in sc:       # hand-shaped script that names the lifecycle states worth exporting (not an input of the node)
        exports = list(sc["plan"]["exports"] if tier == "quick" else sc["plan"].get("exports_t", sc["plan"]["exports"]))
    else:
        exports = [rng.randint(H0 + 3, end - 5)]
    exports = sorted(set(exports))
    cuts = sorted(rng.sample(range(H0, end - 1), 2))
    restarts = [cuts]
    if tier != "quick":
        restarts.append(sorted(rng.sample(range(1, end - 1), 4)))
        restarts.append(list(range(3, end - 1, 3)))
    return exports, restarts


# ----------------------------------------------------------------------------------------------

def run(tier, seed):
    harness = vlib.build_harness()
    d = vlib.scratch("chain")
    try:
        return _run(tier, seed, harness, d)
    finally:
        if not os.environ.get("VERIF_KEEP"):
            shutil.rmtree(d, ignore_errors=True)


def model_check(d, tier, res):
    dm = os.path.join(d, "mc")
    os.makedirs(dm)
    vlib.stage_specs(dm, with_override=False)
    mcs = [("MC_Chain_q.tla", "MC_Chain_q.cfg")] + ([("MC_Chain_t.tla", "MC_Chain_t.cfg")] if tier != "quick" else [])
    for module, cfg in mcs:
        m = vlib.tlc_mc(dm, module, cfg, timeout=3000)
        if m["violated"]:
            raise vlib.Infra(f"model counterexample in {cfg}: {m['violated']} (lead, not a verdict)\n" + m["out"][-3000:])
        res["mc"].append(m)
    # vacuity guard: with the deviations of the current tree the model MUST lose state in the round trip
    g = vlib.tlc_mc(dm, "MC_Chain_q.tla", "MC_Chain_dev.cfg", timeout=600)
    if "InvRoundTrip" not in g["violated"] and "InvValid" not in g["violated"]:
        raise vlib.Infra("vacuity guard failed: MC_Chain_dev.cfg (deviations of the current tree) violates neither InvRoundTrip nor InvValid")
    res["dev_guard"] = {"cfg": "MC_Chain_dev.cfg", "violated": g["violated"], "states": g["states"]}
    return dm


def generate(d, tier, seed, n):
    dg = os.path.join(d, "gen")
    os.makedirs(dg)
    vlib.stage_specs(dg, with_override=False)
    behs = vlib.tlc_simulate(dg, "MC_Chain_q.tla", "MC_Chain_gen.cfg", num=n * 3, depth=19, seed=seed + 2000)
    behs = [json.loads(b) for b in behs]
    # prefer shapes that put entries into many collections at once
    behs.sort(key=lambda b: -max(b["score"]))
    return behs[:n]


def validate(d, name, lines):
    dt = os.path.join(d, "trace-" + name)
    os.makedirs(dt)
    vlib.stage_specs(dt, with_override=False)
    with open(os.path.join(dt, "trace.ndjson"), "w") as f:
        for ln in lines:
            f.write(json.dumps(ln) + "\n")
    tags, nstates = vlib.tlc_trace(dt, "Trace_Chain.tla", "Trace_Chain.cfg", timeout=3000)
    if nstates != len(lines) + 1:
        raise vlib.Infra(f"trace not fully consumed: {nstates} states for {len(lines)} lines")
    return tags


def _run(tier, seed, harness, d, only_scripts=None):
    res = {"family": "chain", "mc": [], "tags": [], "samples": [], "tag_universe": TAG_UNIVERSE,
           "assumptions": [
               "blocks are driven through ABCI directly (no CometBFT): header time, votes and evidence come from the script",
               "C08 compares app hash, tx code/codespace/data/gas wanted/gas used, validator updates, consensus-param updates and the "
               "sha256 digests of every committed KV store; events are logged but not compared (not part of consensus results)",
               "C18 RoundTrip compares the listed modules' KV stores per key prefix; dogfood prefixes 0c (historical info) and 0f "
               "(validator updates of the last EndBlock) are treated as caches and excluded",
               "the imported chain is fed exactly the inputs of the original (incl. the votes of the block before the export height)",
               "model constants: 4 operators (3 genesis validators), 2 LST assets, dogfood/mint/distribution on a 60 s epoch, "
               "oracle feeders with interval 6, UnbondingExpiration 10 blocks"]}
    if only_scripts is None:
        model_check(d, tier, res)
        nmodel = 6 if tier == "quick" else 30
        K = 3 if tier == "quick" else 8
        unb = 1
        behs = generate(d, tier, seed, nmodel)
        scripts = []
        for i, b in enumerate(behs):
            sc = concretise(b, f"m{seed}-{i}", seed * 1000 + i, unb)
            scripts.append((sc, b, True))
        for sc in extra_scripts(seed, unb):
            scripts.append((sc, None, False))
        for sc in oracle_scripts(seed, tier):
            scripts.append((sc, None, False))
        for sc in feetie_scripts(seed, tier):
            scripts.append((sc, None, False))
        for sc in lifecycle_scripts(seed, tier):
            scripts.append((sc, None, False))
    else:
        K = 3
        unb = 1
        scripts = only_scripts

    jobs = []
    with concurrent.futures.ThreadPoolExecutor(max_workers=WORKERS) as ex:
        for sc, b, strict in scripts:
            exports, restarts = plan_script(sc, b, seed, tier)
            k = K
            if sc["id"].startswith("o-"):      # oracle-only stress script: many cheap executions, no export
                exports, restarts, k = [], restarts[:1], max(K, NORACLE if tier == "quick" else 2 * NORACLE)
            elif sc["id"].startswith("x-feetie"):   # tie-sensitive distribution: every execution samples 3 map orders per epoch end
                k = max(K, NFEETIE if tier == "quick" else 3 * NFEETIE)
            elif sc["id"].startswith("x-avs"):      # task grouping map: one statistics hook per execution
                k = max(K, NAVS if tier == "quick" else 3 * NAVS)
            jobs.append((sc, b, strict, ex.submit(execute_script, harness, d, sc, k, seed, exports, restarts)))
        results = [(sc, b, strict, f.result()) for sc, b, strict, f in jobs]

    counts = collections.Counter()
    distinct = set()
    all_lines, owner = [], []
    for sc, b, strict, lines in results:
        all_lines.append(header(sc["id"], unb, strict))
        owner.append(sc["id"])
        for ln in lines:
            all_lines.append(ln)
            owner.append(sc["id"])
            if ln["ev"] == "obs":
                counts["block:" + ln["role"]] += 1
                if "halt" in ln:
                    counts["halt"] += 1
                for t in ln.get("txinfo", []):
                    counts[f"tx:{t['k']}:{'ok' if str(t['code']) == '0' and t.get('pok', True) else 'fail'}"] += 1
                    distinct.add((t["k"], str(t["code"]), t.get("pok")))
                if ln["obs"].get("valupd"):
                    counts["valupd-blocks"] += 1
                if ln.get("m", {}).get("ee"):
                    counts["epoch-end-blocks"] += 1
            elif ln["ev"] == "export":
                counts["export"] += 1
                st = ln.get("st", {})
                for o, x in st.get("ops", {}).items():
                    seated = [k for k in st.get("vals", []) if key_op(k) == o]
                    if x.get("jailed") and seated:
                        counts["export-state:jailed-but-seated"] += 1
                    elif x.get("jailed"):
                        counts["export-state:jailed-and-removed"] += 1
                    if x.get("opted") and x.get("key") and not seated and not x.get("jailed"):
                        counts["export-state:opted-in-not-seated"] += 1
                    if seated and x.get("key") not in seated:
                        counts["export-state:key-replaced-old-key-seated"] += 1
                    if x.get("removing"):
                        counts["export-state:opting-out"] += 1
                    if seated and x.get("opted") and not x.get("jailed") and x.get("key") in seated:
                        counts["export-state:active"] += 1
                for q in ("optq", "pruneq", "matq", "hold", "recs"):
                    if st.get(q):
                        counts["export-with-" + q] += 1
            elif ln["ev"] == "import":
                counts["import:" + ("ok" if ln.get("ok") else "fail")] += 1
    # native-token GetStakerSpecifiedAssetInfo (map loop; query path only): same prefix => same answer, informational
    qseen = {}
    for ln in all_lines:
        if ln.get("ev") == "obs" and ln.get("role") != "imp" and "query" in ln:
            counts["native-query-evaluations"] += 1
            if qseen.setdefault(ln["prefix"], ln["query"]) != ln["query"]:
                counts["native-query-differs"] += 1
    # oracle coverage from the original runs
    for sc, b, strict, lines in results:
        prev = None
        for ln in lines:
            if ln["ev"] == "obs" and ln["role"] == "orig" and "pdg" in ln:
                cur = ln["pdg"].get("oracle", {})
                if prev is not None and cur != prev:
                    counts["oracle-store-changed-blocks"] += 1
                prev = cur

    # one TLC run per chunk of scripts (every chunk starts with a reset header; line numbers are mapped back)
    tags = []
    starts = [i for i, ln in enumerate(all_lines) if ln.get("ev") == "reset"]
    per = 8 if tier == "quick" else 5
    for ci in range(0, len(starts), per):
        lo = starts[ci]
        hi = starts[ci + per] if ci + per < len(starts) else len(all_lines)
        for t in validate(d, f"c{ci}", all_lines[lo:hi]):
            t["l"] += lo
            tags.append(t)
    by_id = {sc["id"]: (sc, b, strict) for sc, b, strict, _ in results}
    idx = {"export": {}, "imp_from": {}, "orig_obs": {}}
    for ln in all_lines:
        if ln.get("ev") == "export":
            idx["export"][(ln["script"], ln["h"])] = ln
        elif ln.get("ev") == "import":
            idx["imp_from"][(ln["script"], ln["run"])] = ln["h"]
        elif ln.get("ev") == "obs" and ln.get("role") == "orig":
            idx["orig_obs"][(ln["script"], ln["h"])] = ln
    diverged = set()     # (script, run) whose first C08 divergence has been reported: later blocks of that run only follow
    for t in tags:
        li = t["l"] - 1
        sid = owner[li]
        ln = all_lines[li]
        if any(x.startswith("C08_") for x in t["tags"]):
            key = (sid, ln.get("run"))
            if key in diverged:
                counts["c08-blocks-after-first-divergence"] += 1
                continue
            diverged.add(key)
        if any(x.startswith("C18_") for x in t["tags"]):
            refine_c18(t, ln, idx)
        t["script"] = sid
        t["behaviour"] = {"script": by_id[sid][0], "model": by_id[sid][1], "strict": by_id[sid][2], "seed": seed, "tier": tier}
        t["world"] = "chain4x2"
        t["observed"] = {k: ln.get(k) for k in ("ev", "run", "role", "h", "prefix", "valid", "panic", "txinfo") if k in ln}
        res["tags"].append(t)
    res["behaviours"] = len(results)
    res["events"] = len(all_lines)
    res["event_counts"] = dict(counts)
    res["distinct_nontrivial"] = len(distinct)
    res["processes"] = sum(1 for ln in all_lines if ln.get("ev") == "obs")
    if results:
        sc0, _, _, l0 = results[0]
        res["samples"] = [{"script_id": sc0["id"], "first_blocks": sc0["blocks"][2:5],
                           "first_obs": [{k: v for k, v in ln.items() if k in ("run", "role", "h", "prefix", "oks")} for ln in l0[2:6]]}]
    res["rule"] = ("behaviours = block scripts: TLC -simulate shapes of MC_Chain (per block: epoch end?, structural txs) concretised with "
                   "seed-chosen noise (deposits, delegations, withdrawals, sends, native delegations, associations, oracle rounds) plus "
                   "hand-shaped downtime/evidence/AVS scripts and oracle-only stress scripts (8 staggered feeders, executed by 12 processes); each script executed by K independent processes + restarted process + "
                   "exporting process + one fresh process per exported document; events = trace lines (one per executed block/export/import); "
                   "distinct_nontrivial = distinct (tx kind, code, precompile result) triples")
    return res


def key_op(label):
    """consensus key labels encode their operator: k2b -> o2"""
    d = "".join(ch for ch in label[1:] if ch.isdigit())
    return "o" + d if label.startswith("k") and d else "?" + label


def valkeys_ops(exp_st):
    """operators whose exported validator entry is known to be wrong (finding VALKEYS): their SEATED key is not their current key
    (replacement pending), or the seated key has lost its reverse lookup"""
    r = set()
    for k in exp_st.get("vals", []):
        o = key_op(k)
        cur = exp_st.get("ops", {}).get(o, {}).get("key")
        if cur != k or k not in exp_st.get("rev", {}):
            r.add(o)
    return r


def refine_c18(t, ln, idx):
    """make the details of validator-set differences precise, so that the known VALKEYS signature covers only what VALKEYS explains:
    01 / vals / valupd become <x>:valkeys when every differing key belongs to an operator with a pending key replacement at
    export, valupd:power when removals and the resulting validator set agree and only powers differ, <x>:unexplained otherwise (e.g. a jailed-but-seated validator missing)"""
    sid, run = ln.get("script"), ln.get("run")
    exp = idx["export"].get((sid, idx["imp_from"].get((sid, run))))
    if exp is None:
        return
    R = valkeys_ops(exp.get("st", {}))

    def explained(a, b):
        diff = set(a) ^ set(b)
        return bool(diff) and all(key_op(k) in R for k in diff)
    det = list(t.get("detail") or [])
    if "C18_RoundTrip_dogfood" in t["tags"] and "01" in det:
        det[det.index("01")] = "01:valkeys" if explained(exp["st"].get("vals", []), ln.get("st", {}).get("vals", [])) else "01:unexplained"
    if "C18_SameFuture" in t["tags"]:
        orig = idx["orig_obs"].get((sid, ln.get("h")))
        if orig is not None and "st" in orig and "st" in ln:
            if "vals" in det:
                det[det.index("vals")] = "vals:valkeys" if explained(orig["st"]["vals"], ln["st"]["vals"]) else "vals:unexplained"
            if "valupd" in det:
                a = {v["key"]: v["power"] for v in orig["obs"].get("valupd", [])}
                b = {v["key"]: v["power"] for v in ln["obs"].get("valupd", [])}
                a0, b0 = {k for k in a if a[k] == 0}, {k for k in b if b[k] == 0}
                va, vb = set(orig["st"]["vals"]), set(ln["st"]["vals"])
                if a0 == b0 and va == vb:
                    cls = "valupd:power"      # same removals, same resulting set: only powers (and which powers changed) differ
                else:
                    diff = (a0 ^ b0) | (va ^ vb)
                    cls = "valupd:valkeys" if all(key_op(k) in R for k in diff) else "valupd:unexplained"
                det[det.index("valupd")] = cls
    t["detail"] = det


def finding_matches(f, t):
    """does tag occurrence t match the known finding f?  match = {"detail_subset": [...]} : every element of the tag's detail
    must be listed; {"detail_contains": "..."} : some detail string must contain the text"""
    m = f.get("match", {})
    det = t.get("detail") or []
    if isinstance(det, str):
        det = [det]
    if "detail_subset" in m:
        if not det or not set(det) <= set(m["detail_subset"]):
            return False
    if "detail_contains" in m:
        if not any(m["detail_contains"] in str(x) for x in det):
            return False
    if "ev" in m and t.get("ev") != m["ev"]:
        return False
    if "run_prefix" in m and not str((t.get("observed") or {}).get("run", "")).startswith(m["run_prefix"]):
        return False
    return True


def replay(path):
    j = json.load(open(path))
    harness = vlib.build_harness()
    d = vlib.scratch("chain-replay")
    try:
        b = j["behaviour"]
        res = _run(b.get("tier", "quick"), b.get("seed", 1), harness, d, only_scripts=[(b["script"], b.get("model"), b.get("strict", False))])
        return res
    finally:
        shutil.rmtree(d, ignore_errors=True)
