"""Oracle admission family pipeline: C13 (oracle submissions: strict admission, bounded fee-less traffic).

  1. exhaustive TLC run of spec/MC_OracleAdm (DEV = {}: the statement holds on the intended design) and a
     vacuity run with the deviations of the current tree (DEV = {L6, L7}: TLC must find the violation);
  2. behaviours by `tlc -simulate` of the same model (class-biased), three worlds;
  3. replay through the real ABCI entry points (harness oracleadm, real signed MsgCreatePrice txs);
  4. TLC trace validation (spec/Trace_OracleAdm): property lane C13_*, strict lane STRICT_*.
"""
import collections
import json
import os
import re
import shutil

import vlib

PROPERTIES = ["C13", "C11"]  # C11 only through C11_Halt: a panic escaping a block phase while replaying

# deviations of the UNCHANGED tree from the statement that were confirmed on the real code
# (known_findings.json); the strict lane replays the model with these switched on
ALL_DEVS = ["L6", "L7", "L27"]
DEV_CURRENT = ["L7"]
if os.environ.get("VERIF_ORACLEADM_DEV") is not None:
    # e.g. a tree with fix-F-ORA-L27.patch applied: VERIF_ORACLEADM_DEV=L7 makes the strict lane expect the repaired
    # behaviour (permanent switch: tools/oracleadm_mark_fixed.py)
    DEV_CURRENT = [x for x in os.environ["VERIF_ORACLEADM_DEV"].split(",") if x]
# deviations repaired in the repository (known_findings.json "fixed"): the model keeps the switch, and the guard run
# in _mc still demands that the model WITH the deviation violates C13 (the tag that would catch a regression is alive)
DEV_FIXED = [x for x in ALL_DEVS if x not in DEV_CURRENT]

BASE = {"vals": ["v1", "v2", "v3"], "power": {"v1": 2, "v2": 1, "v3": 1}, "others": ["a1"], "thA": 2, "thB": 3, "dev": DEV_CURRENT}
WORLDS = {
    # (maxNonce, interval) = (2, 4)
    "n2i4": dict(module="MC_OracleAdm_q.tla", gencfg="MC_OracleAdm_gen.cfg", share=0.45,
                 hcfg=dict(BASE, feeders={"1": {"start": 1, "interval": 4, "endb": 0}}, maxNonce=2, maxDetID=2, dets=["d1", "d2"])),
    # (maxNonce, interval) = (1, 2)
    "n1i2": dict(module="MC_OracleAdm_q.tla", gencfg="MC_OracleAdm_gen2.cfg", share=0.25,
                 hcfg=dict(BASE, feeders={"1": {"start": 1, "interval": 2, "endb": 0}}, maxNonce=1, maxDetID=1, dets=["d1", "d2"])),
    # two feeders, the second starts later and has an end block
    "two": dict(module="MC_OracleAdm_q.tla", gencfg="MC_OracleAdm_gen3.cfg", share=0.30,
                hcfg=dict(BASE, feeders={"1": {"start": 1, "interval": 4, "endb": 0}, "2": {"start": 2, "interval": 5, "endb": 9}},
                          maxNonce=2, maxDetID=2, dets=["d1", "d2"])),
}

TAG_UNIVERSE = {
    "C13": ["C13_AdmitNonValidator", "C13_AdmitPubKeyMismatch", "C13_AdmitBadSig", "C13_AdmitTooLarge", "C13_AdmitClosedRound",
            "C13_AdmitBadNonce", "C13_OverLimit", "C13_CountBadBase", "C13_CountBadSource", "C13_CountBadDecimal",
            "C13_CountFutureTs", "C13_CountDupDet", "C13_RejectedButChanged", "C13_NotCountedChangedMore", "C13_AlienNonceEntry"],
    "C11": ["C11_Halt"],
}

DG_KEYS = ["kv", "ora", "oraRest", "ckv", "cora", "coraRest", "mem", "memFull"]


def run(tier, seed):
    harness = vlib.build_harness()
    d = vlib.scratch("oracleadm")
    try:
        return _run(tier, seed, harness, d)
    finally:
        shutil.rmtree(d, ignore_errors=True)


def _mc(d, tier, res):
    dm = os.path.join(d, "mc")
    os.makedirs(dm)
    vlib.stage_specs(dm, with_override=False)
    mcs = [("MC_OracleAdm_q.tla", "MC_OracleAdm_q.cfg"), ("MC_OracleAdm_q.tla", "MC_OracleAdm_q2.cfg")]
    if tier != "quick":
        mcs += [("MC_OracleAdm_q.tla", "MC_OracleAdm_t.cfg"), ("MC_OracleAdm_q.tla", "MC_OracleAdm_t2.cfg"), ("MC_OracleAdm_q.tla", "MC_OracleAdm_t3.cfg")]
    for module, cfg in mcs:
        m = vlib.tlc_mc(dm, module, cfg, timeout=3000)
        if m["violated"]:
            raise vlib.Infra(f"model counterexample in {cfg}: {m['violated']} (lead, not a verdict)\n" + m["out"][-3000:])
        res["mc"].append(m)
    # vacuity guard of the known findings: with each deviation of the current tree switched on, the model must
    # violate C13 with the tag the finding is filed under
    expect = {"L6": "C13_AdmitBadSig", "L7": "C13_NotCountedChangedMore", "L27": "C13_AdmitNonValidator"}
    res["dev_model_checks"] = []
    for dev in DEV_CURRENT + [x for x in DEV_FIXED if x not in DEV_CURRENT]:
        m = vlib.tlc_mc(dm, "MC_OracleAdm_q.tla", f"MC_OracleAdm_dev{dev}.cfg", timeout=1200)
        got = sorted(set(re.findall(r"C13_\w+", "".join(re.findall(r"viol = \{[^}]*\}", m["out"])))))
        if "InvC13" not in m["violated"] or expect[dev] not in got:
            raise vlib.Infra(f"MC_OracleAdm_dev{dev}.cfg: the model with DEV = {{{dev}}} does not violate InvC13 with {expect[dev]} (got {got}): vacuous known finding")
        res["dev_model_checks"].append({"dev": dev, "in_current_tree": dev in DEV_CURRENT, "violated": m["violated"], "tags": got, "states": m["states"]})


def _kind(a):
    """coarse label of a generated tx for coverage accounting"""
    return f"{a['mode']}:{a['sig']}:{a['size']}:{len(a['msgs'])}msg"


def _logclass(ln):
    lg = (ln.get("log") or ln.get("err") or "")
    if ln.get("res") == "ok":
        return "ok"
    lg = re.sub(r"[0-9]+", "N", lg.split("\n")[0])
    lg = re.sub(r"exo[a-z0-9]+", "ADDR", lg)
    return lg[:70]


def _validate(harness, d, name, wname, w, behs, seed, res, counts, logs, distinct):
    dt = os.path.join(d, f"trace-{name}")
    os.makedirs(dt)
    vlib.stage_specs(dt, with_override=True)
    cpath = os.path.join(dt, "beh.ndjson")
    open(cpath, "w").write("\n".join(behs) + "\n")
    p = vlib.sh([harness, "oracleadm", "-in", cpath, "-out", os.path.join(dt, "trace.ndjson"), "-seed", str(seed), "-cfg", json.dumps(w["hcfg"])],
                timeout=900, check=False)
    if p.returncode != 0:
        raise vlib.Infra("harness oracleadm failed:\n" + p.stdout[-3000:])
    lines = [json.loads(x) for x in open(os.path.join(dt, "trace.ndjson")) if x.strip()]
    tags, nstates = vlib.tlc_trace(dt, "Trace_OracleAdm.tla", "Trace_OracleAdm.cfg", timeout=3000)
    if nstates != len(lines) + 1:
        raise vlib.Infra(f"trace not fully consumed: {nstates} states for {len(lines)} lines")
    bidx, starts, cur = [], [], -1
    for i, ln in enumerate(lines):
        if ln["ev"] == "reset":
            cur += 1
            starts.append(i)
        bidx.append(cur)
    for i, ln in enumerate(lines):
        if ln["ev"] == "Tx" and ln["a"]["mode"] == "deliver" and i > 0:
            gone = [k for k in lines[i - 1]["st"]["nonce"] if k not in ln["st"]["nonce"]]
            if gone and ln["res"] == "ok":
                counts["Tx:deliver:ok:round-finalised"] += 1
            rb, ra = lines[i - 1]["st"]["rounds"], ln["st"]["rounds"]
            if ln["res"] != "ok" and any(rb[f]["status"] == "open" and ra.get(f, {}).get("status") == "closed" for f in rb):
                counts["Tx:deliver:failed-but-round-closed-in-memory"] += 1
    for ln in lines:
        if ln.get("halt"):
            counts["HALT"] += 1  # reported through the C11_Halt tag of the trace spec
        if ln["ev"] == "Tx":
            if not ln.get("build"):
                raise vlib.Infra("harness could not build a generated tx: " + str(ln.get("err")))
            counts[f"Tx:{ln['a']['mode']}:{ln['res']}"] += 1
            counts["kind:" + _kind(ln["a"])] += 1
            logs[f"{ln['a']['mode']}:{_logclass(ln)}"] += 1
            distinct.add(json.dumps([ln["a"], ln["res"], ln["st"]["h"]], sort_keys=True))
        elif ln["ev"] != "reset":
            counts[ln["ev"]] += 1
    for t in tags:
        li = t["l"] - 1
        b = bidx[li]
        ln = lines[li]
        t["world"] = wname
        t["behaviour"] = json.loads(behs[b])
        t["observed"] = {k: ln.get(k) for k in ("ev", "a", "res", "code", "codespace", "log", "err", "halt", "gasWanted", "gasUsed", "priority")}
        if t["observed"].get("log"):
            t["observed"]["log"] = t["observed"]["log"][:300]
        t["height"] = ln["st"]["h"]
        t["pre_vals"] = lines[li - 1]["st"]["vals"] if li > 0 else None
        if li > 0:
            t["changed"] = sorted(k for k in DG_KEYS if lines[li - 1]["dg"].get(k) != ln["dg"].get(k))
            t["changed_modules"] = sorted(k for k in ln["dg"]["mods"] if lines[li - 1]["dg"]["mods"].get(k) != ln["dg"]["mods"].get(k))
        res["tags"].append(t)
    if not res["samples"]:
        res["samples"] = [{"world": wname, "behaviour": json.loads(behs[0]),
                           "first_trace_lines": [{k: v for k, v in ln.items() if k not in ("st", "dg")} for ln in lines[1:6]]}]
    return cur + 1, len(lines)


def _run(tier, seed, harness, d):
    res = {"family": "oracleadm", "mc": [], "tags": [], "samples": [], "tag_universe": TAG_UNIVERSE,
           "assumptions": [
               "full ExocoreApp on a MemDB driven through app.CheckTx / app.DeliverTx / EndBlock / Commit / BeginBlock with real signed MsgCreatePrice txs (abci-mode)",
               "3 validators (powers 2,1,1; v3's operator may opt out, leaving at a dogfood epoch end) plus one ordinary account; one deterministic source; every validator reports the same price per source round",
               "response class ok/ante/msg/panic is read from the response code and log ('failed to execute message' = handler stage)",
               "signature validity is an input class produced by the harness (self-checked with VerifySignature); ReCheckTx is only fed correctly signed txs",
               "the in-memory mirror of the nonce (filter.validatorNonce) counts as 'that validator's nonce' in the frame clause",
           ]}
    _mc(d, tier, res)
    nbeh = 60 if tier == "quick" else 400
    counts, logs, distinct = collections.Counter(), collections.Counter(), set()
    total_beh = total_ev = 0
    for wname, w in WORLDS.items():
        dg = os.path.join(d, "gen-" + wname)
        os.makedirs(dg)
        vlib.stage_specs(dg, with_override=False)
        n = max(4, int(nbeh * w["share"]))
        behs = vlib.tlc_simulate(dg, w["module"], w["gencfg"], num=n, depth=100, seed=seed + 1000)
        chunk = 120
        for ci in range(0, len(behs), chunk):
            nb, ne = _validate(harness, d, f"{wname}-{ci}", wname, w, behs[ci:ci + chunk], seed, res, counts, logs, distinct)
            total_beh += nb
            total_ev += ne
    res["behaviours"] = total_beh
    res["events"] = total_ev
    res["event_counts"] = dict(counts)
    res["rejection_reasons"] = dict(logs)
    res["distinct_nontrivial"] = len(distinct)
    res["rule"] = ("behaviours = class-biased TLC -simulate runs of MC_OracleAdm (valid message + one variant per violated condition, "
                   "1- and 2-message txs, all senders / signature kinds / modes), replayed through ABCI on the real app; "
                   "distinct_nontrivial = distinct (tx arguments, response class, height) triples")
    return res


def finding_matches(f, t):
    """does tag occurrence t match the known finding f? (exactly that failure; anything else stays a VIOLATION)"""
    m = f.get("match", {})
    o = t.get("observed") or {}
    a = o.get("a") or {}
    if m.get("kind") == "L6":
        # a tx carrying the sender's own public key and signature bytes that do not verify is admitted
        return a.get("sig") in m["sig"] and a.get("size") == "ok" and o.get("res") in ("ok", "msg")
    if m.get("kind") == "L27":
        # the sender was a validator, left the set, and its stale nonce entry is still honoured by the ante chain
        former = a.get("sender", "").startswith("v") and t.get("pre_vals") is not None and a.get("sender") not in t["pre_vals"]
        return former and o.get("res") in ("ok", "msg")
    if m.get("kind") == "L7":
        # DeliverTx of a multi-message tx: an earlier message executed, a later one failed; the tx fails,
        # the store is rolled back to "nonce only" but the in-memory aggregator context keeps the change
        if a.get("mode") != "deliver" or len(a.get("msgs", [])) < 2:
            return False
        log = o.get("log") or ""
        idx = re.search(r"message index: (\d+)", log)
        later = (o.get("res") == "msg" and idx is not None and int(idx.group(1)) >= 1) or o.get("res") == "panic"
        return later and set(t.get("changed", [])) <= {"mem", "memFull", "ora"} and "mem" in t.get("changed", [])
    return False


def replay(path):
    j = json.load(open(path))
    harness = vlib.build_harness()
    d = vlib.scratch("oracleadm-replay")
    try:
        w = WORLDS[j["world"]]
        res = {"family": "oracleadm", "mc": [], "tags": [], "samples": [], "tag_universe": TAG_UNIVERSE}
        counts, logs, distinct = collections.Counter(), collections.Counter(), set()
        nb, ne = _validate(harness, d, "replay", j["world"], w, [json.dumps(j["behaviour"])], 1, res, counts, logs, distinct)
        res["behaviours"], res["events"] = nb, ne
        res["samples"] = [j["behaviour"]]
        return res
    finally:
        shutil.rmtree(d, ignore_errors=True)
