"""Fees family pipeline: C17 (native supply and fee distribution are conserved); contributes C11_Halt
(a block phase panicked on the real app) to C11.

1. exhaustive TLC run of spec/MC_Fees_q (model of the current tree, DEVIATIONS = {}): the properties hold;
   guards: spec/MC_Fees_dev (the defect L11, fixed in 311e836, seeded into the model): InvBooked / InvSolvent
   must be violated (the invariants can see it); spec/MC_Fees_avs (the defect L27, fixed in 9ad8de4, seeded, second
   AVS listed first): InvNoPanic must be violated; spec/MC_Fees_acc (current tree, second AVS before / after):
   every invariant holds;
2. behaviours by `tlc -simulate` of spec/MC_Fees_g / MC_Fees_gen.cfg (random), plus the CLASS COVER spec/MC_Fees_c /
   MC_Fees_cov.cfg: every behaviour of a scripted model over the boundary values of the distribution parameters
   (tax 0 / small / 100 %, commission 0 / mid / 100 %, 0 / 1 / 3 validators, fee of 1 unit / with remainders, a parameter
   update between two distribution epochs);
3. replay on the real code: one fresh ExocoreApp per behaviour, real blocks (harness `fees`);
4. trace validation with spec/Trace_Fees (property lane C17_*, strict lane STRICT_*).
"""
import collections
import json
import os
import re
import shutil
import time

import vlib

PROPERTIES = ["C17", "C11"]

WORLDS = {
    "v3a2": dict(module="MC_Fees_g.tla", gencfg="MC_Fees_gen.cfg",
                 hcfg={"scales": ["1", "1000003", "700000000000000003", "1000000000000000000000007"],
                       "pscales": [1, 1000], "modelPrec": 100, "stakers": 3, "dogfood": ["day", "eb"], "extraAvs": [0]}),
}

# the class-cover behaviours are replayed at every amount scale in turn (seeded choice per behaviour)
COVER_HCFG = {"scales": ["1", "1000003", "700000000000000003", "1000000000000000000000007"], "pscales": [1, 1000], "modelPrec": 100,
              "stakers": 3, "dogfood": ["day"], "extraAvs": [0]}

TAG_UNIVERSE = {
    "C17": ["C17_SupplyDelta", "C17_AllMoved", "C17_Booked", "C17_Solvent", "C17_Proportional", "C17_CommissionSplit",
            "C17_StakerPart", "C17_NonNegative"],
    "C11": ["C11_Halt"],
}


def run(tier, seed):
    harness = vlib.build_harness()
    d = vlib.scratch("fees")
    try:
        return _run(tier, seed, harness, d)
    finally:
        shutil.rmtree(d, ignore_errors=True)


ONE = "1000000000000000000"


def _classify(ln, pre, hdr=None, mem=None):
    """coverage classes of a trace line (for the vacuity guard); hdr = reset line of the behaviour, mem = per-behaviour memory"""
    ev = ln["ev"]
    if ev != "BeginBlock":
        return f"{ev}:{'ok' if ln['ok'] else 'fail'}"
    env = pre["env"]
    ended = set(ln["a"].get("ended", []))
    dist, mint = env["distId"] in ended, env["mintId"] in ended
    kind = {(False, False): "none", (True, False): "dist", (False, True): "mint", (True, True): "dist+mint"}[(dist, mint)]
    out = [f"BeginBlock:{kind}"]
    if ln.get("panic"):
        out.append("BeginBlock:PANIC")
    if dist:
        out.append("dist:fees>0" if pre["fc"] != "0" else "dist:fees=0")
        out.append("dist:power=0" if env["ltp"] == "0" else "dist:power>0")
        if any(len({x["s"] for x in e["e"]}) < len(e["e"]) for e in env["ent"]):
            out.append("dist:staker-listed-twice")
        if any(len({x["s"] for x in e["e"]}) >= 3 for e in env["ent"]):
            out.append("dist:>=3-stakers-on-an-operator")
        if len(env["vals"]) >= 3:
            out.append("dist:3-validators")
        # a validator that still has voting power while none of its stakers has active value (jailed mid-epoch)
        ents = {e["o"]: e["e"] for e in env["ent"]}
        rates = {r["o"]: r["v"] for r in env["rate"]}
        zs = [v["o"] for v in env["vals"] if v["o"] and v["pw"] != "0" and all(x["p"] == "0" for x in ents.get(v["o"], []))]
        if zs and env["ltp"] != "0":
            out.append("dist:validator-with-power-but-zero-staker-value")
            if any(rates.get(o) != "1000000000000000000" for o in zs) and (pre["fc"] != "0" or (mint and env["reward"] != "0")):
                out.append("dist:zero-staker-value,rate<100%,fees>0")
        if any(len({x["avs"] for x in e["e"]}) >= 2 for e in env["ent"]):
            out.append("dist:operator-in-2-AVSs")
        # boundary classes of the parameters of the formula (with something to distribute and positive total power)
        live = env["ltp"] != "0" and pre["fc"] != "0"
        taxc = "0" if env["tax"] == "0" else ("100%" if env["tax"] == ONE else "mid")
        out.append(f"dist:tax={taxc}")
        if live:
            out.append(f"dist:tax={taxc},fees>0,power>0")
            nv = len([v for v in env["vals"] if v["o"] and v["pw"] != "0"])
            out.append("dist:live,1-validator" if nv == 1 else f"dist:live,{nv}-validators")
            for v in env["vals"]:
                if v["o"] and v["pw"] != "0":
                    r = rates.get(v["o"])
                    out.append("dist:live,commission=" + ("0" if r == "0" else "100%" if r == ONE else "mid"))
        if hdr is not None and pre["fc"] == str(hdr.get("scale")):
            out.append("dist:fees=1-unit")
        if mem is not None:
            if "tax" in mem and mem["tax"] != env["tax"]:
                out.append("dist:tax-changed-since-last-distribution")
                if live:
                    out.append("dist:tax-changed-since-last-distribution,live")
            mem["tax"] = env["tax"]
    if mint:
        if mem is not None:
            if "reward" in mem and mem["reward"] != env["reward"]:
                out.append("mint:reward-changed-since-last-mint")
            mem["reward"] = env["reward"]
        out.append("mint:reward>0" if env["reward"] != "0" else "mint:reward=0")
    return out


def _validate(harness, dt, behs, hcfg, seed, wname, res, counts, distinct):
    os.makedirs(dt)
    vlib.stage_specs(dt, with_override=True)
    cpath = os.path.join(dt, "beh.ndjson")
    open(cpath, "w").write("\n".join(behs) + "\n")
    p = vlib.sh([harness, "fees", "-in", cpath, "-out", os.path.join(dt, "trace.ndjson"), "-seed", str(seed), "-cfg", json.dumps(hcfg)],
                timeout=1800, check=False)
    if p.returncode != 0:
        raise vlib.Infra("harness fees failed:\n" + p.stdout[-3000:])
    lines = [json.loads(x) for x in open(os.path.join(dt, "trace.ndjson")) if x.strip()]
    tags, nstates = vlib.tlc_trace(dt, "Trace_Fees.tla", "Trace_Fees.cfg", timeout=3000)
    if nstates != len(lines) + 1:
        raise vlib.Infra(f"trace not fully consumed: {nstates} states for {len(lines)} lines")
    bidx, starts, cur = [], [], -1
    for i, ln in enumerate(lines):
        if ln["ev"] == "reset":
            cur += 1
            starts.append(i)
        bidx.append(cur)
    mem = {}
    for i, ln in enumerate(lines):
        if ln["ev"] == "reset":
            mem = {}
            continue
        cls = _classify(ln, lines[i - 1]["st"], lines[starts[bidx[i]]], mem)
        for c in ([cls] if isinstance(cls, str) else cls):
            counts[c] += 1
        distinct.add(json.dumps([ln["ev"], ln["a"], ln["ok"], lines[starts[bidx[i]]].get("setup")], sort_keys=True))
    ndev = collections.Counter()
    for t in tags:
        li = t["l"] - 1
        b = bidx[li]
        devs = [x for x in t["tags"] if x.startswith("DEV_")]
        if devs:
            for x in devs:
                ndev[x[4:]] += 1
            t["tags"] = [x for x in t["tags"] if not x.startswith("DEV_")]
            if not t["tags"]:
                continue
        hdr = lines[starts[b]]
        if li > 0 and lines[li]["ev"] != "reset":
            penv = lines[li - 1]["st"]["env"]
            t["ctx"] = {"dist_ended": penv["distId"] in lines[li]["a"].get("ended", []),
                        "fees_or_mint": lines[li - 1]["st"]["fc"] != "0" or (penv["mintId"] in lines[li]["a"].get("ended", []) and penv["reward"] != "0"),
                        "operator_in_two_avs": any(len({x["avs"] for x in e["e"]}) >= 2 for e in penv["ent"])}
        pin = dict(hcfg, scales=[hdr["scale"]], pscales=[hdr["setup"]["pscale"]], dogfood=[hdr["setup"]["dogfood"]],
                   extraAvs=[hdr["setup"].get("extraAvs", 0)])
        t["world"] = {"name": wname, "hcfg": pin}
        t["behaviour"] = json.loads(behs[b])
        t["observed"] = {k: lines[li].get(k) for k in ("ev", "a", "ok", "err", "panic")}
        t["setup"] = hdr["setup"]
        res["tags"].append(t)
    return cur + 1, len(lines), lines, ndev


def _run(tier, seed, harness, d):
    res = {"family": "fees", "mc": [], "tags": [], "samples": [], "tag_universe": TAG_UNIVERSE,
           "assumptions": [
               "one fresh full ExocoreApp per behaviour; the world (powers, commission rates, tax, reward, identifiers) is its genesis; "
               "real blocks: EndBlock, Commit, BeginBlock with header times chosen so that the wanted epoch identifiers end",
               "FeeIncome is realised by bank SendCoinsFromAccountToModule or by the fee of a real signed cosmos tx (DeliverTx); "
               "Burn by bank BurnCoins through the evm module account; Delegate by deposit + DelegateTo at keeper level; Jail by the dogfood "
               "keeper's Jail (the call x/slashing makes for downtime); UpdateParams by MsgUpdateParams of x/feedistribution and x/exomint "
               "(authority = gov module account) through the app's message service router",
               "the environment of the allocation (validators, powers, last total power, rates, staker entries with their USD values) is "
               "OBSERVED through the keepers' getters before the step and handed to the model as input; the voting-power formulas are C05's",
               "the zero-power world is a one-validator genesis whose LastTotalPower is overwritten with 0 at keeper level "
               "(a chain cannot start with an empty validator set)",
               "only the native denom is modelled; the projection flags any other denom in the books (otherDenoms)"]}
    # 1. exhaustive model checks (pure TLA+ numbers)
    dm = os.path.join(d, "mc")
    os.makedirs(dm)
    vlib.stage_specs(dm, with_override=False)
    mcs = [("MC_Fees_q.tla", "MC_Fees_q.cfg")]
    if tier != "quick":
        mcs.append(("MC_Fees_t.tla", "MC_Fees_t.cfg"))
    for module, cfg in mcs:
        if not os.path.exists(os.path.join(dm, cfg)):
            continue
        m = vlib.tlc_mc(dm, module, cfg, timeout=3000)
        if m["violated"]:
            raise vlib.Infra(f"model counterexample in {cfg}: {m['violated']} (lead, not a verdict)\n" + m["out"][-3000:])
        res["mc"].append(m)
    # guards (see module docstring)
    res["deviation_runs"] = []

    def guard(cfg, what, expect):
        m = vlib.tlc_mc(dm, "MC_Fees_q.tla", cfg, timeout=900)
        res["deviation_runs"].append({"cfg": cfg, "what": what, "violated": m["violated"], "expected": expect, "wall_s": m["wall_s"]})
        if expect and not set(m["violated"]) & set(expect):
            raise vlib.Infra(f"{cfg}: expected one of {expect} to be violated ({what}), got {m['violated']}")
        if not expect and m["violated"]:
            raise vlib.Infra(f"{cfg}: model counterexample {m['violated']} ({what})\n" + m["out"][-3000:])

    guard("MC_Fees_dev.cfg", "defect L11 (fixed in 311e836) seeded into the model: the invariants must detect it", ["InvBooked", "InvSolvent"])
    guard("MC_Fees_zs_dev.cfg", "seeded omission: no booking when a validator with power has zero total staker value (jailed): "
          "the model must reach that class and InvBooked must see it", ["InvBooked"])
    guard("MC_Fees_tx_dev.cfg", "seeded omission: AllocateTokens returns when the validators' part is zero (tax 100 %) before the community "
          "pool is credited: the model must reach that class and InvBooked must see it", ["InvBooked"])
    guard("MC_Fees_avs.cfg", "defect L27 (fixed in 9ad8de4) seeded into the model, second AVS listed first: negative remainder panics", ["InvNoPanic"])
    guard("MC_Fees_acc.cfg", "current tree with a second AVS before / after the chain AVS: no panic, all invariants hold", [])
    # 2..4
    nbeh = 60 if tier == "quick" else 1200
    counts = collections.Counter()
    distinct = set()
    total_beh = total_ev = 0
    ndev = collections.Counter()
    for wname, w in WORLDS.items():
        dg = os.path.join(d, "gen-" + wname)
        os.makedirs(dg)
        vlib.stage_specs(dg, with_override=False)
        behs = vlib.tlc_simulate(dg, w["module"], w["gencfg"], num=nbeh, depth=40, seed=seed + 1000)
        chunk = 150
        for ci in range(0, len(behs), chunk):
            dt = os.path.join(d, f"trace-{wname}-{ci}")
            nb, ne, lines, nd = _validate(harness, dt, behs[ci:ci + chunk], w["hcfg"], seed + ci, wname, res, counts, distinct)
            total_beh += nb
            total_ev += ne
            ndev.update(nd)
            if not res["samples"]:
                res["samples"] = [{"behaviour": json.loads(behs[0]),
                                   "first_trace_lines": [{k: v for k, v in ln.items() if k != "st"} for ln in lines[1:8]]}]
    # class cover of the parameter boundary values: every behaviour of the scripted model MC_Fees_c (TLC breadth-first; the
    # invariants are checked on all of them), replayed on the real code
    dc = os.path.join(d, "gen-cover")
    os.makedirs(dc)
    vlib.stage_specs(dc, with_override=False)
    t0 = time.time()
    out, _ = vlib.tlc(dc, "MC_Fees_c.tla", "MC_Fees_cov.cfg", workers=1, timeout=900)
    st = vlib.tlc_stats(out)
    viol = re.findall(r"Error: Invariant (\w+) is violated", out)
    if st is None or viol or "Error:" in out:
        raise vlib.Infra("class-cover model MC_Fees_c failed or has a counterexample " + str(viol) + ":\n" + out[-3000:])
    res["mc"].append({"module": "MC_Fees_c.tla", "cfg": "MC_Fees_cov.cfg", "states": st["distinct"], "transitions": st["generated"],
                      "violated": [], "complete": st["queue"] == 0, "wall_s": round(time.time() - t0, 1)})
    cover = []
    for line in out.split("\n"):
        line = line.strip()
        if line.startswith('"BEHAVIOUR '):
            b = json.loads(line)[len("BEHAVIOUR "):]
            if b not in cover:
                cover.append(b)
    cover.sort()
    if len(cover) < 60:
        raise vlib.Infra(f"class cover produced only {len(cover)} behaviours")
    nb, ne, lines, nd = _validate(harness, os.path.join(d, "trace-cover"), cover, COVER_HCFG, seed, "cover", res, counts, distinct)
    total_beh += nb
    total_ev += ne
    ndev.update(nd)
    res["cover_behaviours"] = nb
    res["behaviours"] = total_beh
    res["events"] = total_ev
    res["event_counts"] = dict(counts)
    res["distinct_nontrivial"] = len(distinct)
    # vacuity guard: the interesting classes must have been executed on the real code
    need = ["dist:fees>0", "dist:fees=0", "dist:power>0", "dist:power=0", "mint:reward>0", "mint:reward=0", "BeginBlock:none",
            "dist:staker-listed-twice", "dist:3-validators", "Burn:ok", "FeeIncome:ok", "Jail:ok",
            "dist:validator-with-power-but-zero-staker-value", "dist:zero-staker-value,rate<100%,fees>0", "UpdateParams:ok", "UpdateParamsDropped:ok",
            # boundary values of every parameter of the formula, with fees > 0 and positive total power
            "dist:tax=0,fees>0,power>0", "dist:tax=mid,fees>0,power>0", "dist:tax=100%,fees>0,power>0",
            "dist:live,commission=0", "dist:live,commission=mid", "dist:live,commission=100%",
            "dist:live,1-validator", "dist:live,3-validators", "dist:fees=1-unit",
            "dist:tax-changed-since-last-distribution,live", "mint:reward-changed-since-last-mint"]
    missing = [c for c in need if counts[c] == 0]
    if missing or counts["BeginBlock:dist"] + counts["BeginBlock:dist+mint"] == 0 or counts["BeginBlock:mint"] + counts["BeginBlock:dist+mint"] == 0:
        raise vlib.Infra(f"vacuous run: classes never executed: {missing} (event_counts={dict(counts)})")
    res["block_phase_panics"] = counts["BeginBlock:PANIC"]
    res["deviation_steps_observed"] = dict(ndev)
    res["rule"] = ("behaviours = TLC -simulate runs of MC_Fees_g (world chosen by the Setup event) + all behaviours of the class-cover model MC_Fees_c, concretised with seed-chosen amount and power "
                   "scales and replayed on a fresh real app each; event_counts classify every executed step (which identifiers ended, "
                   "fees/power zero or not, staker listed twice, ...); distinct_nontrivial = distinct (world, event, concrete args, result)")
    return res


def _int(x):
    try:
        return int(x)
    except (TypeError, ValueError):
        return None


def finding_matches(f, t):
    """does tag occurrence t match the known finding f?  Exact signatures of lead L11:
    C17_Booked  - the books grew by more than was moved, and the excess is EXACTLY the sum of the staker rewards booked in that step
                  (AllocateTokensToStakers credits the stakers and ALSO adds the whole staker share to the community pool);
    C17_Solvent - the booked claims exceed the distribution account by EXACTLY the sum of all staker rewards ever booked.
    Any other excess (a second defect on top, a different amount) is not matched and is reported as a violation."""
    sig = (f.get("match") or {}).get("signature")
    info = t.get("info") or {}
    if sig == "L27":
        # exactly this halt: BeginBlock panics with "negative coin amount" at a distribution-epoch end while some validator
        # operator is opted into two AVSs (the fees may come from the fee collector or from a mint earlier in the same block)
        o, c = t.get("observed") or {}, t.get("ctx") or {}
        return (o.get("ev") == "BeginBlock" and bool(o.get("panic")) and "negative coin amount" in (o.get("err") or "")
                and bool(c.get("dist_ended")) and bool(c.get("operator_in_two_avs")))
    if sig == "L11_booked":
        e, s = _int(info.get("excess")), _int(info.get("dsrew"))
        return e is not None and e > 0 and e == s
    if sig == "L11_solvent":
        g, s = _int(info.get("gap")), _int(info.get("srew"))
        return g is not None and g > 0 and g == s
    return False


def replay(path):
    j = json.load(open(path))
    harness = vlib.build_harness()
    d = vlib.scratch("fees-replay")
    try:
        world = j.get("world") or {}
        hcfg = world.get("hcfg") or WORLDS["v3a2"]["hcfg"]
        res = {"family": "fees", "mc": [], "tags": [], "samples": [j["behaviour"]], "tag_universe": TAG_UNIVERSE}
        counts, distinct = collections.Counter(), set()
        nb, ne, _, _ = _validate(harness, os.path.join(d, "t"), [json.dumps(j["behaviour"])], hcfg, 1, world.get("name", "v3a2"), res, counts, distinct)
        res["behaviours"], res["events"], res["event_counts"] = nb, ne, dict(counts)
        return res
    finally:
        shutil.rmtree(d, ignore_errors=True)
