"""Staking family pipeline: C06 (validator-set updates), C07 (consensus-key registry), C16 (epoch queues).

spec/Staking.tla  <->  harness/staking.go (x/operator key registry + opt-in, x/dogfood, the dogfood
hooks of x/delegation and x/epochs; whole blocks through app.BeginBlocker / app.EndBlocker).
"""
import collections
import json
import os
import shutil

import vlib

PROPERTIES = ["C06", "C07", "C16"]

# every replayed behaviour ends with the driver event "Tail" (harness/staking.go: tail): epoch-closing blocks
# until every dogfood queue and pending list has fired, then a power change of every operator, then two
# more epoch-closing blocks, so that the validator updates after the last prune are observed as well

# deviations of spec/Staking.tla that describe the CURRENT tree (strict lane / generation)
DEVS = ["ALWAYS", "L17"]

WORLDS = {
    # three operators, two genesis validators (o1: key k4 power 2, o2: key k2 power 1), five keys
    "w3": dict(module="MC_Staking_q.tla", gencfg="MC_Staking_gen.cfg",
               hcfg={"operators": 3, "keys": 5, "genvals": {"o1": {"k": "k4", "p": 2}, "o2": {"k": "k2", "p": 1}},
                     "maxVals": 2, "n": 1, "deci": 0, "devs": DEVS, "scales": ["1", "1", "1000003"]}, share=0.7),
    # same, asset with one decimal: amounts 5/10/15 (x scale) -> sub-unit and truncated powers
    "w3sub": dict(module="MC_Staking_q.tla", gencfg="MC_Staking_gen_sub.cfg",
                  hcfg={"operators": 3, "keys": 5, "genvals": {"o1": {"k": "k4", "p": 2}, "o2": {"k": "k2", "p": 1}},
                        "maxVals": 2, "n": 1, "deci": 1, "devs": DEVS, "scales": ["1", "1", "3"]}, share=0.3),
}

TAG_UNIVERSE = {
    "C06": ["C06_TopSet", "C06_WellFormed", "C06_AgreeEngine", "C06_AgreeTotal", "C06_AgreeUpdates", "C06_QuietOtherwise",
            "C06_EngineRejects"],
    "C07": ["C07_Injective", "C07_IndexesAgree", "C07_OrphanReverse", "C07_Slashable", "C07_PrunedThen", "C07_NoSetWhileRemoving"],
    "C16": ["C16_ReleasedEarly", "C16_ReleasedLate", "C16_NotReleasedOnTime", "C16_ReleasedOutsideEndBlock", "C16_Drained",
            "C16_Once", "C16_HoldDecision"],
}

ASSUMPTIONS = [
    "messages run at msg-server / keeper level on a cache of the block state that is written only on success (tx semantics); "
    "blocks are app.EndBlocker + app.BeginBlocker on the deliver-state context with chosen block times (ctx-mode, no Commit)",
    "voting power input: one asset with price 1; the real operator epoch hook computes the USD values (C05 owns the formula)",
    "no slashing execution in this family (shares stay 1:1); jailing through dogfood's StakingKeeper interface",
    "every behaviour is continued by a tail (driver event Tail, expanded into ordinary logged events): epoch-closing blocks until every "
    "dogfood queue and pending list is empty, then one power unit delegated to every operator, then two more epoch-closing blocks; "
    "delegation.EndBlock's release of matured, unheld records is modelled only as the disappearance of the record (its credit belongs to C03)",
    "a behaviour ends when CometBFT refuses an update list (the chain would halt)",
]


def run(tier, seed):
    harness = vlib.build_harness()
    d = vlib.scratch("staking")
    try:
        return _run(tier, seed, harness, d)
    finally:
        shutil.rmtree(d, ignore_errors=True)


# ----------------------------------------------------------------------------------------------
# which listed deviation explains which culprit (computed from the OBSERVED trace lines)

def analyse(lines):
    """per line index: the deviation triggers observed so far in this behaviour.
    Returns list ctx[i] = dict(stuck={o: key}, leak=set(keys), actdrop=set(keys), window=bool)"""
    stuck, leak, actdrop = {}, set(), set()
    wasact = {}
    out = []
    pre = None
    for ln in lines:
        st = ln["st"]
        window = False
        if pre is not None and ln["ev"] != "reset":
            a = ln.get("a", {})
            o = a.get("o")
            if ln["ev"] == "OptOut" and ln["ok"] and o in st["removing"] and o not in st["finish"]:
                stuck[o] = st["fwd1"].get(o)          # L3: marker set, nothing scheduled
            if ln["ev"] == "SetKey" and ln["ok"]:
                old = pre["fwd1"].get(o)
                if old and old != st["fwd1"].get(o):
                    if o in pre["prev"] and st["rev"].get(old) == o:
                        leak.add(old)                 # LEAK: second replacement in the epoch
            if ln["ev"] in ("SetKey", "OptOut") and ln["ok"]:
                old = pre["fwd1"].get(o)
                if old and wasact.get(old) == o and old not in pre["vals"] and old not in st["rev"]:
                    actdrop.add(old)                  # ACT: was active earlier, dropped at once
            if ln["ev"] == "Undelegate" and ln.get("panic") and o in pre["pOpt"]:
                window = True                         # WINDOW: finish epoch gone, marker still set
        for k in list(wasact):
            if st["rev"].get(k) != wasact[k]:
                del wasact[k]
        for k in st["vals"]:
            if k in st["rev"]:
                wasact[k] = st["rev"][k]
        out.append(dict(stuck=dict(stuck), leak=set(leak), actdrop=set(actdrop), window=window))
        pre = st
    return out


def explain(tag, who, ctx, line):
    """map each culprit of `tag` to the deviation that explains it (or None)"""
    res = {}
    pfx = tag + ":"
    for w in who:
        if not w.startswith(pfx):
            continue
        x = w[len(pfx):]
        dev = None
        if tag == "C07_IndexesAgree" and x in ctx["stuck"]:
            dev = "L3"
        elif tag == "C07_Injective" and x in ctx["stuck"].values():
            dev = "L3"
        elif tag == "C16_NotReleasedOnTime" and x.startswith("O:") and x[2:] in ctx["stuck"]:
            dev = "L3"
        elif tag == "C16_HoldDecision" and line.get("ok") and (line.get("a") or {}).get("path") == "pc":
            dev = "PCHOOK"                            # path = precompile: the keeper copy without hooks
        elif tag == "C16_HoldDecision" and line.get("panic"):
            if ctx["window"]:
                dev = "WINDOW"
            elif x in ctx["stuck"]:
                dev = "L3"
        elif tag in ("C07_PrunedThen", "C07_OrphanReverse") and x in ctx["leak"]:
            dev = "LEAK"
        elif tag == "C07_Slashable" and x in ctx["actdrop"]:
            dev = "ACT"
        elif tag == "C07_Slashable" and line["st"]["rev"].get(x) and line["st"]["rev"][x] not in line["st"]["fwd1"] and not line["st"]["vbc"].get(x):
            dev = "NOKEY"      # the reverse lookup is there, its operator has no current key any more
        res[x] = dev
    return res


def finding_matches(f, t):
    """tag occurrence t = {tags:[one tag], expl:{tag:{culprit:dev}}}: the listed finding f explains it iff
    every culprit is explained by SOME listed deviation and f's deviation is one of them"""
    tag = f["tag"]
    ex = (t.get("expl") or {}).get(tag)
    if not ex:
        return False
    known = {g["match"]["dev"] for g in vlib.known_findings().get("findings", []) if g.get("tag") == tag and g.get("property") == f["property"]}
    if any(d is None or d not in known for d in ex.values()):
        return False
    return f["match"]["dev"] in ex.values()


# ----------------------------------------------------------------------------------------------

def _validate(dt, harness, behs, hcfg, seed):
    vlib.stage_specs(dt, with_override=True)
    cpath = os.path.join(dt, "beh.ndjson")
    open(cpath, "w").write("\n".join(behs) + "\n")
    p = vlib.sh([harness, "staking", "-in", cpath, "-out", os.path.join(dt, "trace.ndjson"), "-seed", str(seed), "-cfg", json.dumps(hcfg)], timeout=900, check=False)
    if p.returncode != 0:
        raise vlib.Infra("harness staking failed:\n" + p.stdout[-3000:])
    lines = [json.loads(x) for x in open(os.path.join(dt, "trace.ndjson")) if x.strip()]
    tags, nstates = vlib.tlc_trace(dt, "Trace_Staking.tla", "Trace_Staking.cfg", timeout=3000)
    if nstates != len(lines) + 1:
        raise vlib.Infra(f"trace not fully consumed: {nstates} states for {len(lines)} lines")
    return lines, tags


def _attach(lines, tags, behs, wname, res, counts, distinct, notes):
    bidx, starts = [], []
    cur = -1
    for i, ln in enumerate(lines):
        if ln["ev"] == "reset":
            cur += 1
            starts.append(i)
        bidx.append(cur)
    ctxs = {}
    for b, s0 in enumerate(starts):
        e0 = starts[b + 1] if b + 1 < len(starts) else len(lines)
        for i, c in enumerate(analyse(lines[s0:e0])):
            ctxs[s0 + i] = c
    for ln in lines:
        if ln["ev"] != "reset":
            counts[f"{ln['ev']}:{'ok' if ln['ok'] else ('panic' if ln.get('panic') else 'fail')}"] += 1
            distinct.add(json.dumps([ln["ev"], ln["a"], ln["ok"]], sort_keys=True))
            if ln["ev"] == "EndBlock":
                if ln["st"]["rsp"]:
                    counts["EndBlock:with_updates"] += 1
                if not ln["st"]["cmt"]["ok"]:
                    counts["EndBlock:engine_rejects"] += 1
            if ln["ev"] == "BeginBlock" and ln["st"]["flag"]:
                counts["BeginBlock:epoch_closed"] += 1
            if ln["ev"] == "Undelegate" and ln["ok"]:
                counts["Undelegate:held" if any(r["id"] == ln["a"]["id"] and r["hold"] > 0 for r in ln["st"]["recs"]) else "Undelegate:not_held"] += 1
    for t in tags:
        li = t["l"] - 1
        b = bidx[li]
        for x in t["tags"]:
            if x.startswith("NOTE_"):
                notes[x] += 1
        keep = [x for x in t["tags"] if not x.startswith("NOTE_")]
        if not keep:
            continue
        t["tags"] = keep
        t["world"] = wname
        t["behaviour"] = json.loads(behs[b])
        t["observed"] = {k: lines[li].get(k) for k in ("ev", "a", "ok", "err", "panic")}
        t["scale"] = lines[starts[b]].get("scale")
        t["expl"] = {x: explain(x, t.get("who", []), ctxs[li], lines[li]) for x in keep if x[:3] in ("C06", "C07", "C16")}
        res["tags"].append(t)
    return cur + 1


def _leads(dm, cfg, timeout):
    """lead lane: BFS over the model of the CURRENT tree; every behaviour that newly breaks a property in
    the MODEL is printed by the LeadEmit invariant; keep a few shortest per set of broken predicates"""
    out, rc = vlib.tlc(dm, "MC_Staking_q.tla", cfg, timeout=timeout)
    st = vlib.tlc_stats(out)
    if st is None or "Error:" in out:
        raise vlib.Infra("lead lane failed:\n" + out[-3000:])
    by = collections.defaultdict(list)
    for line in out.split("\n"):
        line = line.strip()
        if line.startswith('"LEAD '):
            j = json.loads(json.loads(line)[5:])
            by[tuple(sorted(j["tags"]))].append(j["hist"])
    behs = []
    for k, hs in sorted(by.items()):
        hs.sort(key=lambda h: (len(h), json.dumps(h, sort_keys=True)))
        seen = set()
        for h in hs:
            sig = tuple(e["ev"] for e in h)
            if sig not in seen:
                seen.add(sig)
                behs.append(json.dumps(h))
            if len(seen) >= 60:
                break
    return behs, {"cfg": cfg, "states": st["distinct"], "transitions": st["generated"], "leads": sum(len(v) for v in by.values()),
                  "lead_classes": [list(k) for k in sorted(by)]}


def _with_tail(b):
    h = json.loads(b)
    return json.dumps(h + [{"ev": "Tail", "a": {}}])


def _cover(dm, cfg, timeout):
    """class cover: breadth-first run with ACTION_CONSTRAINT CoverEdge prints one shortest behaviour per
    transition class (MC_Staking!EdgeClass / BlockClass); one worker, the class register is per thread"""
    out, rc = vlib.tlc(dm, "MC_Staking_q.tla", cfg, workers=1, timeout=timeout)
    st = vlib.tlc_stats(out)
    if st is None or "Error:" in out or st["queue"] != 0:
        raise vlib.Infra(f"class cover run failed ({cfg}):\n" + out[-3000:])
    behs = []
    for line in out.split("\n"):
        line = line.strip()
        if line.startswith('"BEHAVIOUR '):
            behs.append(json.loads(line)[len("BEHAVIOUR "):])
    if not behs:
        raise vlib.Infra(f"no behaviours printed by {cfg}")
    return behs, {"cfg": cfg, "classes": len(behs), "states": st["distinct"], "transitions": st["generated"]}


def _run(tier, seed, harness, d):
    res = {"family": "staking", "mc": [], "tags": [], "samples": [], "tag_universe": TAG_UNIVERSE, "assumptions": ASSUMPTIONS}
    # 1. exhaustive check of the properties on the model of the CURRENT (repaired) tree, pure TLA+ numbers
    dm = os.path.join(d, "mc")
    os.makedirs(dm)
    vlib.stage_specs(dm, with_override=False)
    mcs = [("MC_Staking_q.tla", "MC_Staking_q.cfg")] + ([("MC_Staking_q.tla", "MC_Staking_t.cfg")] if tier != "quick" else [])
    skip_mc = bool(os.environ.get("VERIF_STAKING_SKIP_MC"))   # development aid (mutation runs): replay lanes only
    for module, cfg in mcs:
        if skip_mc or not os.path.exists(os.path.join(dm, cfg)):
            continue
        m = vlib.tlc_mc(dm, module, cfg, timeout=3000)
        if m["violated"]:
            raise vlib.Infra(f"model counterexample in {cfg}: {m['violated']} (lead, not a verdict)\n" + m["out"][-3000:])
        res["mc"].append(m)
    # 1b. vacuity / regression guard: the model of the PRE-FIX tree (c_DEVS_guard) must break the properties
    if not skip_mc:
        m = vlib.tlc_mc(dm, "MC_Staking_q.tla", "MC_Staking_dev.cfg", timeout=1500)
        res["mc_dev"] = {"cfg": "MC_Staking_dev.cfg", "violated": m["violated"], "states": m["states"], "wall_s": m["wall_s"]}
        if not m["violated"]:
            raise vlib.Infra("MC_Staking_dev.cfg: the model of the pre-fix tree satisfies every property (the invariants no longer see the repaired defects)")
    # 2..4 per world: generate from the model of the current tree, replay on the real code, validate
    nbeh = 90 if tier == "quick" else 800
    counts = collections.Counter()
    notes = collections.Counter()
    distinct = set()
    total_beh = total_ev = 0
    for wname, w in WORLDS.items():
        dg = os.path.join(d, "gen-" + wname)
        os.makedirs(dg)
        vlib.stage_specs(dg, with_override=False)
        behs = vlib.tlc_simulate(dg, w["module"], w["gencfg"], num=max(10, int(nbeh * w["share"])), depth=45, seed=seed + 2000)
        nsim = len(behs)
        res.setdefault("generated", {})[wname] = {"simulated": len(behs)}
        # model counterexamples (leads) found earlier by the lead lane and kept as a corpus; the thorough
        # tier recomputes them
        sp = os.path.join(vlib.VERIF, "seeded", "staking_leads.ndjson")
        if wname != "w3":
            pass
        elif tier != "quick" and os.path.exists(os.path.join(dm, "MC_Staking_leads.cfg")):
            lb, info = _leads(dm, "MC_Staking_leads.cfg", 3000)
            res["lead_lane"] = info
            behs = lb + behs
            res["generated"][wname]["leads"] = len(lb)
        elif os.path.exists(sp):
            lb = [x.strip() for x in open(sp) if x.strip()]
            behs = lb + behs
            res["generated"][wname]["seeded_leads"] = len(lb)
        # class cover of the model of the current tree (one shortest behaviour per transition class):
        # corpus in the quick tier, recomputed in the thorough tier
        cp = os.path.join(vlib.VERIF, "seeded", "staking_cover.ndjson")
        if wname != "w3":
            pass
        elif tier != "quick" and os.path.exists(os.path.join(dm, "MC_Staking_cov.cfg")):
            cb, info = _cover(dm, "MC_Staking_cov.cfg", 3000)
            res["cover"] = info
            behs = cb + behs
            res["generated"][wname]["cover"] = len(cb)
        elif os.path.exists(cp):
            cb = [x.strip() for x in open(cp) if x.strip()]
            behs = cb + behs
            res["generated"][wname]["seeded_cover"] = len(cb)
        behs = [_with_tail(b) for b in behs]
        # lead / class-cover behaviours are replayed at the model's own amounts (their class is defined
        # there: a scaled amount can turn the covered transition into a different one); the simulated
        # behaviours get a seed-chosen amount scale
        ncorpus = len(behs) - nsim
        groups = [(behs[:ncorpus], dict(w["hcfg"], scales=["1"])), (behs[ncorpus:], w["hcfg"])]
        chunk = 150
        parts = [(g[ci:ci + chunk], hc) for g, hc in groups for ci in range(0, len(g), chunk)]
        for ci, (part, hc) in enumerate(parts):
            dt = os.path.join(d, f"trace-{wname}-{ci}")
            os.makedirs(dt)
            lines, tags = _validate(dt, harness, part, hc, seed)
            total_beh += _attach(lines, tags, part, wname, res, counts, distinct, notes)
            total_ev += len(lines)
            if not res["samples"]:
                res["samples"] = [{"behaviour": json.loads(part[0]), "first_trace_lines": [{k: v for k, v in ln.items() if k != "st"} for ln in lines[1:8]]}]
    res["behaviours"] = total_beh
    res["events"] = total_ev
    res["event_counts"] = dict(counts)
    res["notes"] = dict(notes)
    res["distinct_nontrivial"] = len(distinct)
    res["rule"] = ("behaviours = TLC -simulate runs of MC_Staking with DEVS = the current tree (failing / no-op events limited per "
                   "behaviour, block boundaries weighted up, validator set kept non-empty), concretised with a seed-chosen amount "
                   "scale and replayed on the real app, plus the lead behaviours (model counterexamples of the properties found by BFS "
                   "on the same model: seeded corpus in the quick tier, recomputed in the thorough tier); "
                   "distinct_nontrivial = distinct (event, concrete args, result) triples")
    return res


def replay(path):
    j = json.load(open(path))
    harness = vlib.build_harness()
    d = vlib.scratch("staking-replay")
    try:
        w = WORLDS[j["world"]]
        behs = [json.dumps(j["behaviour"])]
        hc = dict(w["hcfg"])
        hc["scales"] = [str(j.get("scale") or "1")]
        lines, tags = _validate(d, harness, behs, hc, 1)
        res = {"family": "staking", "mc": [], "tags": [], "samples": [j["behaviour"]], "tag_universe": TAG_UNIVERSE}
        n = _attach(lines, tags, behs, j["world"], res, collections.Counter(), set(), collections.Counter())
        res["behaviours"], res["events"] = n, len(lines)
        return res
    finally:
        shutil.rmtree(d, ignore_errors=True)
