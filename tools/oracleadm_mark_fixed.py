#!/usr/bin/env python3
"""oracleadm_mark_fixed.py <deviation> <commit> "<what failed>"

Run after a `fix:` commit repaired one of the deviations the oracleadm family (C13) models (L6, L7, L27):
  * tools/fam_oracleadm.py: the deviation leaves DEV_CURRENT (strict lane and behaviour generation follow the fixed code;
    the devL<..> guard config keeps running as a regression-tag check through DEV_FIXED)
  * spec/MC_OracleAdm_gen*.cfg: DEV set of the generating model
  * known_findings.json: the findings filed under the deviation move from "findings" to "fixed"
Example: python3 tools/oracleadm_mark_fixed.py L27 <commit> "a validator that left the set kept its nonce entry ..."
"""
import glob
import json
import os
import re
import sys

FINDINGS = {"L6": ["F-ORA-L6"], "L7": ["F-ORA-L7"], "L27": ["F-ORA-L27", "F-ORA-L27w"]}
here = os.path.dirname(os.path.dirname(os.path.abspath(__file__)))
dev, commit, what = sys.argv[1], sys.argv[2], sys.argv[3]
p = os.path.join(here, "tools", "fam_oracleadm.py")
s = open(p).read()
m = re.search(r'(?m)^DEV_CURRENT = (\[.*\])$', s)
cur = [x for x in json.loads(m.group(1)) if x != dev]
s = s[:m.start()] + "DEV_CURRENT = " + json.dumps(cur) + s[m.end():]
open(p, "w").write(s)
for f in glob.glob(os.path.join(here, "spec", "MC_OracleAdm_gen*.cfg")):
    c = open(f).read()
    c = re.sub(r'(?m)^  DEV = .*$', "  DEV = {" + ", ".join('"%s"' % x for x in cur) + "}", c)
    open(f, "w").write(c)
kp = os.path.join(here, "known_findings.json")
kf = json.load(open(kp))
tags = sorted({f["tag"] for f in kf["findings"] if f["id"] in FINDINGS[dev]})
kf["findings"] = [f for f in kf["findings"] if f["id"] not in FINDINGS[dev]]
kf.setdefault("fixed", []).append({"entry": f"fixed: property=C13 {commit} {what} (former {'/'.join(FINDINGS[dev])}, tag {', '.join(tags)})", "property": "C13"})
json.dump(kf, open(kp, "w"), indent=1)
print("DEV_CURRENT =", cur)
