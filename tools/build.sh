#!/bin/bash
# Build the harness (sources in /verif/harness) INTO the /repo module with the verif tag on.
# Always compiles /repo's current working tree. Output: /verif/bin/harness
set -euo pipefail
export GOFLAGS=-mod=mod GOPROXY=off GOSUMDB=off GOTOOLCHAIN=local
VERIF=${VERIF:-/verif}
REPO=${REPO:-/repo}
mkdir -p "$VERIF/bin"
TAGN=$(echo -n "$REPO" | md5sum | cut -c1-8)
OUT="$VERIF/bin/harness"; [ "$REPO" = "/repo" ] || OUT="$VERIF/bin/harness-$TAGN"
OV="$VERIF/bin/overlay-$TAGN.json"
python3 - "$VERIF" "$REPO" > "$OV" <<'PY'
import json,os,sys
verif,repo=sys.argv[1],sys.argv[2]
rep={}
for f in sorted(os.listdir(os.path.join(verif,'harness'))):
    if f.endswith('.go'):
        rep[os.path.join(repo,'verifharness',f)]=os.path.join(verif,'harness',f)
# extra overlays (hook implementations living in /verif): harness/overlay/<path relative to repo>
base=os.path.join(verif,'harness','overlay')
for root,_,files in os.walk(base):
    for f in files:
        p=os.path.join(root,f)
        rep[os.path.join(repo,os.path.relpath(p,base))]=p
print(json.dumps({"Replace":rep},indent=1))
PY
cd "$REPO"
go build -tags verif -overlay "$OV" -o "$OUT" ./verifharness/
echo "$OUT"
