#!/bin/bash
# Build the harness (sources in /verif/harness) INTO the /repo module with the verif tag on.
# Always compiles /repo's current working tree. Output: /verif/bin/harness
#
# All family drivers live in one `package main`. If the tree under test no longer compiles against ONE
# family's driver or overlay file (a refactoring renamed something that driver refers to), that family is
# left out and the build is retried, so that the other families' checks can still answer; the families left
# out are listed in <binary>.excluded (their checks then exit 2 = cannot answer, never a verdict).
set -euo pipefail
export GOFLAGS=-mod=mod GOPROXY=off GOSUMDB=off GOTOOLCHAIN=local
VERIF=${VERIF:-/verif}
REPO=${REPO:-/repo}
mkdir -p "$VERIF/bin"
TAGN=$(echo -n "$REPO" | md5sum | cut -c1-8)
OUT="$VERIF/bin/harness"; [ "$REPO" = "/repo" ] || OUT="$VERIF/bin/harness-$TAGN"
OV="$VERIF/bin/overlay-$TAGN.json"
python3 - "$VERIF" "$REPO" "$OV" "$OUT" <<'PY'
import json,os,re,subprocess,sys
verif,repo,ov,out=sys.argv[1:5]
FAMS=["oracleadm","oracle","nstfeed","atomic","ledger","liveness","epochs","auth","fees","chain","staking","votingpower","evmtx","avs"]
OVERLAY_FAM={"verif_dump_adm.go":"oracleadm","verif_dump.go":"oracle","verif_nstfeed.go":"nstfeed"}
def family_of(path):
    b=os.path.basename(path)
    if b in OVERLAY_FAM: return OVERLAY_FAM[b]
    for f in FAMS:                       # longest names first: oracleadm before oracle
        if b.startswith(f): return f
    return None
def files(excluded):
    rep={}
    for f in sorted(os.listdir(os.path.join(verif,'harness'))):
        if f.endswith('.go') and family_of(f) not in excluded:
            rep[os.path.join(repo,'verifharness',f)]=os.path.join(verif,'harness',f)
    base=os.path.join(verif,'harness','overlay')       # hook implementations living in /verif
    for root,_,fs in os.walk(base):
        for f in fs:
            p=os.path.join(root,f)
            if family_of(p) not in excluded:
                rep[os.path.join(repo,os.path.relpath(p,base))]=p
    return rep
excluded=set()
for attempt in range(8):
    rep=files(excluded)
    json.dump({"Replace":rep},open(ov,"w"),indent=1)
    p=subprocess.run(["go","build","-tags","verif","-overlay",ov,"-o",out,"./verifharness/"],cwd=repo,stdout=subprocess.PIPE,stderr=subprocess.STDOUT,text=True)
    if p.returncode==0:
        break
    # which of OUR files do the errors name? (errors in exocore's own files = the tree does not compile: fatal)
    ours={os.path.relpath(k,repo):v for k,v in rep.items()}
    bad=set()
    for m in re.finditer(r'^(?:\./)?([^\s:]+\.go):\d+', p.stdout, re.M):
        f=m.group(1)
        cand=[k for k in ours if k==f or k.endswith('/'+f) or f.endswith(k)]
        for k in cand:
            fam=family_of(ours[k])
            if fam: bad.add(fam)
    if not bad:
        sys.stderr.write(p.stdout); sys.exit(1)
    sys.stderr.write("build: leaving out families that do not compile against this tree: %s\n%s\n" % (sorted(bad), p.stdout[-1500:]))
    excluded|=bad
else:
    sys.exit(1)
open(out+".excluded","w").write("\n".join(sorted(excluded)))
PY
echo "$OUT"
