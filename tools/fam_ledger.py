"""Ledger family pipeline: C01 C02 C03 C04 C09(ledger part)."""
import collections
import json
import os
import shutil

import vlib

PROPERTIES = ["C01", "C02", "C03", "C04", "C09"]

WORLDS = {
    # name: (MC module/cfg used for generation, harness cfg)
    "lst2x2": dict(module="MC_Ledger_q.tla", gencfg="MC_Ledger_gen.cfg",
                   hcfg={"stakers": 2, "operators": 2, "assets": ["lst"], "holdops": ["o1"],
                         "scales": ["1", "1000000", "1000003", "700000000000000003"], "blocksPer": 5, "modelPrec": 100}),
}

TAG_UNIVERSE = {
    "C01": ["C01_Conservation", "C01_Published", "C01_Escrow", "C01_NonNegative", "C01_OnlyDepositsCreate"],
    "C02": ["C02_ShareSum", "C02_SelfShare", "C02_ListExact", "C02_EmptyPool", "C02_Fair", "C02_RoundTripIn", "C02_RoundTripOut"],
    "C03": ["C03_PendingSums", "C03_IndexBijective", "C03_AcceptUndelegate", "C03_AcceptWithdraw", "C03_OneRecord",
            "C03_RecordLostOrChanged", "C03_SpuriousRecord", "C03_ReleasedEarly", "C03_ReleasedWhileHeld",
            "C03_NotReleasedWhenDue", "C03_Credit"],
    "C04": ["C04_Proportion", "C04_SameFractionPools", "C04_SameFractionUndelegations", "C04_NotAtRiskTouched", "C04_Frame",
            "C04_ReplayAccepted", "C04_ReplaySlashedAgain", "C04_NotRecorded", "C04_RecordedPools", "C04_RecordedUndelegations"],
    "C09": ["C09_FailedButChanged"],
}


def run(tier, seed):
    harness = vlib.build_harness()
    d = vlib.scratch("ledger")
    try:
        return _run(tier, seed, harness, d)
    finally:
        shutil.rmtree(d, ignore_errors=True)


def _run(tier, seed, harness, d):
    res = {"family": "ledger", "mc": [], "tags": [], "samples": [], "tag_universe": TAG_UNIVERSE,
           "assumptions": ["entry points driven at keeper level on a CacheContext of a full ExocoreApp (ctx-mode)",
                           "dogfood hold placement abstracted as HOLDOPS; holds released by DecrementUndelegationHoldCount",
                           "every undelegation request carries a fresh (nonce, tx hash) pair (FRESH = TRUE)"]}
    # 1. exhaustive model check (pure TLA+ numbers: no override in this directory)
    dm = os.path.join(d, "mc")
    os.makedirs(dm)
    vlib.stage_specs(dm, with_override=False)
    mcs = [("MC_Ledger_q.tla", "MC_Ledger_q.cfg")] if tier == "quick" else [("MC_Ledger_q.tla", "MC_Ledger_q.cfg"), ("MC_Ledger_t.tla", "MC_Ledger_t.cfg")]
    for module, cfg in mcs:
        if not os.path.exists(os.path.join(dm, cfg)):
            continue
        m = vlib.tlc_mc(dm, module, cfg, timeout=3000)
        if m["violated"]:
            raise vlib.Infra(f"model counterexample in {cfg}: {m['violated']} (lead, not a verdict)\n" + m["out"][-3000:])
        res["mc"].append(m)
    # 2..4 per world: generate, replay on the real code, validate
    nbeh = 120 if tier == "quick" else 1500
    counts = collections.Counter()
    distinct = set()
    total_beh = total_ev = 0
    for wname, w in WORLDS.items():
        dg = os.path.join(d, "gen-" + wname)
        os.makedirs(dg)
        vlib.stage_specs(dg, with_override=False)
        behs = vlib.tlc_simulate(dg, w["module"], w["gencfg"], num=nbeh, depth=40, seed=seed + 1000)
        bpath = os.path.join(dg, "beh.ndjson")
        open(bpath, "w").write("\n".join(behs) + "\n")
        # replay + validate in chunks (one TLC run per chunk)
        chunk = 150
        for ci in range(0, len(behs), chunk):
            dt = os.path.join(d, f"trace-{wname}-{ci}")
            os.makedirs(dt)
            vlib.stage_specs(dt, with_override=True)
            cpath = os.path.join(dt, "beh.ndjson")
            open(cpath, "w").write("\n".join(behs[ci:ci + chunk]) + "\n")
            p = vlib.sh([harness, "ledger", "-in", cpath, "-out", os.path.join(dt, "trace.ndjson"), "-seed", str(seed), "-cfg", json.dumps(w["hcfg"])], timeout=900, check=False)
            if p.returncode != 0:
                raise vlib.Infra("harness ledger failed:\n" + p.stdout[-3000:])
            lines = [json.loads(x) for x in open(os.path.join(dt, "trace.ndjson")) if x.strip()]
            tags, nstates = vlib.tlc_trace(dt, "Trace_Ledger.tla", "Trace_Ledger.cfg", timeout=3000)
            if nstates != len(lines) + 1:
                raise vlib.Infra(f"trace not fully consumed: {nstates} states for {len(lines)} lines")
            # map each line to its behaviour
            bidx, starts = [], []
            cur = -1
            for i, ln in enumerate(lines):
                if ln["ev"] == "reset":
                    cur += 1
                    starts.append(i)
                bidx.append(cur)
            for ln in lines:
                if ln["ev"] != "reset":
                    counts[f"{ln['ev']}:{'ok' if ln['ok'] else 'fail'}"] += 1
                    distinct.add(json.dumps([ln["ev"], ln["a"], ln["ok"]], sort_keys=True))
            for t in tags:
                li = t["l"] - 1
                b = bidx[li]
                t["world"] = wname
                t["behaviour"] = json.loads(behs[ci + b])
                t["observed"] = {k: lines[li].get(k) for k in ("ev", "a", "ok", "err", "panic")}
                t["scale"] = lines[starts[b]].get("scale")
                res["tags"].append(t)
            total_beh += cur + 1
            total_ev += len(lines)
            if not res["samples"]:
                res["samples"] = [{"behaviour": json.loads(behs[0]), "first_trace_lines": [{k: v for k, v in ln.items() if k != "st"} for ln in lines[1:6]]}]
    res["behaviours"] = total_beh
    res["events"] = total_ev
    res["event_counts"] = dict(counts)
    res["distinct_nontrivial"] = len(distinct)
    res["rule"] = ("behaviours = TLC -simulate runs of MC_Ledger (failing operations limited per behaviour), concretised with a "
                   "seed-chosen amount scale and replayed on the real keepers; distinct_nontrivial = distinct (event, concrete args, result) triples")
    return res


def finding_matches(f, t):
    """does tag occurrence t match the known finding f?"""
    return False


def replay(path):
    j = json.load(open(path))
    harness = vlib.build_harness()
    d = vlib.scratch("ledger-replay")
    try:
        w = WORLDS[j["world"]]
        vlib.stage_specs(d, with_override=True)
        open(os.path.join(d, "beh.ndjson"), "w").write(json.dumps(j["behaviour"]) + "\n")
        hc = dict(w["hcfg"])
        vlib.sh([harness, "ledger", "-in", os.path.join(d, "beh.ndjson"), "-out", os.path.join(d, "trace.ndjson"), "-seed", "1", "-cfg", json.dumps(hc)], timeout=600)
        tags, _ = vlib.tlc_trace(d, "Trace_Ledger.tla", "Trace_Ledger.cfg")
        for t in tags:
            t["world"] = j["world"]
            t["behaviour"] = j["behaviour"]
        return {"family": "ledger", "mc": [], "tags": tags, "behaviours": 1, "events": 0, "samples": [j["behaviour"]], "tag_universe": TAG_UNIVERSE}
    finally:
        shutil.rmtree(d, ignore_errors=True)
