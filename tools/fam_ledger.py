"""Ledger family pipeline: C01 C02 C03 C04 C09(ledger part)."""
import collections
import json
import os, time
import shutil

import vlib

PROPERTIES = ["C01", "C02", "C03", "C04", "C09"]

W1 = {"stakers": 2, "operators": 2, "assets": ["lst"], "holdops": ["o1"],
      "scales": ["1", "1000000", "1000003", "700000000000000003", "1000000000000000000000000000003"], "blocksPer": 5, "modelPrec": 100,
      "baseHeights": [1, 14, 254, 4094]}
W2 = {"stakers": 3, "operators": 3, "assets": ["nat", "lst", "nst"], "holdops": ["o1"],
      "scales": ["1", "1000003", "700000000000000003", "1000000000000000000000000000003"], "blocksPer": 5, "modelPrec": 100,
      "baseHeights": [1, 14, 254, 4094]}

W1P = dict(W1, path="precompile", scales=["1", "1000003"])

# generation profiles: (MC module, generation cfg, harness world, behaviours quick / thorough)
WORLDS = {
    "lst2x2": dict(module="MC_Ledger_q.tla", gencfg="MC_Ledger_gen.cfg", hcfg=W1, nq=40, nt=600),
    "lst2x2-precompile": dict(module="MC_Ledger_q.tla", gencfg="MC_Ledger_gen.cfg", hcfg=W1P, nq=20, nt=300),
    "w2all": dict(module="MC_Ledger_w2.tla", gencfg="MC_Ledger_gen_w2all.cfg", hcfg=W2, nq=25, nt=400),
    "w2slash": dict(module="MC_Ledger_w2.tla", gencfg="MC_Ledger_gen_w2slash.cfg", hcfg=W2, nq=15, nt=300),
    "w2slash2": dict(module="MC_Ledger_w2.tla", gencfg="MC_Ledger_gen_w2slash2.cfg", hcfg=W2, nq=15, nt=300),
    "w2nst": dict(module="MC_Ledger_w2.tla", gencfg="MC_Ledger_gen_w2nst.cfg", hcfg=W2, nq=25, nt=400),
    "w2nonce": dict(module="MC_Ledger_w2.tla", gencfg="MC_Ledger_gen_w2nonce.cfg", hcfg=W2, nq=10, nt=100),
}

W3 = {"stakers": 2, "operators": 2, "assets": ["lst", "nst"], "holdops": ["o1"],
      "scales": ["1", "1000003"], "blocksPer": 5, "modelPrec": 100}
# lead configurations: invariants that the FAITHFUL model violates exactly when the code has the
# corresponding defect; TLC's shortest counterexample is replayed on the real code (DESIGN 2.2)
LEADS = [("MC_Ledger_t.tla", "MC_Ledger_lead_atomic.cfg", dict(W3, blocksPer=10)),
         # C03 "never early, including records loaded from genesis": restart with a lower initial height
         ("MC_LedgerGenesis.tla", "MC_LedgerGenesis_lead.cfg", dict(W1, blocksPer=1, scales=["1"], baseHeights=[254]))]

# goal-directed generation: breadth-first TLC runs that print a shortest behaviour for every coverage
# goal (named branch of the transcription, Ledger!Goals) -> (module, cfg, harness world)
W4 = {"stakers": 2, "operators": 2, "assets": ["nat", "lst"], "holdops": ["o1"],
      "scales": ["1", "1000003"], "blocksPer": 5, "modelPrec": 100, "natFunds": "3"}
def _g(w):
    """goal configs use UNBOND = 1: ten real blocks per model EndBlock; moderate scales so that the slash
    power (scaled like the amounts) still fits int64"""
    return dict(w, blocksPer=10, scales=["1", "1000003"])


GOAL_EXTRA_SCALES = ["1000000000000000000000000000003"]

GOALS = [("MC_Ledger_goalA.tla", "MC_Ledger_goal_A.cfg", [_g(W1), _g(W1P)]), ("MC_Ledger_goalA.tla", "MC_Ledger_goal_A2.cfg", [_g(W1)]),
         ("MC_Ledger_goalB.tla", "MC_Ledger_goal_B.cfg", [_g(W3)]), ("MC_Ledger_goalB.tla", "MC_Ledger_goal_C.cfg", [_g(W3)]),
         ("MC_Ledger_n.tla", "MC_Ledger_goal_N.cfg", [_g(W4)]), ("MC_Ledger_goalS.tla", "MC_Ledger_goal_S.cfg", [_g(W1)]),
         ("MC_Ledger_goalS2.tla", "MC_Ledger_goal_S2.cfg", [_g(W1)]), ("MC_Ledger_goalW.tla", "MC_Ledger_goal_W.cfg", [_g(W1)]),
         ("MC_Ledger_goalD.tla", "MC_Ledger_goal_D.cfg", [_g(W3)])]

ALL_GOALS = """dep_ok wd_ok wd_over_balance_within_total wd_within_balance_over_total del_first_into_pool del_skewed_rate del_self
del_native del_again_after_empty del_top_up del_with_codelegator del_over_withdrawable und_partial und_full_exit_others_remain
und_last_share und_skewed_rate und_hold_placed und_native und_self und_second_pending_same_staker_asset und_over_position
assoc_with_position assoc_refused_with_position dissoc_with_position hold_released eb_release eb_release_two_in_one_block eb_release_partly_slashed
eb_release_fully_slashed eb_release_native eb_requeue_held eb_release_after_requeue slash_partial slash_full slash_wipes_pool
slash_hits_pending_record slash_record_to_zero slash_spares_older_record slash_multi_asset slash_pool_fully_unbonding_other_bonded
slash_partial_pool_fully_unbonding_other_bonded slash_partial_hits_pending_record
del_again_after_slash_wipe und_full_exit_from_slashed_operator assoc_with_positions_in_two_assets dissoc_with_positions_in_two_assets
slash_reduced_record_below_cap slash_caps_reduced_record slash_two_records slash_record_started_at_infraction_height slash_record_started_after_infraction_height
slash_infraction_at_current_height slash_replay slash_factor_above_one slash_zero_value_operator nst_up
nst_down_within_withdrawable nst_down_ends_inside_pending_records nst_down_reaches_shares nst_down_shares_two_operators
nst_down_skips_zero_share_row msgdel_two_entries msgdel_second_entry_fails msgund_two_operators
msgund_same_operator_twice msgund_second_entry_fails""".split()

TAG_UNIVERSE = {
    "C01": ["C01_Conservation", "C01_Published", "C01_Escrow", "C01_NonNegative", "C01_OnlyDepositsCreate", "C01_NstAdjustmentNotApplied"],
    "C02": ["C02_ShareSum", "C02_SelfShare", "C02_ListExact", "C02_EmptyPool", "C02_Fair", "C02_RoundTripIn", "C02_RoundTripOut"],
    "C03": ["C03_PendingSums", "C03_IndexBijective", "C03_AcceptUndelegate", "C03_AcceptWithdraw", "C03_OneRecord",
            "C03_RecordLostOrChanged", "C03_SpuriousRecord", "C03_ReleasedEarly", "C03_ReleasedWhileHeld",
            "C03_NotReleasedWhenDue", "C03_Credit", "C03_PendingSlashNotRecorded"],
    "C04": ["C04_Proportion", "C04_SameFractionPools", "C04_SameFractionUndelegations", "C04_NotAtRiskTouched", "C04_Frame",
            "C04_ReplayAccepted", "C04_ReplaySlashedAgain", "C04_NotRecorded", "C04_RecordedPools", "C04_RecordedUndelegations"],
    "C09": ["C09_FailedButChanged", "C09_EndBlockItemPartial"],
}


GOALS_FILE = os.path.join(vlib.SPEC, "goals_ledger.json")


def _goals_fingerprint():
    import hashlib
    h = hashlib.sha256()
    for f in sorted(os.listdir(vlib.SPEC)):
        if f in ("Ledger.tla", "Num.tla") or (f.startswith("MC_Ledger") and f.endswith(".tla")) or f.startswith("MC_Ledger_goal_"):
            h.update(f.encode())
            h.update(open(os.path.join(vlib.SPEC, f), "rb").read())
    return h.hexdigest()


def _stored_goals():
    try:
        j = json.load(open(GOALS_FILE))
    except (OSError, ValueError):
        return None
    return j if j.get("fingerprint") == _goals_fingerprint() else None


def _goal_search(item, d, workers):
    module, cfg, hcfgs = item
    dl = os.path.join(d, "goal-" + cfg)
    os.makedirs(dl)
    vlib.stage_specs(dl, with_override=False)
    t0 = time.time()
    out, rc = vlib.tlc(dl, module, cfg, workers=workers, timeout=3000)
    st = vlib.tlc_stats(out)
    if st is not None:
        st["wall_s"] = round(time.time() - t0, 1)
    if st is None or "Error:" in out:
        raise vlib.Infra(f"goal run {cfg} failed:\n" + out[-3000:])
    found = {}
    for line in out.split("\n"):
        line = line.strip()
        if line.startswith('"GOAL '):
            g, beh = json.loads(line)[5:].split(" ", 1)
            found.setdefault(g, set()).add(beh)
    return cfg, hcfgs, found, st


def regen_goals():
    """python3 tools/fam_ledger.py --regen-goals : run every goal configuration with ONE TLC worker and store the result"""
    import concurrent.futures as cf
    d = vlib.scratch("ledger-goals")
    try:
        with cf.ThreadPoolExecutor(max_workers=len(GOALS)) as ex:
            rs = list(ex.map(lambda g: _goal_search(g, d, 1), GOALS))
    finally:
        shutil.rmtree(d, ignore_errors=True)
    j = {"fingerprint": _goals_fingerprint(), "generated_by": "tlc -workers 1 (breadth-first, invariant EmitGoals) per goal configuration",
         "runs": {cfg: {"found": {g: sorted(bs) for g, bs in sorted(found.items())}, "stats": {k: v for k, v in st.items() if k != "out"}}
                  for cfg, _h, found, st in rs}}
    json.dump(j, open(GOALS_FILE, "w"), indent=0, sort_keys=True)
    print("stored", GOALS_FILE, {cfg: (len(r["found"]), r["stats"].get("distinct"), r["stats"].get("wall_s")) for cfg, r in j["runs"].items()})


def run(tier, seed):
    harness = vlib.build_harness()
    d = vlib.scratch("ledger")
    try:
        return _run(tier, seed, harness, d)
    finally:
        shutil.rmtree(d, ignore_errors=True)


def hand_behaviours():
    """seeded/ledger_leads.ndjson: one behaviour (JSON array of events) per line, replayed in the worlds of goal configuration S"""
    sp = os.path.join(vlib.VERIF, "seeded", "ledger_leads.ndjson")
    if not os.path.exists(sp):
        return []
    return [json.dumps(json.loads(x), separators=(",", ":")) for x in open(sp) if x.strip() and not x.startswith("#")]


def _run(tier, seed, harness, d):
    res = {"family": "ledger", "mc": [], "tags": [], "samples": [], "tag_universe": TAG_UNIVERSE,
           "assumptions": ["entry points driven at keeper level on a CacheContext of a full ExocoreApp (ctx-mode)",
                           "dogfood hold placement abstracted as HOLDOPS; holds released by DecrementUndelegationHoldCount",
                           "precompile worlds: assets/delegation precompile Run with the gateway as caller (no revert on false); since fix 103357a the precompiles reach the delegation hooks like the keeper path (HOOKED = TRUE)",
                           "every undelegation request carries a fresh (nonce, tx hash) pair (FRESH = TRUE)"]}
    # 1. exhaustive model check (pure TLA+ numbers: no override in this directory)
    dm = os.path.join(d, "mc")
    os.makedirs(dm)
    vlib.stage_specs(dm, with_override=False)
    mcs = [("MC_Ledger_q.tla", "MC_Ledger_q.cfg")] if tier == "quick" else \
        [("MC_Ledger_q.tla", "MC_Ledger_q.cfg"), ("MC_Ledger_q.tla", "MC_Ledger_q7.cfg"), ("MC_Ledger_t.tla", "MC_Ledger_t.cfg")]
    for module, cfg in mcs:
        if not os.path.exists(os.path.join(dm, cfg)):
            continue
        m = vlib.tlc_mc(dm, module, cfg, timeout=3000)
        if m["violated"]:
            raise vlib.Infra(f"model counterexample in {cfg}: {m['violated']} (lead, not a verdict)\n" + m["out"][-3000:])
        res["mc"].append(m)
    # 2..4 per world: generate, replay on the real code, validate (worlds in parallel)
    counts = collections.Counter()
    distinct = set()
    total_beh = total_ev = 0
    chunk = 60 if tier == "quick" else 150

    def gen_world(item):
        wname, w = item
        dg = os.path.join(d, "gen-" + wname)
        os.makedirs(dg)
        vlib.stage_specs(dg, with_override=False)
        nbeh = w["nq"] if tier == "quick" else w["nt"]
        return wname, vlib.tlc_simulate(dg, w["module"], w["gencfg"], num=nbeh, depth=60, seed=seed + 1000)[:nbeh * 2]

    def run_chunk(job):
        wname, ci, behs = job
        w = worlds[wname]
        dt = os.path.join(d, f"trace-{wname}-{ci}".replace(":", "_"))
        os.makedirs(dt)
        vlib.stage_specs(dt, with_override=True)
        cpath = os.path.join(dt, "beh.ndjson")
        open(cpath, "w").write("\n".join(behs) + "\n")
        p = vlib.sh([harness, "ledger", "-in", cpath, "-out", os.path.join(dt, "trace.ndjson"), "-seed", str(seed + ci), "-cfg", json.dumps(w["hcfg"])], timeout=900, check=False)
        if p.returncode != 0:
            raise vlib.Infra("harness ledger failed:\n" + p.stdout[-3000:])
        lines = [json.loads(x) for x in open(os.path.join(dt, "trace.ndjson")) if x.strip()]
        tags, nstates = vlib.tlc_trace(dt, "Trace_Ledger.tla", "Trace_Ledger.cfg", timeout=3000)
        if nstates != len(lines) + 1:
            raise vlib.Infra(f"trace not fully consumed: {nstates} states for {len(lines)} lines")
        return wname, ci, behs, lines, tags, vlib.LAST_COV.get(dt, [])

    import concurrent.futures as cf
    par = int(os.environ.get("VERIF_PAR", "10"))
    def lead(item):
        module, cfg, hcfg = item
        dl = os.path.join(d, "lead-" + cfg)
        os.makedirs(dl)
        vlib.stage_specs(dl, with_override=False)
        t0 = time.time()
        r, st = vlib.tlc_lead(dl, module, cfg)
        if st is not None:
            st["wall_s"] = round(time.time() - t0, 1)
        return cfg, hcfg, r, st

    stored = _stored_goals()

    def goal(item):
        module, cfg, hcfgs = item
        if stored is not None and cfg in stored["runs"] and not os.environ.get("VERIF_FRESH_GOALS"):
            # the goal search depends on the specification only (not on the code under test): its output was
            # generated by TLC with ONE worker (strict breadth-first order, deterministic) when the specification
            # last changed and is stored next to it; a run re-generates it only when the fingerprint differs
            r = stored["runs"][cfg]
            return cfg, hcfgs, {g: set(bs) for g, bs in r["found"].items()}, dict(r["stats"], stored=True)
        return _goal_search(item, d, 4 if tier == "quick" else 1)


    worlds = dict(WORLDS)
    with cf.ThreadPoolExecutor(max_workers=par) as ex:
        fg = [ex.submit(goal, g) for g in GOALS]
        gens = list(ex.map(gen_world, worlds.items()))
        leads = list(ex.map(lead, LEADS))
        goals = [f.result() for f in fg]
        jobs = []
        res["leads"] = []
        for cfg, hcfg, r, st in leads:
            res["leads"].append({"cfg": cfg, "invariant": r[0] if r else None, "behaviour": r[1] if r else None, "states": st["distinct"] if st else None, "wall_s": st.get("wall_s") if st else None})
            if r:
                wname = "lead:" + cfg
                worlds[wname] = dict(hcfg=hcfg)
                jobs.append((wname, 0, [json.dumps(r[1])]))
        res["goal_runs"] = []
        for cfg, hcfgs, found, st in goals:
            behs = sorted({b for bs in found.values() for b in sorted(bs)[:2]})
            # hand-shaped histories of the same world that no goal predicate singles out (seeded/ledger_leads.ndjson)
            if cfg == "MC_Ledger_goal_S.cfg":
                behs = sorted(set(behs) | set(hand_behaviours()))
            # the validator operator o1 carries its genesis self-stake in the real world (the bounded model
            # starts from empty pools): replay every goal behaviour also with o1 and o2 exchanged, so that the
            # goal's pool states are reached on the operator that starts empty
            behs = sorted(set(behs) | {b.replace('"o1"', '"o#"').replace('"o2"', '"o1"').replace('"o#"', '"o2"') for b in behs})
            res["goal_runs"].append({"cfg": cfg, "goals_reached": sorted(found), "behaviours": len(behs), "states": st["distinct"], "wall_s": st.get("wall_s"), "worlds": len(hcfgs),
                                     "source": "stored with the specification (TLC, one worker)" if st.get("stored") else "generated in this run"})
            # every goal behaviour is replayed at EVERY amount scale of its world (not at one picked at random):
            # unit amounts, amounts whose products need rounding, and amounts around 10^30 where a
            # divide-before-multiply or a mis-sized overflow guard loses whole units
            for wi, hcfg in enumerate(hcfgs):
                # ... and from start heights on both sides of a hex digit-count boundary (record keys embed
                # heights as unpadded hex: 0xe -> 0x18, 0xfe -> 0x108)
                variants = [("1000003", 14)] if hcfg.get("path") == "precompile" else \
                    list(zip(hcfg["scales"] + GOAL_EXTRA_SCALES, [14, 1, 254, 4094]))
                for si, (sc, base) in enumerate(variants):
                    wname = f"goal:{cfg}:{wi}:{si}"
                    worlds[wname] = dict(hcfg=dict(hcfg, scales=[sc], baseHeights=[base]))
                    for ci in range(0, len(behs), chunk):
                        jobs.append((wname, ci, behs[ci:ci + chunk]))
        for wname, behs in gens:
            for ci in range(0, len(behs), chunk):
                jobs.append((wname, ci, behs[ci:ci + chunk]))
        results = list(ex.map(run_chunk, jobs))
    covered = collections.Counter()
    for wname, ci, behs, lines, tags, cov in results:
        for g in cov:
            covered[g] += 1
        bidx, starts = [], []
        cur = -1
        for i, ln in enumerate(lines):
            if ln["ev"] == "reset":
                cur += 1
                starts.append(i)
            bidx.append(cur)
        for ln in lines:
            if ln["ev"] != "reset":
                counts[f"{ln['ev']}:{'ok' if ln['ok'] else 'fail'}"] += 1
                distinct.add(json.dumps([ln["ev"], ln["a"], ln["ok"]], sort_keys=True))
        for t in tags:
            li = t["l"] - 1
            b = bidx[li]
            t["world"] = wname
            t["pre_h"] = lines[li - 1]["st"]["h"] if li > 0 else None
            t["history"] = [dict(ev=x["ev"], a=x["a"], ok=x["ok"], h=lines[starts[b] + i]["st"]["h"])
                            for i, x in enumerate(lines[starts[b] + 1:li + 1])]
            t["behaviour"] = json.loads(behs[b])
            t["observed"] = {k: lines[li].get(k) for k in ("ev", "a", "ok", "err", "panic")}
            t["scale"] = lines[starts[b]].get("scale")
            res["tags"].append(t)
        total_beh += cur + 1
        total_ev += len(lines)
        if not res["samples"]:
            res["samples"] = [{"behaviour": json.loads(behs[0]), "first_trace_lines": [{k: v for k, v in ln.items() if k != "st"} for ln in lines[1:6]]}]
    res["extra"] = {"goals_covered_on_real_code": sorted(covered), "goal_runs": res.pop("goal_runs", []), "leads": res.pop("leads", []),
                    "goals_not_covered": sorted(set(ALL_GOALS) - set(covered))}
    res["behaviours"] = total_beh
    res["events"] = total_ev
    res["event_counts"] = dict(counts)
    res["distinct_nontrivial"] = len(distinct)
    res["rule"] = ("behaviours = TLC -simulate runs of MC_Ledger (failing operations limited per behaviour), concretised with a "
                   "seed-chosen amount scale and replayed on the real keepers; distinct_nontrivial = distinct (event, concrete args, result) triples")
    return res


def _big(x):
    return int(x)


def _collision_before(t):
    """an accepted undelegation whose index key (staker, asset, nonce) or (completion height, nonce)
    equals that of an earlier accepted one in this behaviour (h is the height the event ran at)"""
    seen = []
    for x in t["history"]:
        if x["ev"] == "Undelegate" and x["ok"]:
            reqs = [(x["a"]["s"], x["a"]["a"], x["a"]["nonce"], x["h"])]
        elif x["ev"] == "MsgUndelegate" and x["ok"]:
            # one MsgUndelegation = one nonce for every per-operator entry
            reqs = [(x["a"]["s"], "nat", x["a"]["nonce"], x["h"]) for _ in x["a"]["items"]]
        else:
            continue
        for (s_, a_, n_, h_) in reqs:
            k1, k2 = (s_, a_, n_), (h_, n_)
            for (a1, a2) in seen:
                if a1 == k1 or a2 == k2:
                    return True
            seen.append((k1, k2))
    return False


def _same_key_before(t):
    """an accepted undelegation with the same (operator, height, nonce, tx hash) as an earlier accepted one"""
    seen = set()
    for x in t["history"]:
        if x["ev"] == "Undelegate" and x["ok"]:
            ks = [(x["a"]["o"], x["h"], x["a"]["nonce"], x["a"]["txh"])]
        elif x["ev"] == "MsgUndelegate" and x["ok"]:
            ks = [(it["o"], x["h"], x["a"]["nonce"], x["a"]["txh"]) for it in x["a"]["items"]]
        else:
            continue
        for k in ks:
            if k in seen:
                return True
            seen.add(k)
    return False


def _withdraw_above_total(t):
    """a rejected withdrawal on an asset whose balances were raised by a positive NST adjustment earlier in the behaviour"""
    o = t["observed"]
    if o["ev"] != "Withdraw" or o["ok"]:
        return False
    return any(x["ev"] == "NstUpdate" and x["ok"] and x["a"]["a"] == o["a"]["a"] and int(x["a"]["d"]) > 0 for x in t["history"])


MATCHERS = {
    "withdraw_above_total": _withdraw_above_total,
    "identical_undelegation_key": _same_key_before,
    # C03: secondary index keys collide for equal nonces
    "equal_nonce_undelegation": _collision_before,
    # C04: infraction height == current height skips the undelegations started in this block
    "slash_infr_eq_height": lambda t: t["observed"]["ev"] == "Slash" and t["observed"]["a"]["infr"] == t["pre_h"],
}


def finding_matches(f, t):
    """does tag occurrence t match the known finding f?"""
    m = MATCHERS.get(f.get("match", {}).get("matcher"))
    return bool(m and m(t))


def replay(path):
    j = json.load(open(path))
    harness = vlib.build_harness()
    d = vlib.scratch("ledger-replay")
    try:
        w = WORLDS[j["world"]]
        vlib.stage_specs(d, with_override=True)
        open(os.path.join(d, "beh.ndjson"), "w").write(json.dumps(j["behaviour"]) + "\n")
        hc = dict(w["hcfg"])
        vlib.sh([harness, "ledger", "-in", os.path.join(d, "beh.ndjson"), "-out", os.path.join(d, "trace.ndjson"), "-seed", "1", "-cfg", json.dumps(hc)], timeout=600)
        tags, _ = vlib.tlc_trace(d, "Trace_Ledger.tla", "Trace_Ledger.cfg")
        for t in tags:
            t["world"] = j["world"]
            t["behaviour"] = j["behaviour"]
        return {"family": "ledger", "mc": [], "tags": tags, "behaviours": 1, "events": 0, "samples": [j["behaviour"]], "tag_universe": TAG_UNIVERSE}
    finally:
        shutil.rmtree(d, ignore_errors=True)


if __name__ == "__main__":
    import sys
    if "--regen-goals" in sys.argv:
        regen_goals()
