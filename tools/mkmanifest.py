#!/usr/bin/env python3
"""Regenerate MANIFEST.json from tools/manifest_table.json (claimed checks) + properties.jsonl."""
import json, os, subprocess
V = os.path.dirname(os.path.dirname(os.path.abspath(__file__)))
props = [json.loads(l) for l in open(os.path.join(V, "properties.jsonl"))]
tab = json.load(open(os.path.join(V, "tools", "manifest_table.json")))
checks, na = [], []
for p in props:
    pid = p["id"]
    if pid in tab["claimed"]:
        c = tab["claimed"][pid]
        checks.append({
            "property_id": pid,
            "quick_cmd": f"python3 tools/check.py {pid} --tier quick",
            "thorough_cmd": f"python3 tools/check.py {pid} --tier thorough",
            "evidence_file": f"evidence/{pid}.json",
            "replay_cmd_template": f"python3 tools/check.py {pid} --replay {{path}}",
            "engine": c["engine"],
            "level_claimed": {"category": "model_checking", "text": c["text"], "design_ref": c.get("design_ref", "DESIGN.md section 5 / " + pid)},
            "level_note": c["note"],
            "technique": c["technique"],
        })
    else:
        na.append({"property_id": pid, "reason": tab["not_claimed"].get(pid, "not yet claimed: machinery for this property is still being built (DESIGN.md section 9)")})
m = {
    "version": 1,
    "setup_cmd": "bash tools/setup.sh",
    "hooks": {"guard": "verif", "enable": "tools/build.sh: go build -tags verif -overlay bin/overlay.json (harness sources in /verif/harness compiled into the /repo module)",
              "baseline_off_cmd": "cd /repo && go test -mod=mod -vet=off -count=1 -timeout 25m ./...",
              "source_commits": tab.get("hook_commits", []), "add_only": True},
    "engines": tab.get("engines", []),
    "checks": checks,
    "notes": tab.get("notes", ""),
    "not_applicable": na,
}
json.dump(m, open(os.path.join(V, "MANIFEST.json"), "w"), indent=1)
print("claimed:", [c["property_id"] for c in checks])
