#!/bin/bash
# seedverify.sh <worktree> <go test cmd...> : demo must FAIL with the patch and PASS without it
export GOFLAGS=-mod=mod GOPROXY=off GOSUMDB=off GOTOOLCHAIN=local
W=$1; shift
cd $W || exit 2
git diff -- . ':!*_test.go' > /tmp/$$.patch
echo "--- with patch"; "$@" > /tmp/$$.with.log 2>&1; RC1=$?; tail -3 /tmp/$$.with.log
git apply -R /tmp/$$.patch
echo "--- without patch"; "$@" > /tmp/$$.without.log 2>&1; RC2=$?; tail -3 /tmp/$$.without.log
git apply /tmp/$$.patch
echo "RESULT with=$RC1 without=$RC2"; rm -f /tmp/$$.*
