#!/usr/bin/env python3
"""check.py <property-id> [--tier quick|thorough] [--replay <path>]

Runs the family pipeline that decides the property (exhaustive TLC run of the family model,
behaviour generation, replay on the real code, trace validation), filters the verdict tags that
belong to the property, applies the known-findings protocol, writes evidence/<id>.json.
"""
import argparse
import importlib
import json
import os
import sys
import time
import traceback

sys.path.insert(0, os.path.dirname(os.path.abspath(__file__)))
import vlib  # noqa: E402



def discover():
    """property id -> [family modules] (tools/fam_*.py declare PROPERTIES = [...])"""
    props = {}
    here = os.path.dirname(os.path.abspath(__file__))
    for f in sorted(os.listdir(here)):
        if f.startswith("fam_") and f.endswith(".py"):
            mod = importlib.import_module(f[:-3])
            for p in getattr(mod, "PROPERTIES", []):
                props.setdefault(p, []).append(f[:-3])
    return props


def family_result(fam, tier, seed):
    mod = importlib.import_module(fam)
    key = f"{fam}-{tier}-{seed}-{vlib.repo_fingerprint()[:16]}-{vlib.verif_fingerprint()[:16]}"
    r = vlib.cache_get(key)
    if r is not None:
        r["cache_hit"] = True
        return r, mod
    t = time.time()
    r = mod.run(tier, seed)
    r["wall_s"] = round(time.time() - t, 1)
    r["cache_hit"] = False
    vlib.cache_put(key, r)
    return r, mod


def merge(a, b):
    """combine the results of two families that both serve a property"""
    out = dict(a)
    out["mc"] = a.get("mc", []) + b.get("mc", [])
    out["tags"] = a["tags"] + b["tags"]
    out["samples"] = a.get("samples", [])[:2] + b.get("samples", [])[:2]
    for k in ("behaviours", "events", "distinct_nontrivial"):
        out[k] = a.get(k, 0) + b.get(k, 0)
    out["event_counts"] = dict(a.get("event_counts", {}), **b.get("event_counts", {}))
    tu = dict(a.get("tag_universe", {}))
    for k, v in b.get("tag_universe", {}).items():
        tu[k] = tu.get(k, []) + v
    out["tag_universe"] = tu
    out["assumptions"] = a.get("assumptions", []) + b.get("assumptions", [])
    out["rule"] = a.get("rule", "") + " || " + b.get("rule", "")
    out["extra"] = dict(a.get("extra", {}), **b.get("extra", {}))
    out["wall_s"] = (a.get("wall_s") or 0) + (b.get("wall_s") or 0)
    out["cache_hit"] = a.get("cache_hit", False) and b.get("cache_hit", False)
    return out


def main():
    ap = argparse.ArgumentParser()
    ap.add_argument("pid")
    ap.add_argument("--tier", default=os.environ.get("VERIF_TIER", "quick"))
    ap.add_argument("--replay")
    a = ap.parse_args()
    seed = int(os.environ.get("VERIF_SEED", "1"))
    pid = a.pid
    t0 = time.time()
    PROPS = discover()
    if pid not in PROPS:
        print(f"unknown property {pid}", file=sys.stderr)
        return 2
    fams = PROPS[pid]
    try:
        os.makedirs(vlib.SCRATCH_ROOT, exist_ok=True)
        if a.replay:
            fam = json.load(open(a.replay)).get("family", fams[0])
            mod = importlib.import_module(fam)
            res = mod.replay(a.replay)
            mods = {fam: mod}
            for t in res["tags"]:
                t["family"] = fam
        else:
            res, mods = None, {}
            vlib.build_harness()
            excl = vlib.excluded_families()
            unavailable = [fam for fam in fams if fam.replace("fam_", "") in excl]
            for fam in unavailable:
                print(f"NOTE property={pid} family={fam.replace('fam_', '')} unavailable: its driver does not compile against this tree "
                      f"(left out of the harness); the other families of this property still run", file=sys.stderr)
            if len(unavailable) == len(fams):
                raise vlib.Infra("no family of this property compiles against this tree: " + ", ".join(unavailable))
            for fam in fams:
                if fam in unavailable:
                    continue
                r, mod = family_result(fam, a.tier, seed)
                mods[fam] = mod
                for t in r["tags"]:
                    t["family"] = fam
                res = r if res is None else merge(res, r)
    except vlib.Infra as e:
        print(f"INFRA property={pid}: {e}", file=sys.stderr)
        return 2
    except Exception:
        traceback.print_exc()
        return 2

    # ---- verdict for this property
    mine = []
    for t in res["tags"]:
        # a family may declare that one of its tags is ALSO a violation of another property it serves
        # (TAG_ALIASES = {tag: [other tags]}), e.g. a failed Ethereum tx that changed module state: C19 and C09
        al = getattr(mods.get(t.get("family")), "TAG_ALIASES", {}) if t.get("family") in mods else {}
        full = list(t["tags"]) + [y for x in t["tags"] for y in al.get(x, [])]
        tt = [x for x in full if x.startswith(pid + "_")]
        if tt:
            mine.append(dict(t, tags=tt))
    drift = [t for t in res["tags"] if any(x.startswith("STRICT_") for x in t["tags"])]
    kf = vlib.known_findings()
    known_hits, unknown = {}, []
    for t in mine:
        rest = []
        for tag in t["tags"]:
            hit = None
            for f in kf.get("findings", []):
                if f["property"] == pid and f["tag"] == tag and mods[t["family"]].finding_matches(f, t):
                    hit = f
                    break
            if hit:
                known_hits.setdefault(hit["id"], (hit, 0))
                known_hits[hit["id"]] = (hit, known_hits[hit["id"]][1] + 1)
            else:
                rest.append(tag)
        if rest:
            unknown.append(dict(t, tags=rest))
    for fid, (f, n) in sorted(known_hits.items()):
        print(f"KNOWN-FINDING: property={pid} {f['id']}: {f['what']} (observed {n}x)")
    rc = 0
    replay_paths = []
    if unknown and a.replay:
        # replaying a recorded violation: the verdict refers to the file that was replayed
        for t in unknown[:5]:
            print(f"VIOLATION property={pid} replay={a.replay}")
            print(f"  tags={t['tags']} event={t.get('ev')} line={t.get('l')}")
        rc = 1
    elif unknown:
        rdir = os.path.join(os.environ.get("VERIF_EVIDENCE_DIR", os.path.join(vlib.VERIF, "evidence")), "replay")
        os.makedirs(rdir, exist_ok=True)
        for i, t in enumerate(unknown[:5]):
            p = os.path.join(rdir, f"{pid}-{a.tier}-{seed}-{i}.json")
            json.dump({"property": pid, "tags": t["tags"], "event": t.get("ev"), "line": t.get("l"), "family": t["family"],
                       "behaviour": t.get("behaviour"), "world": t.get("world"), "observed": t.get("observed")}, open(p, "w"), indent=1)
            replay_paths.append(p)
            print(f"VIOLATION property={pid} replay={p}")
            print(f"  tags={t['tags']} event={t.get('ev')} line={t.get('l')}")
        rc = 1

    # ---- evidence
    mc = res.get("mc", [])
    ev = {
        "property_id": pid, "tier": a.tier, "seed": seed, "level": "model_checking",
        "coverage": {
            "states": max(1, sum(m["states"] for m in mc)),
            "transitions": max(1, sum(m["transitions"] for m in mc)),
            "traces_validated_against_impl": res.get("behaviours", 0),
            "samples": res.get("samples", [])[:3] or ["(none)"],
            "exhaustive": all(m.get("complete") for m in mc) if mc else False,
            "evaluations": res.get("events", 0),
            "distinct_nontrivial": res.get("distinct_nontrivial", 0),
            "rule": res.get("rule", ""),
            "model_runs": [{k: v for k, v in m.items() if k != "out"} for m in mc],
            "events_validated": res.get("events", 0),
            "event_counts": res.get("event_counts", {}),
            "property_checks_evaluated": res.get("tag_universe", {}).get(pid, []),
            "drift": bool(drift),
            "drift_tags": sorted({x for t in drift for x in t["tags"] if x.startswith("STRICT_")})[:20],
            "known_findings_observed": sorted(known_hits.keys()),
            "extra": res.get("extra", {}),
            "family": "+".join(fams), "families_unavailable": [] if a.replay else unavailable, "family_cache_hit": res.get("cache_hit", False), "family_wall_s": res.get("wall_s"),
        },
        "assumptions": res.get("assumptions", []),
        "wall_s": round(time.time() - t0, 2),
        "violations": len(unknown),
    }
    if drift and a.tier:
        ev["level"] = "exploration" if not mc else "model_checking"
    evdir = os.environ.get("VERIF_EVIDENCE_DIR", os.path.join(vlib.VERIF, "evidence"))
    os.makedirs(evdir, exist_ok=True)
    # a replay run describes one behaviour: it must not replace the evidence of the property's check
    evname = f"{pid}.json" if not a.replay else os.path.join("replay", f"last-replay-{pid}.json")
    os.makedirs(os.path.dirname(os.path.join(evdir, evname)), exist_ok=True)
    json.dump(ev, open(os.path.join(evdir, evname), "w"), indent=1)
    print(f"property={pid} tier={a.tier} seed={seed} behaviours={res.get('behaviours')} events={res.get('events')} "
          f"violations={len(unknown)} known={len(known_hits)} drift={bool(drift)} wall={ev['wall_s']}s")
    return rc


if __name__ == "__main__":
    sys.exit(main())
