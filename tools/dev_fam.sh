#!/bin/bash
# dev helper: tools/dev_fam.sh <mcmodule.tla> <gen.cfg> <harness-cmd> '<harness cfg json>' <Trace module> [num] [seed]
set -e
D=/verif/.scratch/dev-$$; mkdir -p $D; cp /verif/spec/*.tla /verif/spec/*.cfg /verif/spec/*.class $D/; cd $D
NUM=${6:-40}; SEED=${7:-3}
mkdir gen; cp *.tla *.cfg gen/; (cd gen && timeout 600 tlc -workers 1 -simulate num=$NUM -depth 60 -seed $SEED -metadir md -config $2 $1 2>&1 | grep '^"BEHAVIOUR' | python3 -c "
import sys,json
seen=set()
for l in sys.stdin:
    s=json.loads(l.strip())[len('BEHAVIOUR '):]
    if s not in seen: seen.add(s); print(s)
" > ../beh.ndjson)
wc -l beh.ndjson
/verif/bin/harness $3 -in beh.ndjson -out trace.ndjson -seed $SEED -cfg "$4"
python3 - <<'PY'
import json,collections
c=collections.Counter()
for l in open('trace.ndjson'):
    j=json.loads(l); c[(j['ev'],j.get('ok'))]+=1
print(sorted(c.items()))
PY
timeout 1800 tlc -workers 1 -metadir md -config $5.cfg $5.tla 2>&1 | grep -E '^"TAG|states generated|Error|exception|compare|line [0-9]+, col' | head -${TAGS:-40}
echo "dir: $D"
