#!/bin/bash
# integrate.sh <fam>: copy an agent's NEW files from /tmp/fam/<fam>/verif into /verif
F=$1; SRC=/tmp/fam/$F/verif; BASEV=/tmp/base/verif
cd $SRC
for f in $(find spec harness tools -type f \( -name '*.tla' -o -name '*.cfg' -o -name '*.go' -o -name '*.py' -o -name '*.ndjson' -o -name '*.json' \) | grep -v __pycache__); do
  if [ ! -e "$BASEV/$f" ]; then mkdir -p /verif/$(dirname $f); cp $f /verif/$f; echo "new  $f"; 
  elif ! cmp -s $f $BASEV/$f; then echo "CHANGED-SHARED $f"; fi
done
for f in NOTES-*.md; do [ -e "$f" ] && cp $f /verif/ && echo "new  $f"; done
[ -d seeded ] && for f in $(find seeded -type f); do mkdir -p /verif/$(dirname $f); cp $f /verif/$f; echo "new  $f"; done
[ -e known_findings.json ] && cp known_findings.json /verif/.scratch/kf-$F.json && echo "kf   -> .scratch/kf-$F.json"
