#!/bin/bash
# runseed.sh <seed-dir> <property>... : apply the seeded patch to a scratch worktree of /repo and run
# the given checks against it (REPO=<worktree>); prints one summary line per property.
S=$(readlink -f $1); shift
N=$(basename $S)
W=/tmp/mut/$N
mkdir -p /tmp/mut; git -C /repo worktree remove --force $W 2>/dev/null
git -C /repo worktree add -q $W HEAD || exit 2
if ! git -C $W apply $S/patch.diff; then echo "PATCH DOES NOT APPLY: $N"; git -C /repo worktree remove --force $W; exit 2; fi
for P in "$@"; do
  OUT=$(cd /verif && REPO=$W VERIF_EVIDENCE_DIR=/tmp/mut/evidence-$N python3 tools/check.py $P --tier ${TIER:-quick} 2>&1); RC=$?
  echo "SEED $N property=$P rc=$RC :: $(echo "$OUT" | grep -c '^VIOLATION') violations :: $(echo "$OUT" | grep '  tags=' | sed 's/ event=.*//' | sort | uniq -c | sort -rn | head -4 | tr '\n' ';') $(echo "$OUT" | tail -1)"
done
git -C /repo worktree remove --force $W
# the per-worktree harness binary is of no further use
H=$(echo -n "$W" | md5sum | cut -c1-8); rm -f /verif/bin/harness-$H /verif/bin/harness-$H.stamp /verif/bin/harness-$H.excluded /verif/bin/overlay-$H.json
