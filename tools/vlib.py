"""Shared machinery for the /verif checks: scratch dirs, harness build, TLC runs, tag parsing,
family-result cache, evidence writing, verdicts.

Exit codes (DESIGN.md 2.2): 0 held / only known findings; 1 VIOLATION (real code observed
violating the property); 2 infrastructure problem (never presented as a violation).
"""
import hashlib
import json
import os
import re
import shutil
import subprocess
import sys
import time

VERIF = os.environ.get("VERIF", "/verif")
REPO = os.environ.get("REPO", "/repo")
SPEC = os.path.join(VERIF, "spec")
SCRATCH_ROOT = os.path.join(VERIF, ".scratch")
TLAJAR = "/opt/veriftools/tla/tla2tools.jar"


class Infra(Exception):
    """infrastructure failure -> exit 2"""


def log(*a):
    print(*a, file=sys.stderr, flush=True)


def sh(cmd, cwd=None, timeout=None, env=None, check=True, capture=True):
    e = dict(os.environ)
    e.update({"GOFLAGS": "-mod=mod", "GOPROXY": "off", "GOSUMDB": "off", "GOTOOLCHAIN": "local"})
    if env:
        e.update(env)
    try:
        p = subprocess.run(cmd, cwd=cwd, timeout=timeout, env=e, shell=isinstance(cmd, str),
                           stdout=subprocess.PIPE if capture else None, stderr=subprocess.STDOUT if capture else None, text=True)
    except subprocess.TimeoutExpired as ex:
        raise Infra(f"timeout after {timeout}s: {cmd}") from ex
    if check and p.returncode != 0:
        raise Infra(f"command failed ({p.returncode}): {cmd}\n{(p.stdout or '')[-4000:]}")
    return p


def scratch(name):
    d = os.path.join(SCRATCH_ROOT, f"{name}-{os.getpid()}")
    shutil.rmtree(d, ignore_errors=True)
    os.makedirs(d)
    return d


def repo_fingerprint():
    """hash of /repo's current working tree (HEAD + tracked diff + untracked files)"""
    h = hashlib.sha256()
    h.update(sh(["git", "-C", REPO, "rev-parse", "HEAD"]).stdout.encode())
    h.update(sh(["git", "-C", REPO, "diff", "HEAD"]).stdout.encode())
    for f in sh(["git", "-C", REPO, "ls-files", "-o", "--exclude-standard"]).stdout.split("\n"):
        if f:
            h.update(f.encode())
            try:
                h.update(open(os.path.join(REPO, f), "rb").read())
            except OSError:
                pass
    return h.hexdigest()


def verif_fingerprint():
    h = hashlib.sha256()
    for sub in ("spec", "harness", "tools"):
        for root, _, files in sorted(os.walk(os.path.join(VERIF, sub))):
            for f in sorted(files):
                if f.endswith((".tla", ".cfg", ".go", ".py", ".java", ".json", ".sh")):
                    h.update(f.encode())
                    h.update(open(os.path.join(root, f), "rb").read())
    # the hand-written behaviour corpora replayed by the families are inputs of a run as well
    sd = os.path.join(VERIF, "seeded")
    if os.path.isdir(sd):
        for f in sorted(os.listdir(sd)):
            if f.endswith(".ndjson"):
                h.update(f.encode())
                h.update(open(os.path.join(sd, f), "rb").read())
    return h.hexdigest()


_built = {}


def build_harness():
    """rebuild the harness from REPO's current working tree (incremental); one binary per REPO path"""
    fp = repo_fingerprint()
    tag = hashlib.md5(REPO.encode()).hexdigest()[:8]
    binp = os.path.join(VERIF, "bin", "harness" if REPO == "/repo" else "harness-" + tag)
    stamp = binp + ".stamp"
    want = fp + verif_fingerprint()
    if os.path.exists(stamp) and open(stamp).read() == want and os.path.exists(binp):
        return binp
    t = time.time()
    p = sh([os.path.join(VERIF, "tools", "build.sh")], timeout=1500, check=False)
    if p.returncode != 0 or not os.path.exists(binp):
        raise Infra("harness build failed (does the repository compile?)\n" + p.stdout[-6000:])
    open(stamp, "w").write(want)
    log(f"[build] harness rebuilt in {time.time()-t:.0f}s")
    return binp


def excluded_families():
    """families whose driver / overlay did not compile against REPO's tree and were left out of the harness"""
    tag = hashlib.md5(REPO.encode()).hexdigest()[:8]
    binp = os.path.join(VERIF, "bin", "harness" if REPO == "/repo" else "harness-" + tag)
    try:
        return {x for x in open(binp + ".excluded").read().split() if x}
    except OSError:
        return set()


def ensure_numclass():
    c = os.path.join(SPEC, "Num.class")
    if not os.path.exists(c) or os.path.getmtime(c) < os.path.getmtime(os.path.join(SPEC, "Num.java")):
        sh(["javac", "-cp", TLAJAR, "-d", SPEC, os.path.join(SPEC, "Num.java")], timeout=120)
    return c


def stage_specs(d, with_override):
    for f in os.listdir(SPEC):
        if f.endswith((".tla", ".cfg")):
            shutil.copy(os.path.join(SPEC, f), d)
    if with_override:
        shutil.copy(ensure_numclass(), d)


TLC_SUMMARY = re.compile(r"(\d+) states generated, (\d+) distinct states found, (\d+) states left on queue")


def tlc(d, module, cfg, workers=16, timeout=1800, extra=(), heap=None):
    """run TLC in directory d; returns (stdout, rc)"""
    workers = min(int(workers), int(os.environ.get("VERIF_TLC_WORKERS", "16")))
    cmd = ["tlc", "-workers", str(workers), "-metadir", os.path.join(d, "md-" + cfg.replace(".cfg", "") + f"-{time.time_ns()}"),
           "-noGenerateSpecTE", "-config", cfg] + list(extra) + [module]
    env = {}
    p = sh(cmd, cwd=d, timeout=timeout, check=False, env=env)
    out = p.stdout
    if "java.lang.OutOfMemoryError" in out or "StackOverflowError" in out:
        raise Infra("TLC ran out of memory/stack:\n" + out[-3000:])
    return out, p.returncode


def tlc_stats(out):
    m = None
    for m in TLC_SUMMARY.finditer(out):
        pass
    if not m:
        return None
    return {"generated": int(m.group(1)), "distinct": int(m.group(2)), "queue": int(m.group(3))}


def tlc_mc(d, module, cfg, workers=16, timeout=1800):
    """exhaustive run; returns dict(stats, ok, violated)"""
    t = time.time()
    # guard / lead configurations EXPECT a counterexample: run them with one worker, i.e. in strict
    # breadth-first order. (Most bounded models here hide their history variable behind a VIEW and bound the
    # exploration by its length; with several workers the level order is only approximate at level
    # boundaries, so which representative of a VIEW class is expanded - and whether a counterexample at the
    # depth bound is found - may vary from run to run.)
    if re.search(r"(_dev|_lead|_d\.cfg|dev[A-Z0-9_])", cfg):
        workers = 1
    out, rc = tlc(d, module, cfg, workers=workers, timeout=timeout)
    st = tlc_stats(out)
    viol = re.findall(r"Error: Invariant (\w+) is violated", out) + re.findall(r"Error: Action property (\w+) is violated", out)
    if st is None or ("Error:" in out and not viol):
        raise Infra(f"TLC failed on {module}/{cfg}:\n" + out[-4000:])
    return {"module": module, "cfg": cfg, "states": st["distinct"], "transitions": st["generated"], "violated": viol,
            "complete": st["queue"] == 0 and not viol, "wall_s": round(time.time() - t, 1), "out": out if viol else ""}


def tlc_lead(d, module, cfg, workers=1, timeout=1800):
    """run a configuration whose invariant is EXPECTED to be violated by the faithful model when the
    code has a defect; returns (invariant name, behaviour = value of `hist` in the last state) or None"""
    ce = os.path.join(d, f"ce-{cfg}.json")
    if os.path.exists(ce):
        os.remove(ce)
    out, rc = tlc(d, module, cfg, workers=workers, timeout=timeout, extra=["-dumpTrace", "json", ce])
    viol = re.findall(r"Error: Invariant (\w+) is violated", out)
    st = tlc_stats(out)
    if not viol:
        if st is None or "Error:" in out:
            raise Infra(f"TLC failed on lead config {module}/{cfg}:\n" + out[-3000:])
        return None, st
    j = json.load(open(ce))
    states = j["counterexample"]["state"]
    last = states[-1][1] if isinstance(states[-1], list) else states[-1]
    return (viol[0], last["hist"]), st


def tlc_simulate(d, module, cfg, num, depth, seed, timeout=900, marker="BEHAVIOUR "):
    """-simulate run printing behaviours through PrintT("<marker>" \\o ToJson(hist)); returns list of JSON strings"""
    out, rc = tlc(d, module, cfg, workers=1, timeout=timeout, extra=["-simulate", f"num={num}", "-depth", str(depth), "-seed", str(seed)])
    res = []
    for line in out.split("\n"):
        line = line.strip()
        if line.startswith('"' + marker):
            try:
                s = json.loads(line)
            except json.JSONDecodeError:
                continue
            res.append(s[len(marker):])
    if not res:
        raise Infra(f"no behaviours generated by {module}/{cfg}:\n" + out[-3000:])
    # de-duplicate, keep order
    seen, uniq = set(), []
    for r in res:
        if r not in seen:
            seen.add(r)
            uniq.append(r)
    return uniq


LAST_COV = {}


def tlc_trace(d, module, cfg, timeout=1800):
    """trace validation run (deterministic replay); returns list of tag dicts {l, ev, tags}"""
    out, rc = tlc(d, module, cfg, workers=1, timeout=timeout)
    tags = []
    for line in out.split("\n"):
        line = line.strip()
        if line.startswith('"TAG '):
            s = json.loads(line)
            tags.append(json.loads(s[4:]))
        elif line.startswith('"COV '):
            LAST_COV[d] = json.loads(json.loads(line)[4:])
    st = tlc_stats(out)
    if "Error:" in out or st is None or rc != 0:
        raise Infra(f"trace validation did not complete ({module}/{cfg}):\n" + out[-5000:])
    return tags, st["distinct"]


# ----------------------------------------------------------------------------------------------
# family result cache

def cache_get(key):
    p = os.path.join(SCRATCH_ROOT, "cache", key + ".json")
    if os.environ.get("VERIF_NOCACHE") or not os.path.exists(p):
        return None
    try:
        return json.load(open(p))
    except Exception:
        return None


def cache_put(key, val):
    os.makedirs(os.path.join(SCRATCH_ROOT, "cache"), exist_ok=True)
    p = os.path.join(SCRATCH_ROOT, "cache", key + ".json")
    json.dump(val, open(p + ".tmp", "w"))
    os.replace(p + ".tmp", p)


def known_findings():
    p = os.path.join(VERIF, "known_findings.json")
    if not os.path.exists(p):
        return {"findings": [], "fixed": []}
    return json.load(open(p))
