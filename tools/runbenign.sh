#!/bin/bash
# runbenign.sh: apply every property-preserving change under /verif/benign to a scratch worktree and run the
# checks of the properties it touches; a VIOLATION line or a non-zero exit is a false alarm of the machinery.
cd /verif
run() { bash tools/runseed.sh benign/$1 ${@:2} 2>&1 | cut -c1-260; }
run C01-ok C01 C02 C03 C04 C09 C11
run C03-ok C01 C02 C03 C04 C09
run C04-ok C01 C04 C05 C09 C11
run C06-ok C06 C07 C16 C08
run C10-ok C10 C20 C15
run C12-ok C12 C13 C14
run C15-ok C15 C17 C11
run C17-ok C05 C19 C17 C06
