"""nstfeed family pipeline: the native-restaking (NST) balance feed and oracle price payloads.
C11 (chain liveness), C09 (failed operations are atomic), C01 (ledger conservation) for
x/oracle/keeper/native_token.go, the NST branch of the assets precompile and the price-string consumers."""
import collections
import concurrent.futures as cf
import json
import os
import shutil
import time

import vlib

PROPERTIES = ["C11", "C09", "C01"]

TAG_UNIVERSE = {
    "C11": ["C11_Halt_BeginBlock", "C11_Halt_EndBlock", "C11_Halt_Commit", "C11_Halt_DeliverTx"],
    "C09": ["C09_FailedButChanged", "C09_NstItemStopsOthers"],
    "C01": ["C01_Conservation", "C01_Published", "C01_NonNegative", "C01_OnlyDepositsCreate", "C01_NstDecreaseExceedsBooked"],
}

CTX0 = {"mode": "ctx", "dec": 0, "stakers": 3, "vals": 1}
CTX1 = {"mode": "ctx", "dec": 1, "stakers": 3, "vals": 1}
ABCI = {"mode": "abci", "dec": 0, "stakers": 3, "vals": 1, "feeder": "nst"}
STR = {"mode": "abci", "dec": 0, "stakers": 1, "vals": 3, "feeder": "lst", "epoch": 3600}

# generation profiles: name -> (module, cfg, Init configuration, behaviours quick / thorough, depth)
GENS = {
    "ctx0": ("MC_NstFeed_r.tla", "MC_NstFeed_gen.cfg", CTX0, 40, 300),
    "del": ("MC_NstFeed_r.tla", "MC_NstFeed_gen_del.cfg", CTX0, 30, 300),
    "ctx1": ("MC_NstFeed_r.tla", "MC_NstFeed_gen1.cfg", CTX1, 30, 200),
    "abci": ("MC_NstFeed_r.tla", "MC_NstFeed_gen_abci.cfg", ABCI, 12, 60),
    "str": ("MC_NstFeed_r.tla", "MC_NstFeed_gen_str.cfg", STR, 12, 60),
}
# lead configurations: invariants of the INTENDED design evaluated on the model WITH the code's deviations;
# TLC's shortest counterexample is replayed on the real code (a lead is never a verdict by itself)
LEADS = [("MC_NstFeed_r.tla", "MC_NstFeed_lead_atomic.cfg", CTX0), ("MC_NstFeed_r.tla", "MC_NstFeed_lead_alive.cfg", ABCI),
         ("MC_NstFeed_r.tla", "MC_NstFeed_lead_isolated.cfg", CTX0), ("MC_NstFeed_r.tla", "MC_NstFeed_lead_price.cfg", STR)]


def _init(cfg):
    return {"ev": "Init", "a": cfg}


def run(tier, seed):
    harness = vlib.build_harness()
    d = vlib.scratch("nstfeed")
    # the 252-staker scenario folds over large sets: TLC's evaluator needs a deeper thread stack there
    jto = os.environ.get("JAVA_TOOL_OPTIONS")
    os.environ["JAVA_TOOL_OPTIONS"] = ((jto or "") + " -Xss512m").strip()
    try:
        return _run(tier, seed, harness, d)
    finally:
        if jto is None:
            os.environ.pop("JAVA_TOOL_OPTIONS", None)
        else:
            os.environ["JAVA_TOOL_OPTIONS"] = jto
        shutil.rmtree(d, ignore_errors=True)


def _validate(harness, d, behs):
    """behs: list of behaviours (lists of events incl. Init) sharing one Init configuration up to the mode"""
    vlib.stage_specs(d, with_override=True)
    _apply_devs(d)
    open(os.path.join(d, "beh.ndjson"), "w").write("\n".join(json.dumps(b) for b in behs) + "\n")
    p = vlib.sh([harness, "nstfeed", "-in", os.path.join(d, "beh.ndjson"), "-out", os.path.join(d, "trace.ndjson")], timeout=1500, check=False)
    if p.returncode != 0:
        raise vlib.Infra("harness nstfeed failed:\n" + p.stdout[-3000:])
    lines = [json.loads(x) for x in open(os.path.join(d, "trace.ndjson")) if x.strip()]
    tags, nstates = vlib.tlc_trace(d, "Trace_NstFeed.tla", "Trace_NstFeed.cfg", timeout=3000)
    if nstates != len(lines) + 1:
        raise vlib.Infra(f"trace not fully consumed: {nstates} states for {len(lines)} lines")
    return lines, tags


ALL_DEVS = ["FEEDSTOPS", "PRICEOVERFLOW"]   # deviations the current tree still has (NOCACHE fixed by 1f9003e, PARSEPANIC by d9d66f0)


def _apply_devs(d):
    """VERIF_NSTFEED_DEVS=<comma list>: the deviations the tree under test still has (default: those of the pinned tree).
    Used to run the strict lane and the generators against a tree with some of the proposed fixes applied."""
    v = os.environ.get("VERIF_NSTFEED_DEVS")
    if v is None:
        return
    devs = [x for x in v.split(",") if x]
    lit = "{" + ", ".join('"%s"' % x for x in devs) + "}"
    full = "{" + ", ".join('"%s"' % x for x in ALL_DEVS) + "}"
    for f in os.listdir(d):
        if f.startswith(("Trace_NstFeed", "MC_NstFeed_gen", "MC_NstFeed_lead")):
            p = os.path.join(d, f)
            s = open(p).read()
            if full in s:
                open(p, "w").write(s.replace(full, lit))


def _world_key(cfg):
    return json.dumps({k: cfg.get(k) for k in ("dec", "stakers", "vals", "feeder", "epoch")}, sort_keys=True)


def _short(x):
    """an event line without the projection, payloads abbreviated"""
    o = {k: v for k, v in x.items() if k in ("ev", "a", "ok", "panic", "err", "halt", "h", "why", "txs", "blocks", "phase")}
    if isinstance(o.get("a"), dict) and "raw" in o["a"]:
        o["a"] = dict(o["a"], raw=o["a"]["raw"])
    if "txs" in o:
        o["txs"] = [{k: (v[:120] if isinstance(v, str) else v) for k, v in t.items()} for t in o["txs"]]
    return o


def _attach(lines, tags, behs):
    """attach the behaviour, the observed line and the history of event lines to every tag"""
    starts = [i for i, ln in enumerate(lines) if ln["ev"] == "reset"]
    out = []
    first = {}  # (behaviour, tag) -> first line carrying it
    for t in sorted(tags, key=lambda x: x["l"]):
        li = t["l"] - 1
        b = max(i for i, s in enumerate(starts) if s <= li)
        for tg in t["tags"]:
            first.setdefault((b, tg), li)
    for t in tags:
        li = t["l"] - 1
        b = max(i for i, s in enumerate(starts) if s <= li)
        hist = [(_short(x), x.get("st")) for x in lines[starts[b] + 1:li + 1] if not x.get("phase") or x.get("panic")]
        t["behaviour"] = behs[b]
        t["observed"] = _short(lines[li])
        t["history"] = [h for h, _ in hist]
        # the oracle staker list before every event line of the history (for the matchers)
        pre_lists = []
        prev = lines[starts[b]].get("st")
        for x in lines[starts[b] + 1:li + 1]:
            if x.get("phase") and not x.get("panic"):
                continue
            pre_lists.append(((prev or {}).get("O") or {}).get("list"))
            if x.get("st"):
                prev = x["st"]
        t["pre_lists"] = pre_lists
        t["stored_payload_len"] = len(((prev or {}).get("O") or {}).get("p") or [])
        t["first"] = {tg: _short(lines[first[(b, tg)]]) for tg in t["tags"]}
        t["first_pre_list"] = {}
        for tg in t["tags"]:
            fl = first[(b, tg)]
            k = len([x for x in lines[starts[b] + 1:fl + 1] if not x.get("phase") or x.get("panic")]) - 1
            t["first_pre_list"][tg] = pre_lists[k] if 0 <= k < len(pre_lists) else None
        out.append(t)
    return out


def _scenarios():
    p = os.path.join(vlib.SPEC, "scenarios_nstfeed.ndjson")
    res = []
    if os.path.exists(p):
        for x in open(p):
            x = x.strip()
            if x and not x.startswith("#"):
                j = json.loads(x)
                res.append(j)
    return res


def _big_shrink(n=252):
    """the model's lead `stale payload after the list shrank` at the scale the message path needs: the only payloads a
    price transaction can store are canonical decimal strings, whose ASCII bytes set index bits up to 251"""
    cfg = {"mode": "abci", "dec": 0, "stakers": n, "vals": 1, "feeder": "nst"}
    evs = [_init(cfg)]
    for i in range(1, n + 1):
        evs.append({"ev": "Deposit", "a": {"s": f"s{i}", "pk": "k1", "x": 32}})
    bitmap = [49] + [48] * 31          # "1" followed by 31 "0": bits 2,3,7 of byte 0 and 2,3 of every other byte
    nbits = 3 + 2 * 31
    raw = bitmap + [56] * nbits        # one "8" per set bit: L=3, sign 1, value bits 000 -> -1
    evs.append({"ev": "Price", "a": {"raw": raw}})
    evs.append({"ev": "Withdraw", "a": {"s": f"s{n}", "pk": "k1", "x": 31}})
    evs.append({"ev": "Carry", "a": {"x": 0}})
    return evs


def _run(tier, seed, harness, d):
    quick = tier == "quick"
    res = {"family": "nstfeed", "mc": [], "tags": [], "samples": [], "tag_universe": TAG_UNIVERSE,
           "assumptions": [
               "ctx mode: depositNST / withdrawNST through the real assets precompile Run as the gateway inside a transaction-like cache context "
               "(kept on a returned `false`: the EVM does not revert on a false flag; discarded on a panic); Feed / Price / Carry are the oracle "
               "keeper's UpdateNSTByBalanceChange / AppendPriceTR / GrowRoundID",
               "abci mode: real BeginBlock / DeliverTx of signed MsgCreatePrice / EndBlock / Commit; one oracle round per Price / Carry event; "
               "C11 tags only from panics that escape baseapp (block phases, or a DeliverTx panic baseapp does not recover)",
               "the payloads a price transaction can store are canonical decimal strings (big.Int.String()); raw bitmaps reach "
               "UpdateNSTByBalanceChange only through the keeper entry points (ctx mode)",
               "BalanceInfo.Block is not modelled"]}
    # 1. exhaustive checks: intended design on the bounded model; decoder transcription = intended decoder
    dm = os.path.join(d, "mc")
    os.makedirs(dm)
    vlib.stage_specs(dm, with_override=False)
    for cfg in (["MC_NstFeed_q.cfg"] if quick else ["MC_NstFeed_q.cfg", "MC_NstFeed_t.cfg"]):
        m = vlib.tlc_mc(dm, "MC_NstFeed_q.tla", cfg, timeout=3000)
        if m["violated"]:
            raise vlib.Infra(f"model counterexample in {cfg}: {m['violated']}\n" + m["out"][-3000:])
        res["mc"].append(m)
    pcfg = "MC_NstFeedParse_q.cfg" if quick else "MC_NstFeedParse_t.cfg"
    t0 = time.time()
    out, rc = vlib.tlc(dm, "MC_NstFeedParse.tla", pcfg, workers=4, timeout=3000)
    st = vlib.tlc_stats(out)
    if st is None or "Error:" in out:
        raise vlib.Infra("parse enumeration failed:\n" + out[-3000:])
    res["mc"].append({"module": "MC_NstFeedParse.tla", "cfg": pcfg, "states": st["distinct"], "transitions": st["generated"], "violated": [],
                      "complete": st["queue"] == 0, "wall_s": round(time.time() - t0, 1), "out": ""})
    payloads = []
    classes = collections.Counter()
    for line in out.split("\n"):
        line = line.strip()
        if line.startswith('"PARSE '):
            j = json.loads(json.loads(line)[6:])
            payloads.append(j)
            classes[j["cls"]] += 1
    if not quick and len(payloads) > 30000:
        # every class stays represented: keep a seed-chosen 30000
        import random
        random.Random(seed).shuffle(payloads)
        payloads = payloads[:30000]

    par = int(os.environ.get("VERIF_PAR", "6"))

    def gen(item):
        name, (module, cfg, icfg, nq, nt) = item
        dg = os.path.join(d, "gen-" + name)
        os.makedirs(dg)
        vlib.stage_specs(dg, with_override=False)
        _apply_devs(dg)
        n = nq if quick else nt
        behs = vlib.tlc_simulate(dg, module, cfg, num=n, depth=40, seed=seed + 31)[:n]
        return name, [[_init(icfg)] + json.loads(b) for b in behs]

    def lead(item):
        module, cfg, icfg = item
        dl = os.path.join(d, "lead-" + cfg)
        os.makedirs(dl)
        vlib.stage_specs(dl, with_override=False)
        _apply_devs(dl)
        t1 = time.time()
        r, st = vlib.tlc_lead(dl, module, cfg, timeout=1500)
        return cfg, icfg, r, st, round(time.time() - t1, 1)

    jobs = []   # (name, [behaviours])
    with cf.ThreadPoolExecutor(max_workers=par) as ex:
        fl = [ex.submit(lead, x) for x in LEADS]
        gens = list(ex.map(gen, GENS.items()))
        leads = [f.result() for f in fl]
    res["extra"] = {"leads": [], "parse_classes": dict(classes)}
    for cfg, icfg, r, st, wall in leads:
        res["extra"]["leads"].append({"cfg": cfg, "invariant": r[0] if r else None, "behaviour": r[1] if r else None,
                                      "states": st["distinct"] if st else None, "wall_s": wall})
        if r:
            jobs.append(("lead:" + cfg, [[_init(icfg)] + r[1]]))
    for name, behs in gens:
        chunk = 40
        for i in range(0, len(behs), chunk):
            jobs.append((f"gen:{name}:{i}", behs[i:i + chunk]))
    # decoder tests: every enumerated payload through the real parseBalanceChange
    pchunk = 1200
    for i in range(0, len(payloads), pchunk):
        jobs.append((f"parse:{i}", [[_init(CTX0)] + [{"ev": "Parse", "a": {"raw": p["raw"], "n": p["n"]}} for p in payloads[i:i + pchunk]]]))
    # scenario chains (model-derived; see NOTES-nstfeed.md): grouped by world
    scen = _scenarios()
    if not quick or os.environ.get("VERIF_NSTFEED_BIG"):
        scen.append(_big_shrink())
    groups = collections.OrderedDict()
    for b in scen:
        groups.setdefault(_world_key(b[0]["a"]), []).append(b)
    for i, (k, behs) in enumerate(groups.items()):
        jobs.append((f"scen:{i}", behs))

    def run_job(job):
        name, behs = job
        dt = os.path.join(d, "trace-" + name.replace(":", "_").replace(".", "_"))
        os.makedirs(dt)
        lines, tags = _validate(harness, dt, behs)
        return name, behs, lines, tags

    with cf.ThreadPoolExecutor(max_workers=par) as ex:
        results = list(ex.map(run_job, jobs))
    counts = collections.Counter()
    distinct = set()
    nbeh = nev = 0
    for name, behs, lines, tags in results:
        for t in _attach(lines, tags, behs):
            t["world"] = name
            res["tags"].append(t)
        nbeh += len(behs)
        nev += len(lines)
        for ln in lines:
            if ln["ev"] in ("reset",):
                continue
            if ln.get("phase"):
                counts[ln["ev"] + (":panic" if ln.get("panic") else "")] += 1
                continue
            key = ln["ev"] + ":" + ("ok" if ln.get("ok") else ("panic" if ln.get("panic") else "fail"))
            if ln["ev"] == "Parse":
                key = "Parse:" + (ln["res"]["err"] or "ok")
            counts[key] += 1
            distinct.add(json.dumps([ln["ev"], ln.get("a"), ln.get("ok")], sort_keys=True))
        if not res["samples"] and name.startswith("gen:"):
            res["samples"] = [{"behaviour": behs[0][:6], "first_trace_lines": [_short(x) for x in lines[1:5]]}]
    res["behaviours"] = nbeh
    res["events"] = nev
    res["event_counts"] = dict(counts)
    res["distinct_nontrivial"] = len(distinct)
    res["rule"] = ("behaviours = TLC -simulate runs of MC_NstFeed (real-scale constants, failing operations limited), TLC lead counterexamples, "
                   "model-derived scenario chains, and every payload of the decoder enumeration as a test of the real decoder; "
                   "distinct_nontrivial = distinct (event, concrete args, result) triples")
    return res


# ----------------------------------------------------------------------------------------------
# known findings

def _is_applied_failed_withdraw(x, pre_list):
    """a withdrawNST answered with success=false by a staker that is not in the oracle's staker list"""
    return (x.get("ev") == "Withdraw" and not x.get("ok") and not x.get("panic") and "returned false" in (x.get("err") or "")
            and pre_list is not None and x["a"]["s"] not in pre_list)


def _m_withdraw_after_removal(t, tag):
    """the FIRST line of the behaviour carrying this tag is such a withdrawal (later lines of the same behaviour only
    carry the broken sum forward)"""
    if tag.startswith("C09_"):
        # the failing call itself
        pl = t.get("pre_lists") or [None]
        return _is_applied_failed_withdraw(t["observed"], pl[-1])
    f = (t.get("first") or {}).get(tag)
    return bool(f) and _is_applied_failed_withdraw(f, (t.get("first_pre_list") or {}).get(tag))


def _m_stale_payload(t, tag):
    o = t["observed"]
    return (o.get("ev") == "EndBlock" and o.get("panic") and "index out of range" in (o.get("err") or "") and o.get("why") in ("Carry", "tail", "Price")
            and t.get("stored_payload_len", 0) >= 32)


def _m_feed_stops(t, tag):
    o = t["observed"]
    if tag == "C09_NstItemStopsOthers":
        return o.get("ev") in ("Feed", "Price", "Carry")
    # the keeper entry point itself reports the error after earlier stakers were updated
    return o.get("ev") == "Feed" and not o.get("ok") and not o.get("panic") and "returned false" not in (o.get("err") or "")


def _m_price_overflow(t, tag):
    """an epoch-end block phase panics with an arithmetic overflow after all three validators reported the same huge price"""
    o = t["observed"]
    err = o.get("err") or ""
    want = "Int64() out of bound" if tag == "C11_Halt_EndBlock" else "Int overflow"
    if not (o.get("panic") and want in err and o.get("ev") in ("EndBlock", "BeginBlock")):
        return False
    agreed = [x for x in t["history"] if x.get("ev") == "Str" and len(set(x["a"]["ps"])) == 1 and x["a"]["ps"][0] in fam_numeric()]
    return bool(agreed) and agreed[-1]["a"]["ps"][0] in ("huge70", "huge76")


def fam_numeric():
    return {"num", "num2", "plus", "neg", "zero", "lead0", "huge70", "huge76", "huge90"}


MATCHERS = {
    "price_overflow_epoch": _m_price_overflow,
    "nst_withdraw_after_list_removal": _m_withdraw_after_removal,
    "nst_stale_payload_endblock": _m_stale_payload,
    "nst_feed_stops_at_failing_staker": _m_feed_stops,
}


def finding_matches(f, t):
    m = MATCHERS.get(f.get("match", {}).get("matcher"))
    return bool(m and m(t, f["tag"]))


def replay(path):
    j = json.load(open(path))
    harness = vlib.build_harness()
    d = vlib.scratch("nstfeed-replay")
    try:
        behs = [j["behaviour"]]
        lines, tags = _validate(harness, d, behs)
        tags = _attach(lines, tags, behs)
        for t in tags:
            t["world"] = j.get("world")
        return {"family": "nstfeed", "mc": [], "tags": tags, "behaviours": 1, "events": len(lines), "samples": [j["behaviour"][:6]], "tag_universe": TAG_UNIVERSE}
    finally:
        shutil.rmtree(d, ignore_errors=True)
