"""Epochs family pipeline: C15 (epoch clock: numbers advance by one, notifications exactly once and in order)."""
import collections
import json
import os
import shutil

import vlib

PROPERTIES = ["C15"]

WORLDS = {
    # six identifiers: the four other modules need (day, hour, minute, week) + e1, e2; one fresh app per behaviour
    "epochs6": dict(module="MC_Epochs_q.tla", gencfg="MC_Epochs_gen.cfg",
                    # time unit per behaviour (ns): 1 ns and 1 ms (boundary +/- the smallest step), sub-second grid, 1 s,
                    # and the real magnitudes 1 min / 1 h
                    hcfg={"unitsNs": [1, 1000000, 250000000, 1000000000, 1000000000, 60000000000, 3600000000000], "solo": 1}),
}

TAG_UNIVERSE = {
    "C15": ["C15_IdentifierLost", "C15_FirstEpoch", "C15_AdvanceByOne", "C15_StartTime", "C15_SubscriberOrder",
            "C15_NotifyOnce", "C15_NotifyOrder", "C15_Independent"],
}

HOOK_FIELDS = ("started", "cur", "cs", "csz", "csh", "start", "dur")


def run(tier, seed):
    harness = vlib.build_harness()
    d = vlib.scratch("epochs")
    try:
        return _run(tier, seed, harness, d)
    finally:
        shutil.rmtree(d, ignore_errors=True)


def _genesis_state(cfg):
    """post-InitChain state derived from the genesis input (only used for the event statistics)"""
    st = {}
    for i, e in cfg["gen"].items():
        if e["dur"] <= 0 or e["cur"] < 0 or e["csh"] < 0:
            continue
        st[i] = dict(started=e["started"], cur=e["cur"], cs=0 if e["csz"] else e["cs"], csz=e["csz"], csh=e["csh"],
                     start=cfg["gt"] if e["z"] else e["start"], dur=e["dur"])
    return st


def _classify(pre, post, t, dt, counts):
    """per identifier and block: which case of the clock was exercised (vacuity guard)"""
    for i, p in pre.items():
        q = post.get(i)
        if q is None:
            counts["id_lost"] += 1
            continue
        if not p["started"]:
            if q["started"]:
                counts["first_tick"] += 1
                if t == p["start"]:
                    counts["first_tick_exactly_at_start"] += 1
                if t > p["start"] + p["dur"]:
                    counts["first_tick_start_long_past"] += 1
                if p["cur"] != 0:
                    counts["first_tick_resets_stale_number"] += 1
            else:
                counts["before_start"] += 1
        elif q["cur"] != p["cur"]:
            counts["tick"] += 1
            if dt == 0:
                counts["tick_in_equal_time_block"] += 1
            if t > q["cs"] + q["dur"]:
                counts["tick_still_behind(catch-up)"] += 1
        else:
            counts["no_tick"] += 1
            if t == p["cs"] + p["dur"]:
                counts["no_tick_exactly_on_boundary"] += 1


def _validate(harness, dt, behs, seed, hcfg, wname, res, counts, distinct):
    """replay `behs` on the real code, validate the trace, collect tags; returns (#behaviours, #lines)"""
    import time
    t0 = time.time()
    cpath = os.path.join(dt, "beh.ndjson")
    open(cpath, "w").write("\n".join(behs) + "\n")
    p = vlib.sh([harness, "epochs", "-in", cpath, "-out", os.path.join(dt, "trace.ndjson"), "-seed", str(seed), "-cfg", json.dumps(hcfg)],
                timeout=1200, check=False)
    if p.returncode != 0:
        raise vlib.Infra("harness epochs failed:\n" + p.stdout[-3000:])
    lines = [json.loads(x) for x in open(os.path.join(dt, "trace.ndjson")) if x.strip()]
    t1 = time.time()
    tags, nstates = vlib.tlc_trace(dt, "Trace_Epochs.tla", "Trace_Epochs.cfg", timeout=3000)
    vlib.log(f"[epochs] {len(behs)} behaviours replayed on the real app in {t1-t0:.0f}s, {len(lines)} lines validated in {time.time()-t1:.0f}s, {len(tags)} tagged lines")
    if nstates != len(lines) + 1:
        raise vlib.Infra(f"trace not fully consumed: {nstates} states for {len(lines)} lines")
    bidx, starts = [], []
    cur = -1
    pre = None
    for i, ln in enumerate(lines):
        if ln["ev"] == "reset":
            cur += 1
            starts.append(i)
            pre = _genesis_state(ln["cfg"])
            counts["genesis:unit_ns=" + ln["cfg"]["uns"]] += 1
            for e in ln["cfg"]["gen"].values():
                kind = ("invalid_dropped" if e["dur"] <= 0 else "mid_count" if e["started"] else
                        "zero_start" if e["z"] else "inert" if e["start"] >= 1000 else
                        "start_past" if e["start"] < 0 else "start_at_block1" if e["start"] == 0 else "start_future")
                counts["genesis_entry:" + kind] += 1
        else:
            counts["Block:" + ("ok" if ln["ok"] else "panic")] += 1
            if ln["a"]["dt"] == 0:
                counts["Block:equal_time"] += 1
            post = ln["st"]["info"]
            _classify(pre, post, ln["a"]["t"], ln["a"]["dt"], counts)
            counts["notes"] += len(ln["notes"])
            if ln["solo"]["on"]:
                counts["Block:with_solo_world"] += 1
            pre = post
            distinct.add(json.dumps([ln["a"]["dt"], [[k, v["cur"], v["cs"]] for k, v in sorted(post.items())], len(ln["notes"])]))
        bidx.append(cur)
    for t in tags:
        li = t["l"] - 1
        b = bidx[li]
        hdr = lines[starts[b]]["cfg"]
        beh = json.loads(behs[b])
        # pin the seed-drawn choices so that the replay is exactly this execution
        beh[0]["a"]["uns"] = hdr["uns"]
        beh[0]["a"]["order"] = hdr["order"]
        if hdr["soloIds"]:
            beh[0]["a"]["soloIds"] = hdr["soloIds"]
        t["world"] = wname
        t["behaviour"] = beh
        ln = lines[li]
        t["observed"] = {"ev": ln["ev"], "a": ln.get("a"), "ok": ln.get("ok"), "err": ln.get("err"), "panic": ln.get("panic"),
                         "info": ln.get("st", {}).get("info"), "notes": [[n["kind"], n["id"], n["n"], n["sub"]] for n in ln.get("notes", [])][:40],
                         "unit_ns": hdr["uns"], "block_index": li - starts[b]}
        res["tags"].append(t)
    if not res["samples"]:
        res["samples"] = [{"behaviour": json.loads(behs[0]),
                           "first_trace_lines": [{k: v for k, v in ln.items() if k not in ("solo",)} for ln in lines[1:4]]}]
    return cur + 1, len(lines)


def _run(tier, seed, harness, d):
    res = {"family": "epochs", "mc": [], "tags": [], "samples": [], "tag_universe": TAG_UNIVERSE,
           "assumptions": ["one fresh ExocoreApp per behaviour (InitChain with the behaviour's x/epochs genesis), real BeginBlock/EndBlock/Commit per block; "
                           "block 1 is fixed at genesis + 1 s by the world builder (model time origin), its events are not observable (its state and hook deliveries are)",
                           "hook deliveries observed through hook H2 (x/epochs/types/hooks.go, build tag verif); subscriber = package of the concrete hook type wired in app.go",
                           "the state right after InitChain is not observable; the first block is checked against AddEpochInfo of the model applied to the genesis input",
                           "generated genesis entries that are already counting lie on the closed form (start <= current epoch start)",
                           "non-interference is tested by a second app whose genesis keeps a seed-chosen subset of the identifiers and makes the others inert/absent"]}
    dm = os.path.join(d, "mc")
    os.makedirs(dm)
    vlib.stage_specs(dm, with_override=False)
    mcs = [("MC_Epochs_q.tla", "MC_Epochs_q.cfg")] if tier == "quick" else [("MC_Epochs_q.tla", "MC_Epochs_q.cfg"), ("MC_Epochs_q.tla", "MC_Epochs_t.cfg")]
    if os.environ.get("VERIF_EPOCHS_SKIP_MC"):  # development aid for mutation runs only (the model does not depend on /repo)
        mcs = []
    for module, cfg in mcs:
        if not os.path.exists(os.path.join(dm, cfg)):
            continue
        m = vlib.tlc_mc(dm, module, cfg, timeout=3000)
        if m["violated"]:
            raise vlib.Infra(f"model counterexample in {cfg}: {m['violated']} (lead, not a verdict)\n" + m["out"][-3000:])
        res["mc"].append(m)
        vlib.log(f"[epochs] {cfg}: {m['states']} distinct / {m['transitions']} generated states in {m['wall_s']}s")
    nbeh = 120 if tier == "quick" else 1500
    counts = collections.Counter()
    distinct = set()
    total_beh = total_ev = 0
    for wname, w in WORLDS.items():
        dg = os.path.join(d, "gen-" + wname)
        os.makedirs(dg)
        vlib.stage_specs(dg, with_override=False)
        behs = vlib.tlc_simulate(dg, w["module"], w["gencfg"], num=nbeh, depth=60, seed=seed + 1000)
        chunk = 150
        for ci in range(0, len(behs), chunk):
            dt = os.path.join(d, f"trace-{wname}-{ci}")
            os.makedirs(dt)
            vlib.stage_specs(dt, with_override=False)
            nb, nl = _validate(harness, dt, behs[ci:ci + chunk], seed + ci, w["hcfg"], wname, res, counts, distinct)
            total_beh += nb
            total_ev += nl
    res["behaviours"] = total_beh
    res["events"] = total_ev
    res["event_counts"] = dict(counts)
    res["distinct_nontrivial"] = len(distinct)
    res["rule"] = ("behaviours = TLC -simulate runs of MC_Epochs (one genesis entry per identifier drawn from the template sets, then 14 blocks with "
                   "time steps from {0,1,2,3,5,11}); each is replayed on a fresh real app with a seed-chosen time unit and genesis-file order; "
                   "distinct_nontrivial = distinct (time step, resulting clock values of all identifiers, number of deliveries) per block")
    return res


def finding_matches(f, t):
    """does tag occurrence t match the known finding f?  (no known findings in this family)"""
    return False


def replay(path):
    j = json.load(open(path))
    harness = vlib.build_harness()
    d = vlib.scratch("epochs-replay")
    try:
        w = WORLDS[j.get("world") or "epochs6"]
        vlib.stage_specs(d, with_override=False)
        res = {"family": "epochs", "mc": [], "tags": [], "samples": [], "tag_universe": TAG_UNIVERSE}
        nb, nl = _validate(harness, d, [json.dumps(j["behaviour"])], 1, w["hcfg"], j.get("world") or "epochs6", res,
                           collections.Counter(), set())
        res["behaviours"], res["events"] = nb, nl
        return res
    finally:
        shutil.rmtree(d, ignore_errors=True)
