------------------------- MODULE MC_VotingPower_g -------------------------
(* constants of the behaviour-generation worlds (tlc -simulate)            *)
EXTENDS MC_VotingPower
c_OORD == <<"o1", "o2">>
c_SORD == <<"s1", "s2">>
c_AVSORD == <<"dog", "avsB">>
c_EIDS == <<"day", "hour">>
c_DUR  == [day |-> 5, hour |-> 2]
c_NOPRELUDE == <<>>
\* both operators start with self stake and one opt-in each (events that fail in a world are no-ops there)
c_GENPRELUDE == <<[ev |-> "Associate", a |-> [s |-> "s1", o |-> "o1"]],
                  [ev |-> "Associate", a |-> [s |-> "s2", o |-> "o2"]],
                  [ev |-> "Delegate", a |-> [s |-> "s1", a |-> "a1", o |-> "o1", x |-> 2]],
                  [ev |-> "Delegate", a |-> [s |-> "s1", a |-> "a2", o |-> "o1", x |-> 2]],
                  [ev |-> "Delegate", a |-> [s |-> "s2", a |-> "a2", o |-> "o2", x |-> 2]],
                  [ev |-> "Delegate", a |-> [s |-> "s2", a |-> "a1", o |-> "o2", x |-> 1]],
                  [ev |-> "OptIn", a |-> [o |-> "o1", avs |-> "dog", form |-> "canon"]],
                  [ev |-> "OptIn", a |-> [o |-> "o2", avs |-> "avsB", form |-> "canon"]]>>
\* two assets
c_AORD == <<"a1", "a2">>
c_KIND == [a1 |-> "lst", a2 |-> "lst"]
c_DECI == [a1 |-> 0, a2 |-> 1]
c_GENPRICE == [a1 |-> [valid |-> TRUE, v |-> 2, dec |-> 0], a2 |-> [valid |-> TRUE, v |-> 3, dec |-> 1]]
c_GENPRICE_np == [a1 |-> [valid |-> FALSE, v |-> 0, dec |-> 0], a2 |-> [valid |-> TRUE, v |-> 3, dec |-> 1]]
c_AVSINFO == [dog  |-> [ex |-> TRUE, assets |-> {"a1", "a2"}, minSelf |-> 1, epoch |-> "hour", start |-> 0, chain |-> TRUE],
              avsB |-> [ex |-> TRUE, assets |-> {"a2"}, minSelf |-> 0, epoch |-> "day", start |-> 2, chain |-> FALSE]]
c_UPDLISTS == {{"a1", "a2"}, {"a1"}, {}}
\* three assets
c_AORD3 == <<"a1", "a2", "a3">>
c_KIND3 == [a1 |-> "lst", a2 |-> "lst", a3 |-> "lst"]
c_DECI3 == [a1 |-> 0, a2 |-> 1, a3 |-> 2]
c_GENPRICE3 == [a1 |-> [valid |-> TRUE, v |-> 2, dec |-> 0], a2 |-> [valid |-> TRUE, v |-> 3, dec |-> 1], a3 |-> [valid |-> TRUE, v |-> 1, dec |-> 0]]
c_UPDLISTS3 == {{"a1", "a2", "a3"}, {"a3"}, {"a1", "a2"}}
c_AVSINFO3 == [dog  |-> [ex |-> TRUE, assets |-> {"a1", "a2", "a3"}, minSelf |-> 1, epoch |-> "day", start |-> 0, chain |-> TRUE],
               avsB |-> [ex |-> TRUE, assets |-> {"a2", "a3"}, minSelf |-> 1, epoch |-> "hour", start |-> 2, chain |-> FALSE]]
=============================================================================
