SPECIFICATION Spec
CONSTANTS
  DEVS <- c_DEVS_CODE
  PREFIXES <- c_PREFIX_T
  EVENTS <- EV_TASK
  MAXOPS = 7
  MAXEP = 9
  FAILBUDGET = 99
  COVER = TRUE
VIEW View
CHECK_DEADLOCK FALSE
ACTION_CONSTRAINTS CoverEdge
