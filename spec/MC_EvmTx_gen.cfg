SPECIFICATION Spec
CONSTANTS
  ACCTS = {"a1", "a2", "a3"}
  CONTRACTS = {"c", "gw", "w", "pre"}
  PREC = 10
  MINGP = 10
  MULT = 5
  BLOCKGAS = 250
  GATEWAY = "gw"
  FIX <- c_FIX
  DEVS = {"DEV_SplitBalanceCheck", "DEV_RevertedFrameKeepsPrecompileWrites"}
  SENDERS = {"a1", "a2", "a3"}
  TARGETS = {"a1", "a2", "a3", "c", "pre", "gw", "w", "new", "newp"}
  TYPES = {"leg", "al", "dyn"}
  PCS_N = {"at", "above"}
  PCS_X = {"below", "rich"}
  TIPS_N = {"zero", "one", "cap"}
  TIPS_X = {"over"}
  GLS_N = {"intr", "mid", "fit", "big", "large"}
  GLS_X = {"lo", "huge"}
  VCS_N = {"zero", "one"}
  VCS_X = {"over", "split"}
  NCS_X = {"ahead", "behind"}
  MAXEXC = 1
  MAXTX = 4
  MAXBLOCKS = 9
  MAXOPS = 12
  GENBAL = 1000
  BFS = {2}
  BATCH = "block"
  WCS = {"zero", "same", "new"}
  OPS = {"dep", "dlg", "und", "dlgx", "undx"}
  GEN = TRUE
INVARIANTS EmitAtDepth
CHECK_DEADLOCK FALSE
