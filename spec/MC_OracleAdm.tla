--------------------------- MODULE MC_OracleAdm ---------------------------
(* Bounded exhaustive / simulation model of the oracle admission family (C13).          *)
(* Every message of the alphabet (one valid message + one variant per violated          *)
(* condition, 1- and 2-message transactions, every sender, every signature kind) is     *)
(* offered in every reachable state, in the three ABCI modes.                           *)
EXTENDS OracleAdm, Json

CONSTANTS MAXH,        \* last block height
          MAXTX,       \* DeliverTx per block
          MAXCHK,      \* CheckTx/ReCheckTx per block
          MAXOPS,      \* events per behaviour (generation)
          MUTS,        \* single-message mutations offered
          MUTSC,       \* single-message mutations offered in check / recheck mode
          MUTS2,       \* mutations of the second message of a 2-message tx ({} = no 2-message txs)
          SIGS,        \* signature kinds offered besides "ok"
          MODES,       \* subset of {"deliver","check","recheck"}
          VALOUT,      \* validators whose operator may opt out ({} = fixed validator set)
          MAXEP,       \* dogfood epoch ends per behaviour
          EMITLVL,     \* generation: print the behaviour when the simulated trace reaches this length
          BIAS         \* TRUE: two-phase choice (class first) so that -simulate is not drowned in rejections

VARIABLES S, G, hist, viol, ntx, nchk, nep, cls
vars == <<S, G, hist, viol, ntx, nchk, nep, cls>>

Msg(f, base, nonce, dets, dec, ts, src) == [f |-> f, base |-> base, nonce |-> nonce, dets |-> dets, dec |-> dec, ts |-> ts, src |-> src]
Tx(mode, sender, sig, size, msgs) == [mode |-> mode, sender |-> sender, sig |-> sig, size |-> size, msgs |-> msgs]

CurNonce(ns, v, f) == IF v \in VALS /\ ns[<<v, f>>] >= 0 THEN ns[<<v, f>>] ELSE 0
BaseOf(st, f) == IF WinBase(f, st.h) >= 0 THEN WinBase(f, st.h) ELSE st.h - 1
\* the message that is valid in this state (if any is): k-th next nonce, fresh or stale detID d
Good(st, ns, v, f, k, d) == Msg(f, BaseOf(st, f), CurNonce(ns, v, f) + k, <<d>>, "ok", 0, "ok")

AllDets == CHOOSE s \in [1..Cardinality(DETS) -> DETS] : \A i, j \in DOMAIN s : i # j => s[i] # s[j]

Mutate(m, mu) ==
  CASE mu = "none"   -> m
    [] mu = "feeder" -> [m EXCEPT !.f = 9]
    [] mu = "baseP"  -> [m EXCEPT !.base = @ + 1]
    [] mu = "baseM"  -> [m EXCEPT !.base = IF @ > 0 THEN @ - 1 ELSE @ + 2]
    [] mu = "gap"    -> [m EXCEPT !.nonce = @ + 1]
    [] mu = "repeat" -> [m EXCEPT !.nonce = IF @ > 0 THEN @ - 1 ELSE 0]
    [] mu = "huge"   -> [m EXCEPT !.nonce = MAXNONCE + 5]
    [] mu = "dec"    -> [m EXCEPT !.dec = "bad"]
    [] mu = "ts4"    -> [m EXCEPT !.ts = 4]
    [] mu = "ts5"    -> [m EXCEPT !.ts = 5]
    [] mu = "ts6"    -> [m EXCEPT !.ts = 6]
    [] mu = "src"    -> [m EXCEPT !.src = "bad"]
    [] mu = "oor"    -> [m EXCEPT !.src = "oor"]
    [] mu = "nosrc"  -> [m EXCEPT !.src = "none", !.dets = <<>>]
    [] mu = "detall" -> [m EXCEPT !.dets = AllDets]

D1 == AllDets[1]
Acts(st, mode) ==
  LET ns == IF mode = "deliver" THEN st.nonce ELSE st.cnonce IN
       {Tx(mode, v, "ok", "ok", <<Good(st, ns, v, f, 1, d)>>) : v \in VALS, f \in FIDS, d \in DETS}
  \cup {Tx(mode, v, "ok", "ok", <<Mutate(Good(st, ns, v, f, 1, D1), mu)>>) : v \in VALS, f \in FIDS, mu \in (IF mode = "deliver" THEN MUTS ELSE MUTSC)}
  \cup {Tx(mode, v, sg, "ok", <<Good(st, ns, v, f, 1, D1)>>) : v \in VALS, f \in FIDS, sg \in (IF mode = "recheck" THEN {} ELSE SIGS)}
  \cup {Tx(mode, v, sg, "ok", <<Good(st, ns, v, f, 1, D1)>>) : v \in OTHERS, f \in FIDS, sg \in {"ok"} \cup (IF mode = "recheck" THEN {} ELSE SIGS)}
  \cup {Tx(mode, v, "ok", "big", <<Good(st, ns, v, f, 1, D1)>>) : v \in VALS, f \in FIDS}
  \cup (IF mode = "deliver"
        THEN {Tx(mode, v, "ok", "ok", <<Good(st, ns, v, f, 1, d), Good(st, ns, v, f2, IF f2 = f THEN 2 ELSE 1, d2)>>) :
                 v \in VALS, f \in FIDS, f2 \in FIDS, d \in DETS, d2 \in (IF MUTS2 = {} THEN {} ELSE DETS)}
          \cup {Tx(mode, v, "ok", "ok", <<Good(st, ns, v, f, 1, d), Mutate(Good(st, ns, v, f2, IF f2 = f THEN 2 ELSE 1, D1), mu)>>) :
                 v \in VALS, f \in FIDS, f2 \in FIDS, d \in DETS, mu \in MUTS2}
        ELSE {})

NoCls == <<"", "">>
EndCls == <<"end", "">>
Init ==
  /\ S = InitState /\ G = ZeroG /\ hist = <<>> /\ viol = {} /\ ntx = 0 /\ nchk = 0 /\ nep = 0 /\ cls = NoCls

DoTx(a) ==
  /\ Len(hist) < MAXOPS
  /\ IF a.mode = "deliver" THEN ntx < MAXTX ELSE nchk < MAXCHK
  /\ LET r == Apply(S, "Tx", a) IN
     /\ S' = r.st
     /\ viol' = TxTags(S, r.st, a, r.res, G, [all |-> TRUE, butNonce |-> TRUE])
     /\ G' = GStep(G, S, r.st, a, r.res, {f \in FIDS : S.rounds[f].status = "open" /\ r.st.rounds[f].status = "closed"})
     /\ hist' = Append(hist, [ev |-> "Tx", a |-> a])
     /\ ntx' = IF a.mode = "deliver" THEN ntx + 1 ELSE ntx
     /\ nchk' = IF a.mode = "deliver" THEN nchk ELSE nchk + 1
     /\ nep' = nep

DoBlock ==
  /\ Len(hist) < MAXOPS /\ S.h < MAXH
  /\ S' = NextBlock(S).st
  /\ viol' = {} /\ G' = GBlock(G)
  /\ hist' = Append(hist, [ev |-> "NextBlock", a |-> [x |-> 0]])
  /\ ntx' = 0 /\ nchk' = 0 /\ nep' = nep

DoEpoch ==
  /\ Len(hist) < MAXOPS /\ S.h < MAXH /\ nep < MAXEP
  /\ S' = Apply(S, "Epoch", [x |-> 0]).st
  /\ viol' = {} /\ G' = GBlock(G)
  /\ hist' = Append(hist, [ev |-> "Epoch", a |-> [x |-> 0]])
  /\ ntx' = 0 /\ nchk' = 0 /\ nep' = nep + 1

DoValOut(v) ==
  /\ Len(hist) < MAXOPS /\ v \notin S.out /\ v \in S.vals
  /\ S' = Apply(S, "ValOut", [v |-> v]).st
  /\ viol' = {} /\ G' = G
  /\ hist' = Append(hist, [ev |-> "ValOut", a |-> [v |-> v]])
  /\ UNCHANGED <<ntx, nchk, nep>>

\* ---- plain (exhaustive) next-state relation
NextPlain ==
  /\ UNCHANGED cls
  /\ \/ DoBlock
     \/ DoEpoch
     \/ \E v \in VALOUT : DoValOut(v)
     \/ \E mode \in MODES : \E a \in Acts(S, mode) : DoTx(a)

\* ---- biased next-state relation (generation): pick a class, then an action of that class.
\* Two block classes give NextBlock weight 2; the End class makes the last step unique so that the
\* behaviour is printed once per simulated trace.
BlockClasses == {<<"block", "1">>, <<"block", "2">>}
SetClasses == (IF VALOUT = {} THEN {} ELSE {<<"valout", "">>}) \cup (IF MAXEP = 0 THEN {} ELSE {<<"epoch", "">>})
Classes == BlockClasses \cup SetClasses \cup {<<m, r>> : m \in MODES, r \in {"ok", "ante", "msg"}} \cup {<<"deliver", "two">>}
InClass(a, c) ==
  /\ c \notin BlockClasses \cup SetClasses /\ a.mode = c[1]
  /\ IF c[2] = "two" THEN Len(a.msgs) = 2 ELSE Len(a.msgs) = 1 /\ Apply(S, "Tx", a).res = c[2]
Room(mode) == IF mode = "deliver" THEN ntx < MAXTX ELSE nchk < MAXCHK
Matching(c) == IF c \in BlockClasses \cup SetClasses \/ ~Room(c[1]) THEN {} ELSE {a \in Acts(S, c[1]) : InClass(a, c)}
Done == Len(hist) >= MAXOPS \/ TLCGet("level") >= EMITLVL
Same == UNCHANGED <<S, G, hist, viol, ntx, nchk, nep>>
NextBias ==
  IF cls = EndCls THEN FALSE
  ELSE IF Done THEN cls' = EndCls /\ Same
  ELSE IF cls = NoCls THEN (\E c \in Classes : cls' = c) /\ Same
  ELSE /\ cls' = NoCls
       /\ IF cls \in BlockClasses THEN (IF S.h < MAXH THEN DoBlock ELSE Same)
          ELSE IF cls = <<"epoch", "">> THEN (IF S.h < MAXH /\ nep < MAXEP THEN DoEpoch ELSE Same)
          ELSE IF cls = <<"valout", "">> THEN (IF \E v \in VALOUT : v \notin S.out /\ v \in S.vals
                                               THEN \E v \in VALOUT : DoValOut(v) ELSE Same)
          ELSE IF Matching(cls) = {} THEN Same
          ELSE \E a \in Matching(cls) : DoTx(a)

Next == IF BIAS THEN NextBias ELSE NextPlain
Spec == Init /\ [][Next]_vars

View == <<S, G, viol, ntx, nchk, nep, cls>>

\* ----- invariants -----
\* C13 on the model: no step of the model violates any clause of the statement
InvC13 == viol = {}
\* sanity of the model itself
InvNonceRange == \A k \in NKeys : S.nonce[k] \in -1..MAXNONCE /\ S.cnonce[k] \in -1..MAXNONCE
\* with DEV = {} memory and store agree: an open in-memory round has nonce entries for all validators
InvOpenHasNonce == \A f \in FIDS : S.rounds[f].status = "open" => \A v \in S.vals : S.nonce[<<v, f>>] >= 0

\* behaviour generation: print the history once it reaches the depth bound
EmitAtDepth == cls # EndCls \/ PrintT("BEHAVIOUR " \o ToJson(hist))
=============================================================================
