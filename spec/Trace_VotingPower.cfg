SPECIFICATION Spec
CONSTANTS
  KEYBYSENT = FALSE
  OORD <- t_OORD
  AORD <- t_AORD
  AVSORD <- t_AVSORD
  EIDS <- t_EIDS
  DUR <- t_DUR
  DECI <- t_DECI
  PREC <- t_PREC
POSTCONDITION Consumed
CHECK_DEADLOCK FALSE
