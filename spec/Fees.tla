-------------------------------- MODULE Fees --------------------------------
(***************************************************************************)
(* Native supply and fee distribution of exocore (property C17).            *)
(*                                                                         *)
(* Mirrors                                                                 *)
(*   x/exomint/keeper/impl_epochs_hooks.go : AfterEpochEnd                  *)
(*   x/exomint/keeper/keeper.go            : MintCoins, AddCollectedFees    *)
(*   x/feedistribution/keeper/hooks.go     : AfterEpochEnd                  *)
(*   x/feedistribution/keeper/allocation.go: AllocateTokens,                *)
(*        AllocateTokensToValidator, AllocateTokensToStakers,               *)
(*        AllocateTokensToSingleStaker                                      *)
(*   x/epochs/keeper/abci.go               : BeginBlocker (identifiers in   *)
(*        store order; hooks in the order of app/app.go: distribution,      *)
(*        operator, dogfood, mint, avs)                                     *)
(*                                                                         *)
(* The store is a VALUE.  Two records:                                      *)
(*   st  - what this family owns:                                           *)
(*     supply            bank supply of the native denom            (Int)   *)
(*     fc, mint, dist    balances of the fee_collector, exomint and         *)
(*                       feedistribution module accounts            (Int)   *)
(*     cp                FeePool.CommunityPool                      (Dec)   *)
(*     comm[o]           ValidatorAccumulatedCommission             (Dec)   *)
(*     outst[o]          ValidatorOutstandingRewards                (Dec)   *)
(*     srew[s]           StakerOutstandingRewards                   (Dec)   *)
(*   e   - the ENVIRONMENT the allocation reads (owned by other modules;    *)
(*         DESIGN 3.3: the callee appears as an input):                     *)
(*     tax, distId       feedistribution params                             *)
(*     reward, mintId    exomint params                                     *)
(*     ltp               dogfood LastTotalPower                     (Int)   *)
(*     vals              dogfood validators in store order:                 *)
(*                       <<[o |-> operator id or "" (reverse lookup not     *)
(*                       found), pw |-> power]>>                            *)
(*     rate[o]           operator commission rate                   (Dec)   *)
(*     ent[o]            the entries AllocateTokensToStakers builds for     *)
(*                       operator o: one [s, p] per (opted-in AVS, AVS      *)
(*                       asset, staker in the staker list of (o, asset)),   *)
(*                       p = CalculateUSDValueForStaker(s, avs, o)  (Dec)   *)
(*                                                                         *)
(* Dec values are the scaled integers (LegacyDec.BigInt()), PREC = 10^18 in *)
(* the implementation.  Only the native denom is modelled.                  *)
(*                                                                         *)
(* Event alphabet (what is generated, executed and logged):                 *)
(*   FeeIncome  [x, path]  coins arrive in the fee collector (path "bank":  *)
(*                         SendCoinsFromAccountToModule; "tx": the fee of a *)
(*                         real signed cosmos tx through DeliverTx)         *)
(*   Burn       [x]        an account's coins are burnt through a burner    *)
(*                         module account (bank BurnCoins)                  *)
(*   Delegate   [s,a,o,x]  deposit + delegate at keeper level (changes the  *)
(*                         environment only)                                *)
(*   Jail       [o]        the dogfood keeper jails validator o (what         *)
(*                         x/slashing does for downtime): the validator     *)
(*                         keeps its power until the next staking epoch,    *)
(*                         its stakers' active USD value becomes 0          *)
(*                         (changes the environment only)                   *)
(*   UpdateParams [tax, reward]  MsgUpdateParams of x/feedistribution (new    *)
(*                         community tax) and of x/exomint (new epoch       *)
(*                         reward), authority = gov module account,         *)
(*                         through the app's message router (changes the    *)
(*                         environment only)                                *)
(*   EndBlock   []         app.EndBlock + Commit                            *)
(*   BeginBlock [ended]    app.BeginBlock of the next block at a time that  *)
(*                         ends the epoch identifiers `ended`               *)
(***************************************************************************)
EXTENDS Num, Sequences, FiniteSets, TLC, SequencesExt, FiniteSetsExt, Folds

CONSTANTS
  PREC,        \* LegacyDec unit
  IDORD,       \* epoch identifiers of interest in store (byte) order
  DEVIATIONS   \* named OLD behaviours of AllocateTokensToStakers the model can follow instead of the current tree
               \* (kept so that the guards can show that the invariants detect them):
               \*   "L11": (defect, fixed in 311e836) adds the WHOLE staker share to the community pool
               \*   "ZS":  (never in the tree; guard only) early return when the operator's total staker power is zero,
               \*          so that the staker share is booked to nobody
               \*   "TX":  (never in the tree; guard only) AllocateTokens returns when the validators' part fees*(1-tax)
               \*          is zero, after the transfer and before the community pool is credited
               \*   "L27": (defect, fixed in 9ad8de4) one list entry and one payment per (AVS, asset, staker), the power
               \*          map overwritten by the last entry while the total sums every entry

Put(f, k, v) == [x \in DOMAIN f \cup {k} |-> IF x = k THEN v ELSE f[x]]
Get(f, k)    == IF k \in DOMAIN f THEN f[k] ELSE N0
AddTo(f, k, v) == Put(f, k, NAdd(Get(f, k), v))

SumF(S, f(_)) == MapThenFoldSet(LAMBDA x, y : NAdd(x, y), N0, f, LAMBDA T : CHOOSE x \in T : TRUE, S)
SumFn(f)      == SumF(DOMAIN f, LAMBDA k : f[k])

EmptyFn == [x \in {} |-> N0]
ZeroSt  == [supply |-> N0, fc |-> N0, mint |-> N0, dist |-> N0, cp |-> N0,
            comm |-> EmptyFn, outst |-> EmptyFn, srew |-> EmptyFn]

One == PREC       \* LegacyOneDec

(***************************************************************************)
(* x/feedistribution/keeper/allocation.go                                   *)
(***************************************************************************)

\* AllocateTokensToStakers(operator o, rewardToAllStakers R).
\*   ents     = one (staker, power) per (avs, asset, staker of that list) the code visits
\*   total    = curTotalStakersPowers: the sum over ALL entries
\*   current tree (9ad8de4): globalStakerAddressList holds every staker ONCE (first occurrence),
\*              stakersPowerMap[s] = SUM of the powers of its entries, one payment per staker
\*   "L27" (before): the list holds every entry, pmap[s] = the LAST power written for s
\* The loop runs in descending power order (sort.Slice); the result does not depend on the
\* order because every entry adds to its own staker's reward.  DecCoins.Sub panics when the
\* remainder goes negative.
ToStakersD(dv, st, e, o, R) ==
  LET ents  == IF o \in DOMAIN e.ent THEN e.ent[o] ELSE <<>>
      total == FoldLeft(LAMBDA acc, en : NAdd(acc, en.p), N0, ents)
      pmap(s) == LET I == {i \in DOMAIN ents : ents[i].s = s} IN ents[Max(I)].p
      step(acc, en) ==
        LET fr == DecQuoTrunc(pmap(en.s), total, PREC)       \* stakerPower.QuoTruncate(total)
            r  == DecMulTrunc(R, fr, PREC)                   \* rewardToAllStakers.MulDecTruncate
            rm == NSub(acc.rem, r)
        IN [srew |-> AddTo(acc.srew, en.s, r), rem |-> rm, panic |-> acc.panic \/ NIsNeg(rm)]
      zero == [srew |-> st.srew, rem |-> R, panic |-> FALSE]
      \* current tree: the list holds every staker once (first occurrence), its power is the SUM of its entries
      firsts == SelectSeq([i \in DOMAIN ents |-> [i |-> i, s |-> ents[i].s]],
                          LAMBDA x : \A j \in 1..(x.i - 1) : ents[j].s # x.s)
      acc(s) == FoldLeft(LAMBDA a, en : IF en.s = s THEN NAdd(a, en.p) ELSE a, N0, ents)
      stepAcc(a, x) ==
        LET fr == DecQuoTrunc(acc(x.s), total, PREC)
            r  == DecMulTrunc(R, fr, PREC)
            rm == NSub(a.rem, r)
        IN [srew |-> AddTo(a.srew, x.s, r), rem |-> rm, panic |-> a.panic \/ NIsNeg(rm)]
      res  == IF ~NIsPos(total) THEN zero
              ELSE IF "L27" \in dv THEN FoldLeft(step, zero, ents)
              ELSE FoldLeft(stepAcc, zero, firsts)
      \* code since 311e836: feePool.CommunityPool.Add(remaining...)
      \* before (lead L11):  feePool.CommunityPool.Add(rewardToAllStakers...)
      \* "ZS": a seeded omission - returning early when no staker has power, before the remainder is booked
      cpAdd == IF "L11" \in dv THEN R ELSE IF "ZS" \in dv /\ ~NIsPos(total) THEN N0 ELSE res.rem
  IN [st |-> [st EXCEPT !.srew = res.srew, !.cp = NAdd(st.cp, cpAdd)], panic |-> res.panic]

\* AllocateTokensToValidator(operator o, tokens)
ToValidatorD(dv, st, e, o, tokens) ==
  LET rate       == Get(e.rate, o)
      commission == DecMul(tokens, rate, PREC)                \* tokens.MulDec(rate): banker's rounding
      shared     == NSub(tokens, commission)                  \* tokens.Sub(commission): panics if negative
      st1        == [st EXCEPT !.comm = AddTo(st.comm, o, commission)]
      r          == ToStakersD(dv, st1, e, o, shared)
      st2        == [r.st EXCEPT !.outst = AddTo(r.st.outst, o, tokens)]
  IN [st |-> st2, panic |-> r.panic \/ NIsNeg(shared)]

\* AllocateTokens(totalPreviousPower = e.ltp)
AllocateTokensD(dv, st, e) ==
  LET fees == DecFromInt(st.fc, PREC)                         \* NewDecCoinsFromCoins(all fee collector coins)
      st0  == [st EXCEPT !.dist = NAdd(st.dist, st.fc), !.fc = N0]   \* SendCoinsFromModuleToModule
  IN IF NIsZero(e.ltp)
     THEN [st |-> [st0 EXCEPT !.cp = NAdd(st0.cp, fees)], panic |-> FALSE]
     ELSE
       LET mult == DecMulTrunc(fees, NSub(One, e.tax), PREC)  \* feesCollected.MulDecTruncate(1 - tax)
           \* "TX": a seeded omission - returning when the validators' part is zero, after the transfer and
           \* before the community pool is credited
           skip == "TX" \in dv /\ NIsZero(mult)
           step(acc, v) ==
             IF v.o = "" THEN acc                             \* reverse lookup failed: skipped, stays in `remaining`
             ELSE LET pf     == DecQuoTrunc(DecFromInt(v.pw, PREC), DecFromInt(e.ltp, PREC), PREC)
                      reward == DecMulTrunc(mult, pf, PREC)
                      r      == ToValidatorD(dv, acc.st, e, v.o, reward)
                      rm     == NSub(acc.rem, reward)
                  IN [st |-> r.st, rem |-> rm, panic |-> acc.panic \/ r.panic \/ NIsNeg(rm)]
           res == FoldLeft(step, [st |-> st0, rem |-> fees, panic |-> FALSE], e.vals)
       IN IF skip THEN [st |-> st0, panic |-> FALSE]
          ELSE [st |-> [res.st EXCEPT !.cp = NAdd(res.st.cp, res.rem)], panic |-> res.panic]

(***************************************************************************)
(* x/exomint/keeper/impl_epochs_hooks.go : AfterEpochEnd                    *)
(***************************************************************************)
Mint(st, e) ==
  IF NIsZero(e.reward) THEN st
  ELSE \* MintCoins(exomint, reward) ; SendCoinsFromModuleToModule(exomint -> fee collector)
       [st EXCEPT !.supply = NAdd(st.supply, e.reward), !.fc = NAdd(st.fc, e.reward)]

(***************************************************************************)
(* x/epochs BeginBlocker: identifiers in store order; for an ended          *)
(* identifier the subscribers run in the order distribution ... mint.       *)
(***************************************************************************)
EpochEndOfD(dv, r, e, id) ==
  LET a == IF id = e.distId THEN AllocateTokensD(dv, r.st, e) ELSE [st |-> r.st, panic |-> FALSE]
      m == IF id = e.mintId THEN Mint(a.st, e) ELSE a.st
  IN [st |-> m, panic |-> r.panic \/ a.panic]

BeginBlockD(dv, st, e, ended) ==
  FoldLeft(LAMBDA r, id : IF id \in ended /\ ~r.panic THEN EpochEndOfD(dv, r, e, id) ELSE r,
           [st |-> st, panic |-> FALSE], IDORD)

(***************************************************************************)
(* Apply: the model's step for an event                                     *)
(***************************************************************************)
ApplyD(dv, st, e, ev, a) ==
  CASE ev = "FeeIncome"  -> [st |-> [st EXCEPT !.fc = NAdd(st.fc, a.x)], panic |-> FALSE]
    [] ev = "Burn"       -> [st |-> [st EXCEPT !.supply = NSub(st.supply, a.x)], panic |-> FALSE]
    [] ev = "BeginBlock" -> BeginBlockD(dv, st, e, a.ended)
    [] OTHER             -> [st |-> st, panic |-> FALSE]      \* Delegate, Jail, UpdateParams(Dropped), EndBlock

Apply(st, e, ev, a) == ApplyD(DEVIATIONS, st, e, ev, a)

(***************************************************************************)
(* PROPERTY C17, written from the statement (properties.jsonl).             *)
(* Evaluated on a pair of consecutive OBSERVED states; `e` is the           *)
(* environment observed in the pre-state.                                   *)
(***************************************************************************)
Books(st) == NAdd(st.cp, NAdd(SumFn(st.comm), SumFn(st.srew)))
Moved(pre, post) == NSub(post.dist, pre.dist)
MintedBy(e, ev, a) == IF ev = "BeginBlock" /\ e.mintId \in a.ended THEN e.reward ELSE N0

\* "total supply changes only by the configured epoch reward, minted exactly once at each
\*  mint-epoch end (and by ordinary EVM/bank burns)"
SupplyDelta(pre, post, e, ev, a, ok) ==
  LET d == NSub(post.supply, pre.supply) IN
  IF ev = "Burn" /\ ok THEN NEq(d, NNeg(a.x)) ELSE NEq(d, MintedBy(e, ev, a))

\* "At each distribution-epoch end the whole fee-collector balance moves to the distribution
\*  account".  The statement does not fix whether the reward of a mint-epoch end of the same
\*  block is minted before or after the move (that depends on the identifiers' store order), so
\*  both are accepted; outside distribution-epoch ends nothing moves.
AllMoved(pre, post, e, ev, a) ==
  LET m == MintedBy(e, ev, a) IN
  IF ev = "BeginBlock" /\ e.distId \in a.ended
  THEN \/ NEq(Moved(pre, post), pre.fc) /\ NEq(post.fc, m)
       \/ NEq(Moved(pre, post), NAdd(pre.fc, m)) /\ NIsZero(post.fc)
  ELSE NIsZero(Moved(pre, post))

\* "booked to the community pool, operator commissions and staker rewards so that the booked
\*  claims add up to exactly the amount moved (truncation dust goes to the community pool)"
BookedExcess(pre, post) == NSub(NSub(Books(post), Books(pre)), DecFromInt(Moved(pre, post), PREC))
Booked(pre, post) == NIsZero(BookedExcess(pre, post))

\* "and in total never exceed the distribution account's balance"
SolvencyGap(st) == NSub(Books(st), DecFromInt(st.dist, PREC))
Solvent(st) == ~NIsPos(SolvencyGap(st))

NonNegative(st) ==
  /\ ~NIsNeg(st.supply) /\ ~NIsNeg(st.fc) /\ ~NIsNeg(st.mint) /\ ~NIsNeg(st.dist) /\ ~NIsNeg(st.cp)
  /\ \A k \in DOMAIN st.comm : ~NIsNeg(st.comm[k])
  /\ \A k \in DOMAIN st.srew : ~NIsNeg(st.srew[k])

\* "each validator's portion being proportional to its voting power and split by its
\*  commission rate".  Portion of validator o in this step = growth of its outstanding rewards.
\* Ideal portion = moved * (1 - tax) * pw / ltp.  Tolerance: one base unit plus one part in
\* PREC of the amount moved (the power fraction itself is a PREC-digit decimal).
\* Everything is multiplied out so that no division is needed:
\*    | portion * PREC * ltp  -  movedDec * (PREC - tax) * pw |  <=  (PREC + moved) * PREC * ltp
NAbsDiff(x, y) == IF NLt(x, y) THEN NSub(y, x) ELSE NSub(x, y)
Portion(pre, post, o) == NSub(Get(post.outst, o), Get(pre.outst, o))
CommOf(pre, post, o)  == NSub(Get(post.comm, o), Get(pre.comm, o))
ValOps(e) == {v.o : v \in Range(e.vals)} \ {""}
PowerOf(e, o) == SumF({i \in DOMAIN e.vals : e.vals[i].o = o}, LAMBDA i : e.vals[i].pw)

Proportional(pre, post, e, ev, a) ==
  LET isDist == ev = "BeginBlock" /\ e.distId \in a.ended
      moved  == Moved(pre, post)
      mdec   == DecFromInt(moved, PREC)
      ops    == DOMAIN pre.outst \cup DOMAIN post.outst \cup ValOps(e)
  IN \A o \in ops :
       IF ~isDist \/ NIsZero(e.ltp) \/ o \notin ValOps(e) THEN NIsZero(Portion(pre, post, o))
       ELSE NLe(NAbsDiff(NMul(Portion(pre, post, o), NMul(PREC, e.ltp)),
                         NMul(mdec, NMul(NSub(One, e.tax), PowerOf(e, o)))),
                NMul(NAdd(PREC, moved), NMul(PREC, e.ltp)))

\* commission = portion * rate within one base unit:  | dcomm * PREC - portion * rate | <= PREC * PREC
CommissionSplit(pre, post, e) ==
  \A o \in DOMAIN pre.comm \cup DOMAIN post.comm \cup DOMAIN pre.outst \cup DOMAIN post.outst :
     NLe(NAbsDiff(NMul(CommOf(pre, post, o), PREC), NMul(Portion(pre, post, o), Get(e.rate, o))),
         NMul(PREC, PREC))

\* the staker part of every portion is booked to stakers or the community pool, never to anyone
\* else: nobody's staker reward shrinks, and the staker rewards booked in a step never exceed
\* what the validators' portions leave after commission
StakerPart(pre, post) ==
  LET ops == DOMAIN pre.outst \cup DOMAIN post.outst \cup DOMAIN pre.comm \cup DOMAIN post.comm
      left == SumF(ops, LAMBDA o : NSub(Portion(pre, post, o), CommOf(pre, post, o)))
      ss   == DOMAIN pre.srew \cup DOMAIN post.srew
      d(s) == NSub(Get(post.srew, s), Get(pre.srew, s))
  IN /\ \A s \in ss : ~NIsNeg(d(s))
     /\ NLe(SumF(ss, d), left)

\* equality of two fee states up to absent = zero entries
SameFn(f, g) == \A k \in DOMAIN f \cup DOMAIN g : NEq(Get(f, k), Get(g, k))
SameSt(x, y) ==
  /\ NEq(x.supply, y.supply) /\ NEq(x.fc, y.fc) /\ NEq(x.mint, y.mint) /\ NEq(x.dist, y.dist) /\ NEq(x.cp, y.cp)
  /\ SameFn(x.comm, y.comm) /\ SameFn(x.outst, y.outst) /\ SameFn(x.srew, y.srew)
=============================================================================
