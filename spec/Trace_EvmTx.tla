---------------------------- MODULE Trace_EvmTx ----------------------------
(***************************************************************************)
(* Trace validation for the evmtx family (C19).                             *)
(*                                                                         *)
(* Input: trace.ndjson written by `harness evmtx` - one line per event      *)
(* executed on the REAL application through app.DeliverTx / EndBlock /      *)
(* Commit / BeginBlock: the concrete transaction, ResponseDeliverTx (code,  *)
(* gas used), VmError, the projection of the EvmTx store after the event    *)
(* and one digest per module store.                                         *)
(*                                                                         *)
(* Per step:                                                               *)
(*   C19_..    property lane: the clauses of C19 (EvmTx!C19Tags) on the     *)
(*             OBSERVED pre/post states and the observed result, plus the   *)
(*             digest clauses ("changes no other state").                   *)
(*   STRICT_.. strict lane: observed post-state / result differ from        *)
(*             EvmTx!Apply(pre, event, args) (drift, never a violation).    *)
(***************************************************************************)
EXTENDS EvmTx, Json

Trace == ndJsonDeserialize("trace.ndjson")
Hdr   == Trace[1].cfg

t_ACCTS     == ToSet(Hdr.accts)
t_CONTRACTS == ToSet(Hdr.contracts)
t_PREC      == "1000000000000000000"
t_MINGP     == Hdr.mingp
t_MULT      == Hdr.mult
t_BLOCKGAS  == Hdr.blockgas
t_GATEWAY   == Hdr.gateway
\* go-ethereum London gas schedule for the storage fixture: 59 gas of cheap opcodes around the SSTORE, ColdSloadCostEIP2929,
\* WarmStorageReadCostEIP2929, SstoreSetGasEIP2200, SstoreResetGasEIP2200 - ColdSloadCost, SstoreClearsScheduleRefundEIP3529,
\* RefundQuotientEIP3529
t_FIX       == [exec |-> 59, cold |-> 2100, noop |-> 100, set |-> 20000, reset |-> 2900, clear |-> 4800, quot |-> 5]
\* deviations of the current tree = the C19 entries of known_findings.json that are not `fixed`
\* (tools/fam_evmtx.py passes them to the harness, which writes them into the header): the strict lane
\* follows the code as it is
t_DEVS      == ToSet(Hdr.devs)

VARIABLES l, S, D
\* l: next line; S: observed store; D: observed digests
vars == <<l, S, D>>

FromLog(j) ==
  [ nonce |-> [a \in ACCTS |-> j.nonce[a]],
    bal   |-> [p \in Parties |-> NC(j.bal[p])],
    fc    |-> NC(j.fc),
    sink  |-> NC(j.sink),
    bg    |-> NC(j.bg),
    bf    |-> NC(j.bf),
    stor  |-> [c \in {"c", "w", "w1"} |-> NC(j.stor[c])],
    dep   |-> NC(j.dep),
    wd    |-> [a \in ACCTS |-> NC(j.wd[a])],
    dl    |-> [a \in ACCTS |-> NC(j.dl[a])],
    avs   |-> j.avs ]

TxOfT(t) ==
  [ s |-> t.s, to |-> t.to, ty |-> t.ty, gas |-> t.gas, price |-> NC(t.price), tip |-> NC(t.tip),
    value |-> NC(t.value), nonce |-> t.nonce, intr |-> t.intr, mode |-> t.mode,
    word |-> NC(t.word), op |-> t.op, amt |-> NC(t.amt) ]
TxOf(a) == TxOfT(a.t)
XOf(x) == [x EXCEPT !.wflag = NC(@)]

(***************************************************************************)
(* property lane: digest clauses                                            *)
(*   dg[m] = SHA-256 of module store m (bank / acc / evm without the        *)
(*   entries of the projected parties, which are compared field by field).  *)
(***************************************************************************)
\* inc: the tx left a trace / was executed; failed: every Ethereum tx in it failed;
\* plain: only transfers between accounts; restaking: some message targets the precompile / gateway fixtures
DigestTagsG(dpre, dpost, inc, failed, plain, restaking) ==
  LET same(M) == \A m \in M : dpost[m] = dpre[m]
      all == DOMAIN dpre
  IN
  \* not included: no trace anywhere
  T((~inc) => dpost = dpre, "C19_RejectedChangedState") \cup
  \* included but failed: nothing but the fee and the nonce (both projected) may change
  T((inc /\ failed) => dpost = dpre, "C19_FailedChangedState") \cup
  \* (drift, not C19) a plain transfer between existing accounts touches no module state besides the
  \* bank/auth entries of the parties; restaking stores move only through the restaking precompiles
  T((inc /\ ~failed /\ plain) => dpost = dpre, "STRICT_transferDigests") \cup
  T((inc /\ ~failed /\ ~restaking) => same(all \cap {"assets", "delegation", "operator", "dogfood", "avs", "reward", "exoslash", "oracle"}),
    "STRICT_restakingDigests")

DigestTags(pre, post, dpre, dpost, t, o) ==
  DigestTagsG(dpre, dpost, Included(pre, post, o), Failed(o), t.to \in ACCTS, t.to \in {"pre", "gw", "w", "newp"})

DigestTagsBatch(pre, post, dpre, dpost, ts, o) ==
  DigestTagsG(dpre, dpost, o.code = 0 \/ Changed(pre, post), \A i \in DOMAIN ts : Failed(ObsOf(o, i)),
              \A i \in DOMAIN ts : ts[i].to \in ACCTS, \E i \in DOMAIN ts : ts[i].to \in {"pre", "gw", "w", "newp"})

(***************************************************************************)
(* strict lane                                                             *)
(***************************************************************************)
StrictTags(pre, post, ev, a, o) ==
  LET r == Apply(pre, ev, a) IN
  T(r.st = post \/ ~PrintT("DIFF " \o ToJson([exp |-> r.st, obs |-> post, code |-> r.code])), "STRICT_state_" \o ev) \cup
  T(r.code = o.code, "STRICT_code_" \o ev) \cup
  T(ev = "NewBlock" \/ o.code \notin {0, 1, 11} \/ NEq(r.gu, o.gu), "STRICT_gas_" \o ev) \cup
  T(ev # "Tx" \/ r.vmfail = o.vmfail, "STRICT_vmfail_" \o ev) \cup
  T(ev # "Batch" \/ o.code # 0 \/ (Len(r.gus) = Len(o.gus) /\ \A i \in DOMAIN o.gus : NEq(r.gus[i], o.gus[i]) /\ r.vmfails[i] = o.vmfails[i]), "STRICT_batchResults") \cup
  \* mempool admission (ante handler in CheckTx mode on the same pre-state)
  T(ev # "Tx" \/ AdmitCheck(pre, a.t) = o.chk, "STRICT_checktx") \cup
  \* a plain transfer to an account consumes exactly the intrinsic gas in the EVM
  T(ev # "Tx" \/ o.code # 0 \/ a.t.to \notin ACCTS \/ NEq(o.gu, NMax(MinUsed(a.t), a.t.intr)), "STRICT_transferGas")

(***************************************************************************)
(* replay                                                                  *)
(***************************************************************************)
Init ==
  /\ l = 1
  /\ S = [x |-> 0]
  /\ D = [x |-> 0]

Next ==
  /\ l <= Len(Trace)
  /\ l' = l + 1
  /\ LET line == Trace[l] IN
     IF line.ev = "reset" THEN
       /\ S' = FromLog(line.st)
       /\ D' = line.dg
     ELSE
       LET post == FromLog(line.st)
           a    == IF line.ev = "Tx" THEN [t |-> TxOf(line.a), x |-> XOf(line.a.x)]
                   ELSE IF line.ev = "Batch" THEN [ts |-> [i \in DOMAIN line.a.ts |-> TxOfT(line.a.ts[i])], xs |-> [i \in DOMAIN line.a.xs |-> XOf(line.a.xs[i])]]
                   ELSE [bf |-> NC(line.a.bf), fc |-> NC(line.a.fc), wd |-> [p \in ACCTS |-> NC(line.a.wd[p])]]
           o    == line.o
           tags == (IF line.ev = "Tx" THEN C19Tags(S, post, a.t, o) \cup DigestTags(S, post, D, line.dg, a.t, o)
                    ELSE IF line.ev = "Batch" THEN C19BatchTags(S, post, a.ts, o) \cup DigestTagsBatch(S, post, D, line.dg, a.ts, o)
                    ELSE {}) \cup
                   StrictTags(S, post, line.ev, a, o)
       IN /\ S' = post
          /\ D' = line.dg
          /\ tags = {} \/ PrintT("TAG " \o ToJson([l |-> l, ev |-> line.ev, tags |-> tags]))

Spec == Init /\ [][Next]_vars

Consumed == TLCGet("stats").diameter - 1 = Len(Trace)
=============================================================================
