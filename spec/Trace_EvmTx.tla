---------------------------- MODULE Trace_EvmTx ----------------------------
(***************************************************************************)
(* Trace validation for the evmtx family (C19).                             *)
(*                                                                         *)
(* Input: trace.ndjson written by `harness evmtx` - one line per event      *)
(* executed on the REAL application through app.DeliverTx / EndBlock /      *)
(* Commit / BeginBlock: the concrete transaction, ResponseDeliverTx (code,  *)
(* gas used), VmError, the projection of the EvmTx store after the event    *)
(* and one digest per module store.                                         *)
(*                                                                         *)
(* Per step:                                                               *)
(*   C19_..    property lane: the clauses of C19 (EvmTx!C19Tags) on the     *)
(*             OBSERVED pre/post states and the observed result, plus the   *)
(*             digest clauses ("changes no other state").                   *)
(*   STRICT_.. strict lane: observed post-state / result differ from        *)
(*             EvmTx!Apply(pre, event, args) (drift, never a violation).    *)
(***************************************************************************)
EXTENDS EvmTx, Json

Trace == ndJsonDeserialize("trace.ndjson")
Hdr   == Trace[1].cfg

ToSet(s) == {s[i] : i \in DOMAIN s}
t_ACCTS     == ToSet(Hdr.accts)
t_CONTRACTS == ToSet(Hdr.contracts)
t_PREC      == "1000000000000000000"
t_MINGP     == Hdr.mingp
t_MULT      == Hdr.mult
t_BLOCKGAS  == Hdr.blockgas
t_GATEWAY   == Hdr.gateway
\* deviations of the current tree (known_findings.json): the strict lane follows the code as it is
t_DEVS      == {"DEV_SplitBalanceCheck", "DEV_RevertedFrameKeepsPrecompileWrites"}

VARIABLES l, S, D
\* l: next line; S: observed store; D: observed digests
vars == <<l, S, D>>

FromLog(j) ==
  [ nonce |-> [a \in ACCTS |-> j.nonce[a]],
    bal   |-> [p \in Parties |-> NC(j.bal[p])],
    fc    |-> NC(j.fc),
    sink  |-> NC(j.sink),
    bg    |-> NC(j.bg),
    bf    |-> NC(j.bf),
    stor  |-> [c \in {"c", "w", "w1"} |-> NC(j.stor[c])],
    dep   |-> NC(j.dep) ]

TxOf(a) ==
  [ s |-> a.t.s, to |-> a.t.to, ty |-> a.t.ty, gas |-> a.t.gas, price |-> NC(a.t.price), tip |-> NC(a.t.tip),
    value |-> NC(a.t.value), nonce |-> a.t.nonce, intr |-> a.t.intr, mode |-> a.t.mode,
    word |-> NC(a.t.word), amt |-> NC(a.t.amt) ]

(***************************************************************************)
(* property lane: digest clauses                                            *)
(*   dg[m] = SHA-256 of module store m (bank / acc / evm without the        *)
(*   entries of the projected parties, which are compared field by field).  *)
(***************************************************************************)
DigestTags(pre, post, dpre, dpost, t, o) ==
  LET inc == Included(pre, post, o)
      same(M) == \A m \in M : dpost[m] = dpre[m]
      all == DOMAIN dpre
  IN
  \* not included: no trace anywhere
  T((~inc) => dpost = dpre, "C19_RejectedChangedState") \cup
  \* included but failed: nothing but the fee and the nonce (both projected) may change
  T((inc /\ Failed(o)) => dpost = dpre, "C19_FailedChangedState") \cup
  \* (drift, not C19) a plain transfer between existing accounts touches no module state besides the
  \* bank/auth entries of the parties; restaking stores move only through the assets precompile
  T((inc /\ ~Failed(o) /\ t.to \in ACCTS) => dpost = dpre, "STRICT_transferDigests") \cup
  T((inc /\ ~Failed(o) /\ t.to \notin {"pre", "gw", "w"}) => same(all \cap {"assets", "delegation", "operator", "dogfood", "avs", "reward", "exoslash", "oracle"}),
    "STRICT_restakingDigests")

(***************************************************************************)
(* strict lane                                                             *)
(***************************************************************************)
StrictTags(pre, post, ev, a, o) ==
  LET r == Apply(pre, ev, a) IN
  T(r.st = post \/ ~PrintT("DIFF " \o ToJson([exp |-> r.st, obs |-> post, code |-> r.code])), "STRICT_state_" \o ev) \cup
  T(r.code = o.code, "STRICT_code_" \o ev) \cup
  T(ev # "Tx" \/ o.code \notin {0, 1, 11} \/ NEq(r.gu, o.gu), "STRICT_gas_" \o ev) \cup
  T(ev # "Tx" \/ r.vmfail = o.vmfail, "STRICT_vmfail_" \o ev) \cup
  \* mempool admission (ante handler in CheckTx mode on the same pre-state)
  T(ev # "Tx" \/ AdmitCheck(pre, a.t) = o.chk, "STRICT_checktx") \cup
  \* a plain transfer to an account consumes exactly the intrinsic gas in the EVM
  T(ev # "Tx" \/ o.code # 0 \/ a.t.to \notin ACCTS \/ NEq(o.gu, NMax(MinUsed(a.t), a.t.intr)), "STRICT_transferGas")

(***************************************************************************)
(* replay                                                                  *)
(***************************************************************************)
Init ==
  /\ l = 1
  /\ S = [x |-> 0]
  /\ D = [x |-> 0]

Next ==
  /\ l <= Len(Trace)
  /\ l' = l + 1
  /\ LET line == Trace[l] IN
     IF line.ev = "reset" THEN
       /\ S' = FromLog(line.st)
       /\ D' = line.dg
     ELSE
       LET post == FromLog(line.st)
           a    == IF line.ev = "Tx" THEN [t |-> TxOf(line.a), x |-> [line.a.x EXCEPT !.wflag = NC(@)]] ELSE [bf |-> NC(line.a.bf), fc |-> NC(line.a.fc)]
           o    == line.o
           tags == (IF line.ev = "Tx" THEN C19Tags(S, post, a.t, o) \cup DigestTags(S, post, D, line.dg, a.t, o) ELSE {}) \cup
                   StrictTags(S, post, line.ev, a, o)
       IN /\ S' = post
          /\ D' = line.dg
          /\ tags = {} \/ PrintT("TAG " \o ToJson([l |-> l, ev |-> line.ev, tags |-> tags]))

Spec == Init /\ [][Next]_vars

Consumed == TLCGet("stats").diameter - 1 = Len(Trace)
=============================================================================
