----------------------------- MODULE MC_Chain -----------------------------
(* Bounded exhaustive / simulation model of the chain family: every behaviour is a block script  *)
(* SHAPE (per block: does the dogfood epoch end, which structural transactions are delivered).   *)
EXTENDS Chain, Json

CONSTANTS ACTORS,     \* operators that may opt in / opt out / replace keys
          UNDELFROM,  \* operators that are undelegated from
          PATHS,      \* subset of {"pre","msg"}
          MAXTX,      \* structural transactions per block (0..MAXTX)
          MAXBLOCKS,  \* blocks after the prologue
          MAXUNDEL,   \* undelegations per behaviour
          FAILBUDGET, \* failing transactions per behaviour
          H0, EP0, SEQ0, LZN0   \* state at the end of the prologue (height, epoch, msg-staker sequence, lz nonce)

VARIABLES st, hist, sc, vs, nfail, nundel
vars == <<st, hist, sc, vs, nfail, nundel>>

Events ==
  {[k |-> "undel", o |-> o, path |-> p] : o \in UNDELFROM, p \in PATHS} \cup
  {[k |-> kk, o |-> o, path |-> ""] : kk \in {"optin", "optout", "setkey"}, o \in ACTORS}

EvSeqs == UNION {[1..n -> Events] : n \in 0..MAXTX}

Init ==
  /\ st = InitState(H0, EP0, SEQ0, LZN0)
  /\ hist = <<>>
  /\ sc = <<>>
  /\ vs = <<>>
  /\ nfail = 0
  /\ nundel = 0

\* how many of the exported collections are non-empty (states worth exporting)
Score(s) == (IF DOMAIN s.optq # {} THEN 1 ELSE 0) + (IF DOMAIN s.pruneq # {} THEN 1 ELSE 0) + (IF DOMAIN s.matq # {} THEN 1 ELSE 0)
          + (IF DOMAIN s.hold # {} THEN 1 ELSE 0) + (IF DOMAIN s.recs # {} THEN 1 ELSE 0)
          + (IF \E o \in OPS : s.prev[o] # "" THEN 1 ELSE 0) + (IF \E o \in OPS : s.removing[o] THEN 1 ELSE 0)

Next ==
  /\ Len(hist) < MAXBLOCKS
  /\ \E ee \in BOOLEAN, evs \in EvSeqs :
       LET b == [ee |-> ee, evs |-> evs]
           r == BlockStep(st, b)
           fails == Cardinality({i \in DOMAIN r.oks : ~r.oks[i]})
           und == Cardinality({i \in DOMAIN evs : evs[i].k = "undel"})
       IN /\ nfail + fails <= FAILBUDGET
          /\ nundel + und <= MAXUNDEL
          /\ st' = r.st
          /\ hist' = Append(hist, b)
          /\ sc' = Append(sc, Score(r.st))
          /\ vs' = Append(vs, r.st.vals)
          /\ nfail' = nfail + fails
          /\ nundel' = nundel + und

Spec == Init /\ [][Next]_vars
View == <<st, nfail, nundel, Len(hist)>>

\* ----- C18 on the model -----
InvValid     == Valid(st)
InvRoundTrip == RoundTrip(st)
InvStable    == Stable(st)
\* consistency of the model itself: reverse indexes follow the queues, holds belong to queued records
InvIndexes   == /\ st.optfin = Invert(st.optq)
                /\ st.mate = Invert(st.matq)
                /\ DOMAIN st.hold \subseteq DOMAIN st.mate

\* behaviour generation (-simulate): print the script shape once it reaches the depth bound (TLC evaluates the
\* invariant on EVERY successor; only the one ending in an empty block is printed: one line per simulated trace)
EmitAtDepth == Len(hist) < MAXBLOCKS \/ hist[MAXBLOCKS] # [ee |-> FALSE, evs |-> <<>>] \/ PrintT("BEHAVIOUR " \o ToJson([blocks |-> hist, score |-> sc, vals |-> vs]))
=============================================================================
