SPECIFICATION Spec
CONSTANTS
  VALS = {"v1", "v2", "v3"}
  OTHERS = {"a1"}
  POWER <- c_POWER
  FIDS = {1}
  FEED <- c_FEED
  MAXNONCE = 2
  MAXDETID = 2
  THA = 2
  THB = 3
  DETS = {"d1", "d2"}
  DEV = {}
  MAXH = 6
  MAXTX = 2
  MAXCHK = 1
  MAXOPS = 99
  MUTS = {"feeder", "baseP", "baseM", "gap", "repeat", "huge", "dec", "ts4", "ts5", "ts6", "src", "oor", "nosrc", "detall"}
  MUTSC = {"feeder", "baseP", "baseM", "gap", "repeat", "huge", "dec", "ts4", "ts5", "ts6", "src", "oor", "nosrc", "detall"}
  MUTS2 = {"baseP", "gap", "dec", "ts6", "src", "oor", "repeat"}
  SIGS = {"zero", "forged", "pkmismatch", "none"}
  MODES = {"deliver", "check", "recheck"}
  VALOUT = {}
  MAXEP = 0
  EMITLVL = 9999
  BIAS = FALSE
VIEW View
INVARIANTS InvC13 InvNonceRange InvOpenHasNonce
CHECK_DEADLOCK FALSE
