--------------------------- MODULE MC_Ledger_goalB ---------------------------
EXTENDS MC_Ledger_t
c_WANTED == {"wd_within_balance_over_total", "slash_multi_asset", "slash_pool_fully_unbonding_other_bonded", "slash_partial_pool_fully_unbonding_other_bonded",
             "nst_up", "nst_down_within_withdrawable", "nst_down_ends_inside_pending_records", "nst_down_reaches_shares",
             "nst_down_shares_two_operators", "nst_down_skips_zero_share_row", "und_second_pending_same_staker_asset"}
=============================================================================
