SPECIFICATION Spec
CONSTANTS
  AORD <- t_AORD
  TORD <- t_TORD
  OORD <- t_OORD
  REGOPS <- t_REGOPS
  VAL <- t_VAL
  VALT <- t_VALT
  PREC <- t_PREC
  U64 <- t_U64
  EPOCH0 <- t_EPOCH0
  TICKID <- t_TICKID
  DEVS <- t_DEVS
POSTCONDITION Consumed
CHECK_DEADLOCK FALSE
