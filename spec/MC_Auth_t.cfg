SPECIFICATION Spec
CONSTANTS
  DEVS <- c_NoDevs
  MAXOPS = 3
  BASES = {"B0", "B1", "B2"}
  CHAINS = {"main", "main2", "test"}
  REJBUDGET = 99
VIEW View
INVARIANTS InvRejectNoChange InvBinding InvRightfulServed InvNoOverRejection
CHECK_DEADLOCK FALSE
