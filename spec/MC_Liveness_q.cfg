SPECIFICATION Spec
CONSTANTS
  VALS = {"o1","o2"}
  STAKERS = {"s1"}
  MAXLEN = 4
INVARIANTS Alive
CHECK_DEADLOCK FALSE
VIEW View
