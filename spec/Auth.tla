-------------------------------- MODULE Auth --------------------------------
(***************************************************************************)
(* C10 - privileged entry points act only for their rightful caller.        *)
(*                                                                         *)
(* Alphabet: one event                                                     *)
(*    Call  a = [base, chain, e, c]                                        *)
(* e  = a state-changing entry point (names below), executed with ONE      *)
(*      fixed well-formed payload (harness/auth.go: authEvm / authMsgs)    *)
(* c  = the caller identity                                                *)
(*      [kind, via, from, sender, origin, claimed, key, sig, carrier]      *)
(*      kind = "evm"    precompile call; from = contract.CallerAddress,    *)
(*                      sender = the address the calling contract reports   *)
(*                      as its msg.sender (first ABI argument of the AVS    *)
(*                      precompile), origin = the EOA that signed the tx    *)
(*             "cosmos" signed cosmos tx; claimed = the account the message *)
(*                      names as its principal (FromAddress / Address /     *)
(*                      Authority), key = whose private key signed,         *)
(*                      sig = valid | forged | zero | empty | missing       *)
(*             "oracle" MsgCreatePrice; claimed / key are consensus keys    *)
(*             "gov"    the message executed by x/gov for a passed proposal *)
(*      via  = "run" (precompile.Run with a hand-built vm.Contract),        *)
(*             "tx" (real transaction through DeliverTx), "exec"            *)
(*                                                                         *)
(* The store is a VALUE st (projection written by harness/auth.go):         *)
(*   mainnet, gw, avs[addr] = [owners, task, ver], usd, tasks, results, chal,    *)
(*   ops, opt, bls, ckey, vals, nonce, round, pv[module], assoc, newtoken,  *)
(*   chain102, tokmeta, funded, natdel, prevkey                             *)
(*                                                                         *)
(* Two predicates are kept apart on purpose:                                *)
(*   StmtAuthorized(st,e,c)  - who MAY, written from the property statement *)
(*   CodeAccepts(st,e,c)     - who the CODE lets through, transcribed from  *)
(*                             the Go sources; the places where the two     *)
(*                             differ are named deviations (DEVS)           *)
(* Call(st,e,c) follows the code: IF CodeAccepts /\ Feasible THEN Effect    *)
(* ELSE unchanged.  With DEVS = {} the code model coincides with the        *)
(* statement and TLC proves InvRejectNoChange / InvBinding; with DEVS = the *)
(* deviations of the current tree TLC must find the violations again.       *)
(***************************************************************************)
EXTENDS Naturals, Sequences, FiniteSets, TLC

CONSTANTS DEVS

AllDevs == {"DEV_OracleSigIgnored", "DEV_ChallengeNoOwner", "DEV_OperatorBySender", "DEV_OracleSignerInfoCount"}
ASSUME DEVS \subseteq AllDevs

(***************************************************************************)
(* entry points                                                            *)
(***************************************************************************)
GW   == {"depositLST", "withdrawLST", "depositNST", "withdrawNST", "registerOrUpdateClientChain",
         "registerToken", "updateToken", "delegate", "undelegate",
         "associateOperatorWithStaker", "dissociateOperatorFromStaker",
         \* second payloads: other staker (s2) / other operator (o3, a validator)
         "depositLST_s2", "depositNST_s2", "delegate_o3", "associate_s2", "dissociate_s1"}
\* challengeWrongHash = challenge with a task hash that is not the task's (lead L21)
\* registerAVS2 / updateAVS2 = the same methods with a payload whose owner list is {a1, a2}
AVSM == {"registerAVS", "registerAVS2", "updateAVS", "updateAVS2", "deregisterAVS", "createTask", "challenge", "challengeWrongHash"}
OPP  == {"registerOperatorToAVS", "deregisterOperatorFromAVS", "registerBLSPublicKey"}
\* MsgDelegation / MsgUndelegation: native-token (un)delegation of the signer's own account
\* SubmitTaskResult = phase ONE (commit) for task 1; SubmitTaskResult2 = phase TWO (reveal) for task 3,
\* whose phase one the operator itself committed: the signer must be the operator in EVERY stage
OPM  == {"RegisterOperator", "OptIntoAVS", "OptOutOfAVS", "SetConsKey", "SubmitTaskResult", "SubmitTaskResult2", "MsgDelegation", "MsgUndelegation"}
ORA  == {"CreatePrice"}
PMODS == {"oracle", "dogfood", "exomint", "feedistribution", "assets"}
ParEntry(m) == "UpdateParams_" \o m
PAR  == {ParEntry(m) : m \in PMODS}
ModOf(e) == CHOOSE m \in PMODS : ParEntry(m) = e
Entry == GW \cup AVSM \cup OPP \cup OPM \cup ORA \cup PAR

\* the principal the fixed payload of a signer-bound message names
Principal(e) ==
  CASE e = "RegisterOperator" -> "n1"
    [] e = "OptIntoAVS"       -> "o3"
    [] e = "OptOutOfAVS"      -> "o2"
    [] e = "SetConsKey"       -> "o1"
    [] e = "SubmitTaskResult" -> "o2"
    [] e = "SubmitTaskResult2" -> "o2"
    [] e = "MsgDelegation"    -> "s1"
    [] e = "MsgUndelegation"  -> "s2"

\* owners listed in the registerAVS / updateAVS payloads
PayloadOwners(e) == IF e \in {"registerAVS2", "updateAVS2"} THEN {"a1", "a2"} ELSE {"a1"}
\* parameter value written by the fixed UpdateParams payloads
Marker(m) == CASE m = "oracle" -> "77" [] m = "dogfood" -> "77" [] m = "exomint" -> "77"
               [] m = "feedistribution" -> "hour" [] m = "assets" -> "a2"

(***************************************************************************)
(* helpers on the store                                                    *)
(***************************************************************************)
Registered(st, a) == a \in DOMAIN st.avs
\* the AVS whose task contract is address a ("" if none)
AvsOfTask(st, a) == LET S == {x \in DOMAIN st.avs : st.avs[x].task = a} IN IF S = {} THEN "" ELSE CHOOSE x \in S : TRUE
OwnersOf(st, a) == IF Registered(st, a) THEN st.avs[a].owners ELSE {}
NextTaskId(st, t) == LET S == {x.n : x \in {y \in st.tasks : y.t = t}} IN
                     IF S = {} THEN 1 ELSE 1 + (CHOOSE n \in S : \A m \in S : m <= n)

\* c.carrier = "before" | "after": the transaction ALSO contains an honest message of ANOTHER signer
\* (the attacker: account a2 with a native delegation / validator k3 with a price report), correctly
\* signed by that signer, placed before / after the message under test.  (claimed, key, sig) always
\* describe the signer slot of the message under test = the i-th signer of a multi-signer tx.
\* Signature classes: valid | forged | zero | empty | missing | nopub (no public key in the signer
\* info, c.key signs) | noinfo (NO signer info for this signer, arbitrary bytes in its signature
\* slot) | othersig (the carrier signer's valid signature copied into this slot).
CarrierAcct == "a2"
CarrierVal  == "k3"
\* a signature of the claimed principal itself (an account's key is also found on chain: nopub)
SigOK(c)    == c.sig \in {"valid", "nopub"} /\ c.key = c.claimed
\* the fee-less oracle path has no account: the consensus key must be in the signer info
OraSigOK(c) == c.sig = "valid" /\ c.key = c.claimed
\* the public key a signer slot carries: the signer's own for a genuine signature, none for
\* nopub / noinfo, the claimed principal's for the other bad-signature classes
CarriedPub(c) == IF c.sig = "valid" THEN c.key ELSE IF c.sig \in {"nopub", "noinfo"} THEN "-" ELSE c.claimed

(***************************************************************************)
(* WHO MAY - from the statement of C10                                      *)
(***************************************************************************)
StmtAuthorized(st, e, c) ==
  CASE e \in GW   -> c.kind = "evm" /\ c.from = st.gw
    [] e \in {"registerAVS", "registerAVS2"} -> c.kind = "evm" /\ c.sender \in PayloadOwners(e)
    [] e \in {"updateAVS", "updateAVS2", "deregisterAVS"} -> c.kind = "evm" /\ c.sender \in OwnersOf(st, c.from)
    [] e \in {"createTask", "challenge", "challengeWrongHash"} -> c.kind = "evm" /\ c.sender \in OwnersOf(st, AvsOfTask(st, c.from))
    \* operator-bound precompile methods: the operator acted for must be the signer of the tx
    [] e \in OPP  -> c.kind = "evm" /\ c.sender = c.origin
    [] e \in OPM  -> c.kind = "cosmos" /\ SigOK(c) /\ c.claimed = Principal(e)
    [] e \in ORA  -> c.kind = "oracle" /\ OraSigOK(c) /\ c.claimed \in st.vals
    \* the property restricts parameter changes on mainnet chain ids only
    [] e \in PAR  -> \/ ~st.mainnet
                     \/ c.claimed = "gov" /\ (c.kind = "gov" \/ SigOK(c))

(***************************************************************************)
(* WHO THE CODE LETS THROUGH                                                *)
(***************************************************************************)
\* app/ante/cosmos: SetPubKeyDecorator + SigVerificationDecorator (ordinary messages);
\* ValidateBasic of the SDK tx rejects a tx without signatures
AnteOK(c) == SigOK(c)
\* oracle branch: public key must hash to the signer and the signature must verify (since fix
\* 873f403; before it the result of VerifySignature was discarded = DEV_OracleSigIgnored, kept as a
\* switch so that the repaired defect stays expressible in the model)
\* Since fix 4bd9a0c the oracle branches require one signer info (with a public key) and one
\* signature per required signer: a signer without signer info is refused ("invalid number of signer
\* infos"), in CheckTx and DeliverTx, whatever the position of the message.
\* DEV_OracleSignerInfoCount (kept as a switch, not in the deviation set of the current tree) = the
\* code before that fix: both branches iterated over the SIGNER INFOS and never compared their
\* number with the required signers, so a signer without signer info was not checked at all (with
\* the carrier behind the message the remaining signer info was compared with the wrong signer and
\* the tx failed).
OracleAnteOK(c) ==
  IF c.sig = "noinfo" THEN "DEV_OracleSignerInfoCount" \in DEVS /\ c.carrier # "after"
  ELSE
  /\ c.sig \notin {"missing", "nopub"}     \* no signatures: ValidateBasic; no public key: ErrInvalidPubKey (4bd9a0c; a recovered nil dereference before)
  /\ CarriedPub(c) = c.claimed
  /\ (c.sig = "valid" \/ "DEV_OracleSigIgnored" \in DEVS)

CodeAccepts(st, e, c) ==
  CASE e \in GW   -> c.from = st.gw                                     \* CheckExocoreGatewayAddr
    [] e \in {"registerAVS", "registerAVS2"} -> c.sender \in PayloadOwners(e)   \* slices.Contains(owners, caller)
    [] e \in {"updateAVS", "updateAVS2", "deregisterAVS"} -> c.sender \in OwnersOf(st, c.from)
    [] e = "createTask"  -> c.sender \in OwnersOf(st, AvsOfTask(st, c.from))
    [] e \in {"challenge", "challengeWrongHash"} -> \/ "DEV_ChallengeNoOwner" \in DEVS          \* RaiseAndResolveChallenge: no owner check
                            \/ c.sender \in OwnersOf(st, AvsOfTask(st, c.from))
    [] e \in OPP  -> \/ "DEV_OperatorBySender" \in DEVS                 \* operator := args[0], whoever calls
                     \/ c.sender = c.origin
    \* SubmitTaskResult names the operator twice: FromAddress (the signer) and Info.OperatorAddress
    [] e \in {"SubmitTaskResult", "SubmitTaskResult2"} -> SigOK(c)      \* SetTaskResultInfo: addr != info.OperatorAddress, before the stage switch
    [] e \in OPM  -> AnteOK(c)
    [] e \in ORA  -> OracleAnteOK(c)
    [] e \in PAR  -> /\ (c.kind = "gov" \/ AnteOK(c))
                     /\ (~st.mainnet \/ c.claimed = "gov")              \* utils.IsMainnet && authority != msg.Authority

(***************************************************************************)
(* non-authorisation preconditions of the fixed payloads                    *)
(***************************************************************************)
Feasible(st, e, c) ==
  CASE e \in {"depositLST", "depositNST", "updateToken", "registerOrUpdateClientChain", "depositLST_s2", "depositNST_s2"} -> TRUE
    [] e \in {"withdrawLST", "withdrawNST", "delegate", "undelegate", "delegate_o3"} -> st.funded
    [] e = "associate_s2"  -> "s2" \notin st.assoc
    [] e = "dissociate_s1" -> "s1" \in st.assoc
    [] e = "registerToken" -> ~st.newtoken
    [] e = "associateOperatorWithStaker"  -> "s1" \notin st.assoc
    [] e = "dissociateOperatorFromStaker" -> "s2" \in st.assoc
    [] e \in {"registerAVS", "registerAVS2"} -> ~Registered(st, c.from) /\ AvsOfTask(st, c.from) = ""
    [] e \in {"updateAVS", "updateAVS2"}     -> Registered(st, c.from)
    \* the payload names the AVS as it was registered ("avs-<addr>"); updateAVS renames it
    [] e = "deregisterAVS" -> Registered(st, c.from) /\ st.avs[c.from].ver = 1
    [] e = "createTask"    -> AvsOfTask(st, c.from) # "" /\ AvsOfTask(st, c.from) \in st.usd
    [] e = "challenge"     -> /\ AvsOfTask(st, c.from) # ""               \* epoch of the AVS is looked up by task address
                              /\ [t |-> c.from, n |-> 2] \in st.tasks
                              /\ [o |-> "o2", t |-> c.from, n |-> 2, s |-> 2] \in st.results
                              /\ ~\E x \in st.chal : x.o = "o2" /\ x.t = c.from /\ x.n = 2
    \* RaiseAndResolveChallenge: hash mismatch -> ErrHashValue (since fix 4ac3ef5; before it
    \* errorsmod.Wrap(nil, ..) = nil: no effect but reported as success, lead L21)
    [] e = "challengeWrongHash" -> FALSE
    [] e = "registerOperatorToAVS"     -> c.sender \in st.ops /\ Registered(st, c.from) /\ [o |-> c.sender, a |-> c.from] \notin st.opt
    [] e = "deregisterOperatorFromAVS" -> c.sender \in st.ops /\ Registered(st, c.from) /\ [o |-> c.sender, a |-> c.from] \in st.opt
    [] e = "registerBLSPublicKey"      -> c.sender \notin st.bls
    [] e = "RegisterOperator" -> c.claimed \notin st.ops
    [] e = "OptIntoAVS"       -> c.claimed \in st.ops /\ Registered(st, "cA") /\ [o |-> c.claimed, a |-> "cA"] \notin st.opt
    [] e = "OptOutOfAVS"      -> c.claimed \in st.ops /\ Registered(st, "cA") /\ [o |-> c.claimed, a |-> "cA"] \in st.opt
    [] e = "SetConsKey"       -> [o |-> c.claimed, a |-> "chain"] \in st.opt /\ \A o \in DOMAIN st.ckey : st.ckey[o] # "k8"
    [] e = "SubmitTaskResult" -> /\ c.claimed \in st.ops /\ c.claimed \in st.bls
                                 /\ AvsOfTask(st, "cA") # ""             \* epoch of the AVS is looked up by task address
                                 /\ [t |-> "cA", n |-> 1] \in st.tasks
                                 /\ ~\E x \in st.results : x.o = c.claimed /\ x.t = "cA" /\ x.n = 1
    \* phase two: the phase-one record of the named operator exists (BLS signature equal), reveal window open
    [] e = "SubmitTaskResult2" -> /\ c.claimed \in st.ops /\ c.claimed \in st.bls
                                  /\ AvsOfTask(st, "cA") # ""
                                  /\ [t |-> "cA", n |-> 3] \in st.tasks
                                  /\ \E x \in st.results : x.o = c.claimed /\ x.t = "cA" /\ x.n = 3
    [] e = "MsgDelegation"   -> TRUE
    [] e = "MsgUndelegation" -> c.claimed \in st.natdel
    [] e \in ORA -> c.claimed \in DOMAIN st.nonce /\ st.nonce[c.claimed] = 0 /\ c.claimed \in st.vals
    [] e \in PAR -> TRUE

(***************************************************************************)
(* effect of an accepted, feasible call: new store + module stores written  *)
(***************************************************************************)
Effect(st, e, c) ==
  CASE e = "depositLST"  -> [st |-> [st EXCEPT !.funded = TRUE], mods |-> {"assets"}]
    [] e \in {"withdrawLST", "depositLST_s2"} -> [st |-> st, mods |-> {"assets"}]
    [] e = "depositNST_s2" -> [st |-> st, mods |-> {"assets", "oracle"}]
    [] e = "delegate_o3"   -> [st |-> st, mods |-> {"assets", "delegation"}]
    \* s2 holds no LST delegation with o3: no operator share to move in the assets ledger (s1 -> o2 has one)
    [] e = "associate_s2"  -> [st |-> [st EXCEPT !.assoc = @ \cup {"s2"}], mods |-> {"delegation"}]
    \* s1 holds an LST delegation with o2 (base B1): the operator share in the assets ledger moves too
    [] e = "dissociate_s1" -> [st |-> [st EXCEPT !.assoc = @ \ {"s1"}], mods |-> {"assets", "delegation"}]
    [] e \in {"depositNST", "withdrawNST"} -> [st |-> st, mods |-> {"assets", "oracle"}]
    [] e = "registerOrUpdateClientChain" -> [st |-> [st EXCEPT !.chain102 = TRUE], mods |-> IF st.chain102 THEN {} ELSE {"assets"}]
    [] e = "registerToken" -> [st |-> [st EXCEPT !.newtoken = TRUE], mods |-> {"assets", "oracle"}]
    [] e = "updateToken"   -> [st |-> [st EXCEPT !.tokmeta = TRUE], mods |-> IF st.tokmeta THEN {} ELSE {"assets"}]
    [] e \in {"delegate", "undelegate"} -> [st |-> st, mods |-> {"assets", "delegation"}]
    [] e = "associateOperatorWithStaker"  -> [st |-> [st EXCEPT !.assoc = @ \cup {"s1"}], mods |-> {"assets", "delegation"}]
    [] e = "dissociateOperatorFromStaker" -> [st |-> [st EXCEPT !.assoc = @ \ {"s2"}], mods |-> {"delegation"}]
    \* the AVS is registered under the CALLING CONTRACT's address (contract.CallerAddress)
    [] e \in {"registerAVS", "registerAVS2"} ->
                            [st |-> [st EXCEPT !.avs = [a \in DOMAIN @ \cup {c.from} |->
                                        IF a = c.from THEN [owners |-> PayloadOwners(e), task |-> c.from, ver |-> 1] ELSE @[a]]],
                             mods |-> {"avs"}]
    [] e \in {"updateAVS", "updateAVS2"} ->
                            LET new == [owners |-> PayloadOwners(e), task |-> c.from, ver |-> 2] IN
                            [st |-> [st EXCEPT !.avs[c.from] = new], mods |-> IF st.avs[c.from] = new THEN {} ELSE {"avs"}]
    [] e = "deregisterAVS" -> [st |-> [st EXCEPT !.avs = [a \in DOMAIN @ \ {c.from} |-> @[a]]], mods |-> {"avs"}]
    [] e = "createTask"  -> [st |-> [st EXCEPT !.tasks = @ \cup {[t |-> c.from, n |-> NextTaskId(st, c.from)]}], mods |-> {"avs"}]
    [] e = "challenge"   -> [st |-> [st EXCEPT !.chal = @ \cup {[o |-> "o2", t |-> c.from, n |-> 2, by |-> c.sender]}], mods |-> {"avs"}]
    [] e = "registerOperatorToAVS"     -> [st |-> [st EXCEPT !.opt = @ \cup {[o |-> c.sender, a |-> c.from]}], mods |-> {"operator"}]
    [] e = "deregisterOperatorFromAVS" -> [st |-> [st EXCEPT !.opt = @ \ {[o |-> c.sender, a |-> c.from]}], mods |-> {"operator"}]
    [] e = "registerBLSPublicKey"      -> [st |-> [st EXCEPT !.bls = @ \cup {c.sender}], mods |-> {"avs"}]
    [] e = "RegisterOperator" -> [st |-> [st EXCEPT !.ops = @ \cup {c.claimed}], mods |-> {"operator"}]
    [] e = "OptIntoAVS"  -> [st |-> [st EXCEPT !.opt = @ \cup {[o |-> c.claimed, a |-> "cA"]}], mods |-> {"operator"}]
    [] e = "OptOutOfAVS" -> [st |-> [st EXCEPT !.opt = @ \ {[o |-> c.claimed, a |-> "cA"]}], mods |-> {"operator"}]
    \* the first replacement of an epoch records the previous key (prevkey); EVERY replacement calls
    \* the dogfood hook that schedules the replaced key for pruning (also the second one of an epoch)
    [] e = "SetConsKey"  -> [st |-> [st EXCEPT !.ckey = [o \in DOMAIN @ \cup {c.claimed} |-> IF o = c.claimed THEN "k8" ELSE @[o]],
                                             !.prevkey = @ \cup {c.claimed}],
                             mods |-> {"operator", "dogfood"}]
    [] e = "SubmitTaskResult" -> [st |-> [st EXCEPT !.results = @ \cup {[o |-> c.claimed, t |-> "cA", n |-> 1, s |-> 1]}], mods |-> {"avs"}]
    \* the stored record moves from stage 1 to stage 2 (a repeated reveal rewrites the same bytes)
    [] e = "SubmitTaskResult2" ->
          LET old == {x \in st.results : x.o = c.claimed /\ x.t = "cA" /\ x.n = 3}
              new == [o |-> c.claimed, t |-> "cA", n |-> 3, s |-> 2]
          IN [st |-> [st EXCEPT !.results = (@ \ old) \cup {new}], mods |-> IF new \in st.results THEN {} ELSE {"avs"}]
    \* native token: bank escrow (account -> delegated pool) moves besides the two ledgers
    [] e = "MsgDelegation"   -> [st |-> [st EXCEPT !.natdel = @ \cup {c.claimed}], mods |-> {"assets", "delegation", "bank"}]
    [] e = "MsgUndelegation" -> [st |-> st, mods |-> {"assets", "delegation"}]
    [] e \in ORA -> [st |-> [st EXCEPT !.nonce[c.claimed] = 1], mods |-> {"oracle"}]
    [] e \in PAR -> LET m == ModOf(e) IN
                    [st |-> [st EXCEPT !.pv[m] = Marker(m), !.gw = IF m = "assets" THEN Marker(m) ELSE @],
                     mods |-> IF st.pv[m] = Marker(m) THEN {} ELSE IF m = "dogfood" THEN {"dogfood", "avs"} ELSE {m}]

Unchanged(st) == [st |-> st, ok |-> FALSE, mods |-> {}]

\* mempool admission (CheckTx): the ante handlers on the check state, messages are not executed.
\* SubmitTaskResult's tx signer is whoever signs (FromAddress); the operator is named inside.
AnteAccepts(st, e, c) ==
  CASE e \in ORA -> OracleAnteOK(c) /\ c.claimed \in DOMAIN st.nonce /\ st.nonce[c.claimed] = 0
    [] e \in {"SubmitTaskResult", "SubmitTaskResult2"} -> c.sig = "valid" \/ SigOK(c)
    [] OTHER -> AnteOK(c)

\* the code, step by step: authorisation check, then the keeper's own preconditions
\* calls that the code answers with `true` although nothing happened: none on the current tree
\* (challengeWrongHash was one until fix 4ac3ef5)
SilentOK(st, e, c) == FALSE

\* the honest carrier message of a multi-message tx
CarrierFeasible(st, e) == e \in ORA => (CarrierVal \in DOMAIN st.nonce /\ st.nonce[CarrierVal] = 0 /\ CarrierVal \in st.vals)
CarrierEffect(st, e) ==
  IF e \in ORA THEN [st |-> [st EXCEPT !.nonce[CarrierVal] = 1], mods |-> {"oracle"}]
  ELSE [st |-> [st EXCEPT !.natdel = @ \cup {CarrierAcct}], mods |-> {"assets", "delegation", "bank"}]

\* one message of a tx: [ok, st, mods]
MsgStep(st, isCarrier, e, c) ==
  IF isCarrier THEN (IF CarrierFeasible(st, e) THEN LET r == CarrierEffect(st, e) IN [ok |-> TRUE, st |-> r.st, mods |-> r.mods]
                     ELSE [ok |-> FALSE, st |-> st, mods |-> {}])
  ELSE (IF Feasible(st, e, c) THEN LET r == Effect(st, e, c) IN [ok |-> TRUE, st |-> r.st, mods |-> r.mods]
        ELSE [ok |-> FALSE, st |-> st, mods |-> {}])

Call(st, e, c) ==
  IF c.via = "check" THEN [Unchanged(st) EXCEPT !.ok = AnteAccepts(st, e, c) /\ (c.carrier # "-" => CarrierFeasible(st, e))]
  ELSE IF ~CodeAccepts(st, e, c) THEN Unchanged(st)
  ELSE IF c.carrier = "-" THEN
       (IF ~Feasible(st, e, c) THEN [Unchanged(st) EXCEPT !.ok = SilentOK(st, e, c)]
        ELSE LET r == Effect(st, e, c) IN [st |-> r.st, ok |-> TRUE, mods |-> r.mods])
  \* a transaction is atomic: every signer verified by the ante chain, then the messages in order;
  \* the first failing message discards the whole tx
  ELSE LET m1 == MsgStep(st, c.carrier = "before", e, c)
           m2 == MsgStep(m1.st, c.carrier = "after", e, c)
       IN IF m1.ok /\ m2.ok THEN [st |-> m2.st, ok |-> TRUE, mods |-> m1.mods \cup m2.mods] ELSE Unchanged(st)

(***************************************************************************)
(* the property, as predicates over an observed (or modelled) step          *)
(***************************************************************************)
\* "Every other caller is rejected without any state change."
RejectNoChange(pre, post, e, c, mods) == StmtAuthorized(pre, e, c) \/ (post = pre /\ mods = {})

\* an effective call acts for the rightful principal only
BoundToPrincipal(pre, post, e, c) ==
  CASE e \in {"registerAVS", "registerAVS2", "updateAVS", "updateAVS2", "deregisterAVS"} ->
           \* AVS address = the calling contract's own address
           /\ \A a \in (DOMAIN pre.avs \cup DOMAIN post.avs) \ {c.from} :
                 a \in DOMAIN pre.avs /\ a \in DOMAIN post.avs /\ post.avs[a] = pre.avs[a]
           /\ post.tasks = pre.tasks /\ post.opt = pre.opt /\ post.ops = pre.ops
    [] e = "createTask" -> /\ \A x \in post.tasks \ pre.tasks : x.t = c.from
                           /\ pre.tasks \subseteq post.tasks /\ post.avs = pre.avs
    [] e = "challenge"  -> /\ \A x \in post.chal \ pre.chal : x.t = c.from /\ x.by = c.sender
                           /\ pre.chal \subseteq post.chal /\ post.avs = pre.avs
    [] e \in {"registerOperatorToAVS", "deregisterOperatorFromAVS"} ->
           /\ \A x \in (post.opt \ pre.opt) \cup (pre.opt \ post.opt) : x.o = c.origin /\ x.a = c.from
           /\ post.ops = pre.ops
    [] e = "registerBLSPublicKey" -> post.bls \ pre.bls \subseteq {c.origin} /\ pre.bls \subseteq post.bls
    [] e = "RegisterOperator" -> post.ops \ pre.ops \subseteq {c.key} /\ pre.ops \subseteq post.ops /\ post.opt = pre.opt
    [] e \in {"OptIntoAVS", "OptOutOfAVS"} ->
           /\ \A x \in (post.opt \ pre.opt) \cup (pre.opt \ post.opt) : x.o = c.key
           /\ post.ops = pre.ops /\ post.ckey = pre.ckey
    [] e = "SetConsKey" -> /\ \A o \in DOMAIN post.ckey : o # c.key => (o \in DOMAIN pre.ckey /\ post.ckey[o] = pre.ckey[o])
                           /\ post.opt = pre.opt /\ post.ops = pre.ops
    [] e \in {"SubmitTaskResult", "SubmitTaskResult2"} -> \A x \in (post.results \ pre.results) \cup (pre.results \ post.results) : x.o = c.key
    \* (the honest carrier of a multi-message tx acts for its own signer)
    [] e \in {"MsgDelegation", "MsgUndelegation"} ->
           (post.natdel \ pre.natdel) \cup (pre.natdel \ post.natdel) \subseteq {c.key} \cup (IF c.carrier = "-" THEN {} ELSE {CarrierAcct})
    [] e \in ORA -> \A k \in DOMAIN post.nonce : (k # c.key /\ ~(c.carrier # "-" /\ k = CarrierVal)) => (k \in DOMAIN pre.nonce /\ post.nonce[k] = pre.nonce[k])
    [] e \in PAR -> \A m \in PMODS : (m # ModOf(e) /\ ~(ModOf(e) = "assets" /\ m = "assets")) => post.pv[m] = pre.pv[m]
    [] OTHER -> TRUE

Binding(pre, post, e, c, mods) ==
  (StmtAuthorized(pre, e, c) /\ (post # pre \/ mods # {})) => BoundToPrincipal(pre, post, e, c)

(***************************************************************************)
(* base states (built on the real application by harness/auth.go)           *)
(***************************************************************************)
B0 == [ mainnet |-> TRUE, gw |-> "gw", avs |-> <<>>, usd |-> {}, tasks |-> {}, results |-> {}, chal |-> {},
        ops |-> {"o1", "o2", "o3"}, opt |-> {[o |-> "o1", a |-> "chain"], [o |-> "o3", a |-> "chain"]}, bls |-> {},
        ckey |-> [o1 |-> "k1", o3 |-> "k3"], vals |-> {"k1", "k3"}, nonce |-> [k1 |-> 0, k3 |-> 0], round |-> 2,
        pv |-> [assets |-> "gw", dogfood |-> "10", exomint |-> "20", feedistribution |-> "minute", oracle |-> "100"],
        prevkey |-> {}, assoc |-> {}, natdel |-> {}, newtoken |-> FALSE, chain102 |-> FALSE, tokmeta |-> FALSE, funded |-> FALSE ]

B1 == [ B0 EXCEPT !.avs = [cA |-> [owners |-> {"a1"}, task |-> "cA", ver |-> 1]], !.usd = {"cA"},
                   !.tasks = {[t |-> "cA", n |-> 1], [t |-> "cA", n |-> 2], [t |-> "cA", n |-> 3]},
                   !.results = {[o |-> "o2", t |-> "cA", n |-> 2, s |-> 2], [o |-> "o2", t |-> "cA", n |-> 3, s |-> 1]},
                   !.opt = @ \cup {[o |-> "o2", a |-> "cA"]}, !.bls = {"o2"},
                   !.assoc = {"s2"}, !.natdel = {"s2"}, !.funded = TRUE ]

\* B2 = B1 advanced to the later stage of every multi-stage protocol by the rightful callers (the
\* harness performs the same calls on the real application, harness/auth.go: buildB2)
RC(kind, via, from, sender, claimed) ==
  [kind |-> kind, via |-> via, from |-> from, sender |-> sender, origin |-> sender, claimed |-> claimed, key |-> claimed,
   sig |-> IF kind = "cosmos" THEN "valid" ELSE "-", carrier |-> "-"]
B2 == LET s1 == Call(B1, "updateAVS2", RC("evm", "run", "cA", "a1", "-")).st
          s2 == Call(s1, "SubmitTaskResult", RC("cosmos", "tx", "-", "-", "o2")).st
          s3 == Call(s2, "SubmitTaskResult2", RC("cosmos", "tx", "-", "-", "o2")).st
          s4 == Call(s3, "challenge", RC("evm", "run", "cA", "a1", "-")).st
      IN  [s4 EXCEPT !.ckey["o1"] = "k7", !.prevkey = {"o1"}]     \* o1 replaced k1 by k7 (SetConsKey with another key)

BaseState(b, ch) == [ (CASE b = "B0" -> B0 [] b = "B1" -> B1 [] b = "B2" -> B2) EXCEPT !.mainnet = (ch # "test") ]   \* "main2": a mainnet id with another revision number
=============================================================================
