SPECIFICATION Spec
CONSTANTS
  OPS = {"o1", "o2", "o3", "o4"}
  KEYSEQ <- c_KEYSEQ
  GENVALS = {"o1", "o2", "o3"}
  UNB = 1
  UNBH = 10
  DEVIATIONS = {"L13hold", "L13rev", "VALKEYS"}
  ACTORS = {"o2", "o3", "o4"}
  UNDELFROM = {"o1", "o3", "o4"}
  PATHS = {"pre", "msg"}
  MAXTX = 2
  MAXBLOCKS = 18
  MAXUNDEL = 5
  FAILBUDGET = 2
  H0 = 2
  EP0 = 1
  SEQ0 = 3
  LZN0 = 100
INVARIANTS EmitAtDepth
CHECK_DEADLOCK FALSE
