------------------------------- MODULE Ledger -------------------------------
(***************************************************************************)
(* Restaking ledger of exocore: x/assets (staker rows, operator pools,      *)
(* per-asset staking total), x/delegation (shares, staker lists,            *)
(* association, pending undelegation records under three keys, hold counts, *)
(* EndBlock), x/operator Slash, NST balance update.                         *)
(*                                                                         *)
(* Style (DESIGN.md 3.1): the store is a VALUE `st`; every entry point is a *)
(* FUNCTION Op(st, a) -> [st |-> store after, err |-> "" or an error tag]   *)
(* built from the code's steps in the code's order.  A step that fails      *)
(* returns the store as left by the earlier steps (no rollback) unless the  *)
(* code wraps it in a CacheContext, in which case WithCache restores it.    *)
(* Source references are given per operator.                                *)
(***************************************************************************)
EXTENDS Num, Sequences, FiniteSets, TLC, SequencesExt, FiniteSetsExt, Folds

CONSTANTS
  SORD,        \* sequence of staker ids in store-key order
  OORD,        \* sequence of registered operator ids in store-key order
  AORD,        \* sequence of asset ids in store-key order
  KIND,        \* [asset -> "lst" | "nst" | "nat"]
  REGISTERED,  \* assets registered as staking assets (x/assets tokens)
  PREC,        \* LegacyDec unit (10^18 in the code)
  UNBOND,      \* operatortypes.UnbondingExpiration (10)
  HOLDOPS,     \* operators for which the dogfood hook places a hold on a new undelegation
  HOOKED,      \* TRUE: the entry path reaches the delegation hooks. (FALSE described the precompile path
               \* before the fix "the precompiles receive the delegation keeper after its hooks are set":
               \* app.go handed the precompiles a COPY of the delegation keeper taken before SetHooks, so
               \* AfterUndelegationStarted was a no-op there. Kept as a switch so the defect stays expressible.)
  DECI,        \* [asset -> decimals]
  PRICE,       \* [asset -> latest oracle price] (0 = asset unknown to the oracle)
  PDEC         \* [asset -> price decimals]

ASSETS    == {AORD[i] : i \in DOMAIN AORD}
STAKERS   == {SORD[i] : i \in DOMAIN SORD}
OPERATORS == {OORD[i] : i \in DOMAIN OORD}

(***************************************************************************)
(* generic helpers                                                         *)
(***************************************************************************)
Ok(st)        == [st |-> st, err |-> ""]
Fail(st, e)   == [st |-> st, err |-> e]
IsOk(r)       == r.err = ""
\* CacheContext: discard every write of `r` when it failed
WithCache(st, r) == IF IsOk(r) THEN r ELSE Fail(st, r.err)

Put(f, k, v) == [x \in DOMAIN f \cup {k} |-> IF x = k THEN v ELSE f[x]]
Del(f, k)    == [x \in DOMAIN f \ {k} |-> f[x]]
Has(f, k)    == k \in DOMAIN f

IsPrefixSeq(p, s) == Len(p) <= Len(s) /\ \A i \in 1..Len(p) : p[i] = s[i]

\* hexutil.EncodeUint64 without the "0x": sequence of hex digits, no leading zeros, 0 -> <<0>>
RECURSIVE HexDigits(_)
HexDigits(n) == IF n < 16 THEN <<n>> ELSE Append(HexDigits(n \div 16), n % 16)

\* lexicographic order on digit sequences (byte order of the hex strings; all digits of one
\* class compare like their values because '0'..'9' < 'a'..'f')
RECURSIVE SeqLess(_, _)
SeqLess(a, b) ==
  IF Len(a) = 0 THEN Len(b) > 0
  ELSE IF Len(b) = 0 THEN FALSE
  ELSE IF a[1] # b[1] THEN a[1] < b[1]
  ELSE SeqLess(Tail(a), Tail(b))

\* a sequence enumerating the finite set S in the order given by Less (strict total order)
SortSet(S, Less(_, _)) == SetToSortSeq(S, Less)

\* Fold(f, acc, s) = f(... f(f(acc, s[1]), s[2]) ..., s[n])
Fold(f(_, _), acc, s) == FoldLeft(f, acc, s)

SumF(S, f(_)) == MapThenFoldSet(LAMBDA x, y : NAdd(x, y), N0, f, LAMBDA T : CHOOSE x \in T : TRUE, S)

(***************************************************************************)
(* The store                                                               *)
(***************************************************************************)
ZeroStk  == [ex |-> FALSE, dep |-> N0, wd |-> N0, pend |-> N0]
ZeroPool == [ex |-> FALSE, amt |-> N0, pend |-> N0, tsh |-> N0, osh |-> N0]
ZeroDel  == [ex |-> FALSE, sh |-> N0, wait |-> N0]

SKeys == STAKERS \X ASSETS
PKeys == OPERATORS \X ASSETS
DKeys == STAKERS \X ASSETS \X OPERATORS

EmptyStore ==
  [ h      |-> 1,
    total  |-> [a \in ASSETS |-> N0],
    stk    |-> [k \in SKeys |-> ZeroStk],
    pool   |-> [k \in PKeys |-> ZeroPool],
    del    |-> [k \in DKeys |-> ZeroDel],
    slist  |-> [k \in PKeys |-> [ex |-> FALSE, seq |-> <<>>]],
    assoc  |-> [s \in STAKERS |-> ""],
    recs   |-> <<>>,     \* record key <<o, start, nonce, txh>> -> record
    idxS   |-> <<>>,     \* <<s, a, nonce>> -> record key
    idxP   |-> <<>>,     \* <<complete, nonce>> -> record key
    hold   |-> <<>>,     \* record key -> hold count (absent = 0)
    sinfo  |-> {},       \* slash ids already recorded: <<o, id>>
    bal    |-> [s \in STAKERS |-> N0],   \* native-token bank balance
    escrow |-> N0 ]                        \* delegated_pool module balance

RecKey(r) == <<r.o, r.start, r.nonce, r.txh>>
HoldOf(st, k) == IF Has(st.hold, k) THEN st.hold[k] ELSE 0

(***************************************************************************)
(* x/assets/types/general.go: UpdateAssetValue / UpdateAssetDecValue        *)
(* value + delta, refused when it would go negative.                        *)
(***************************************************************************)
CanAdd(v, d) == ~(NIsNeg(d) /\ NLt(v, NNeg(d)))

\* x/assets/keeper/staker_asset.go: UpdateStakerAssetState (fields checked in order dep, wd, pend)
UpdStk(st, s, a, dDep, dWd, dPend) ==
  LET cur == st.stk[<<s, a>>] IN
  IF ~CanAdd(cur.dep, dDep)   THEN Fail(st, "ErrSubAmountIsMoreThanOrigin") ELSE
  IF ~CanAdd(cur.wd, dWd)     THEN Fail(st, "ErrSubAmountIsMoreThanOrigin") ELSE
  IF ~CanAdd(cur.pend, dPend) THEN Fail(st, "ErrSubAmountIsMoreThanOrigin") ELSE
  Ok([st EXCEPT !.stk[<<s, a>>] =
        [ex |-> TRUE, dep |-> NAdd(cur.dep, dDep), wd |-> NAdd(cur.wd, dWd), pend |-> NAdd(cur.pend, dPend)]])

\* x/assets/keeper/operator_asset.go: UpdateOperatorAssetState (order amt, pend, tsh, osh)
UpdPool(st, o, a, dAmt, dPend, dTsh, dOsh) ==
  LET cur == st.pool[<<o, a>>] IN
  IF ~CanAdd(cur.amt, dAmt)   THEN Fail(st, "ErrSubAmountIsMoreThanOrigin") ELSE
  IF ~CanAdd(cur.pend, dPend) THEN Fail(st, "ErrSubAmountIsMoreThanOrigin") ELSE
  IF ~CanAdd(cur.tsh, dTsh)   THEN Fail(st, "ErrSubAmountIsMoreThanOrigin") ELSE
  IF ~CanAdd(cur.osh, dOsh)   THEN Fail(st, "ErrSubAmountIsMoreThanOrigin") ELSE
  Ok([st EXCEPT !.pool[<<o, a>>] =
        [ex |-> TRUE, amt |-> NAdd(cur.amt, dAmt), pend |-> NAdd(cur.pend, dPend),
         tsh |-> NAdd(cur.tsh, dTsh), osh |-> NAdd(cur.osh, dOsh)]])

\* x/delegation/keeper/delegation_state.go: UpdateDelegationState (order wait, sh); returns shareIsZero
UpdDel(st, s, a, o, dWait, dSh) ==
  LET cur == st.del[<<s, a, o>>] IN
  IF ~CanAdd(cur.wait, dWait) THEN [st |-> st, err |-> "ErrSubAmountIsMoreThanOrigin", zero |-> FALSE] ELSE
  IF ~CanAdd(cur.sh, dSh)     THEN [st |-> st, err |-> "ErrSubAmountIsMoreThanOrigin", zero |-> FALSE] ELSE
  LET nsh == NAdd(cur.sh, dSh) IN
  [st |-> [st EXCEPT !.del[<<s, a, o>>] = [ex |-> TRUE, sh |-> nsh, wait |-> NAdd(cur.wait, dWait)]],
   err |-> "", zero |-> NIsZero(nsh)]

\* x/assets/keeper/client_chain_asset.go: UpdateStakingAssetTotalAmount
UpdTotal(st, a, d) ==
  IF a \notin REGISTERED THEN Fail(st, "ErrNoClientChainAssetKey") ELSE
  IF ~CanAdd(st.total[a], d) THEN Fail(st, "ErrSubAmountIsMoreThanOrigin") ELSE
  Ok([st EXCEPT !.total[a] = NAdd(st.total[a], d)])

(***************************************************************************)
(* x/delegation/keeper/share.go                                            *)
(***************************************************************************)
\* TokensFromShares(stakerShare, totalShare, totalAmount)
TokensFromShares(sh, tsh, amt) ==
  IF NGt(sh, tsh) THEN [v |-> 0, err |-> "ErrInsufficientShares"] ELSE
  IF NIsZero(tsh) THEN (IF NIsZero(amt) THEN [v |-> 0, err |-> ""] ELSE [v |-> 0, err |-> "ErrDivisorIsZero"]) ELSE
  [v |-> DecTruncInt(DecQuo(DecMulInt(sh, amt), tsh, PREC), PREC), err |-> ""]

\* SharesFromTokens(totalShare, stakerAmount, totalAmount)
SharesFromTokens(tsh, x, amt) ==
  IF NIsZero(amt) THEN (IF NIsZero(tsh) THEN [v |-> 0, err |-> ""] ELSE [v |-> 0, err |-> "ErrDivisorIsZero"]) ELSE
  [v |-> DecQuoInt(DecMulInt(tsh, x), amt), err |-> ""]

\* CalculateShare
CalculateShare(st, o, a, x) ==
  LET p == st.pool[<<o, a>>] IN
  IF ~p.ex \/ NIsZero(p.tsh) THEN [v |-> DecFromInt(x, PREC), err |-> ""]
  ELSE SharesFromTokens(p.tsh, x, p.amt)

\* ValidateUndelegationAmount -> [v |-> share, err]
ValidateUndelegationAmount(st, o, s, a, x) ==
  IF ~NIsPos(x) THEN [v |-> 0, err |-> "ErrAmountIsNotPositive"] ELSE
  LET d == st.del[<<s, a, o>>] p == st.pool[<<o, a>>] IN
  IF ~d.ex THEN [v |-> 0, err |-> "ErrNoKeyInTheStore"] ELSE
  IF ~p.ex THEN [v |-> 0, err |-> "ErrNoOperatorAssetKey"] ELSE
  LET sh == SharesFromTokens(p.tsh, x, p.amt) IN
  IF sh.err # "" THEN sh ELSE
  IF NGt(sh.v, d.sh) THEN [v |-> sh.v, err |-> "ErrInsufficientShares"] ELSE
  LET tol == SharesFromTokens(p.tsh, 1, p.amt) IN
  IF tol.err # "" THEN tol ELSE
  IF NLt(NSub(d.sh, sh.v), tol.v) THEN [v |-> d.sh, err |-> ""] ELSE [v |-> sh.v, err |-> ""]

\* delegation_state.go: AppendStakerForOperator / DeleteStakerForOperator
InSeq(x, q) == \E i \in DOMAIN q : q[i] = x
DropFirst(q, x) ==
  IF ~InSeq(x, q) THEN q ELSE
  LET i == CHOOSE j \in DOMAIN q : q[j] = x /\ \A k \in 1..(j - 1) : q[k] # x
  IN SubSeq(q, 1, i - 1) \o SubSeq(q, i + 1, Len(q))
AppendStaker(st, o, a, s) ==
  LET cur == st.slist[<<o, a>>] IN
  IF cur.ex /\ InSeq(s, cur.seq) THEN Ok(st)
  ELSE Ok([st EXCEPT !.slist[<<o, a>>] = [ex |-> TRUE, seq |-> Append(cur.seq, s)]])
DeleteStaker(st, o, a, s) ==
  LET cur == st.slist[<<o, a>>] IN
  IF ~cur.ex THEN Fail(st, "ErrNoKeyInTheStore")
  ELSE Ok([st EXCEPT !.slist[<<o, a>>] = [ex |-> TRUE, seq |-> DropFirst(cur.seq, s)]])

\* RemoveShareFromOperator -> [st, err, token]
RemoveShareFromOperator(st, isUndel, o, s, a, share) ==
  IF ~NIsPos(share) THEN [st |-> st, err |-> "ErrAmountIsNotPositive", token |-> 0] ELSE
  LET p == st.pool[<<o, a>>] IN
  IF ~p.ex THEN [st |-> st, err |-> "ErrNoOperatorAssetKey", token |-> 0] ELSE
  IF NGt(share, p.tsh) THEN [st |-> st, err |-> "ErrInsufficientShares", token |-> 0] ELSE
  LET tk == IF NEq(p.tsh, share) THEN [v |-> p.amt, err |-> ""] ELSE TokensFromShares(share, p.tsh, p.amt) IN
  IF tk.err # "" THEN [st |-> st, err |-> tk.err, token |-> 0] ELSE
  LET self == KIND[a] # "nat" /\ st.assoc[s] # "" /\ st.assoc[s] = o
      r == UpdPool(st, o, a, NNeg(tk.v), IF isUndel THEN tk.v ELSE 0, NNeg(share), IF self THEN NNeg(share) ELSE 0)
  IN [st |-> r.st, err |-> r.err, token |-> tk.v]

\* RemoveShare -> [st, err, token]
RemoveShare(st, isUndel, o, s, a, share) ==
  IF ~NIsPos(share) THEN [st |-> st, err |-> "ErrAmountIsNotPositive", token |-> 0] ELSE
  LET r1 == RemoveShareFromOperator(st, isUndel, o, s, a, share) IN
  IF r1.err # "" THEN r1 ELSE
  LET r2 == IF isUndel /\ KIND[a] # "nat" THEN UpdStk(r1.st, s, a, 0, 0, r1.token) ELSE Ok(r1.st) IN
  IF r2.err # "" THEN [st |-> r2.st, err |-> r2.err, token |-> r1.token] ELSE
  LET r3 == UpdDel(r2.st, s, a, o, IF isUndel THEN r1.token ELSE 0, NNeg(share)) IN
  IF r3.err # "" THEN [st |-> r3.st, err |-> r3.err, token |-> r1.token] ELSE
  LET r4 == IF r3.zero THEN DeleteStaker(r3.st, o, a, s) ELSE Ok(r3.st) IN
  [st |-> r4.st, err |-> r4.err, token |-> r1.token]

(***************************************************************************)
(* x/assets/keeper/bank.go: PerformDepositOrWithdraw                        *)
(* a = [s, a, x, dir]  dir = 1 deposit, -1 withdraw                         *)
(***************************************************************************)
DepositOrWithdraw(st, a) ==
  IF NIsNeg(a.x) THEN Fail(st, "ErrInvalidAmount") ELSE
  IF a.a \notin REGISTERED THEN Fail(st, "ErrNoClientChainAssetKey") ELSE
  LET d == IF a.dir = 1 THEN a.x ELSE NNeg(a.x) IN
  IF KIND[a.a] = "nat" THEN Ok(st) ELSE
  \* both updates inside one cache context (since the fix "apply the staker-balance and
  \* staking-total updates of a deposit/withdrawal atomically")
  LET r1 == UpdStk(st, a.s, a.a, d, d, 0) IN
  IF r1.err # "" THEN Fail(st, r1.err) ELSE
  WithCache(st, UpdTotal(r1.st, a.a, d))

(***************************************************************************)
(* x/delegation/keeper/delegation.go: delegateTo  a = [s, a, o, x]          *)
(***************************************************************************)
DelegateTo(st, a) ==
  IF ~NIsPos(a.x) THEN Fail(st, "ErrAmountIsNotPositive") ELSE
  IF a.o \notin OPERATORS THEN Fail(st, "ErrOperatorNotExist") ELSE
  LET r1 ==
        IF KIND[a.a] # "nat" THEN
          LET row == st.stk[<<a.s, a.a>>] IN
          IF ~row.ex THEN Fail(st, "ErrNoStakerAssetKey") ELSE
          IF NLt(row.wd, a.x) THEN Fail(st, "ErrDelegationAmountTooBig") ELSE
          UpdStk(st, a.s, a.a, 0, NNeg(a.x), 0)
        ELSE
          IF NLt(st.bal[a.s], a.x) THEN Fail(st, "ErrInsufficientFunds")
          ELSE Ok([st EXCEPT !.bal[a.s] = NSub(@, a.x), !.escrow = NAdd(@, a.x)])
  IN IF r1.err # "" THEN r1 ELSE
  LET sh == CalculateShare(r1.st, a.o, a.a, a.x) IN
  IF sh.err # "" THEN Fail(r1.st, sh.err) ELSE
  LET self == KIND[a.a] # "nat" /\ r1.st.assoc[a.s] = a.o
      r2 == UpdPool(r1.st, a.o, a.a, a.x, 0, sh.v, IF self THEN sh.v ELSE 0) IN
  IF r2.err # "" THEN r2 ELSE
  LET r3 == UpdDel(r2.st, a.s, a.a, a.o, 0, sh.v) IN
  IF r3.err # "" THEN Fail(r3.st, r3.err) ELSE
  AppendStaker(r3.st, a.o, a.a, a.s)

(***************************************************************************)
(* un_delegation_state.go: SetUndelegationRecords / DeleteUndelegationRecord *)
(***************************************************************************)
SetRecord(st, r) ==
  IF r.complete < st.h THEN Fail(st, "ErrInvalidCompletedHeight") ELSE
  LET k == RecKey(r) IN
  Ok([st EXCEPT !.recs = Put(@, k, r),
                !.idxS = Put(@, <<r.s, r.a, r.nonce>>, k),
                !.idxP = Put(@, <<r.complete, r.nonce>>, k)])

DeleteRecord(st, r) ==
  [st EXCEPT !.recs = Del(@, RecKey(r)),
             !.idxS = Del(@, <<r.s, r.a, r.nonce>>),
             !.idxP = Del(@, <<r.complete, r.nonce>>)]

\* dogfood's AfterUndelegationStarted as seen by the ledger: a hold is placed for
\* operators in HOLDOPS (interface abstraction, DESIGN.md 3.3)
HookUndelegationStarted(st, o, k) ==
  IF HOOKED /\ o \in HOLDOPS THEN Ok([st EXCEPT !.hold = Put(@, k, HoldOf(st, k) + 1)]) ELSE Ok(st)

(***************************************************************************)
(* delegation.go: UndelegateFrom  a = [s, a, o, x, nonce, txh]              *)
(***************************************************************************)
UndelegateFrom(st, a) ==
  IF ~NIsPos(a.x) THEN Fail(st, "ErrAmountIsNotPositive") ELSE
  IF a.o \notin OPERATORS THEN Fail(st, "ErrOperatorNotExist") ELSE
  LET v == ValidateUndelegationAmount(st, a.o, a.s, a.a, a.x) IN
  IF v.err # "" THEN Fail(st, v.err) ELSE
  LET r1 == RemoveShare(st, TRUE, a.o, a.s, a.a, v.v) IN
  IF r1.err # "" THEN Fail(r1.st, r1.err) ELSE
  LET rec == [s |-> a.s, a |-> a.a, o |-> a.o, start |-> st.h, nonce |-> a.nonce, txh |-> a.txh,
              complete |-> st.h + UNBOND, amt |-> r1.token, actual |-> r1.token]
      r2 == SetRecord(r1.st, rec) IN
  IF r2.err # "" THEN r2 ELSE
  HookUndelegationStarted(r2.st, a.o, RecKey(rec))

(***************************************************************************)
(* delegation.go: Associate / Dissociate   a = [s, o]                       *)
(***************************************************************************)
\* IterateDelegationsForStaker: every delegation of s, in key order; only those to `o` matter
AssocFold(st, s, o, sign) ==
  LET step(acc, a) ==
        IF acc.err # "" THEN acc ELSE
        LET d == acc.st.del[<<s, a, o>>] IN
        \* native-token delegations live under another staker id (chain id 0): never matched
        IF ~d.ex \/ KIND[a] = "nat" THEN acc ELSE UpdPool(acc.st, o, a, 0, 0, 0, IF sign = 1 THEN d.sh ELSE NNeg(d.sh))
  IN Fold(step, Ok(st), AORD)

Associate(st, a) ==
  IF a.o \notin OPERATORS THEN Fail(st, "ErrOperatorNotExist") ELSE
  IF st.assoc[a.s] # "" THEN Fail(st, "ErrOperatorAlreadyAssociated") ELSE
  LET r == AssocFold(st, a.s, a.o, 1) IN
  IF r.err # "" THEN r ELSE Ok([r.st EXCEPT !.assoc[a.s] = a.o])

Dissociate(st, a) ==
  IF st.assoc[a.s] = "" THEN Fail(st, "ErrNoAssociatedOperatorByStaker") ELSE
  LET r == AssocFold(st, a.s, st.assoc[a.s], -1) IN
  IF r.err # "" THEN r ELSE Ok([r.st EXCEPT !.assoc[a.s] = ""])

(***************************************************************************)
(* x/delegation/keeper/abci.go: EndBlock                                    *)
(***************************************************************************)
\* GetPendingUndelegationRecKeys: prefix iteration with hex(height) + "/" - exactly the keys of that height.
\* (Before the fix "pending-undelegation lookup includes the key delimiter in its prefix" the prefix was
\* hex(height) alone and matched every completion height whose hex digits merely START with those of the
\* height; PREFIXLOOKUP = TRUE keeps that defect expressible: MC_LedgerGenesis then violates InvNotEarly.)
PREFIXLOOKUP == FALSE
PendingDue(st, h) ==
  {k \in DOMAIN st.idxP : IF PREFIXLOOKUP THEN IsPrefixSeq(HexDigits(h), HexDigits(k[1])) ELSE k[1] = h}

\* byte order of "hex(complete)/hex(nonce)"; '/' (0x2f) sorts before every hex digit
PKeyLess(k1, k2) ==
  LET c1 == HexDigits(k1[1]) c2 == HexDigits(k2[1]) IN
  IF c1 = c2 THEN SeqLess(HexDigits(k1[2]), HexDigits(k2[2]))
  ELSE IF IsPrefixSeq(c1, c2) THEN TRUE
  ELSE IF IsPrefixSeq(c2, c1) THEN FALSE
  ELSE SeqLess(c1, c2)

\* one record inside its own cache context
EndBlockRecord(st, r) ==
  LET k == RecKey(r) IN
  IF HoldOf(st, k) > 0 THEN
    LET st1 == DeleteRecord(st, r)
        r2  == SetRecord(st1, [r EXCEPT !.complete = st.h + 1])
    IN WithCache(st, r2)
  ELSE
    LET neg == NNeg(r.amt)
        r1 == UpdDel(st, r.s, r.a, r.o, neg, 0) IN
    IF r1.err # "" THEN Fail(st, r1.err) ELSE
    LET r2 == IF KIND[r.a] = "nat"
              THEN (IF NLt(r1.st.escrow, r.actual) THEN Fail(r1.st, "ErrInsufficientFunds")
                    ELSE Ok([r1.st EXCEPT !.escrow = NSub(@, r.actual), !.bal[r.s] = NAdd(@, r.actual)]))
              ELSE UpdStk(r1.st, r.s, r.a, 0, r.actual, neg) IN
    IF r2.err # "" THEN Fail(st, r2.err) ELSE
    LET r3 == UpdPool(r2.st, r.o, r.a, 0, neg, 0, 0) IN
    IF r3.err # "" THEN Fail(st, r3.err) ELSE
    Ok(DeleteRecord(r3.st, r))

EndBlock(st) ==
  LET due  == PendingDue(st, st.h)
      keys == SortSet(due, PKeyLess)
      rks  == [i \in DOMAIN keys |-> st.idxP[keys[i]]]
  IN \* GetUndelegationRecords: a key without a record aborts the whole EndBlock
     IF \E i \in DOMAIN rks : ~Has(st.recs, rks[i]) THEN Fail(st, "ErrNoKeyInTheStore") ELSE
     LET recsSnap == [i \in DOMAIN rks |-> st.recs[rks[i]]]   \* records are read BEFORE the loop
         step(acc, r) == LET x == EndBlockRecord(acc, r) IN x.st   \* per-record failure: logged, skipped
     IN Ok(Fold(step, st, recsSnap))

NextBlock(st) == [st EXCEPT !.h = @ + 1]

\* dogfood releasing a hold (DecrementUndelegationHoldCount)
ReleaseHold(st, k) ==
  IF HoldOf(st, k) = 0 THEN Fail(st, "ErrCannotDecHoldCount")
  ELSE Ok([st EXCEPT !.hold = Put(@, k, HoldOf(st, k) - 1)])

(***************************************************************************)
(* x/operator/keeper/slash.go                                              *)
(* a = [o, id, infr, power, factor]  (dogfood slash; factor is a Dec)       *)
(***************************************************************************)
\* common_func.go: CalculateUSDValue
USDValue(amount, a) == DecQuoInt(DecFromInt(NMul(amount, PRICE[a]), PREC), NPow10(DECI[a] + PDEC[a]))

\* usd_value.go: CalculateUSDValueForOperator(isForSlash = true): StakingAndWaitUnbonding
SlashUSD(st, o) ==
  LET step(acc, a) ==
        IF acc.err # "" THEN acc ELSE
        IF ~st.pool[<<o, a>>].ex THEN acc ELSE
        IF KIND[a] # "nat" /\ PRICE[a] = 0 THEN [v |-> acc.v, err |-> "ErrGetPriceAssetNotFound"] ELSE
        IF a \notin REGISTERED THEN [v |-> acc.v, err |-> "ErrNoClientChainAssetKey"] ELSE
        [v |-> NAdd(acc.v, USDValue(NAdd(st.pool[<<o, a>>].amt, st.pool[<<o, a>>].pend), a)), err |-> ""]
  IN Fold(step, [v |-> 0, err |-> ""], AORD)

\* SlashFromUndelegation
SlashRecord(r, p) ==
  IF NIsZero(r.actual) THEN [rec |-> r, cut |-> N0, hit |-> FALSE] ELSE
  LET c == DecTruncInt(DecMulInt(p, r.amt), PREC) IN
  IF NGe(c, r.actual) THEN [rec |-> [r EXCEPT !.actual = N0], cut |-> r.actual, hit |-> TRUE]
  ELSE [rec |-> [r EXCEPT !.actual = NSub(r.actual, c)], cut |-> c, hit |-> TRUE]

\* the effective proportion; "PANIC" when the operator's value is zero (Quo by zero)
SlashProportion(st, a) ==
  LET usd == SlashUSD(st, a.o) IN
  IF usd.err # "" THEN [p |-> 0, err |-> usd.err] ELSE
  IF NIsZero(usd.v) THEN [p |-> 0, err |-> "PANIC"] ELSE
  LET sv == DecMul(DecFromInt(a.power, PREC), a.factor, PREC) IN
  [p |-> NMin(PREC, DecQuo(sv, usd.v, PREC)), err |-> ""]

\* SlashAssets -> [st, err, exec] ; exec = [p, und, pools]
SlashAssets(st, a) ==
  LET pr == SlashProportion(st, a) IN
  IF pr.err # "" THEN [st |-> st, err |-> pr.err, exec |-> [p |-> 0, und |-> {}, pools |-> {}]] ELSE
  LET p == pr.p
      hitKeys == IF a.infr < st.h
                 THEN {k \in DOMAIN st.recs : st.recs[k].o = a.o /\ st.recs[k].start >= a.infr}
                 ELSE {}
      newRecs == [k \in DOMAIN st.recs |-> IF k \in hitKeys THEN SlashRecord(st.recs[k], p).rec ELSE st.recs[k]]
      und == {[k |-> k, cut |-> SlashRecord(st.recs[k], p).cut] : k \in {x \in hitKeys : SlashRecord(st.recs[x], p).hit}}
      st1 == [st EXCEPT !.recs = newRecs]
      poolStep(acc, as) ==
        LET pl == acc.st.pool[<<a.o, as>>] IN
        IF ~pl.ex THEN acc ELSE
        LET c   == DecTruncInt(DecMulInt(p, pl.amt), PREC)
            rem == NSub(pl.amt, c)
            wipe == NIsZero(rem) /\ acc.st.slist[<<a.o, as>>].ex
            lst  == acc.st.slist[<<a.o, as>>].seq
            st2 == IF wipe
                   THEN [acc.st EXCEPT
                          !.del = [k \in DKeys |-> IF k[2] = as /\ k[3] = a.o /\ InSeq(k[1], lst) /\ @[k].ex
                                                  THEN [@[k] EXCEPT !.sh = N0] ELSE @[k]],
                          !.slist[<<a.o, as>>] = [ex |-> FALSE, seq |-> <<>>],
                          !.pool[<<a.o, as>>] = [pl EXCEPT !.amt = rem, !.tsh = N0, !.osh = N0]]
                   ELSE [acc.st EXCEPT !.pool[<<a.o, as>>] = [pl EXCEPT !.amt = rem]]
        IN [st |-> st2, pools |-> acc.pools \cup {[a |-> as, cut |-> c]}]
      res == Fold(poolStep, [st |-> st1, pools |-> {}], AORD)
  IN [st |-> res.st, err |-> "", exec |-> [p |-> p, und |-> und, pools |-> res.pools]]

\* Slash = CheckSlashParameter ; cache{ SlashAssets ; UpdateOperatorSlashInfo }
\* (since the fix "operator Slash records the slash info in the same cache context": a slash
\* rejected by UpdateOperatorSlashInfo leaves nothing behind)
Slash(st, a) ==
  IF NIsNeg(a.factor) THEN Fail(st, "ErrValueIsNilOrZero") ELSE
  IF a.infr > st.h THEN Fail(st, "ErrSlashOccurredHeight") ELSE
  IF ~NIsPos(a.power) THEN Fail(st, "ErrInvalidSlashPower") ELSE
  LET r == SlashAssets(st, a) IN
  IF r.err # "" THEN Fail(st, r.err) ELSE
  IF <<a.o, a.id>> \in r.st.sinfo THEN Fail(st, "ErrSlashInfoExist") ELSE
  IF NGt(a.factor, PREC) THEN Fail(st, "ErrSlashInfo") ELSE
  Ok([r.st EXCEPT !.sinfo = @ \cup {<<a.o, a.id>>}])

(***************************************************************************)
(* update_native_restaking_balance.go: UpdateNSTBalance  a = [s, a, d]      *)
(***************************************************************************)
\* byte order of "staker/asset/hex(nonce)" for fixed staker, asset
SKeyLess(k1, k2) == SeqLess(HexDigits(k1[3]), HexDigits(k2[3]))

\* TotalDelegatedAmountForStakerAsset
TotalDelegated(st, s, a) ==
  LET ops == OORD
      step(acc, o) ==
        IF acc.err # "" THEN acc ELSE
        LET d == st.del[<<s, a, o>>] IN
        IF ~d.ex \/ NIsZero(d.sh) THEN acc ELSE
        LET p == st.pool[<<o, a>>] IN
        IF ~p.ex THEN [v |-> acc.v, err |-> "ErrNoOperatorAssetKey"] ELSE
        LET t == TokensFromShares(d.sh, p.tsh, p.amt) IN
        IF t.err # "" THEN [v |-> acc.v, err |-> t.err] ELSE [v |-> NAdd(acc.v, t.v), err |-> ""]
  IN Fold(step, [v |-> 0, err |-> ""], ops)

UpdateNSTBalance(st, a) ==
  IF NIsPos(a.d) THEN UpdStk(st, a.s, a.a, a.d, a.d, 0) ELSE
  IF ~NIsNeg(a.d) THEN Ok(st) ELSE
  LET row == st.stk[<<a.s, a.a>>] IN
  IF ~row.ex THEN Fail(st, "ErrNoStakerAssetKey") ELSE
  LET want  == NNeg(a.d)
      pend0 == NSub(want, row.wd)
      fromW == IF NIsPos(pend0) THEN row.wd ELSE want
      r1 == UpdStk(st, a.s, a.a, NNeg(fromW), NNeg(fromW), 0) IN
  IF r1.err # "" THEN r1 ELSE
  \* phase 2: pending undelegations of (s, a) in index order
  LET ikeys == SortSet({k \in DOMAIN r1.st.idxS : k[1] = a.s /\ k[2] = a.a}, SKeyLess)
      step2(acc, ik) ==
        IF acc.err # "" \/ acc.stop THEN acc ELSE
        LET rk == acc.st.idxS[ik] IN
        IF ~Has(acc.st.recs, rk) THEN [acc EXCEPT !.err = "ErrNoKeyInTheStore"] ELSE
        LET r   == acc.st.recs[rk]
            np  == NSub(acc.pend, r.actual)
            cut == IF NIsPos(np) THEN r.actual ELSE acc.pend
            u   == UpdStk(acc.st, a.s, a.a, NNeg(cut), 0, 0) IN
        \* on error the record update is NOT stored (isUpdate happens after opFunc returned nil)
        IF u.err # "" THEN [acc EXCEPT !.err = u.err, !.st = u.st] ELSE
        [st |-> [u.st EXCEPT !.recs[rk] = [r EXCEPT !.actual = NSub(r.actual, cut)]],
         pend |-> np, err |-> "", stop |-> ~NIsPos(np)]
      p2 == IF NIsPos(pend0)
            THEN Fold(step2, [st |-> r1.st, pend |-> pend0, err |-> "", stop |-> FALSE], ikeys)
            ELSE [st |-> r1.st, pend |-> pend0, err |-> "", stop |-> TRUE] IN
  IF p2.err # "" THEN Fail(p2.st, p2.err) ELSE
  IF ~NIsPos(p2.pend) THEN Ok(p2.st) ELSE
  \* phase 3: delegated shares
  LET td == TotalDelegated(p2.st, a.s, a.a) IN
  IF td.err # "" THEN Fail(p2.st, td.err) ELSE
  IF NIsZero(td.v) THEN Ok(p2.st) ELSE
  LET prop == NMin(PREC, DecQuo(DecFromInt(p2.pend, PREC), DecFromInt(td.v, PREC), PREC))
      ops  == OORD
      \* the iterator runs over the keys present in the store; values are read as iterated
      step3(acc, o) ==
        IF acc.err # "" THEN acc ELSE
        LET d == acc.st.del[<<a.s, a.a, o>>] IN
        IF ~d.ex THEN acc ELSE
        LET ssh == DecMul(d.sh, prop, PREC) IN
        \* since the fix "native-restaking balance decrease skips delegations without shares"
        IF ~NIsPos(ssh) THEN acc ELSE
        LET rs  == RemoveShare(acc.st, FALSE, o, a.s, a.a, ssh) IN
        IF rs.err # "" THEN [st |-> rs.st, err |-> rs.err] ELSE
        LET u == UpdStk(rs.st, a.s, a.a, NNeg(rs.token), 0, 0) IN
        [st |-> u.st, err |-> u.err]
      p3 == Fold(step3, [st |-> p2.st, err |-> ""], ops)
  IN [st |-> p3.st, err |-> p3.err]

(***************************************************************************)
(* x/delegation/keeper/msg_server.go: MsgDelegation / MsgUndelegation       *)
(* (native token only): one cache context around the loop over the          *)
(* per-operator entries; every entry carries the SAME nonce (the signer's   *)
(* account sequence) and the SAME hash.  a = [s, items, nonce, txh],        *)
(* items = sequence of [o, x]                                               *)
(***************************************************************************)
MsgDelegate(st, a) ==
  LET step(acc, it) == IF acc.err # "" THEN acc ELSE DelegateTo(acc.st, [s |-> a.s, a |-> "nat", o |-> it.o, x |-> it.x])
  IN WithCache(st, Fold(step, Ok(st), a.items))

MsgUndelegate(st, a) ==
  LET step(acc, it) == IF acc.err # "" THEN acc
                       ELSE UndelegateFrom(acc.st, [s |-> a.s, a |-> "nat", o |-> it.o, x |-> it.x, nonce |-> a.nonce, txh |-> a.txh])
  IN WithCache(st, Fold(step, Ok(st), a.items))

(***************************************************************************)
(* Entry points, by event name (what the harness drives and logs)           *)
(***************************************************************************)
Apply(st, ev, a) ==
  CASE ev = "Deposit"     -> DepositOrWithdraw(st, [s |-> a.s, a |-> a.a, x |-> a.x, dir |-> 1])
    [] ev = "Withdraw"    -> DepositOrWithdraw(st, [s |-> a.s, a |-> a.a, x |-> a.x, dir |-> -1])
    [] ev = "Delegate"    -> DelegateTo(st, a)
    [] ev = "Undelegate"  -> UndelegateFrom(st, a)
    [] ev = "MsgDelegate"   -> MsgDelegate(st, a)
    [] ev = "MsgUndelegate" -> MsgUndelegate(st, a)
    [] ev = "Associate"   -> Associate(st, a)
    [] ev = "Dissociate"  -> Dissociate(st, a)
    [] ev = "Slash"       -> Slash(st, a)
    [] ev = "NstUpdate"   -> UpdateNSTBalance(st, a)
    [] ev = "ReleaseHold" -> ReleaseHold(st, a.k)
    [] ev = "EndBlock"    -> LET r == EndBlock(st) IN [st |-> NextBlock(r.st), err |-> r.err]
    \* the chain is (re)started from a genesis document carrying this module state at height a.h (an
    \* export/import with a new initial height): the stores are what InitGenesis loads, only the height moves
    [] ev = "SetHeight"   -> IF a.h >= 1 THEN Ok([st EXCEPT !.h = a.h]) ELSE Fail(st, "bad height")

(***************************************************************************)
(* Coverage goals: named branches of the transcription above, as predicates *)
(* over one step (pre-store, event, arguments, result of Apply).  Used      *)
(*  - by the bounded model to make TLC emit a shortest behaviour reaching   *)
(*    each goal (goal-directed generation), and                            *)
(*  - by the trace spec to count which goals the REAL executions reached    *)
(*    (vacuity guard: a goal with zero hits means a branch was never        *)
(*    exercised on the code).                                               *)
(***************************************************************************)
RateSkewed(st, o, a) ==
  st.pool[<<o, a>>].ex /\ ~NEq(st.pool[<<o, a>>].tsh, DecFromInt(st.pool[<<o, a>>].amt, PREC))

Goals(pre, ev, a, r) ==
  LET ok == r.err = "" post == r.st
      G(c, name) == IF c THEN {name} ELSE {}
  IN
  CASE ev = "Deposit" -> G(ok, "dep_ok")
    [] ev = "Withdraw" ->
         G(ok, "wd_ok") \cup
         G(~ok /\ KIND[a.a] # "nat" /\ NGt(a.x, pre.stk[<<a.s, a.a>>].wd) /\ NLe(a.x, pre.total[a.a]), "wd_over_balance_within_total") \cup
         G(~ok /\ KIND[a.a] # "nat" /\ NLe(a.x, pre.stk[<<a.s, a.a>>].wd) /\ NGt(a.x, pre.total[a.a]), "wd_within_balance_over_total")
    [] ev = "Delegate" ->
         G(ok /\ ~pre.pool[<<a.o, a.a>>].ex, "del_first_into_pool") \cup
         G(ok /\ RateSkewed(pre, a.o, a.a), "del_skewed_rate") \cup
         G(ok /\ KIND[a.a] # "nat" /\ pre.assoc[a.s] = a.o, "del_self") \cup
         G(ok /\ KIND[a.a] = "nat", "del_native") \cup
         G(ok /\ pre.del[<<a.s, a.a, a.o>>].ex /\ NIsZero(pre.del[<<a.s, a.a, a.o>>].sh), "del_again_after_empty") \cup
         G(ok /\ pre.del[<<a.s, a.a, a.o>>].ex /\ NIsPos(pre.del[<<a.s, a.a, a.o>>].sh), "del_top_up") \cup
         \* the staker's record survived a slash that wiped the pool (shares zeroed, staker list DELETED)
         G(ok /\ pre.del[<<a.s, a.a, a.o>>].ex /\ NIsZero(pre.del[<<a.s, a.a, a.o>>].sh) /\ ~pre.slist[<<a.o, a.a>>].ex
              /\ \E e \in pre.sinfo : e[1] = a.o, "del_again_after_slash_wipe") \cup
         G(ok /\ \E s2 \in STAKERS \ {a.s} : NIsPos(pre.del[<<s2, a.a, a.o>>].sh), "del_with_codelegator") \cup
         G(~ok /\ r.err = "ErrDelegationAmountTooBig", "del_over_withdrawable")
    [] ev = "Undelegate" ->
         LET d == pre.del[<<a.s, a.a, a.o>>] pl == pre.pool[<<a.o, a.a>>] IN
         G(ok /\ NIsPos(post.del[<<a.s, a.a, a.o>>].sh), "und_partial") \cup
         G(ok /\ NIsZero(post.del[<<a.s, a.a, a.o>>].sh) /\ NIsPos(post.pool[<<a.o, a.a>>].tsh), "und_full_exit_others_remain") \cup
         G(ok /\ NIsZero(post.pool[<<a.o, a.a>>].tsh), "und_last_share") \cup
         \* full exit from a pool that was wiped by a slash and then delegated into again (rate back at 1:1)
         G(ok /\ NIsZero(post.del[<<a.s, a.a, a.o>>].sh) /\ (\E e \in pre.sinfo : e[1] = a.o) /\ ~RateSkewed(pre, a.o, a.a)
              /\ NIsPos(pl.amt), "und_full_exit_from_slashed_operator") \cup
         G(ok /\ RateSkewed(pre, a.o, a.a), "und_skewed_rate") \cup
         G(ok /\ HOOKED /\ a.o \in HOLDOPS, "und_hold_placed") \cup
         G(ok /\ KIND[a.a] = "nat", "und_native") \cup
         G(ok /\ KIND[a.a] # "nat" /\ pre.assoc[a.s] = a.o, "und_self") \cup
         G(ok /\ \E k \in DOMAIN pre.recs : pre.recs[k].s = a.s /\ pre.recs[k].a = a.a, "und_second_pending_same_staker_asset") \cup
         G(~ok /\ r.err = "ErrInsufficientShares", "und_over_position")
    [] ev = "MsgDelegate" ->
         G(ok /\ Len(a.items) >= 2, "msgdel_two_entries") \cup
         G(~ok /\ Len(a.items) >= 2 /\ DelegateTo(pre, [s |-> a.s, a |-> "nat", o |-> a.items[1].o, x |-> a.items[1].x]).err = "", "msgdel_second_entry_fails")
    [] ev = "MsgUndelegate" ->
         G(ok /\ Len(a.items) >= 2 /\ a.items[1].o # a.items[2].o, "msgund_two_operators") \cup
         G(ok /\ Len(a.items) >= 2 /\ a.items[1].o = a.items[2].o, "msgund_same_operator_twice") \cup
         G(~ok /\ Len(a.items) >= 2
              /\ UndelegateFrom(pre, [s |-> a.s, a |-> "nat", o |-> a.items[1].o, x |-> a.items[1].x, nonce |-> a.nonce, txh |-> a.txh]).err = "",
           "msgund_second_entry_fails")
    [] ev = "Associate"  ->
         G(ok /\ \E x \in ASSETS : NIsPos(pre.del[<<a.s, x, a.o>>].sh), "assoc_with_position") \cup
         G(ok /\ Cardinality({x \in ASSETS : NIsPos(pre.del[<<a.s, x, a.o>>].sh)}) >= 2, "assoc_with_positions_in_two_assets") \cup
         G(~ok /\ pre.assoc[a.s] # "" /\ a.o \in OPERATORS /\ \E x \in ASSETS : NIsPos(pre.del[<<a.s, x, a.o>>].sh), "assoc_refused_with_position")
    [] ev = "Dissociate" -> G(ok /\ \E x \in ASSETS : NIsPos(pre.del[<<a.s, x, pre.assoc[a.s]>>].sh), "dissoc_with_position") \cup
                            G(ok /\ Cardinality({x \in ASSETS : NIsPos(pre.del[<<a.s, x, pre.assoc[a.s]>>].sh)}) >= 2, "dissoc_with_positions_in_two_assets")
    [] ev = "ReleaseHold" -> G(ok, "hold_released")
    [] ev = "EndBlock" ->
         LET rel == DOMAIN pre.recs \ DOMAIN post.recs IN
         G(rel # {}, "eb_release") \cup
         G(Cardinality(rel) >= 2, "eb_release_two_in_one_block") \cup
         G(\E k \in rel : NLt(pre.recs[k].actual, pre.recs[k].amt) /\ NIsPos(pre.recs[k].actual), "eb_release_partly_slashed") \cup
         G(\E k \in rel : NIsZero(pre.recs[k].actual), "eb_release_fully_slashed") \cup
         G(\E k \in rel : KIND[pre.recs[k].a] = "nat", "eb_release_native") \cup
         G(\E k \in DOMAIN pre.recs : k \in DOMAIN post.recs /\ post.recs[k].complete # pre.recs[k].complete, "eb_requeue_held") \cup
         G(\E k \in rel : pre.recs[k].complete > pre.recs[k].start + UNBOND, "eb_release_after_requeue")
    [] ev = "Slash" ->
         LET pr == SlashProportion(pre, a) IN
         G(ok /\ NIsPos(pr.p) /\ NLt(pr.p, PREC), "slash_partial") \cup
         G(ok /\ NEq(pr.p, PREC), "slash_full") \cup
         G(ok /\ \E x \in ASSETS : pre.slist[<<a.o, x>>].ex /\ ~post.slist[<<a.o, x>>].ex, "slash_wipes_pool") \cup
         G(ok /\ \E k \in DOMAIN pre.recs : ~NEq(pre.recs[k].actual, post.recs[k].actual), "slash_hits_pending_record") \cup
         G(ok /\ \E k \in DOMAIN pre.recs : NIsPos(pre.recs[k].actual) /\ NIsZero(post.recs[k].actual), "slash_record_to_zero") \cup
         G(ok /\ \E k \in DOMAIN pre.recs : pre.recs[k].o = a.o /\ pre.recs[k].start < a.infr, "slash_spares_older_record") \cup
         G(ok /\ Cardinality({x \in ASSETS : pre.pool[<<a.o, x>>].ex /\ NIsPos(pre.pool[<<a.o, x>>].amt)}) >= 2, "slash_multi_asset") \cup
         G(ok /\ \E x \in ASSETS : pre.pool[<<a.o, x>>].ex /\ NIsZero(pre.pool[<<a.o, x>>].amt) /\ NIsPos(pre.pool[<<a.o, x>>].pend)
                 /\ \E y \in ASSETS \ {x} : NIsPos(pre.pool[<<a.o, y>>].amt), "slash_pool_fully_unbonding_other_bonded") \cup
         G(ok /\ NIsPos(pr.p) /\ NLt(pr.p, PREC)
              /\ \E x \in ASSETS : pre.pool[<<a.o, x>>].ex /\ NIsZero(pre.pool[<<a.o, x>>].amt) /\ NIsPos(pre.pool[<<a.o, x>>].pend)
                 /\ \E y \in ASSETS \ {x} : NIsPos(pre.pool[<<a.o, y>>].amt), "slash_partial_pool_fully_unbonding_other_bonded") \cup
         G(ok /\ NIsPos(pr.p) /\ NLt(pr.p, PREC) /\ \E k \in DOMAIN pre.recs : ~NEq(pre.recs[k].actual, post.recs[k].actual), "slash_partial_hits_pending_record") \cup
         \* a record already reduced (by an earlier slash or an NST decrease) is hit again and the cut computed
         \* from its ORIGINAL amount exceeds what it still owes: SlashFromUndelegation caps it at the remainder
         G(ok /\ \E k \in DOMAIN pre.recs : /\ pre.recs[k].o = a.o /\ pre.recs[k].start >= a.infr /\ a.infr < pre.h
                                            /\ NIsPos(pre.recs[k].actual) /\ NLt(pre.recs[k].actual, pre.recs[k].amt)
                                            /\ NGt(DecTruncInt(DecMulInt(pr.p, pre.recs[k].amt), PREC), pre.recs[k].actual),
           "slash_caps_reduced_record") \cup
         \* ... or hit again WITHOUT reaching the cap: the cut is still measured on the original amount
         G(ok /\ \E k \in DOMAIN pre.recs : /\ pre.recs[k].o = a.o /\ pre.recs[k].start >= a.infr /\ a.infr < pre.h
                                            /\ NIsPos(pre.recs[k].actual) /\ NLt(pre.recs[k].actual, pre.recs[k].amt)
                                            /\ NIsPos(DecTruncInt(DecMulInt(pr.p, pre.recs[k].amt), PREC))
                                            /\ NLt(DecTruncInt(DecMulInt(pr.p, pre.recs[k].amt), PREC), pre.recs[k].actual)
                                            /\ ~NEq(DecTruncInt(DecMulInt(pr.p, pre.recs[k].amt), PREC), DecTruncInt(DecMulInt(pr.p, pre.recs[k].actual), PREC)),
           "slash_reduced_record_below_cap") \cup
         G(ok /\ a.infr < pre.h /\ Cardinality({k \in DOMAIN pre.recs : pre.recs[k].o = a.o /\ pre.recs[k].start >= a.infr
                                                    /\ ~NEq(pre.recs[k].actual, post.recs[k].actual)}) >= 2, "slash_two_records") \cup
         G(ok /\ a.infr < pre.h /\ \E k \in DOMAIN pre.recs : pre.recs[k].o = a.o /\ pre.recs[k].start = a.infr
                                                    /\ ~NEq(pre.recs[k].actual, post.recs[k].actual), "slash_record_started_at_infraction_height") \cup
         G(ok /\ a.infr < pre.h /\ \E k \in DOMAIN pre.recs : pre.recs[k].o = a.o /\ pre.recs[k].start > a.infr
                                                    /\ ~NEq(pre.recs[k].actual, post.recs[k].actual), "slash_record_started_after_infraction_height") \cup
         G(ok /\ a.infr = pre.h, "slash_infraction_at_current_height") \cup
         G(<<a.o, a.id>> \in pre.sinfo, "slash_replay") \cup
         G(NGt(a.factor, PREC), "slash_factor_above_one") \cup
         G(r.err = "PANIC", "slash_zero_value_operator")
    [] ev = "NstUpdate" ->
         LET row == pre.stk[<<a.s, a.a>>]
             recsOf == {k \in DOMAIN pre.recs : pre.recs[k].s = a.s /\ pre.recs[k].a = a.a}
             pendTot == SumF(recsOf, LAMBDA k : pre.recs[k].actual)
             want == NNeg(a.d)
         IN
         G(ok /\ NIsPos(a.d), "nst_up") \cup
         G(ok /\ NIsNeg(a.d) /\ NLe(want, row.wd), "nst_down_within_withdrawable") \cup
         G(ok /\ NIsNeg(a.d) /\ NGt(want, row.wd) /\ NLe(want, NAdd(row.wd, pendTot)) /\ recsOf # {}, "nst_down_ends_inside_pending_records") \cup
         G(ok /\ NIsNeg(a.d) /\ NGt(want, NAdd(row.wd, pendTot)) /\ \E o \in OPERATORS : NIsPos(pre.del[<<a.s, a.a, o>>].sh), "nst_down_reaches_shares") \cup
         G(NIsNeg(a.d) /\ NGt(want, NAdd(row.wd, pendTot)) /\ Cardinality({o \in OPERATORS : NIsPos(pre.del[<<a.s, a.a, o>>].sh)}) >= 2, "nst_down_shares_two_operators") \cup
         G(ok /\ NIsNeg(a.d) /\ NGt(want, NAdd(row.wd, pendTot)) /\ (\E o \in OPERATORS : NIsPos(pre.del[<<a.s, a.a, o>>].sh))
              /\ \E o \in OPERATORS : pre.del[<<a.s, a.a, o>>].ex /\ NIsZero(pre.del[<<a.s, a.a, o>>].sh), "nst_down_skips_zero_share_row")
    [] OTHER -> {}

AllGoals ==
  {"dep_ok", "wd_ok", "wd_over_balance_within_total", "wd_within_balance_over_total",
   "del_first_into_pool", "del_skewed_rate", "del_self", "del_native", "del_again_after_empty", "del_top_up", "del_again_after_slash_wipe",
   "und_full_exit_from_slashed_operator", "assoc_with_positions_in_two_assets", "dissoc_with_positions_in_two_assets", "slash_reduced_record_below_cap",
   "del_with_codelegator", "del_over_withdrawable",
   "und_partial", "und_full_exit_others_remain", "und_last_share", "und_skewed_rate", "und_hold_placed", "und_native",
   "und_self", "und_second_pending_same_staker_asset", "und_over_position",
   "assoc_with_position", "assoc_refused_with_position", "dissoc_with_position", "hold_released",
   "eb_release", "eb_release_two_in_one_block", "eb_release_partly_slashed", "eb_release_fully_slashed",
   "eb_release_native", "eb_requeue_held", "eb_release_after_requeue",
   "slash_partial", "slash_full", "slash_wipes_pool", "slash_hits_pending_record", "slash_record_to_zero",
   "slash_spares_older_record", "slash_multi_asset", "slash_pool_fully_unbonding_other_bonded", "slash_partial_pool_fully_unbonding_other_bonded",
   "slash_partial_hits_pending_record", "slash_caps_reduced_record", "slash_two_records", "slash_record_started_at_infraction_height",
   "slash_record_started_after_infraction_height", "slash_infraction_at_current_height", "slash_replay", "slash_factor_above_one", "slash_zero_value_operator",
   "nst_up", "nst_down_within_withdrawable", "nst_down_ends_inside_pending_records", "nst_down_reaches_shares",
   "nst_down_shares_two_operators", "nst_down_skips_zero_share_row",
   "msgdel_two_entries", "msgdel_second_entry_fails", "msgund_two_operators", "msgund_same_operator_twice", "msgund_second_entry_fails"}

(***************************************************************************)
(* Properties (state predicates over a store and the ghosts G; the bounded  *)
(* model and the trace spec evaluate the same definitions)                  *)
(*                                                                         *)
(* G = [cumDep, cumWd, cumUp, cumDown, cumSlash : asset -> number]          *)
(***************************************************************************)

HeldBy(st, a) ==
  NAdd(NAdd(SumF({k \in SKeys : k[2] = a}, LAMBDA k : st.stk[k].wd),
            SumF({k \in PKeys : k[2] = a}, LAMBDA k : st.pool[k].amt)),
       SumF({k \in DOMAIN st.recs : st.recs[k].a = a}, LAMBDA k : st.recs[k].actual))

Expected(G, a) ==
  NSub(NAdd(NSub(G.cumDep[a], G.cumWd[a]), NSub(G.cumUp[a], G.cumDown[a])), G.cumSlash[a])

ZeroG == [cumDep |-> [a \in ASSETS |-> N0], cumWd |-> [a \in ASSETS |-> N0], cumUp |-> [a \in ASSETS |-> N0],
          cumDown |-> [a \in ASSETS |-> N0], cumSlash |-> [a \in ASSETS |-> N0], used |-> {}]

\* ghost bookkeeping from the event, its REPORTED result and the observed stores.
\* Deposits/withdrawals/positive NST updates are booked from the request (only when reported
\* successful); slashing and negative NST updates are booked from what was observed to leave
\* the ledger (their exactness is C04's business; C01 only demands that nothing is created).
GhostStep(g, ev, a, ok, pre, post) ==
  CASE ev = "Deposit" /\ ok /\ KIND[a.a] # "nat"  -> [g EXCEPT !.cumDep[a.a] = NAdd(@, a.x)]
    [] ev = "Withdraw" /\ ok /\ KIND[a.a] # "nat" -> [g EXCEPT !.cumWd[a.a] = NAdd(@, a.x)]
    [] ev = "NstUpdate" /\ NIsPos(a.d) /\ ok      -> [g EXCEPT !.cumUp[a.a] = NAdd(@, a.d)]
    [] ev = "NstUpdate" /\ NIsNeg(a.d)            -> [g EXCEPT !.cumDown[a.a] = NAdd(@, NSub(HeldBy(pre, a.a), HeldBy(post, a.a)))]
    [] ev = "Slash" -> [g EXCEPT !.cumSlash = [x \in ASSETS |-> NAdd(@[x], NSub(HeldBy(pre, x), HeldBy(post, x)))]]
    [] ev \in {"Undelegate", "MsgUndelegate"} -> [g EXCEPT !.used = @ \cup {a.nonce}]
    [] OTHER -> g

\* C01
Conservation(st, G) == \A a \in ASSETS : KIND[a] # "nat" => NEq(HeldBy(st, a), Expected(G, a))
Published(st, G)    == \A a \in ASSETS : KIND[a] # "nat" => NEq(st.total[a], NSub(G.cumDep[a], G.cumWd[a]))
EscrowCovers(st)    == \A a \in ASSETS : KIND[a] = "nat" =>
                          NGe(st.escrow, NAdd(SumF({k \in PKeys : k[2] = a}, LAMBDA k : st.pool[k].amt),
                                              SumF({k \in DOMAIN st.recs : st.recs[k].a = a}, LAMBDA k : st.recs[k].actual)))
NonNegative(st) ==
  /\ \A a \in ASSETS : ~NIsNeg(st.total[a])
  /\ \A k \in SKeys : ~NIsNeg(st.stk[k].dep) /\ ~NIsNeg(st.stk[k].wd) /\ ~NIsNeg(st.stk[k].pend)
  /\ \A k \in PKeys : ~NIsNeg(st.pool[k].amt) /\ ~NIsNeg(st.pool[k].pend) /\ ~NIsNeg(st.pool[k].tsh) /\ ~NIsNeg(st.pool[k].osh)
  /\ \A k \in DKeys : ~NIsNeg(st.del[k].sh) /\ ~NIsNeg(st.del[k].wait)
  /\ \A k \in DOMAIN st.recs : ~NIsNeg(st.recs[k].amt) /\ ~NIsNeg(st.recs[k].actual)
  /\ ~NIsNeg(st.escrow) /\ \A s \in STAKERS : ~NIsNeg(st.bal[s])

\* C02
ShareSum(st)  == \A k \in PKeys : NEq(st.pool[k].tsh, SumF({d \in DKeys : d[2] = k[2] /\ d[3] = k[1]}, LAMBDA d : st.del[d].sh))
SelfShare(st) == \A k \in PKeys : NEq(st.pool[k].osh,
                    SumF({d \in DKeys : d[2] = k[2] /\ d[3] = k[1] /\ KIND[d[2]] # "nat" /\ st.assoc[d[1]] = k[1]}, LAMBDA d : st.del[d].sh))
NoDupSeq(q)   == \A i, j \in DOMAIN q : i # j => q[i] # q[j]
ListExact(st) == \A k \in PKeys :
                    /\ NoDupSeq(st.slist[k].seq)
                    /\ {st.slist[k].seq[i] : i \in DOMAIN st.slist[k].seq} = {s \in STAKERS : NIsPos(st.del[<<s, k[2], k[1]>>].sh)}
EmptyPool(st) == \A k \in PKeys : NIsZero(st.pool[k].amt) => NIsZero(st.pool[k].tsh) /\ NIsZero(st.pool[k].osh)

\* redeemable value of a position (TokensFromShares; 0 on a degenerate pool)
Val(st, s, a, o) ==
  LET d == st.del[<<s, a, o>>] p == st.pool[<<o, a>>] IN
  IF ~d.ex \/ ~p.ex \/ NIsZero(p.tsh) \/ NGt(d.sh, p.tsh) THEN 0
  ELSE DecTruncInt(DecQuo(DecMulInt(d.sh, p.amt), p.tsh, PREC), PREC)

\* C03 (aggregates)
PendingSums(st) ==
  /\ \A k \in SKeys : KIND[k[2]] # "nat" =>
        NEq(st.stk[k].pend, SumF({r \in DOMAIN st.recs : st.recs[r].s = k[1] /\ st.recs[r].a = k[2]}, LAMBDA r : st.recs[r].amt))
  /\ \A k \in PKeys :
        NEq(st.pool[k].pend, SumF({r \in DOMAIN st.recs : st.recs[r].o = k[1] /\ st.recs[r].a = k[2]}, LAMBDA r : st.recs[r].amt))
  /\ \A k \in DKeys :
        NEq(st.del[k].wait, SumF({r \in DOMAIN st.recs : st.recs[r].s = k[1] /\ st.recs[r].a = k[2] /\ st.recs[r].o = k[3]}, LAMBDA r : st.recs[r].amt))

IndexBijective(st) ==
  /\ \A k \in DOMAIN st.idxS : Has(st.recs, st.idxS[k])
  /\ \A k \in DOMAIN st.idxP : Has(st.recs, st.idxP[k])
  /\ \A r \in DOMAIN st.recs :
        /\ Cardinality({k \in DOMAIN st.idxS : st.idxS[k] = r}) = 1
        /\ Cardinality({k \in DOMAIN st.idxP : st.idxP[k] = r}) = 1
        /\ \E k \in DOMAIN st.idxP : st.idxP[k] = r /\ k[1] = st.recs[r].complete
=============================================================================
