----------------------------- MODULE MC_Auth_q -----------------------------
EXTENDS MC_Auth
c_NoDevs == {}
\* deviations of the current tree (DEV_OracleSigIgnored was repaired by 873f403)
c_CodeDevs == {"DEV_ChallengeNoOwner", "DEV_OperatorBySender", "DEV_OracleSignerInfoCount"}
=============================================================================
