----------------------------- MODULE MC_Auth_q -----------------------------
EXTENDS MC_Auth
c_NoDevs == {}
\* deviations of the current tree (DEV_OracleSigIgnored was repaired by 873f403)
\* (DEV_OracleSignerInfoCount was repaired by 4bd9a0c)
c_CodeDevs == {"DEV_ChallengeNoOwner", "DEV_OperatorBySender"}
=============================================================================
