----------------------------- MODULE MC_Auth_q -----------------------------
EXTENDS MC_Auth
c_NoDevs == {}
c_CodeDevs == {"DEV_OracleSigIgnored", "DEV_ChallengeNoOwner", "DEV_OperatorBySender"}
=============================================================================
