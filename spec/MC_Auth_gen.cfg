SPECIFICATION Spec
CONSTANTS
  DEVS <- c_CodeDevs
  MAXOPS = 1
  BASES = {"B0", "B1", "B2"}
  CHAINS = {"main", "main2", "test"}
  REJBUDGET = 99
INVARIANTS EmitAtDepth
CHECK_DEADLOCK FALSE
