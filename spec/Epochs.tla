------------------------------- MODULE Epochs -------------------------------
(***************************************************************************)
(* Epoch clock of exocore (property C15).                                   *)
(*                                                                         *)
(* Mirrors                                                                  *)
(*   x/epochs/keeper/genesis.go      InitGenesis (errors of AddEpochInfo     *)
(*                                   are ignored: invalid entries vanish)   *)
(*   x/epochs/keeper/epoch_infos.go  AddEpochInfo, IterateEpochInfos         *)
(*   x/epochs/keeper/abci.go         BeginBlocker                            *)
(*   x/epochs/types/hooks.go         MultiEpochHooks (fan-out)               *)
(*   app/app.go                      EpochsKeeper.SetHooks (subscriber order)*)
(*                                                                         *)
(* Store as a value: info = function  identifier -> clock record            *)
(*   [started, cur, cs, csz, csh, start, dur]                               *)
(*     started = EpochCountingStarted          cur = CurrentEpoch           *)
(*     cs      = CurrentEpochStartTime (csz: it is the zero time; cs = 0)   *)
(*     csh     = CurrentEpochStartHeight       start = StartTime            *)
(*     dur     = Duration                                                   *)
(* Times are plain integers (model units, origin = time of block 1); they   *)
(* are not amounts, so Num is not involved.                                 *)
(*                                                                         *)
(* Alphabet (what is generated and logged):                                 *)
(*   Genesis  a.g = [id |-> genesis entry]   entry = [z, start, dur,        *)
(*            started, cur, cs, csz, csh]  (z: StartTime is the zero time)   *)
(*   Block    a = [dt, t, h]  one real block at time t (= previous + dt),    *)
(*            height h; logged: info after BeginBlock, the hook deliveries   *)
(*            recorded by hook H2 (`notes`), the epoch_start/epoch_end       *)
(*            events (`evs`).                                               *)
(***************************************************************************)
EXTENDS Integers, Sequences, FiniteSets, TLC, SequencesExt, Folds

CONSTANTS
  IDORD    \* every identifier that may occur, as a sequence in store-key (byte) order

(* subscriber order, app/app.go: EpochsKeeper.SetHooks(NewMultiEpochHooks(Distr, Operator,    *)
(* Staking(dogfood), Exomint, AVSManager)) - also the order the property statement fixes.     *)
SUBS == <<"distribution", "operator", "dogfood", "mint", "avs">>

RangeOf(s) == {s[i] : i \in DOMAIN s}

(***************************************************************************)
(* genesis                                                                 *)
(***************************************************************************)
\* types/genesis.go: EpochInfo.Validate (the identifier is never empty here)
ValidEntry(e) == e.dur > 0 /\ e.cur >= 0 /\ e.csh >= 0

\* epoch_infos.go: AddEpochInfo at InitChain (block time = gt, block height = h0)
AddEpochInfo(e, gt, h0) ==
  [started |-> e.started, cur |-> e.cur,
   cs |-> IF e.csz THEN 0 ELSE e.cs, csz |-> e.csz,
   csh |-> IF e.csh = 0 THEN h0 ELSE e.csh,
   start |-> IF e.z THEN gt ELSE e.start,
   dur |-> e.dur]

\* genesis.go: InitGenesis - `_ = k.AddEpochInfo(ctx, epoch)`: an invalid entry is dropped silently
\* gt = time of InitChain (the genesis time) in model units; block 1 is at time 0
Genesis(gen, gt) == [id \in {i \in DOMAIN gen : ValidEntry(gen[i])} |-> AddEpochInfo(gen[id], gt, 0)]

\* identifiers of a store in iteration order (KVStorePrefixIterator: byte order of the identifier)
IdSeq(info) == SelectSeq(IDORD, LAMBDA i : i \in DOMAIN info)

(***************************************************************************)
(* abci.go: BeginBlocker, body of the iteration callback for one identifier *)
(***************************************************************************)
TickOne(e, t, h) ==
  IF t < e.start THEN [e |-> e, kind |-> "none"]            \* BlockTime().Before(StartTime): short circuit
  ELSE LET endT   == e.cs + e.dur                           \* epochEndTime
           first  == ~e.started                             \* isFirstTick
           ending == e.csz \/ t > endT                      \* isTickEnding (BlockTime().After(epochEndTime))
       IN IF ~(ending \/ first) THEN [e |-> e, kind |-> "none"]
          ELSE IF first
               THEN [e |-> [e EXCEPT !.csh = h, !.started = TRUE, !.cur = 1, !.cs = e.start, !.csz = FALSE],
                     kind |-> "first"]
               ELSE [e |-> [e EXCEPT !.csh = h, !.cur = e.cur + 1, !.cs = endT, !.csz = FALSE],
                     kind |-> "tick"]

\* hooks.go: one delivery per subscriber, in slice order
Fan(kind, id, n) == [i \in 1..Len(SUBS) |-> [kind |-> kind, id |-> id, n |-> n, i |-> i - 1, sub |-> SUBS[i]]]

\* deliveries caused by one identifier in one block: AfterEpochEnd(old) then BeforeEpochStart(new)
NotesOne(e, id, t, h) ==
  LET r == TickOne(e, t, h) IN
  CASE r.kind = "none"  -> <<>>
    [] r.kind = "first" -> Fan("start", id, 1)
    [] r.kind = "tick"  -> Fan("end", id, e.cur) \o Fan("start", id, e.cur + 1)

\* events: epoch_end(identifier, number); epoch_start(identifier, number, start_time) where the
\* attribute start_time = CurrentEpochStartTime.Unix() - kept here in model units (field cs)
EventsOne(e, id, t, h) ==
  LET r == TickOne(e, t, h) IN
  CASE r.kind = "none"  -> <<>>
    [] r.kind = "first" -> <<[kind |-> "start", id |-> id, n |-> 1, cs |-> r.e.cs]>>
    [] r.kind = "tick"  -> <<[kind |-> "end", id |-> id, n |-> e.cur, cs |-> 0],
                             [kind |-> "start", id |-> id, n |-> e.cur + 1, cs |-> r.e.cs]>>

\* BeginBlocker: every identifier in store order; the callback works on its own copy of the entry
Block(info, t, h) ==
  [info  |-> [id \in DOMAIN info |-> TickOne(info[id], t, h).e],
   notes |-> FoldLeft(LAMBDA acc, id : acc \o NotesOne(info[id], id, t, h), <<>>, IdSeq(info)),
   evs   |-> FoldLeft(LAMBDA acc, id : acc \o EventsOne(info[id], id, t, h), <<>>, IdSeq(info))]

(***************************************************************************)
(* PROPERTY C15 - predicates exactly as the statement says.  They are       *)
(* evaluated on the model (MC_Epochs) and on observed states (Trace_Epochs).*)
(*   g   : the identifier's entry right after genesis (ghost)               *)
(*   pre, post : the identifier's entry before / after a block at time t    *)
(***************************************************************************)

\* "the epoch number becomes 1 in the first block at or after the start time"
FirstEpoch(g, pre, post, t) ==
  pre.started \/ (IF t >= g.start THEN post.started /\ post.cur = 1
                                  ELSE ~post.started /\ post.cur = pre.cur)

\* "afterwards increases by exactly one in exactly those blocks whose time is after the current
\*  epoch's start plus the duration" (hence a stalled chain catches up one epoch per block)
AdvanceByOne(g, pre, post, t) ==
  ~pre.started \/ (/\ post.started
                   /\ post.cur = pre.cur + (IF t > pre.cs + g.dur THEN 1 ELSE 0))

\* was the genesis entry itself on the closed form?  (an entry that is not counting yet always is)
Consistent(g) == ~g.started \/ (~g.csz /\ g.cs = g.start + (g.cur - 1) * g.dur)

\* "the n-th epoch's start time is start + (n-1) x duration": step form (always) and closed form
\* (whenever the genesis entry was on it)
StartTimeStep(g, pre, post) ==
  IF ~post.started THEN TRUE
  ELSE /\ ~post.csz
       /\ IF ~pre.started THEN post.cs = g.start
          ELSE IF post.cur = pre.cur THEN post.cs = pre.cs /\ post.csz = pre.csz
          ELSE post.cs = pre.cs + g.dur
StartTimeClosed(g, post) ==
  (post.started /\ Consistent(g)) => (~post.csz /\ post.cs = g.start + (post.cur - 1) * g.dur)

\* what every subscriber must have been told about one identifier, in order, since genesis:
\*   counting from genesis entry g up to number c
Alt(a, c) == [k \in 1..(2 * (c - a)) |-> IF k % 2 = 1 THEN <<"end", a + (k - 1) \div 2>> ELSE <<"start", a + k \div 2>>]
ExpDelivered(g, post) ==
  IF ~post.started THEN <<>>
  ELSE IF g.started THEN (IF post.cur >= g.cur THEN Alt(g.cur, post.cur) ELSE <<>>)
  ELSE <<<<"start", 1>>>> \o (IF post.cur >= 1 THEN Alt(1, post.cur) ELSE <<>>)

NoDup(s) == \A i, j \in DOMAIN s : s[i] = s[j] => i = j

\* "delivered exactly once per identifier and number": d = everything delivered to one subscriber
\* for one identifier since genesis, as a sequence of <<kind, n>>
NotifyOnce(g, post, d) == NoDup(d) /\ RangeOf(d) = RangeOf(ExpDelivered(g, post))
\* "in increasing order with end(n) before start(n+1)"
NotifyOrder(g, post, d) == (NoDup(d) /\ RangeOf(d) = RangeOf(ExpDelivered(g, post))) => d = ExpDelivered(g, post)

\* "to subscribers in the fixed order distribution, operator, dogfood, mint, AVS": within one block,
\* every notification (kind, id, n) goes to exactly these subscribers in this order
Keys(notes) == {<<notes[i].kind, notes[i].id, notes[i].n>> : i \in DOMAIN notes}
SubsOf(notes, k) == LET s == SelectSeq(notes, LAMBDA x : <<x.kind, x.id, x.n>> = k) IN [i \in DOMAIN s |-> s[i].sub]
SubscriberOrder(notes) == \A k \in Keys(notes) : SubsOf(notes, k) = SUBS
\* "end(n) before start(n+1)", across subscribers: within one block, for one identifier, every
\* delivery of end(n) precedes every delivery of start(n+1)
EndBeforeStart(notes) ==
  \A i, j \in DOMAIN notes :
     (notes[i].id = notes[j].id /\ notes[i].kind = "end" /\ notes[j].kind = "start" /\ notes[j].n = notes[i].n + 1) => i < j

\* deliveries of one block for one identifier / one subscriber as <<kind, n>>
DeliveredTo(notes, id, sub) ==
  LET s == SelectSeq(notes, LAMBDA x : x.id = id /\ x.sub = sub) IN [i \in DOMAIN s |-> <<s[i].kind, s[i].n>>]
NotesOf(notes, id) == SelectSeq(notes, LAMBDA x : x.id = id)

\* ghost: D[id][sub] = sequence of <<kind, n>> delivered since genesis
D0(info) == [id \in DOMAIN info |-> [s \in RangeOf(SUBS) |-> <<>>]]
DStep(D, notes) == [id \in DOMAIN D |-> [s \in RangeOf(SUBS) |-> D[id][s] \o DeliveredTo(notes, id, s)]]
\* deliveries that belong to no registered identifier or to no known subscriber
Stray(D, notes) == {i \in DOMAIN notes : notes[i].id \notin DOMAIN D \/ notes[i].sub \notin RangeOf(SUBS)}
=============================================================================
