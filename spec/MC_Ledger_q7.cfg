SPECIFICATION Spec
CONSTANTS
  SORD <- c_SORD
  OORD <- c_OORD
  AORD <- c_AORD
  KIND <- c_KIND
  DECI <- c_DECI
  PRICE <- c_PRICE
  PDEC <- c_PDEC
  REGISTERED = {"lst"}
  PREC = 100
  UNBOND = 1
  HOLDOPS = {"o1"}
  HOOKED = TRUE
  AMOUNTS = {1,2,3}
  NONCES = {1,2}
  FRESH = TRUE
  WANTED = {}
  PREFUND = 0
  PREDEL = 0
  EVENTS = {"Deposit","Withdraw","Delegate","Undelegate","Associate","Dissociate","Slash","NstUpdate","ReleaseHold","EndBlock"}
  FAILBUDGET = 99
  TXHS = {"t1"}
  MAXH = 3
  MAXOPS = 7
  FACTORS = {50}
  POWERS = {1}
  SLASHIDS = {"i1"}
  NSTDELTAS = {}
  GENBAL = 0
VIEW View
INVARIANTS InvConservation InvPublished InvEscrow InvNonNeg InvShareSum InvSelfShare InvListExact InvEmptyPool InvPendingSums InvIndex
CHECK_DEADLOCK FALSE
