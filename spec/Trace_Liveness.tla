--------------------------- MODULE Trace_Liveness ---------------------------
(***************************************************************************)
(* C11 trace validation: trace.ndjson written by `harness liveness` holds   *)
(* one line per ABCI phase executed on the real application (BeginBlock,    *)
(* EndBlock, Commit) with a `panic` flag, the driven inputs in between, and *)
(* an `end` line per behaviour saying whether the blocks after the script   *)
(* were still processed.  baseapp recovers panics only inside DeliverTx, so *)
(* a panic in a block phase stops a real node: C11_Halt.                    *)
(***************************************************************************)
EXTENDS Naturals, Sequences, TLC, Json

Trace == ndJsonDeserialize("trace.ndjson")
VARIABLES l, open
vars == <<l, open>>

BlockPhases == {"BeginBlock", "EndBlock", "Commit"}

Init == l = 1 /\ open = FALSE

Next ==
  /\ l <= Len(Trace)
  /\ l' = l + 1
  /\ LET line == Trace[l]
         tags == (IF line.ev \in BlockPhases /\ line.panic THEN {"C11_Halt"} ELSE {}) \cup
                 \* (an `end` line with halted = TRUE always follows a C11_Halt line of the same behaviour)
                 (IF line.ev = "reset" /\ "setupPanic" \in DOMAIN line THEN {"C11_Halt"} ELSE {})
     IN /\ open' = (line.ev # "end")
        /\ tags = {} \/ PrintT("TAG " \o ToJson([l |-> l, ev |-> line.ev, tags |-> tags]))

Spec == Init /\ [][Next]_vars
=============================================================================
