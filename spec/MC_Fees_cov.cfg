SPECIFICATION CoverSpec
CONSTANTS
  OPS <- c_OPS
  SELF <- c_SELF
  ASSETS <- c_ASSETS
  IDORD <- c_IDORD
  PWS <- c_PWS
  RATESETS <- c_RATES
  IDPAIRS <- c_IDPAIRS
  STAKERS = {"s1"}
  PREC = 100
  DEVIATIONS = {}
  EXTRAS = {0}
  TAXES = {0, 2, 100}
  REWARDS = {5}
  FEES = {1, 7, 100}
  PATHS = {"bank"}
  BURNS = {}
  DELAMTS = {1}
  MAXDEL = 0
  MAXUPD = 1
  MAXJAIL = 0
  MAXEPOCHS = 2
  MAXOPS = 7
  GENSUPPLY = 1000
INVARIANTS InvSupplyDelta InvAllMoved InvBooked InvSolvent InvProportional InvCommission InvStakerPart InvNonNegative InvNoPanic EmitAtDepth
CHECK_DEADLOCK FALSE
