---------------------------- MODULE MC_NstFeed_q ----------------------------
(* small scale: 8-bit index bitmap, maxEffectiveBalance 2, BalanceList cap 3 *)
EXTENDS MC_NstFeed
c_SORD == <<"s1", "s2">>
c_OORD == <<"o1">>
c_AORD == <<"nst">>
c_KIND == [nst |-> "nst"]
c_DECI == [nst |-> 0]
c_PRICE == [nst |-> 1]
c_PDEC == [nst |-> 0]
c_NOPRE == <<>>
\* entries: 0x18 = (L=1,-,0) = -1 ; 0x10 = +1 ; 0x18 0x60 = -1,-1 ; 0x00 = L=0
c_PAYLOADS == { Mk({}, <<>>), Mk({0}, <<24>>), Mk({1}, <<16>>), Mk({0, 1}, <<24, 96>>),
                Mk({0}, <<>>), Mk({2}, <<24>>), Mk({0}, <<0>>) }
=============================================================================
