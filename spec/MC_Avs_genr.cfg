SPECIFICATION Spec
CONSTANTS
  AORD <- c_AORD
  TORD <- c_TORD
  OORD <- c_OORD
  REGOPS = {"o1", "o2", "o3"}
  VAL <- c_VAL
  VALT <- c_VALT
  PREC = 1
  U64 = 1073741824
  EPOCH0 <- c_EPOCH0
  TICKID = "minute"
  DEVS <- c_DEVS_GEN
  PREFIXES <- c_PREFIX_GR
  EVENTS = {"RegisterAVS", "UpdateAVS", "DeregisterAVS", "OptIn", "OptOut", "RegisterBLS", "CreateTask", "Submit", "Challenge", "Tick"}
  A_AVS = {"a1", "a2"}
  A_T = {"t1", "t2", ""}
  MINSELFS = {0, 60}
  EIDS = {"minute", "hour", "nope"}
  U_EIDS = {"", "hour", "nope"}
  UNBONDS = {1, 3}
  CALLERS = {"w1", "w2"}
  NAMES = {"n1", "bad"}
  A_OPS = {"o1", "o2", "o3", "u1"}
  BLSCLS = {"good", "badsig", "junksig", "badpk"}
  P_RESP = {0, 1}
  P_STAT = {0, 1}
  P_CHAL = {0, 1}
  STAGES = {"1", "2"}
  SIGS = {"g1", "g3", "x1", "empty", "nil"}
  RESPS = {"nil", "r1", "r2", "rw"}
  IDS = {1, 2}
  HASHC = {"good", "bad"}
  FOREIGN = FALSE
  MAXTASKS = 3
  MAXEPOCH = 8
  MAXOPS = 36
  FAILBUDGET = 14
  ONCEPERERR = TRUE
  TICKW = 6
  COVER = FALSE
INVARIANTS EmitAtDepth
CHECK_DEADLOCK FALSE
