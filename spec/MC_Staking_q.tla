---------------------------- MODULE MC_Staking_q ----------------------------
EXTENDS MC_Staking
\* world "w3": three operators, two of them genesis validators (key ids follow the real key order)
c_OORD == <<"o1", "o2", "o3">>
c_KORD == <<"k1", "k2", "k3", "k4">>
c_KORD5 == <<"k1", "k2", "k3", "k4", "k5">>
c_GENVALS == [o1 |-> [k |-> "k4", p |-> 2], o2 |-> [k |-> "k2", p |-> 1]]
\* world "w3sub": the same operators, asset with 1 decimal: amounts 5 / 15 / 25 give sub-unit and
\* truncated powers (power = floor(amount / 10))
c_GENVALS_sub == [o1 |-> [k |-> "k4", p |-> 20], o2 |-> [k |-> "k2", p |-> 10]]
c_DEVS_none == {}
\* the current tree: the key-registry hooks repaired (b16d110: always schedule), the precompiles built
\* after SetHooks (103357a); what is left is the latent write outside the cache context (L17)
\* design of the current tree without listed deviations (exhaustive check of the properties)
c_DEVS_design == {"ALWAYS", "L17"}
\* (if 103357a is NOT applied: c_DEVS_design \cup {"PCHOOK"}, see NOTES)
c_DEVS_code == c_DEVS_design
\* regression guard: the deviations the properties must be able to see (pre-fix tree)
c_DEVS_guard == {"L3", "LEAK", "ACT", "L17", "WINDOW", "PCHOOK"}
=============================================================================
