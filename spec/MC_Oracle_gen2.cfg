SPECIFICATION Spec
CONSTANTS
  VALS = {"v1", "v2", "v3"}
  FORD <- c_FORD
  TOKENS = {"t1", "t2"}
  FIX = {}
  CFGS <- g_CFGS
  PSS <- g_PSSb
  PSS2 <- g_PSS2
  TWOMSG = TRUE
  BADBASE = FALSE
  BADNONCE = FALSE
  MAXH = 8
  MAXTX = 2
  MAXOPS = 26
  MAXRESTART = 2
  SECONDBAD = TRUE
  FAILBUDGET = 3
INVARIANTS EmitAtDepth
CHECK_DEADLOCK FALSE
