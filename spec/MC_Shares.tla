----------------------------- MODULE MC_Shares -----------------------------
(***************************************************************************)
(* C02, pure-function half: the share <-> token conversions of              *)
(* x/delegation/keeper/share.go (as transcribed in Ledger.tla) over their   *)
(* WHOLE input domain at reduced precision: every pool (S = total shares as *)
(* a scaled Dec, T = total amount) with 1 <= T <= TMAX and T*PREC <= S <=   *)
(* SMAX (every exchange rate reachable after slashing: pool amount between  *)
(* 1 unit and the share total), every x in 1..XMAX.  Evaluated by TLC as    *)
(* bounded quantifications.                                                 *)
(***************************************************************************)
EXTENDS Ledger

CONSTANTS TMAX, XMAX, SMAX

c_SORD == <<"s1">>
c_OORD == <<"o1">>
c_AORD == <<"lst">>
c_KIND == [lst |-> "lst"]
c_DECI == [lst |-> 0]
c_PRICE == [lst |-> 1]
c_PDEC == [lst |-> 0]

VARIABLE dummy
Init == dummy = 0
Next == UNCHANGED dummy
Spec == Init /\ [][Next]_dummy

\* reachable exchange rates: the pool amount never exceeds the share total (slashing only lowers it)
Pools == {<<S, T>> \in (1..SMAX) \X (1..TMAX) : T * PREC <= S}

\* delegate x into pool (S,T): shares received, then the value of exactly those shares
DelegateRoundTrip ==
  \A p \in Pools, x \in 1..XMAX :
    LET S == p[1] T == p[2]
        sh == SharesFromTokens(S, x, T).v
        back == TokensFromShares(sh, S + sh, T + x).v
    IN back <= x /\ (sh > 0 => back >= x - 1)

\* nobody else's redeemable value moves by more than one unit when x is delegated
DelegateFair ==
  \A p \in Pools, x \in 1..XMAX :
    LET S == p[1] T == p[2]
        sh == SharesFromTokens(S, x, T).v
    IN \A o \in {1, S \div 3, S \div 2, S - 1, S} :
         (o >= 1 /\ o <= S) =>
           LET before == TokensFromShares(o, S, T).v
               after  == TokensFromShares(o, S + sh, T + x).v
           IN after - before <= 1 /\ before - after <= 1

\* undelegating x (x within the holder's value): shares removed are worth x or x-1, and the
\* remaining holders' values move by at most one unit
UndelegateExact ==
  \A p \in Pools, x \in 1..XMAX :
    LET S == p[1] T == p[2] IN
    x <= T =>
      LET sh == SharesFromTokens(S, x, T).v
          tok == IF sh = S THEN T ELSE TokensFromShares(sh, S, T).v
      IN /\ sh <= S
         /\ tok <= x /\ (sh > 0 => tok >= x - 1)
         /\ \A o \in {1, (S - sh) \div 2, S - sh} :
              (o >= 1 /\ o <= S - sh /\ sh < S) =>
                LET before == TokensFromShares(o, S, T).v
                    after  == TokensFromShares(o, S - sh, T - tok).v
                IN after - before <= 1 /\ before - after <= 1

\* any amount x within the EXACT value of a position (x <= o*T/S as rationals) needs no more shares
\* than the position holds, so the request is accepted.  (The rounded query value
\* TokensFromShares(o,S,T) may exceed the exact value by < 1 because LegacyDec.Quo rounds half-even
\* before truncation - lead L16 - so "x <= displayed value" would be the wrong precondition.)
AcceptWithinPosition ==
  \A p \in Pools :
    LET S == p[1] T == p[2] IN
    \A o \in 1..S : \A x \in 1..XMAX :
      x * S <= o * T => SharesFromTokens(S, x, T).v <= o

Monotone ==
  \A p \in Pools, x \in 1..(XMAX - 1) :
    SharesFromTokens(p[1], x, p[2]).v <= SharesFromTokens(p[1], x + 1, p[2]).v
=============================================================================
