--------------------------- MODULE MC_OracleAdm_q ---------------------------
EXTENDS MC_OracleAdm
c_POWER == [v1 |-> 2, v2 |-> 1, v3 |-> 1]
c_FEED  == (1 :> [start |-> 1, interval |-> 4, endb |-> 0])
c_FEED2 == (1 :> [start |-> 1, interval |-> 2, endb |-> 0])
c_FEEDg == (1 :> [start |-> 1, interval |-> 4, endb |-> 0]) @@ (2 :> [start |-> 2, interval |-> 5, endb |-> 9])
=============================================================================
