SPECIFICATION Spec
CONSTANTS
  DEVS <- c_DEVS_CODE
  PREFIXES <- c_PREFIX_0
  EVENTS <- EV_MISC
  MAXOPS = 3
  MAXEP = 7
  FAILBUDGET = 99
  COVER = TRUE
VIEW View
CHECK_DEADLOCK FALSE
ACTION_CONSTRAINTS CoverEdge
