SPECIFICATION Spec
CONSTANTS
  SORD <- c_SORD
  OORD <- c_OORD
  AORD <- c_AORD
  KIND <- c_KIND
  DECI <- c_DECI
  PRICE <- c_PRICE
  PDEC <- c_PDEC
  NSTDELTAS <- c_NSTDELTAS
  REGISTERED = {"lst","nst"}
  PREC = 100
  UNBOND = 1
  HOLDOPS = {"o1"}
  HOOKED = TRUE
  AMOUNTS = {1}
  NONCES = {1,2}
  TXHS = {"t1"}
  MAXH = 4
  MAXOPS = 4
  FACTORS = {50,100}
  POWERS = {1,100}
  SLASHIDS = {"i1"}
  GENBAL = 3
  FRESH = TRUE
  PREFUND = 4
  PREDEL = 0
  EVENTS = {"Delegate","Associate","Dissociate"}
  FAILBUDGET = 99
  WANTED <- c_WANTED
VIEW ViewG
INVARIANTS EmitGoals
CHECK_DEADLOCK FALSE
