SPECIFICATION Spec
CONSTANTS
  OORD <- c_OORD
  KORD <- c_KORD
  GENVALS <- c_GENVALS
  DEVS <- c_DEVS_code
  UNBOND = 10
  DECI = 0
  PREC = 1
  AMOUNTS = {1}
  MAXVS = {2}
  NS = {1, 2}
  INITMAXV = 2
  INITN = 1
  ADVS = {0, 1}
  MAXH = 6
  MAXOPS = 5
  MAXREC = 1
  NOOPBUDGET = 1
  VSTAKERS = {"v"}
  PATHS = {"keeper", "pc"}
  COVER = TRUE
  NONEMPTY = FALSE
  BLOCKW = 1
VIEW View
ACTION_CONSTRAINTS CoverEdge
CHECK_DEADLOCK FALSE
