SPECIFICATION Spec
CONSTANTS
  SORD <- c_SORD
  OORD <- c_OORD
  AORD <- c_AORD
  KIND <- c_KIND
  DECI <- c_DECI
  PRICE <- c_PRICE
  PDEC <- c_PDEC
  PAYLOADS <- c_PAYLOADS_abci
  STRS <- c_STRS
  PRE <- c_NOPRE
  REGISTERED = {"nst"}
  PREC = 100
  UNBOND = 1
  HOLDOPS = {"o1"}
  HOOKED = TRUE
  NSTA = "nst"
  MAXEFB = 32
  BMBYTES = 32
  BLCAP = 100
  DEVS = {"FEEDSTOPS", "PRICEOVERFLOW"}
  MODE = "abci"
  STK = {"s1", "s2", "s3"}
  PKS = {"k1", "k2"}
  AMOUNTS = {1, 31, 32, 33}
  DAMOUNTS = {20}
  RIDS = {1, 2}
  NONCES = {1, 2}
  TXHS = {"t1"}
  EVENTS = {"Deposit", "Withdraw", "Delegate", "Price", "Carry"}
  MAXOPS = 7
  FAILBUDGET = 3
  MAXH = 4
INVARIANTS EmitAtDepth
CHECK_DEADLOCK FALSE
