---------------------------- MODULE MC_Oracle_q ----------------------------
EXTENDS MC_Oracle
c_FORD == <<"f1", "f2", "f3">>
F(tok, start, iv, sr, end) == [tok |-> tok, start |-> start, iv |-> iv, sr |-> sr, end |-> end]
OFF == F("t2", 1000000, 10, 1, 0)
OFF2 == F("t2", 1000000, 10, 1, 0)
Cfg(pw, mn, md, ms, fd) == [pw |-> pw, mn |-> mn, md |-> md, ms |-> ms, fd |-> fd, gen |-> [t1 |-> 7, t2 |-> 0], ep |-> 0, rs |-> {0}]
WithRs(c, rs) == [c EXCEPT !.rs = rs]
g_RS == {{}, {1}, {2}, {3}, {4}, {5}, {6}, {2, 3}, {2, 4}, {3, 5}, {3, 6}, {4, 7}, {5, 6}, {6, 7}}
WithEp(c, ep) == [c EXCEPT !.ep = ep]
P(a, b, c) == [v1 |-> a, v2 |-> b, v3 |-> c]
P5 == [v1 |-> 1, v2 |-> 1, v3 |-> 1, v4 |-> 1, v5 |-> 1]
\* quick: one feeder per configuration; (maxNonce, interval) shapes (2,4) and (1,2); two power vectors
\* total powers 5 (= 2 mod 3) and 4 (= 1 mod 3); total = 0 mod 3 is in the thorough set
c_CFGS == { Cfg(P(1,2,2), 2, 2, 2, [f1 |-> F("t1", 1, 4, 2, 0), f2 |-> OFF, f3 |-> ABSENT]),
            \* feeder id # token id: the switched-off feeder is f1 (token t2), the running one is f2 and feeds token t1
            Cfg(P(1,1,2), 1, 2, 2, [f1 |-> OFF2, f2 |-> F("t1", 1, 2, 2, 0), f3 |-> ABSENT]) }
\* thorough: three shapes incl. maxDetId = 1 and the (2,2,5) power split
t_CFGS == c_CFGS \cup { Cfg(P(2,2,5), 2, 1, 2, [f1 |-> F("t1", 1, 5, 2, 0), f2 |-> OFF, f3 |-> ABSENT]),
                        Cfg(P(1,2,3), 2, 2, 2, [f1 |-> F("t1", 1, 4, 2, 0), f2 |-> OFF, f3 |-> ABSENT]),
                        \* 3-block dogfood epoch: validator-set change (force seal) at EndBlock 4, inside the window of the round based at 3
                        WithEp(Cfg(P(1,1,2), 2, 2, 2, [f1 |-> F("t1", 3, 4, 2, 0), f2 |-> OFF, f3 |-> ABSENT]), 3) }
\* feeder id # token id, exhaustively (MC_Oracle_t2.cfg): stop-and-resume at genesis - feeder 1 of t1 ends at block 3
\* (round 2), feeder 2 resumes t1 at base 4 with round 3 - and two tokens fed in the other order with different counters
t2_CFGS == { Cfg(P(1,1,2), 2, 2, 3, [f1 |-> F("t1", 1, 4, 2, 3), f2 |-> F("t1", 4, 4, 3, 0), f3 |-> ABSENT]),
             Cfg(P(1,1,2), 2, 2, 3, [f1 |-> F("t2", 2, 5, 1, 0), f2 |-> F("t1", 1, 4, 2, 0), f3 |-> ABSENT]) }
\* the same through governance (MC_Oracle_t3.cfg): Upd f1 end 3, then Add t1 (start 4): feeder 3 -> t1
t3_CFGS == { Cfg(P(1,1,2), 2, 2, 3, [f1 |-> F("t1", 1, 4, 2, 0), f2 |-> OFF, f3 |-> ABSENT]) }
\* params update + restart while a message is cached (agc.params nil in recache)
d_CFGS == { Cfg(P(1,1,2), 2, 2, 2, [f1 |-> F("t1", 3, 4, 2, 0), f2 |-> OFF, f3 |-> ABSENT]) }
E(d, p) == [d |-> d, p |-> p]
t_PSS1 == { <<E("1", 10)>>, <<E("1", 20)>> }
c_PSS == { <<E("1", 10)>>, <<E("1", 20)>>, <<E("1", 10), E("2", 20)>> }
t_PSS == c_PSS \cup { <<E("2", 20)>> }
c_PSS2 == { <<E("1", 10)>> }
\* generation: two feeders, all four power vectors
g_CFGS0 == { Cfg(pw, 2, 2, 3, [f1 |-> F("t1", 1, 4, 2, 0), f2 |-> F("t2", 2, 5, 1, 0), f3 |-> ABSENT]) : pw \in {P(1,1,1), P(1,1,2), P(1,2,2), P(1,1,3), P(1,2,3), P(2,3,3), P(2,2,5), P5} } \cup
          { Cfg(pw, 1, 2, 3, [f1 |-> F("t1", 2, 2, 2, 0), f2 |-> F("t2", 1, 3, 1, 0), f3 |-> ABSENT]) : pw \in {P(1,1,1), P(1,2,3)} } \cup
          { Cfg(pw, 2, 1, 2, [f1 |-> F("t1", 1, 5, 2, 0), f2 |-> F("t2", 2, 4, 1, 4), f3 |-> ABSENT]) : pw \in {P(1,1,2), P(2,2,5)} } \cup
          \* MaxNonce above the package default 3 (replay window, lead L26)
          { Cfg(pw, 4, 2, 3, [f1 |-> F("t1", 1, 8, 2, 0), f2 |-> F("t2", 4, 8, 1, 0), f3 |-> ABSENT]) : pw \in {P(1,1,1), P(2,2,5)} }
\* feeder id # token id (the ids are independent: a token's feeder is replaced by a new one after an end block, tokens
\* get their feeders in any order); different round counters per token; MaxNonce 2 and 3
g_CFGSX == { Cfg(pw, 3, 2, 3, [f1 |-> F("t1", 1, 6, 2, 4), f2 |-> F("t1", 5, 6, 3, 0), f3 |-> ABSENT]) : pw \in {P(1,1,2), P(1,2,2)} } \cup
           { Cfg(pw, 3, 2, 3, [f1 |-> F("t2", 1, 6, 1, 0), f2 |-> F("t1", 2, 7, 2, 0), f3 |-> ABSENT]) : pw \in {P(1,1,2), P(2,2,5)} } \cup
           { Cfg(pw, 2, 2, 3, [f1 |-> F("t2", 2, 5, 1, 0), f2 |-> F("t1", 1, 4, 2, 0), f3 |-> ABSENT]) : pw \in {P(1,1,2), P(1,2,3)} } \cup
           { Cfg(pw, 2, 2, 3, [f1 |-> F("t1", 1, 4, 2, 3), f2 |-> F("t1", 4, 4, 3, 0), f3 |-> ABSENT]) : pw \in {P(1,1,2), P(1,1,1)} }
\* partial validator-set change some blocks after a restart: 2-block dogfood epoch (ends at 3, 5, 7), nobody feeds the
\* staking asset's token t1 (so only delegations change powers, one validator at a time), feeder 1 -> t2 opens at 5
g_CFGSV == { Cfg(pw, 2, 2, 3, [f1 |-> F("t2", 5, 4, 1, 0), f2 |-> F("t1", 1000000, 10, 2, 0), f3 |-> ABSENT]) : pw \in {P(1,1,1), P(1,3,3), P(1,1,2)} }
g_CFGS == {WithEp(WithRs(c, rs), ep) : c \in g_CFGS0 \cup g_CFGSX, rs \in g_RS, ep \in {0, 3}} \cup
          {WithEp(WithRs(c, rs), 2) : c \in g_CFGSV, rs \in {{2}, {3}, {4}, {3, 8}, {4, 8}}}
\* feeders a params update may add: resume t1 (after feeder 1 was stopped), a second token's first feeder
g_ADDS == { [tok |-> "t1", start |-> 5, iv |-> 4], [tok |-> "t1", start |-> 6, iv |-> 6], [tok |-> "t2", start |-> 4, iv |-> 6] }
t_ADDS == { [tok |-> "t1", start |-> 4, iv |-> 4] }
g_PSS == { <<E("1", 10)>>, <<E("1", 20)>>, <<E("2", 20)>>, <<E("1", 10), E("2", 20)>>, <<E("2", 20), E("1", 20)>> }
g_PSSb == { <<E("1", 10)>>, <<E("1", 10), E("2", 20)>>, <<E("2", 20)>> }
g_PSS2 == { <<E("1", 10)>>, <<E("2", 20)>> }
=============================================================================
