SPECIFICATION Spec
CONSTANTS
  KEYBYSENT = FALSE
  OORD <- c_OORD
  SORD <- c_SORD
  AORD <- c_AORD
  AVSORD <- c_AVSORD
  EIDS <- c_EIDS
  DUR <- c_DUR
  KIND <- c_KIND
  DECI <- c_DECI
  GENPRICE <- c_GENPRICE
  PRELUDE <- c_PRELUDE
  AVSINFO <- c_AVSINFO
  REGISTERED = {"a1", "a2"}
  PREC = 100
  UNBOND = 1
  HOLDOPS = {}
  AMOUNTS = {2}
  PRICES = {3}
  PDECS = {1}
  XFORMS = {"canon", "alt"}
  FACTORS = {50}
  POWERS = {1}
  SLASHIDS = {"i1"}
  UPDAVS = {}
  UPDLISTS <- c_UPDLISTS
  UPDMINS = {1}
  PREDEP = 3
  MAXOPS = 4
  FAILBUDGET = 99
  MAXEPOCH = 4
  EPOCHEVERY = 99
VIEW View
INVARIANTS InvC05 InvNonNeg InvNotOptedIn InvHookNeverFails
CHECK_DEADLOCK FALSE
