------------------------- MODULE MC_VotingPower_q -------------------------
EXTENDS MC_VotingPower
c_OORD == <<"o1", "o2">>
c_SORD == <<"s1", "s2">>
c_AORD == <<"a1", "a2">>
c_AVSORD == <<"dog", "avsB">>
c_EIDS == <<"day", "hour">>
c_DUR  == [day |-> 5, hour |-> 2]
c_KIND == [a1 |-> "lst", a2 |-> "lst"]
c_DECI == [a1 |-> 0, a2 |-> 1]
c_GENPRICE == [a1 |-> [valid |-> TRUE, v |-> 2, dec |-> 0], a2 |-> [valid |-> FALSE, v |-> 0, dec |-> 0]]
c_AVSINFO == [dog  |-> [ex |-> TRUE, assets |-> {"a1", "a2"}, minSelf |-> 1, epoch |-> "hour", start |-> 0, chain |-> TRUE],
              avsB |-> [ex |-> TRUE, assets |-> {"a2"}, minSelf |-> 0, epoch |-> "day", start |-> 3, chain |-> FALSE]]
c_UPDLISTS == {{"a1", "a2"}}
c_PRELUDE == <<[ev |-> "Associate", a |-> [s |-> "s1", o |-> "o1"]],
               [ev |-> "Delegate", a |-> [s |-> "s1", a |-> "a1", o |-> "o1", x |-> 2]],
               [ev |-> "Delegate", a |-> [s |-> "s2", a |-> "a1", o |-> "o1", x |-> 1]],
               [ev |-> "Delegate", a |-> [s |-> "s1", a |-> "a2", o |-> "o2", x |-> 2]],
               [ev |-> "OptIn", a |-> [o |-> "o1", avs |-> "dog", form |-> "canon"]]>>
=============================================================================
