----------------------------- MODULE MC_Staking -----------------------------
(* Bounded exhaustive / simulation model of the staking family (C06 C07 C16). *)
EXTENDS Staking, Json

CONSTANTS AMOUNTS,     \* delegation / undelegation amounts
          MAXVS, NS,   \* values of MaxValidators / EpochsUntilUnbonded reachable by UpdateParams
          INITMAXV, INITN,
          ADVS,        \* block-time advances, in epochs (0 = same epoch, 2 = downtime spanning epochs)
          MAXH,        \* last block height (kept below the first undelegation completion height)
          MAXOPS,      \* events per behaviour
          MAXREC,      \* undelegation requests per behaviour
          NOOPBUDGET,  \* events allowed per behaviour that fail or change nothing (>= MAXOPS: unlimited)
          VSTAKERS,    \* stakers that may undelegate ("s1", "v")
          PATHS,       \* entry paths of an undelegation: "keeper" (keeper / cosmos message), "pc" (delegation precompile)
          COVER,       \* TRUE: compute the class of every transition (class cover, see CoverEdge)
          NONEMPTY,    \* TRUE: generation never empties the validator set (the engine halts there)
          BLOCKW       \* weight of block boundaries among the successors (simulation bias; 1 for exhaustive runs)

VARIABLES st, G, hist, viol, nnoop, fresh, cls
\* viol: property tags raised by the last step; fresh: those of them the step before did not raise;
\* cls: class of the last transition (class cover only)
vars == <<st, G, hist, viol, nnoop, fresh, cls>>

Store0 == [InitStore EXCEPT !.N = INITN, !.maxV = INITMAXV]

Init ==
  /\ st = Store0
  /\ G = InitGhost(Store0)
  /\ hist = <<>>
  /\ viol = {}
  /\ nnoop = 0
  /\ fresh = {}
  /\ cls = <<>>
  /\ TLCSet(7, {})

\* one model step = one event, ghosts and property tags evaluated exactly as in trace validation
Same(a, b) == [a EXCEPT !.nrec = 0, !.rsp = <<>>] = [b EXCEPT !.nrec = 0, !.rsp = <<>>]

StepOf(s, g, ev, a) ==
  LET r  == Apply(s, ev, a)
      ok == r.err = ""
      \* a message that failed or changed nothing: the ghosts cannot move (GhostStep is a function of
      \* the difference of the two stores) and the state predicates were evaluated when (s, g) was reached
      unchanged == ev \notin {"EndBlock", "BeginBlock"} /\ Same(s, r.st)
      g2 == IF unchanged THEN [g EXCEPT !.lost = {}] ELSE GhostStep(g, s, r.st, ev, a, ok)
  IN [st |-> r.st, G |-> g2, ok |-> ok,
      tags |-> IF unchanged THEN StepTags(s, r.st, ev, a, ok, g, g2) ELSE Tags(s, r.st, ev, a, ok, g, g2)]

(***************************************************************************)
(* Class of a transition (behaviour generation by class cover): the event,  *)
(* its result, and the situation it meets - lifecycle state of the operator,*)
(* relation of the key to the operator, where the unbonding parameter       *)
(* stands relative to what was in force when the pending items were         *)
(* registered, what a block boundary closes and releases.  A breadth-first  *)
(* run with ACTION_CONSTRAINT CoverEdge prints one shortest behaviour per   *)
(* class (one worker: the register is per thread).                          *)
(***************************************************************************)
OpSt(s, o) ==
  IF s.removing[o] THEN (IF o \in Elems(s.pOpt) THEN "completing" ELSE IF o \in DOMAIN s.finish THEN "removing" ELSE "stuck")
  ELSE IF ~s.opted[o] THEN "out"
  ELSE IF s.jailed[o] THEN "jailed"
  ELSE IF InVals(s, s.fwd1[o]) THEN "active"
  ELSE IF InVals(s, s.prev[o]) THEN "prevactive"
  ELSE "in"
KeyRel(s, o, k) ==
  IF s.fwd1[o] = k THEN "current"
  ELSE IF s.rev[k] = o THEN "ownretired"
  ELSE IF s.rev[k] # NoOp THEN (IF s.fwd1[s.rev[k]] = k THEN "othercurrent" ELSE "otherretired")
  ELSE "free"
Cmp(a, b) == IF a < b THEN "lt" ELSE IF a > b THEN "gt" ELSE "eq"
\* default completion epoch now, against the epochs under which pending items were registered
NRel(s, g) == {Cmp(s.epoch + s.N, g.due[x]) : x \in DOMAIN g.due}
EdgeClass(s, g, ev, a, x) ==
  LET err == IF x.ok THEN (IF Same(s, x.st) THEN "noop" ELSE "ok") ELSE "fail" IN
  CASE ev \in {"OptIn", "SetKey"} -> <<ev, err, OpSt(s, a.o), KeyRel(s, a.o, a.k), s.prev[a.o] # NoKey, InVals(s, a.k)>>
    [] ev = "OptOut"       -> <<ev, err, OpSt(s, a.o), s.prev[a.o] # NoKey, NRel(s, g)>>
    [] ev = "Undelegate"   -> <<ev, err, OpSt(s, a.o), a.path,
                                IF <<"O", a.o>> \in DOMAIN g.due THEN Cmp(s.epoch + s.N, g.due[<<"O", a.o>>]) ELSE "na",
                                HoldOf(x.st, a.id) > 0>>
    [] ev = "Delegate"     -> <<ev, err, OpSt(s, a.o)>>
    [] ev \in {"Jail", "Unjail"} -> <<ev, err, IF s.rev[a.k] = NoOp THEN "none" ELSE OpSt(s, s.rev[a.k]),
                                      IF s.rev[a.k] = NoOp THEN "free" ELSE KeyRel(s, s.rev[a.k], a.k)>>
    [] ev = "UpdateParams" -> <<ev, err, Cmp(a.n, s.N), Cmp(a.maxVals, s.maxV), {y[1] : y \in DOMAIN g.due}>>
    [] OTHER -> <<ev, err>>
\* a block boundary: what the EndBlock released / handed to the engine, what the BeginBlock closed
BlockClass(s, g, x, y) ==
  <<"Block", g.closed # 0, {z[1] : z \in {z \in DOMAIN g.due : Released(z, s, x.st)}},
    {IF NIsZero(x.st.rsp[i].p) THEN "remove" ELSE IF x.st.rsp[i].k \in DOMAIN s.vals THEN "change" ELSE "add" : i \in DOMAIN x.st.rsp},
    Cardinality(DOMAIN x.st.vals) = s.maxV,
    y.st.epoch # x.st.epoch, y.st.lag > 0,
    {z[1] : z \in {z \in DOMAIN y.G.due : y.G.due[z] = x.st.epoch}}>>

CoverEdge ==
  \/ ~COVER
  \/ cls' \in TLCGet(7)
  \/ TLCSet(7, TLCGet(7) \cup {cls'}) /\ PrintT("BEHAVIOUR " \o ToJson(hist'))

Do(ev, a) ==
  /\ Len(hist) < MAXOPS
  /\ LET x == StepOf(st, G, ev, a)
         noop == ~x.ok \/ Same(st, x.st) IN
     /\ (~noop \/ nnoop < NOOPBUDGET)
     /\ nnoop' = IF noop /\ NOOPBUDGET < MAXOPS THEN nnoop + 1 ELSE nnoop
     /\ st' = x.st /\ G' = x.G /\ viol' = x.tags /\ fresh' = x.tags \ viol
     /\ cls' = IF COVER THEN EdgeClass(st, G, ev, a, x) ELSE <<>>
     /\ hist' = Append(hist, [ev |-> ev, a |-> a])

\* a block boundary: EndBlock of the current block, BeginBlock of the next one
DoBlock(adv) ==
  /\ Len(hist) < MAXOPS
  /\ st.h < MAXH
  /\ LET x == StepOf(st, G, "EndBlock", [x |-> 0])
         y == StepOf(x.st, x.G, "BeginBlock", [adv |-> adv]) IN
     /\ NONEMPTY => DOMAIN x.st.vals # {}
     /\ st' = y.st /\ G' = y.G /\ viol' = x.tags \cup y.tags /\ fresh' = (x.tags \cup y.tags) \ viol
     /\ nnoop' = nnoop
     /\ cls' = IF COVER THEN BlockClass(st, G, x, y) ELSE <<>>
     /\ hist' = Append(hist, [ev |-> "Block", a |-> [adv |-> adv]])

Next ==
  \/ \E o \in OPS, k \in KEYS : Do("OptIn", [o |-> o, k |-> k])
  \/ \E o \in OPS, k \in KEYS : Do("SetKey", [o |-> o, k |-> k])
  \/ \E o \in OPS : Do("OptOut", [o |-> o])
  \/ \E o \in OPS, x \in AMOUNTS : Do("Delegate", [o |-> o, x |-> x])
  \/ \E s \in VSTAKERS, o \in OPS, x \in AMOUNTS, pa \in PATHS :
        st.nrec < MAXREC /\ Do("Undelegate", [s |-> s, o |-> o, x |-> x, id |-> st.nrec + 1, path |-> pa])
  \/ \E k \in KEYS : Do("Jail", [k |-> k])
  \/ \E k \in KEYS : Do("Unjail", [k |-> k])
  \/ \E mv \in MAXVS, n \in NS : ((mv # st.maxV) # (n # st.N)) /\ Do("UpdateParams", [maxVals |-> mv, n |-> n])
  \/ \E adv \in ADVS, w \in 1..BLOCKW : DoBlock(adv)

Spec == Init /\ [][Next]_vars

View == <<st, [G EXCEPT !.lost = {}, !.ord = {}], viol, nnoop>>

\* ----- invariants: the properties, evaluated on every step of the model -----
InvC06 == viol \cap C06TAGS = {}
InvC07 == viol \cap C07TAGS = {}
InvC16 == viol \cap C16TAGS = {}
InvTypes == st.h >= 1 /\ st.epoch >= 1 /\ st.lag >= 0

\* lead lane (model of the CURRENT tree): print every behaviour that newly breaks a property in the
\* model; each is replayed on the real code (a model counterexample is a lead, never a verdict)
LeadEmit == fresh = {} \/ PrintT("LEAD " \o ToJson([tags |-> fresh, hist |-> hist]))

\* behaviour generation: print the history once it reaches the depth bound
EmitAtDepth == Len(hist) < MAXOPS \/ PrintT("BEHAVIOUR " \o ToJson(hist))
=============================================================================
