----------------------------- MODULE MC_Staking -----------------------------
(* Bounded exhaustive / simulation model of the staking family (C06 C07 C16). *)
EXTENDS Staking, Json

CONSTANTS AMOUNTS,     \* delegation / undelegation amounts
          MAXVS, NS,   \* values of MaxValidators / EpochsUntilUnbonded reachable by UpdateParams
          INITMAXV, INITN,
          ADVS,        \* block-time advances, in epochs (0 = same epoch, 2 = downtime spanning epochs)
          MAXH,        \* last block height (kept below the first undelegation completion height)
          MAXOPS,      \* events per behaviour
          MAXREC,      \* undelegation requests per behaviour
          NOOPBUDGET,  \* events allowed per behaviour that fail or change nothing (>= MAXOPS: unlimited)
          VSTAKERS,    \* stakers that may undelegate ("s1", "v")
          PATHS,       \* entry paths of an undelegation: "keeper" (keeper / cosmos message), "pc" (delegation precompile)
          NONEMPTY,    \* TRUE: generation never empties the validator set (the engine halts there)
          BLOCKW       \* weight of block boundaries among the successors (simulation bias; 1 for exhaustive runs)

VARIABLES st, G, hist, viol, nnoop, fresh
\* viol: property tags raised by the last step; fresh: those of them the step before did not raise
vars == <<st, G, hist, viol, nnoop, fresh>>

Store0 == [InitStore EXCEPT !.N = INITN, !.maxV = INITMAXV]

Init ==
  /\ st = Store0
  /\ G = InitGhost(Store0)
  /\ hist = <<>>
  /\ viol = {}
  /\ nnoop = 0
  /\ fresh = {}

\* one model step = one event, ghosts and property tags evaluated exactly as in trace validation
Same(a, b) == [a EXCEPT !.nrec = 0, !.rsp = <<>>] = [b EXCEPT !.nrec = 0, !.rsp = <<>>]

StepOf(s, g, ev, a) ==
  LET r  == Apply(s, ev, a)
      ok == r.err = ""
      \* a message that failed or changed nothing: the ghosts cannot move (GhostStep is a function of
      \* the difference of the two stores) and the state predicates were evaluated when (s, g) was reached
      unchanged == ev \notin {"EndBlock", "BeginBlock"} /\ Same(s, r.st)
      g2 == IF unchanged THEN [g EXCEPT !.lost = {}] ELSE GhostStep(g, s, r.st, ev, a, ok)
  IN [st |-> r.st, G |-> g2, ok |-> ok,
      tags |-> IF unchanged THEN StepTags(s, r.st, ev, a, ok, g, g2) ELSE Tags(s, r.st, ev, a, ok, g, g2)]


Do(ev, a) ==
  /\ Len(hist) < MAXOPS
  /\ LET x == StepOf(st, G, ev, a)
         noop == ~x.ok \/ Same(st, x.st) IN
     /\ (~noop \/ nnoop < NOOPBUDGET)
     /\ nnoop' = IF noop /\ NOOPBUDGET < MAXOPS THEN nnoop + 1 ELSE nnoop
     /\ st' = x.st /\ G' = x.G /\ viol' = x.tags /\ fresh' = x.tags \ viol
     /\ hist' = Append(hist, [ev |-> ev, a |-> a])

\* a block boundary: EndBlock of the current block, BeginBlock of the next one
DoBlock(adv) ==
  /\ Len(hist) < MAXOPS
  /\ st.h < MAXH
  /\ LET x == StepOf(st, G, "EndBlock", [x |-> 0])
         y == StepOf(x.st, x.G, "BeginBlock", [adv |-> adv]) IN
     /\ NONEMPTY => DOMAIN x.st.vals # {}
     /\ st' = y.st /\ G' = y.G /\ viol' = x.tags \cup y.tags /\ fresh' = (x.tags \cup y.tags) \ viol
     /\ nnoop' = nnoop
     /\ hist' = Append(hist, [ev |-> "Block", a |-> [adv |-> adv]])

Next ==
  \/ \E o \in OPS, k \in KEYS : Do("OptIn", [o |-> o, k |-> k])
  \/ \E o \in OPS, k \in KEYS : Do("SetKey", [o |-> o, k |-> k])
  \/ \E o \in OPS : Do("OptOut", [o |-> o])
  \/ \E o \in OPS, x \in AMOUNTS : Do("Delegate", [o |-> o, x |-> x])
  \/ \E s \in VSTAKERS, o \in OPS, x \in AMOUNTS, pa \in PATHS :
        st.nrec < MAXREC /\ Do("Undelegate", [s |-> s, o |-> o, x |-> x, id |-> st.nrec + 1, path |-> pa])
  \/ \E k \in KEYS : Do("Jail", [k |-> k])
  \/ \E k \in KEYS : Do("Unjail", [k |-> k])
  \/ \E mv \in MAXVS, n \in NS : ((mv # st.maxV) # (n # st.N)) /\ Do("UpdateParams", [maxVals |-> mv, n |-> n])
  \/ \E adv \in ADVS, w \in 1..BLOCKW : DoBlock(adv)

Spec == Init /\ [][Next]_vars

View == <<st, [G EXCEPT !.lost = {}, !.ord = {}], viol, nnoop>>

\* ----- invariants: the properties, evaluated on every step of the model -----
InvC06 == viol \cap C06TAGS = {}
InvC07 == viol \cap C07TAGS = {}
InvC16 == viol \cap C16TAGS = {}
InvTypes == st.h >= 1 /\ st.epoch >= 1 /\ st.lag >= 0

\* lead lane (model of the CURRENT tree): print every behaviour that newly breaks a property in the
\* model; each is replayed on the real code (a model counterexample is a lead, never a verdict)
LeadEmit == fresh = {} \/ PrintT("LEAD " \o ToJson([tags |-> fresh, hist |-> hist]))

\* behaviour generation: print the history once it reaches the depth bound
EmitAtDepth == Len(hist) < MAXOPS \/ PrintT("BEHAVIOUR " \o ToJson(hist))
=============================================================================
