---------------------------- MODULE Trace_Atomic ----------------------------
(***************************************************************************)
(* Trace validation for the atomic family (C09).                            *)
(*                                                                         *)
(* Input: trace.ndjson written by `harness atomic` - one line per event     *)
(* executed on the REAL code: event, arguments, reported result (ok /       *)
(* success flag), class of the failure, FULL digest before and after        *)
(* (dpre / dpost: one digest per KV store + "mem:oracle"), first differing  *)
(* key per store (diff), projection of the abstract state (st).             *)
(*                                                                         *)
(* PROPERTY lane (from the statement of C09, on observed data only)         *)
(*   C09_FailedButChanged_<ep>   a call that reported failure (error, flag   *)
(*        false, no output, rejected transaction) changed a protected       *)
(*        store or the oracle's process memory.  Exempt: store acc           *)
(*        (sequences), evm / feemarket (EVM nonce and gas bookkeeping),      *)
(*        oracle#nonce (validator report nonces, advanced by the ante        *)
(*        handler of a price transaction) - fee payment and sequence /      *)
(*        nonce changes, as the statement says.                              *)
(*   C09_ItemPartial_<phase>     an item of a block phase that failed left   *)
(*        a partial effect (vp: one AVS's voting-power update; stat: one     *)
(*        task's statistics; slash: one evidence slash)                      *)
(*   C09_ItemBlocksOthers_<phase> an item failed and another item of the     *)
(*        same phase that should have been processed was not                 *)
(* STRICT lane: observed outcome class / post-state / handler dirtiness =    *)
(*   Atomic!Step of the observed pre-state with the DEVS of the tree.        *)
(***************************************************************************)
EXTENDS Atomic, Json

Trace == ndJsonDeserialize("trace.ndjson")
t_DEVS == {"OraMemTx"}   \* RegTokenOrder repaired by fix f40b68e

VARIABLES l, L, kind
vars == <<l, L, kind>>

Pick(S) == CHOOSE x \in S : TRUE
T(holds, tag) == IF holds THEN {} ELSE {tag}
Rng(s) == {s[i] : i \in DOMAIN s}

EXEMPT == {"acc", "evm", "feemarket", "oracle#nonce"}
Changed(line) == {s \in DOMAIN line.dpre : line.dpre[s] # line.dpost[s]} \ EXEMPT

FromLog(j) ==
  [ ep     |-> j.ep,
    ops    |-> Rng(j.ops),
    avs    |-> [a \in AVSS |->
                  LET R == {r \in Rng(j.avs) : r.a = a} IN
                  IF R = {} THEN NoAvs ELSE LET r == Pick(R) IN
                  [ex |-> TRUE, own |-> Rng(r.own), t |-> r.t, eid |-> r.eid, start |-> r.start, unb |-> r.unb, ms |-> r.ms, al |-> r.al, name |-> r.name]],
    opt    |-> [k \in ACCTS \X AVSALL |->
                  LET R == {r \in Rng(j.opt) : r.o = k[1] /\ r.a = k[2]} IN IF R = {} THEN "none" ELSE Pick(R).s],
    usd    |-> [k \in AVSALL \X ACCTS |->
                  LET R == {r \in Rng(j.usd) : r.a = k[1] /\ r.o = k[2]} IN IF R = {} THEN "none" ELSE Pick(R).s],
    avsusd |-> [a \in AVSALL |-> j.avsusd[a]],
    bls    |-> Rng(j.bls),
    tnum   |-> [t \in TADDRS |-> j.tnum[t]],
    tasks  |-> [k \in {<<r.t, r.id>> : r \in Rng(j.tasks)} |->
                  LET r == Pick({x \in Rng(j.tasks) : <<x.t, x.id>> = k}) IN
                  [start |-> r.start, resp |-> r.resp, stat |-> r.stat, chal |-> r.chal, done |-> r.done]],
    res    |-> [k \in {<<r.o, r.t, r.id>> : r \in Rng(j.res)} |->
                  LET r == Pick({x \in Rng(j.res) : <<x.o, x.t, x.id>> = k}) IN [stage |-> r.stage, resp |-> r.resp, sig |-> r.sig]],
    chal   |-> {<<r.o, r.t, r.id>> : r \in Rng(j.chal)},
    chains |-> Rng(j.chains),
    tokens |-> Rng(j.tokens),
    otok   |-> Rng(j.otok),
    key    |-> [o \in ACCTS |-> j.key[o]],
    rev    |-> [k \in KEYS |-> j.rev[k]],
    prev   |-> [o \in ACCTS |-> j.prev[o]],
    rmv    |-> Rng(j.rmv),
    nopool |-> Rng(j.nopool),
    slashed |-> Rng(j.slashed),
    tomb   |-> Rng(j.tomb),
    oraN   |-> Genesis.oraN,
    oraS   |-> Genesis.oraS,
    oraM   |-> Genesis.oraM ]

IsCall(ev) == ev \notin {"Tick", "StakeNop", "Downtime", "reset"}

(***************************************************************************)
(* property lane                                                           *)
(***************************************************************************)
CallTags(line) ==
  IF IsCall(line.ev) /\ ~line.ok /\ Changed(line) # {} THEN {"C09_FailedButChanged_" \o line.ev} ELSE {}

\* block phase "minute epoch end"
TickTags(pre, post, line) ==
  IF line.ev # "Tick" \/ line.panic THEN {} ELSE
  LET due    == Rng(DueAvs(pre))
      vp(a)  == Pick({x \in Rng(line.vp) : x.a = a})
      failed == {a \in due : vp(a).want = "ERR"}
      \* an item whose calculation fails on the real code must leave the AVS's rows as they were
      partial == {a \in AVSS : vp(a).want = "ERR" /\ vp(a).post # vp(a).pre}
      \* an item that does not fail must have been processed: the rows are what the real calculation gives
      missed == {a \in due \ failed : vp(a).post # vp(a).want}
      s1     == FoldLeft(LAMBDA acc, a : VpItem(acc, a), pre, DueAvs(pre))
      dueT   == DueTasks(s1)
      failT  == {tk \in dueT : post.avsusd[AvsByTask(pre, tk[1])] = "none"}
      same(tk) == Pick({x \in Rng(line.tk) : x.t = tk[1] /\ x.id = tk[2]}).same
      partT  == {tk \in failT : ~same(tk)}
      missT  == {tk \in dueT \ failT : ~(tk \in DOMAIN post.tasks /\ post.tasks[tk].done)}
      anyFail == failed # {} \/ failT # {}
  IN T(partial = {}, "C09_ItemPartial_vp") \cup
     T(~(anyFail /\ missed # {}), "C09_ItemBlocksOthers_vp") \cup
     T(anyFail \/ missed = {}, "STRICT_vp_not_updated") \cup
     T(partT = {}, "C09_ItemPartial_stat") \cup
     T(~(anyFail /\ missT # {}), "C09_ItemBlocksOthers_stat") \cup
     T(anyFail \/ missT = {}, "STRICT_stat_not_done")

\* block phase "downtime slashing": one slash item per listed (absent) validator, all in one BeginBlock.
\* An item FAILED when the real code said so ("error when executing slash" in its log: line.slashErrs) - the
\* items without a slash record afterwards are the failed ones.
EvidenceTags(pre, line) ==
  IF line.ev # "Downtime" \/ line.panic THEN {} ELSE
  LET items   == Rng(line.items)
      live    == {x \in items : x.o \notin pre.tomb /\ pre.opt[<<x.o, DOG>>] = "in"}   \* not jailed before: handled by x/slashing
      norec   == {x \in live : ~x.rec1}
      anyFail == line.slashErrs > 0
      partial == {x \in norec : x.post # x.pre}          \* no slash recorded, yet the operator's rows changed
      blocked == {x \in live : (x.o \notin pre.nopool /\ ~x.rec1) \/ ~x.jailed}   \* should have been slashed / jailed and was not
  IN T(partial = {}, "C09_ItemPartial_slash") \cup
     T(~(anyFail /\ blocked # {}), "C09_ItemBlocksOthers_slash") \cup
     T(anyFail \/ blocked = {}, "STRICT_slash_not_executed") \cup
     T(line.slashErrs = Cardinality({x \in live : x.o \in pre.nopool}), "STRICT_slash_failures")

(***************************************************************************)
(* strict lane                                                             *)
(***************************************************************************)
StrictCtx(pre, post, line) ==
  LET r == Step(pre, line.ev, line.a) IN
  T(r.out = line.cls, "STRICT_out_" \o line.ev) \cup
  (IF line.panic THEN {} ELSE T(r.st = post, "STRICT_state_" \o line.ev)) \cup
  T(r.hdirty = line.hdirty, "STRICT_hdirty_" \o line.ev)

StrictOra(m, line) ==
  LET r == Step(m, line.ev, line.a)
      memCh == line.dpre["mem:oracle"] # line.dpost["mem:oracle"]
      stoCh == line.dpre["oracle"] # line.dpost["oracle"]
  IN T(r.out = line.cls, "STRICT_out_" \o line.ev) \cup
     T((r.st.oraM # m.oraM) = memCh, "STRICT_mem_" \o line.ev) \cup
     T((r.st.oraS # m.oraS) = stoCh, "STRICT_store_" \o line.ev)

Init ==
  /\ l = 1
  /\ L = Genesis
  /\ kind = "ctx"

Next ==
  /\ l <= Len(Trace)
  /\ l' = l + 1
  /\ LET line == Trace[l] IN
     IF line.ev = "reset" THEN
       /\ kind' = line.kind
       /\ IF line.kind = "ctx"
          THEN LET st == FromLog(line.st)
                   tags == T(st = Genesis, "STRICT_state_reset")
               IN /\ L' = st
                  /\ tags = {} \/ PrintT("TAG " \o ToJson([l |-> l, ev |-> "reset", tags |-> tags]))
          ELSE L' = Genesis
     ELSE IF kind = "ctx" THEN
       LET post == IF line.panic THEN L ELSE FromLog(line.st)
           tags == CallTags(line) \cup TickTags(L, post, line) \cup EvidenceTags(L, line) \cup StrictCtx(L, post, line)
       IN /\ L' = post /\ UNCHANGED kind
          /\ tags = {} \/ PrintT("TAG " \o ToJson([l |-> l, ev |-> line.ev, tags |-> tags, diff |-> line.diff, cls |-> line.cls]))
     ELSE
       LET tags == CallTags(line) \cup StrictOra(L, line)
       IN /\ L' = Step(L, line.ev, line.a).st /\ UNCHANGED kind
          /\ tags = {} \/ PrintT("TAG " \o ToJson([l |-> l, ev |-> line.ev, tags |-> tags, diff |-> line.diff, cls |-> line.cls]))

Spec == Init /\ [][Next]_vars
=============================================================================
