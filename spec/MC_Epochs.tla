----------------------------- MODULE MC_Epochs -----------------------------
(* Bounded exhaustive / simulation model of the epoch clock (C15).          *)
(* A behaviour = a choice of one genesis entry per identifier, then blocks   *)
(* whose times are non-decreasing (block 1 is at time 0).                   *)
EXTENDS Epochs, Json

CONSTANTS GT,       \* genesis time (block 1 is at 0)
          TPL,      \* [identifier -> set of genesis entries to choose from]
          STEPS,    \* time steps between consecutive blocks
          MAXBLOCKS \* blocks per behaviour

VARIABLES gen, info, now, h, g0, D, notes, evs, hist
vars == <<gen, info, now, h, g0, D, notes, evs, hist>>

IDS == RangeOf(IDORD)

\* genesis entries --------------------------------------------------------------------------
NotStarted(z, start, dur, cur) ==
  [z |-> z, start |-> start, dur |-> dur, started |-> FALSE, cur |-> cur, cs |-> 0, csz |-> TRUE, csh |-> 0]
\* a mid-count entry that lies on the closed form: epoch `cur` began at `cs`
Mid(cs, dur, cur, csh) ==
  [z |-> FALSE, start |-> cs - (cur - 1) * dur, dur |-> dur, started |-> TRUE, cur |-> cur, cs |-> cs, csz |-> FALSE, csh |-> csh]
Inert == NotStarted(FALSE, 1000, 1000, 0)
StdTemplates(DURS) ==
  UNION {{ NotStarted(TRUE, 0, d, 0),      \* start time left zero: filled with the genesis time
           NotStarted(FALSE, -4, d, 0),    \* start in the past: first block starts epoch 1, then catch-up
           NotStarted(FALSE, 0, d, 0),     \* start exactly at block 1
           NotStarted(FALSE, 3, d, 0),     \* start in the future
           NotStarted(FALSE, 1, d, 5),     \* stale number in a not-yet-counting entry: reset to 1
           Mid(-1, d, 3, 0),               \* mid-count, current epoch still running at block 1
           Mid(-6, d, 2, 7) } : d \in DURS} \* mid-count, chain was down for a while; height recorded
Invalid == [z |-> FALSE, start |-> 0, dur |-> 0, started |-> FALSE, cur |-> 0, cs |-> 0, csz |-> TRUE, csh |-> 0]

\* The genesis is chosen one identifier at a time (so that simulation draws each entry at random
\* and the set of initial states stays small); InitChain happens with the last choice.
Init ==
  /\ gen = <<>> /\ info = <<>> /\ g0 = <<>> /\ D = <<>>
  /\ now = 0 /\ h = 0
  /\ notes = <<>> /\ evs = <<>>
  /\ hist = <<>>

Chosen == Cardinality(DOMAIN gen)
Booted == Chosen = Len(IDORD)

Choose ==
  /\ ~Booted
  /\ LET id == IDORD[Chosen + 1] IN
     \E tp \in TPL[id] :
       LET g2 == gen @@ (id :> tp) IN
       /\ gen' = g2
       /\ IF Chosen + 1 = Len(IDORD)
          THEN /\ info' = Genesis(g2, GT) /\ g0' = Genesis(g2, GT) /\ D' = D0(Genesis(g2, GT))
               /\ hist' = <<[ev |-> "Genesis", a |-> [g |-> g2]]>>
          ELSE UNCHANGED <<info, g0, D, hist>>
  /\ UNCHANGED <<now, h, notes, evs>>

DoBlock(dt) ==
  /\ Booted
  /\ h < MAXBLOCKS
  /\ h = 0 => dt = 0          \* block 1 is the origin of model time
  /\ LET r == Block(info, now + dt, h + 1) IN
     /\ info' = r.info
     /\ notes' = r.notes
     /\ evs' = r.evs
     /\ D' = DStep(D, r.notes)
     /\ now' = now + dt
     /\ h' = h + 1
     /\ UNCHANGED <<g0, gen>>
     /\ hist' = Append(hist, [ev |-> "Block", a |-> [dt |-> dt]])

Next == Choose \/ \E dt \in STEPS \cup {0} : DoBlock(dt)

Spec == Init /\ [][Next]_vars

View == <<gen, info, now, h, g0, D>>

\* ----- C15 on the model ---------------------------------------------------------------------
\* step predicates (action properties: evaluated on every transition TLC generates)
StepFirst     == \A id \in DOMAIN info : FirstEpoch(g0[id], info[id], info'[id], now')
StepAdvance   == \A id \in DOMAIN info : AdvanceByOne(g0[id], info[id], info'[id], now')
StepStartTime == \A id \in DOMAIN info : StartTimeStep(g0[id], info[id], info'[id])
StepSubs      == SubscriberOrder(notes') /\ EndBeforeStart(notes') /\ Stray(D, notes') = {}
StepFrame     == DOMAIN info' = DOMAIN info /\ \A id \in DOMAIN info : info'[id].start = g0[id].start /\ info'[id].dur = g0[id].dur
\* identifiers do not influence one another: an identifier's step is the step it makes alone
StepIndependent ==
  \A id \in DOMAIN info :
     LET solo == Block([i \in {id} |-> info[id]], now', h') IN
     info'[id] = solo.info[id] /\ NotesOf(notes', id) = solo.notes
IsBlock == h' = h + 1
PropFirst == [][IsBlock => StepFirst]_vars
PropAdvance == [][IsBlock => StepAdvance]_vars
PropStartTime == [][IsBlock => StepStartTime]_vars
PropSubs == [][IsBlock => StepSubs]_vars
PropFrame == [][IsBlock => StepFrame]_vars
PropIndependent == [][IsBlock => StepIndependent]_vars
\* state predicates
InvClosedForm  == \A id \in DOMAIN info : StartTimeClosed(g0[id], info[id])
InvNotifyOnce  == \A id \in DOMAIN info : \A s \in RangeOf(SUBS) : NotifyOnce(g0[id], info[id], D[id][s])
InvNotifyOrder == \A id \in DOMAIN info : \A s \in RangeOf(SUBS) : NotifyOrder(g0[id], info[id], D[id][s])

\* behaviour generation: print the history once it reaches the depth bound
EmitAtDepth == h < MAXBLOCKS \/ PrintT("BEHAVIOUR " \o ToJson(hist))
=============================================================================
