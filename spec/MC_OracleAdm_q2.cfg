SPECIFICATION Spec
CONSTANTS
  VALS = {"v1", "v2", "v3"}
  OTHERS = {"a1"}
  POWER <- c_POWER
  FIDS = {1}
  FEED <- c_FEED
  MAXNONCE = 2
  MAXDETID = 2
  THA = 2
  THB = 3
  DETS = {"d1", "d2"}
  DEV = {}
  MAXH = 5
  MAXTX = 1
  MAXCHK = 1
  MAXOPS = 99
  MUTS = {"gap", "baseP", "dec"}
  MUTSC = {"gap"}
  MUTS2 = {"baseP"}
  SIGS = {"zero"}
  MODES = {"deliver", "recheck"}
  VALOUT = {"v3"}
  MAXEP = 1
  EMITLVL = 9999
  BIAS = FALSE
VIEW View
INVARIANTS InvC13 InvNonceRange InvOpenHasNonce
CHECK_DEADLOCK FALSE
