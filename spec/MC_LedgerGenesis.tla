-------------------------- MODULE MC_LedgerGenesis --------------------------
(***************************************************************************)
(* Lead configuration for C03 "never early ... including records loaded     *)
(* from genesis": one pending undelegation created at height BASEH, then    *)
(* the chain is restarted from a genesis document with a lower initial      *)
(* height (SetHeight, at most once, never above a pending completion        *)
(* height), then blocks end.  `early` records whether an EndBlock released  *)
(* a record whose completion height lies in the future.                     *)
(***************************************************************************)
EXTENDS Ledger, Json
CONSTANTS BASEH, RESTARTS, MAXSTEPS
c_SORD == <<"s1", "s2">>
c_OORD == <<"o1", "o2">>
c_AORD == <<"lst">>
c_KIND == [lst |-> "lst"]
c_DECI == [lst |-> 0]
c_PRICE == [lst |-> 1]
c_PDEC == [lst |-> 0]

VARIABLES L, hist, early, restarted
vars == <<L, hist, early, restarted>>

PreEvents ==
  << [ev |-> "Deposit",    a |-> [s |-> "s1", a |-> "lst", x |-> 2]],
     [ev |-> "Delegate",   a |-> [s |-> "s1", a |-> "lst", o |-> "o2", x |-> 2]],
     [ev |-> "Undelegate", a |-> [s |-> "s1", a |-> "lst", o |-> "o2", x |-> 1, nonce |-> 1, txh |-> "t1"]] >>
PreState ==
  LET step(acc, e) == Apply(acc, e.ev, e.a).st
  IN Fold(step, [EmptyStore EXCEPT !.h = BASEH], PreEvents)

Init == L = PreState /\ hist = PreEvents /\ early = FALSE /\ restarted = FALSE

Do(ev, a) ==
  /\ Len(hist) < MAXSTEPS + Len(PreEvents)
  /\ LET r == Apply(L, ev, a) IN
     /\ r.err = ""
     /\ early' = (early \/ (ev = "EndBlock" /\ \E k \in DOMAIN L.recs : k \notin DOMAIN r.st.recs /\ L.recs[k].complete > L.h))
     /\ L' = r.st
     /\ hist' = Append(hist, [ev |-> ev, a |-> a])

Next ==
  \/ \E h \in RESTARTS : /\ ~restarted /\ \A k \in DOMAIN L.recs : h <= L.recs[k].complete
                         /\ restarted' = TRUE /\ Do("SetHeight", [h |-> h])
  \/ (Do("EndBlock", [x |-> 0]) /\ UNCHANGED restarted)

Spec == Init /\ [][Next]_vars
InvNotEarly == ~early
=============================================================================
