----------------------------- MODULE Trace_Fees -----------------------------
(***************************************************************************)
(* Trace validation for the fees family (C17).                              *)
(*                                                                         *)
(* Input: trace.ndjson written by `harness fees` - one line per event       *)
(* executed on a REAL ExocoreApp (real blocks): event name, concrete        *)
(* arguments, reported result, and after the event the projection of        *)
(* spec/Fees.tla: fee state `st` + the environment `env` the allocation     *)
(* reads.                                                                   *)
(*                                                                         *)
(* Per step, reported as TAG lines:                                         *)
(*   C17_..    property lane: the predicates of property C17 (written from  *)
(*             its statement) on the OBSERVED pre/post states; the          *)
(*             environment is the one observed in the pre-state.            *)
(*   STRICT_.. strict lane: the observed post-state differs from            *)
(*             Apply(pre, env, event, args) of spec/Fees.tla (the model of  *)
(*             the CURRENT tree: DEVIATIONS = {}).  A step that does not    *)
(*             match it but matches a named OLD behaviour is additionally   *)
(*             reported as DEV_L11 / DEV_L27 (information only).            *)
(*   C11_Halt  property lane of C11: a block phase (BeginBlock / EndBlock)  *)
(*             panicked on the real app = the chain halts.                  *)
(***************************************************************************)
EXTENDS Fees, Json

Trace == ndJsonDeserialize("trace.ndjson")
Hdr   == Trace[1].cfg

t_IDORD == Hdr.idord
t_PREC  == "1000000000000000000"
t_DEV   == {}

VARIABLES l, S, E
vars == <<l, S, E>>

Pick(X) == CHOOSE x \in X : TRUE
ListFn(lst, key(_), val(_)) ==
  [k \in {key(r) : r \in Range(lst)} |-> val(Pick({r \in Range(lst) : key(r) = k}))]

StOf(j) ==
  [supply |-> j.supply, fc |-> j.fc, mint |-> j.mint, dist |-> j.dist, cp |-> j.cp,
   comm  |-> ListFn(j.comm,  LAMBDA r : r.o, LAMBDA r : r.v),
   outst |-> ListFn(j.outst, LAMBDA r : r.o, LAMBDA r : r.v),
   srew  |-> ListFn(j.srew,  LAMBDA r : r.s, LAMBDA r : r.v)]

EnvOf(j) ==
  [tax |-> j.env.tax, reward |-> j.env.reward, distId |-> j.env.distId, mintId |-> j.env.mintId,
   ltp |-> j.env.ltp,
   vals |-> [i \in DOMAIN j.env.vals |-> [o |-> j.env.vals[i].o, pw |-> j.env.vals[i].pw]],
   rate |-> ListFn(j.env.rate, LAMBDA r : r.o, LAMBDA r : r.v),
   ent  |-> ListFn(j.env.ent,  LAMBDA r : r.o, LAMBDA r : [i \in DOMAIN r.e |-> [s |-> r.e[i].s, p |-> r.e[i].p]])]

ArgsOf(line) ==
  IF line.ev = "BeginBlock" THEN [ended |-> Range(line.a.ended)] ELSE line.a

T(holds, tag) == IF holds THEN {} ELSE {tag}

StateTags(st) ==
  T(Solvent(st), "C17_Solvent") \cup T(NonNegative(st), "C17_NonNegative")

StepTags(pre, post, e, ev, a, ok) ==
  T(SupplyDelta(pre, post, e, ev, a, ok), "C17_SupplyDelta") \cup
  T(AllMoved(pre, post, e, ev, a), "C17_AllMoved") \cup
  T(Booked(pre, post), "C17_Booked") \cup
  T(Proportional(pre, post, e, ev, a), "C17_Proportional") \cup
  T(CommissionSplit(pre, post, e), "C17_CommissionSplit") \cup
  T(StakerPart(pre, post), "C17_StakerPart")

StrictTags(pre, post, e, ev, a, panic) ==
  LET rc == ApplyD(t_DEV, pre, e, ev, a)            \* the current tree
      r7 == ApplyD({"L27"}, pre, e, ev, a)         \* the defect fixed in 9ad8de4
      rl == ApplyD({"L11"}, pre, e, ev, a)         \* the defect fixed in 311e836
      mc == SameSt(rc.st, post)
  IN IF panic THEN T(rc.panic, "STRICT_panic_" \o ev) \cup (IF r7.panic /\ ~rc.panic THEN {"DEV_L27"} ELSE {})
     ELSE T(mc, "STRICT_state_" \o ev) \cup T(~rc.panic, "STRICT_panic_" \o ev) \cup
          (IF SameSt(rl.st, post) /\ ~mc THEN {"DEV_L11"} ELSE {}) \cup
          (IF SameSt(r7.st, post) /\ ~r7.panic /\ ~mc THEN {"DEV_L27"} ELSE {})

HaltTags(ev, panic) == IF panic /\ ev \in {"BeginBlock", "EndBlock"} THEN {"C11_Halt"} ELSE {}

\* numbers attached to a finding so that the known-findings protocol can recognise the exact
\* signature of a listed defect
Info(pre, post) ==
  LET ss == DOMAIN pre.srew \cup DOMAIN post.srew IN
  [excess |-> BookedExcess(pre, post),
   dsrew  |-> SumF(ss, LAMBDA s : NSub(Get(post.srew, s), Get(pre.srew, s))),
   gap    |-> SolvencyGap(post),
   srew   |-> SumFn(post.srew),
   moved  |-> Moved(pre, post)]

Init ==
  /\ l = 1
  /\ S = ZeroSt
  /\ E = [tax |-> N0, reward |-> N0, distId |-> "", mintId |-> "", ltp |-> N0, vals |-> <<>>, rate |-> EmptyFn, ent |-> EmptyFn]

Next ==
  /\ l <= Len(Trace)
  /\ l' = l + 1
  /\ LET line == Trace[l] IN
     IF line.ev = "reset" THEN
       LET st == StOf(line.st) IN
       /\ S' = st /\ E' = EnvOf(line.st)
       /\ LET tags == StateTags(st) IN
          tags = {} \/ PrintT("TAG " \o ToJson([l |-> l, ev |-> "reset", tags |-> tags, info |-> Info(st, st)]))
     ELSE
       LET post == StOf(line.st)
           a    == ArgsOf(line)
           tags == (IF line.panic THEN {} ELSE StateTags(post) \cup StepTags(S, post, E, line.ev, a, line.ok)) \cup
                   StrictTags(S, post, E, line.ev, a, line.panic) \cup HaltTags(line.ev, line.panic)
       IN /\ S' = post /\ E' = EnvOf(line.st)
          /\ tags = {} \/ PrintT("TAG " \o ToJson([l |-> l, ev |-> line.ev, tags |-> tags, info |-> Info(S, post)]))

Spec == Init /\ [][Next]_vars

Consumed == TLCGet("stats").diameter - 1 = Len(Trace)
=============================================================================
