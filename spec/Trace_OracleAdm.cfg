SPECIFICATION Spec
CONSTANTS
  VALS <- t_VALS
  OTHERS <- t_OTHERS
  POWER <- t_POWER
  FIDS <- t_FIDS
  FEED <- t_FEED
  MAXNONCE <- t_MAXNONCE
  MAXDETID <- t_MAXDETID
  THA <- t_THA
  THB <- t_THB
  DETS <- t_DETS
  DEV <- t_DEV
POSTCONDITION Consumed
CHECK_DEADLOCK FALSE
