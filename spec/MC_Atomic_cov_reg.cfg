SPECIFICATION Spec
CONSTANTS
  DEVS <- c_DEVS_CODE
  PREFIXES <- c_PREFIX_REG
  EVENTS <- EV_REG
  MAXOPS = 3
  MAXEP = 7
  FAILBUDGET = 99
  COVER = TRUE
VIEW View
CHECK_DEADLOCK FALSE
ACTION_CONSTRAINTS CoverEdge
