-------------------------- MODULE MC_NstFeedParse --------------------------
(***************************************************************************)
(* parseBalanceChange as a pure function: TLC enumerates payloads           *)
(*   bitmap  = any subset of the index bits IDX                             *)
(*   stream  = any byte sequence over BYTESET of length <= MAXLEN           *)
(*   n       = staker list length in NS                                     *)
(* checks that the byte-level transcription of the code (ParseCode) equals  *)
(* the intended bit-level decoder (ParseSpec) up to the two named panic     *)
(* classes, and prints every payload with its class: each becomes a test of *)
(* the real decoder (strict lane STRICT_parse).                             *)
(***************************************************************************)
EXTENDS NstFeed, Json

CONSTANTS IDX, BYTESET, MAXLEN, NS
VARIABLES p, n

c_SORD == <<"s1">>
c_OORD == <<"o1">>
c_AORD == <<"nst">>
c_KIND == [nst |-> "nst"]
c_DECI == [nst |-> 0]
c_PRICE == [nst |-> 1]
c_PDEC == [nst |-> 0]

Streams == UNION {[1..k -> BYTESET] : k \in 0..MAXLEN}
PInit == p \in {Mk(I, s) : I \in SUBSET IDX, s \in Streams} /\ n \in NS
PNext == FALSE /\ UNCHANGED <<p, n>>
PSpec == PInit /\ [][PNext]_<<p, n>>

Agree == ParseAgree(p, n)
Class == LET s == ParseSpec(p, n) IN IF s.err = "" THEN "ok" \o ToString(Cardinality(DOMAIN s.map)) ELSE s.err
EmitParse == PrintT("PARSE " \o ToJson([raw |-> p, n |-> n, cls |-> Class]))
=============================================================================
