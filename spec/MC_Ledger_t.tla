---------------------------- MODULE MC_Ledger_t ----------------------------
(* thorough exhaustive configuration: two assets (LST + NST), NST balance updates *)
EXTENDS MC_Ledger
c_SORD == <<"s1", "s2">>
c_OORD == <<"o1", "o2">>
c_AORD == <<"lst", "nst">>
c_KIND == [lst |-> "lst", nst |-> "nst"]
c_DECI == [lst |-> 0, nst |-> 0]
c_PRICE == [lst |-> 1, nst |-> 1]
c_PDEC == [lst |-> 0, nst |-> 0]
c_NSTDELTAS == {-5, -3, -2, -1, 1}
=============================================================================
