-------------------------- MODULE Trace_OracleAdm --------------------------
(***************************************************************************)
(* Trace validation for the oracle admission family (C13).                 *)
(*                                                                         *)
(* Input: trace.ndjson written by `harness oracleadm` - one line per event *)
(* executed on the REAL application through ABCI (CheckTx / ReCheckTx /    *)
(* DeliverTx of real signed MsgCreatePrice transactions, EndBlock+Commit+  *)
(* BeginBlock): the event, its arguments, the response class (ok / ante /  *)
(* msg / panic, from the response code and log), the projection of the     *)
(* admission state after the event and digests of every module store       *)
(* (deliver state and check state) and of the oracle's in-memory state.    *)
(*                                                                         *)
(*   C13_..    property lane: TxTags of spec/OracleAdm.tla (the statement)  *)
(*             on OBSERVED pre/post states, digests and response classes.  *)
(*   C11_Halt  a panic escaped BeginBlock / EndBlock / Commit (or DeliverTx): *)
(*             the chain halts (property C11).                             *)
(*   STRICT_.. strict lane: observed post-state / response class differ    *)
(*             from Apply(pre, event, args) of the model (drift).          *)
(***************************************************************************)
EXTENDS OracleAdm, Json

Trace == ndJsonDeserialize("trace.ndjson")
Hdr   == Trace[1].cfg

t_VALS   == Range(Hdr.vals)
t_OTHERS == Range(Hdr.others)
t_POWER  == Hdr.power
t_FIDS   == 1..Cardinality(DOMAIN Hdr.feeders)
t_FEED   == [f \in t_FIDS |-> Hdr.feeders[ToString(f)]]
t_MAXNONCE == Hdr.maxNonce
t_MAXDETID == Hdr.maxDetID
t_THA    == Hdr.thA
t_THB    == Hdr.thB
t_DETS   == Range(Hdr.dets)
t_DEV    == Range(Hdr.dev)

VARIABLES l, S, G, D
vars == <<l, S, G, D>>

Key(v, f) == v \o "|" \o ToString(f)
SetOf(x) == Range(x)

NonceFrom(j) == [k \in NKeys |-> IF Key(k[1], k[2]) \in DOMAIN j THEN j[Key(k[1], k[2])] ELSE -1]
\* entries of the nonce store that belong to nobody the model knows (must never exist)
Alien(j) == Cardinality(DOMAIN j) # Cardinality({k \in NKeys : Key(k[1], k[2]) \in DOMAIN j})

WkFrom(w) ==
  [ex |-> TRUE, sealed |-> w.sealed,
   fnon |-> [v \in VALS |-> IF v \in DOMAIN w.fnon THEN SetOf(w.fnon[v]) ELSE {}],
   seen |-> [v \in VALS |-> IF (v \o "|1") \in DOMAIN w.seen THEN SetOf(w.seen[v \o "|1"]) ELSE {}],
   reps |-> SetOf(w.reps),
   cpow |-> [d \in DETS |-> IF d \in DOMAIN w.cpow THEN w.cpow[d] ELSE 0],
   conf |-> w.conf]

FromLog(j) ==
  [h      |-> j.h,
   vals   |-> SetOf(j.vals),
   out    |-> SetOf(j.out),
   ep     |-> j.ep,
   nonce  |-> NonceFrom(j.nonce),
   cnonce |-> NonceFrom(j.cnonce),
   rounds |-> [f \in FIDS |-> IF ToString(f) \in DOMAIN j.rounds
                              THEN [status |-> j.rounds[ToString(f)].status, base |-> j.rounds[ToString(f)].base]
                              ELSE NoRound],
   wk     |-> [f \in FIDS |-> IF ToString(f) \in DOMAIN j.wk THEN WkFrom(j.wk[ToString(f)]) ELSE NoWk]]

\* digests: nothing at all changed / nothing but nonce-store entries (and their in-memory mirror) changed
SameAll(d0, d1) == /\ d0.kv = d1.kv /\ d0.ora = d1.ora /\ d0.ckv = d1.ckv /\ d0.cora = d1.cora /\ d0.memFull = d1.memFull
SameButNonce(d0, d1) == /\ d0.kv = d1.kv /\ d0.oraRest = d1.oraRest /\ d0.ckv = d1.ckv /\ d0.coraRest = d1.coraRest /\ d0.mem = d1.mem

MaxPriority == "9223372036854775807"

StrictTx(pre, post, a, line) ==
  LET r == Apply(pre, "Tx", a) IN
  T(r.st = post, "STRICT_state_Tx_" \o a.mode) \cup
  T(r.res = line.res \/ (line.res = "panic" /\ r.res = "msg"), "STRICT_result_Tx_" \o a.mode) \cup
  \* the fee-less mechanism: gas limit 0 on an infinite meter, top priority
  (IF line.res = "ok" THEN T(line.gasWanted = 0, "STRICT_gasWanted") ELSE {}) \cup
  (IF line.res = "ok" /\ a.mode # "deliver" THEN T(line.priority = MaxPriority, "STRICT_priority") ELSE {})

Emit(ln, ev, tags) == tags = {} \/ PrintT("TAG " \o ToJson([l |-> ln, ev |-> ev, tags |-> tags]))

Init ==
  /\ l = 1 /\ S = InitState /\ G = ZeroG /\ D = [dg |-> [kv |-> ""], next |-> <<>>]

Next ==
  /\ l <= Len(Trace)
  /\ l' = l + 1
  /\ LET line == Trace[l] IN
     /\ D' = [dg |-> line.dg, next |-> line.st.next]
     /\ IF line.ev = "reset" THEN
          LET st == FromLog(line.st) IN
          /\ S' = st /\ G' = ZeroG
          /\ Emit(l, "reset", T(st = InitState, "STRICT_init") \cup T(~Alien(line.st.nonce), "C13_AlienNonceEntry"))
        ELSE IF line.ev = "Tx" THEN
          LET post == FromLog(line.st)
              a    == line.a
              same == [all |-> SameAll(D.dg, line.dg), butNonce |-> SameButNonce(D.dg, line.dg)]
              fin  == {f \in FIDS : line.st.next[ToString(f)] > D.next[ToString(f)]}
              tags == TxTags(S, post, a, line.res, G, same) \cup StrictTx(S, post, a, line) \cup
                      T(~Alien(line.st.nonce) /\ ~Alien(line.st.cnonce), "C13_AlienNonceEntry") \cup
                      T(~line.halt, "C11_Halt")
          IN /\ S' = post /\ G' = GStep(G, S, post, a, line.res, fin)
             /\ Emit(l, "Tx", tags)
        ELSE IF line.ev \in {"NextBlock", "Epoch", "ValOut"} THEN
          LET post == FromLog(line.st)
              r    == Apply(S, line.ev, line.a)
              tags == T(r.st = post, "STRICT_state_" \o line.ev) \cup T(r.res = line.res, "STRICT_result_" \o line.ev) \cup
                      T(~line.halt, "C11_Halt") \cup
                      T(~Alien(line.st.nonce) /\ ~Alien(line.st.cnonce), "C13_AlienNonceEntry")
          IN /\ S' = post /\ G' = (IF line.ev = "ValOut" THEN G ELSE GBlock(G))
             /\ Emit(l, line.ev, tags)
        ELSE
          \* events outside the model (validator-set experiments): bind to the observation, reset nothing
          /\ S' = FromLog(line.st) /\ G' = GBlock(G)

Spec == Init /\ [][Next]_vars

Consumed == TLCGet("stats").diameter - 1 = Len(Trace)
=============================================================================
