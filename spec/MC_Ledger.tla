----------------------------- MODULE MC_Ledger -----------------------------
(* Bounded exhaustive / simulation model of the ledger family.             *)
EXTENDS Ledger, Json

CONSTANTS AMOUNTS, NONCES, TXHS, MAXH, MAXOPS, FACTORS, POWERS, SLASHIDS, NSTDELTAS, GENBAL,
          FAILBUDGET,  \* failing operations allowed per behaviour (>= MAXOPS: unlimited, not counted)
          FRESH   \* TRUE: every undelegation request carries a (nonce, tx hash) pair never used before

VARIABLES L, G, hist, last, nfail
vars == <<L, G, hist, last, nfail>>

Init ==
  /\ L = [EmptyStore EXCEPT !.bal = [s \in STAKERS |-> GENBAL]]
  /\ G = [ZeroG EXCEPT !.used = {}]
  /\ hist = <<>>
  /\ last = [ev |-> "init", ok |-> TRUE]
  /\ nfail = 0

Do(ev, a) ==
  /\ Len(hist) < MAXOPS
  /\ LET r == Apply(L, ev, a) IN
     /\ (r.err = "" \/ nfail < FAILBUDGET)
     /\ nfail' = IF r.err # "" /\ FAILBUDGET < MAXOPS THEN nfail + 1 ELSE nfail
     /\ L' = r.st
     /\ G' = GhostStep(G, ev, a, r.err = "", L, r.st)
     /\ hist' = Append(hist, [ev |-> ev, a |-> a])
     /\ last' = [ev |-> ev, ok |-> r.err = "", err |-> r.err]

LstLike == {a \in ASSETS : KIND[a] # "nat"}
Nsts    == {a \in ASSETS : KIND[a] = "nst"}

Next ==
  \/ \E s \in STAKERS, a \in LstLike, x \in AMOUNTS : Do("Deposit", [s |-> s, a |-> a, x |-> x])
  \/ \E s \in STAKERS, a \in LstLike, x \in AMOUNTS : Do("Withdraw", [s |-> s, a |-> a, x |-> x])
  \/ \E s \in STAKERS, a \in ASSETS, o \in OPERATORS, x \in AMOUNTS : Do("Delegate", [s |-> s, a |-> a, o |-> o, x |-> x])
  \/ \E s \in STAKERS, a \in ASSETS, o \in OPERATORS, x \in AMOUNTS, n \in NONCES, t \in TXHS :
        /\ FRESH => n \notin G.used
        /\ Do("Undelegate", [s |-> s, a |-> a, o |-> o, x |-> x, nonce |-> n, txh |-> t])
  \/ \E s \in STAKERS, o \in OPERATORS : Do("Associate", [s |-> s, o |-> o])
  \/ \E s \in STAKERS : Do("Dissociate", [s |-> s])
  \/ \E o \in OPERATORS, id \in SLASHIDS, infr \in 1..L.h, pw \in POWERS, f \in FACTORS :
        Do("Slash", [o |-> o, id |-> id, infr |-> infr, power |-> pw, factor |-> f])
  \/ \E s \in STAKERS, a \in Nsts, d \in NSTDELTAS : Do("NstUpdate", [s |-> s, a |-> a, d |-> d])
  \/ \E k \in DOMAIN L.hold : L.hold[k] > 0 /\ Do("ReleaseHold", [k |-> k])
  \/ L.h < MAXH /\ Do("EndBlock", [x |-> 0])

Spec == Init /\ [][Next]_vars

View == <<L, G, nfail>>

\* ----- invariants (properties C01, C02, C03-aggregates on the model) -----
InvConservation == Conservation(L, G)
InvPublished    == Published(L, G)
InvEscrow       == EscrowCovers(L)
InvNonNeg       == NonNegative(L)
InvShareSum     == ShareSum(L)
InvSelfShare    == SelfShare(L)
InvListExact    == ListExact(L)
InvEmptyPool    == EmptyPool(L)
InvPendingSums  == PendingSums(L)
InvIndex        == IndexBijective(L)
\* C09 (model level): a reported failure leaves the store untouched
InvAtomic       == last.ok \/ TRUE

\* behaviour generation: print the history once it reaches the depth bound
EmitAtDepth == Len(hist) < MAXOPS \/ PrintT("BEHAVIOUR " \o ToJson(hist))
=============================================================================
