----------------------------- MODULE MC_Ledger -----------------------------
(* Bounded exhaustive / simulation model of the ledger family.             *)
EXTENDS Ledger, Json

CONSTANTS AMOUNTS, NONCES, TXHS, MAXH, MAXOPS, FACTORS, POWERS, SLASHIDS, NSTDELTAS, GENBAL,
          FAILBUDGET,  \* failing operations allowed per behaviour (>= MAXOPS: unlimited, not counted)
          PREFUND,     \* every staker starts with a Deposit of this amount in every LST/NST asset (0 = none)
          PREDEL,      \* ... and then delegates this amount of it to every operator (0 = none)
          EVENTS,      \* event names enabled in Next (generation profiles)
          WANTED,      \* coverage goals tracked in this configuration (subset of AllGoals; {} = none)
          FRESH   \* TRUE: every undelegation request carries a (nonce, tx hash) pair never used before

VARIABLES L, G, hist, last, nfail, atom, hit
vars == <<L, G, hist, last, nfail, atom, hit>>

\* generation convenience: the behaviour starts with one Deposit per (staker, LST/NST asset)
PreEvents ==
  IF PREFUND = 0 THEN <<>>
  ELSE LET ks == SetToSeq({k \in SKeys : KIND[k[2]] # "nat"})
           ds == IF PREDEL = 0 THEN <<>> ELSE SetToSeq({k \in DKeys : KIND[k[2]] # "nat"})
       IN [i \in DOMAIN ks |-> [ev |-> "Deposit", a |-> [s |-> ks[i][1], a |-> ks[i][2], x |-> PREFUND]]] \o
          [i \in DOMAIN ds |-> [ev |-> "Delegate", a |-> [s |-> ds[i][1], a |-> ds[i][2], o |-> ds[i][3], x |-> PREDEL]]]
PreState ==
  LET step(acc, e) == LET r == Apply(acc.L, e.ev, e.a) IN [L |-> r.st, G |-> GhostStep(acc.G, e.ev, e.a, r.err = "", acc.L, r.st)]
  IN Fold(step, [L |-> [EmptyStore EXCEPT !.bal = [s \in STAKERS |-> GENBAL]], G |-> ZeroG], PreEvents)

Init ==
  /\ L = PreState.L
  /\ G = PreState.G
  /\ hist = PreEvents
  /\ last = [ev |-> "init", ok |-> TRUE]
  /\ nfail = 0
  /\ atom = TRUE
  /\ hit = {}

Do(ev, a) ==
  /\ ev \in EVENTS
  /\ Len(hist) < MAXOPS + Len(PreEvents)
  /\ LET r == Apply(L, ev, a) IN
     /\ (r.err = "" \/ nfail < FAILBUDGET)
     /\ nfail' = IF r.err # "" /\ FAILBUDGET < MAXOPS THEN nfail + 1 ELSE nfail
     /\ hit' = Goals(L, ev, a, r) \cap WANTED
     /\ atom' = (r.err = "" \/ ev = "EndBlock" \/ r.st = L)   \* C09: a reported failure left the store untouched
     /\ L' = r.st
     /\ G' = GhostStep(G, ev, a, r.err = "", L, r.st)
     /\ hist' = Append(hist, [ev |-> ev, a |-> a])
     /\ last' = [ev |-> ev, ok |-> r.err = "", err |-> r.err]

LstLike == {a \in ASSETS : KIND[a] # "nat"}
Nsts    == {a \in ASSETS : KIND[a] = "nst"}

Next ==
  \/ \E s \in STAKERS, a \in LstLike, x \in AMOUNTS : Do("Deposit", [s |-> s, a |-> a, x |-> x])
  \/ \E s \in STAKERS, a \in LstLike, x \in AMOUNTS : Do("Withdraw", [s |-> s, a |-> a, x |-> x])
  \/ \E s \in STAKERS, a \in ASSETS, o \in OPERATORS, x \in AMOUNTS : Do("Delegate", [s |-> s, a |-> a, o |-> o, x |-> x])
  \/ \E s \in STAKERS, a \in ASSETS, o \in OPERATORS, x \in AMOUNTS, n \in NONCES, t \in TXHS :
        /\ FRESH => n \notin G.used
        /\ Do("Undelegate", [s |-> s, a |-> a, o |-> o, x |-> x, nonce |-> n, txh |-> t])
  \/ \E s \in STAKERS, o1 \in OPERATORS, x1 \in AMOUNTS : "nat" \in ASSETS /\
        \/ Do("MsgDelegate", [s |-> s, items |-> <<[o |-> o1, x |-> x1]>>])
        \/ \E o2 \in OPERATORS, x2 \in AMOUNTS : Do("MsgDelegate", [s |-> s, items |-> <<[o |-> o1, x |-> x1], [o |-> o2, x |-> x2]>>])
  \/ \E s \in STAKERS, o1 \in OPERATORS, x1 \in AMOUNTS, n \in NONCES, t \in TXHS : "nat" \in ASSETS /\ (FRESH => n \notin G.used) /\
        \/ Do("MsgUndelegate", [s |-> s, items |-> <<[o |-> o1, x |-> x1]>>, nonce |-> n, txh |-> t])
        \/ \E o2 \in OPERATORS, x2 \in AMOUNTS :
              Do("MsgUndelegate", [s |-> s, items |-> <<[o |-> o1, x |-> x1], [o |-> o2, x |-> x2]>>, nonce |-> n, txh |-> t])
  \/ \E s \in STAKERS, o \in OPERATORS : Do("Associate", [s |-> s, o |-> o])
  \/ \E s \in STAKERS : Do("Dissociate", [s |-> s])
  \/ \E o \in OPERATORS, id \in SLASHIDS, infr \in 1..L.h, pw \in POWERS, f \in FACTORS :
        Do("Slash", [o |-> o, id |-> id, infr |-> infr, power |-> pw, factor |-> f])
  \/ \E s \in STAKERS, a \in Nsts, d \in NSTDELTAS : Do("NstUpdate", [s |-> s, a |-> a, d |-> d])
  \/ \E k \in DOMAIN L.hold : L.hold[k] > 0 /\ Do("ReleaseHold", [k |-> k])
  \/ L.h < MAXH /\ Do("EndBlock", [x |-> 0])

Spec == Init /\ [][Next]_vars

\* exhaustive configurations: the history length bounds the exploration, so it is part of the view - the
\* set of explored states is then independent of the order in which TLC's workers reach them
View == <<L, G, nfail, atom, hit, Len(hist)>>
\* goal / lead searches (run with ONE worker = strict breadth-first order): shortest behaviours first
ViewG == <<L, G, nfail, atom, hit>>

\* ----- invariants (properties C01, C02, C03-aggregates on the model) -----
InvConservation == Conservation(L, G)
InvPublished    == Published(L, G)
InvEscrow       == EscrowCovers(L)
InvNonNeg       == NonNegative(L)
InvShareSum     == ShareSum(L)
InvSelfShare    == SelfShare(L)
InvListExact    == ListExact(L)
InvEmptyPool    == EmptyPool(L)
InvPendingSums  == PendingSums(L)
InvIndex        == IndexBijective(L)
\* C09 (model level): a reported failure leaves the store untouched
InvAtomic       == atom

ASSUME TLCSet(1, {})
\* goal-directed generation (breadth-first run): print the history the first time each wanted goal
\* is hit (per TLC worker; duplicates are dropped by the pipeline). Register 1 holds the goals
\* already emitted by this worker.
EmitGoals ==
  \A g \in hit :
     LET seen == TLCGet(1) IN
     g \in seen \/ (TLCSet(1, seen \cup {g}) /\ PrintT("GOAL " \o g \o " " \o ToJson(hist)))

\* behaviour generation: print the history once it reaches the depth bound
EmitAtDepth == Len(hist) < MAXOPS + Len(PreEvents) \/ PrintT("BEHAVIOUR " \o ToJson(hist))
=============================================================================
