SPECIFICATION Spec
CONSTANTS
  DEVS <- c_DEVS_NONE
  PREFIXES <- c_PREFIX_Q
  EVENTS <- c_ALLEPS
  MAXOPS = 3
  MAXEP = 9
  FAILBUDGET = 99
  COVER = FALSE
VIEW View
CHECK_DEADLOCK FALSE
INVARIANTS InvAtomic
