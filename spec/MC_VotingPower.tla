-------------------------- MODULE MC_VotingPower --------------------------
(* Bounded exhaustive / simulation model of the voting-power family (C05). *)
(* Pools move through the real ledger model (INSTANCE Ledger, prices bound  *)
(* to the current oracle state); values move through VotingPower.           *)
EXTENDS VotingPower, Json

CONSTANTS SORD, KIND, REGISTERED, UNBOND, HOLDOPS,          \* Ledger's remaining constants
          AMOUNTS, PRICES, PDECS, XFORMS, FACTORS, POWERS, SLASHIDS,
          GENPRICE, AVSINFO, PREDEP,
          UPDAVS, UPDLISTS, UPDMINS,   \* AVS info updates: which AVSs, which asset lists, which minimums
          PRELUDE,   \* events applied before the exploration starts (part of every behaviour)
          MAXOPS, FAILBUDGET, MAXEPOCH, EPOCHEVERY

VARIABLES L, V, hist, nfail, since
vars == <<L, V, hist, nfail, since>>

LG == INSTANCE Ledger WITH PRICE <- [a \in VASSETS |-> EffPrice(V, a).v],
                           PDEC  <- [a \in VASSETS |-> EffPrice(V, a).dec],
                           HOOKED <- TRUE

STK == {SORD[i] : i \in DOMAIN SORD}

InitL ==
  [LG!EmptyStore EXCEPT
     !.stk   = [k \in LG!SKeys |-> [ex |-> TRUE, dep |-> PREDEP, wd |-> PREDEP, pend |-> N0]],
     !.total = [a \in VASSETS |-> PREDEP * Cardinality(STK)]]

InitV ==
  [ opt      |-> [k \in OKeys |-> "none"],
    usd      |-> [k \in UKeys |-> ZeroUsd],
    avsusd   |-> [k \in AKeys |-> NoAvsUsd],
    price    |-> GENPRICE,
    avs      |-> AVSINFO,
    removing |-> {},
    ep       |-> [id \in DOMAIN DUR |-> [cur |-> 1, end |-> DUR[id]]],
    now      |-> 1 ]

\* the prelude is folded with the same operators the actions use
LGAt(l, v) == INSTANCE Ledger WITH PRICE <- [a \in VASSETS |-> EffPrice(v, a).v],
                                  PDEC  <- [a \in VASSETS |-> EffPrice(v, a).dec],
                                  HOOKED <- TRUE
PreStep(acc, e) ==
  IF e.ev \in LedgerEvents THEN [l |-> LGAt(acc.l, acc.v)!Apply(acc.l, e.ev, e.a).st, v |-> acc.v]
  ELSE IF e.ev = "EpochEnd" THEN [l |-> LGAt(acc.l, acc.v)!NextBlock(acc.l), v |-> VApply(acc.l.pool, acc.v, e.ev, e.a).V]
  ELSE [l |-> acc.l, v |-> VApply(acc.l.pool, acc.v, e.ev, e.a).V]
AfterPrelude == FoldLeft(PreStep, [l |-> InitL, v |-> InitV], PRELUDE)

Init == L = AfterPrelude.l /\ V = AfterPrelude.v /\ hist = PRELUDE /\ nfail = 0 /\ since = 0

Budget(err) ==
  /\ (err = "" \/ nfail < FAILBUDGET)
  /\ nfail' = IF err # "" /\ FAILBUDGET < MAXOPS THEN nfail + 1 ELSE nfail

DoL(ev, a) ==
  /\ Len(hist) < Len(PRELUDE) + MAXOPS /\ since < EPOCHEVERY
  /\ LET r == LG!Apply(L, ev, a) IN
     /\ Budget(r.err)
     /\ L' = r.st /\ V' = V
     /\ hist' = Append(hist, [ev |-> ev, a |-> a])
     /\ since' = IF EPOCHEVERY >= MAXOPS THEN 0 ELSE since + 1

DoV(ev, a) ==
  /\ Len(hist) < Len(PRELUDE) + MAXOPS /\ since < EPOCHEVERY
  /\ LET r == VApply(L.pool, V, ev, a) IN
     /\ Budget(r.err)
     /\ V' = r.V /\ L' = L
     /\ hist' = Append(hist, [ev |-> ev, a |-> a])
     /\ since' = IF EPOCHEVERY >= MAXOPS THEN 0 ELSE since + 1

DoEpoch(id) ==
  /\ Len(hist) < Len(PRELUDE) + MAXOPS /\ V.ep[id].cur < MAXEPOCH
  /\ V' = EpochEnd(L.pool, V, [id |-> id]).V
  /\ L' = LG!NextBlock(L)
  /\ hist' = Append(hist, [ev |-> "EpochEnd", a |-> [id |-> id]])
  /\ nfail' = nfail /\ since' = 0

Next ==
  \/ \E s \in STK, a \in VASSETS, o \in VOPS, x \in AMOUNTS : DoL("Delegate", [s |-> s, a |-> a, o |-> o, x |-> x])
  \/ \E s \in STK, a \in VASSETS, o \in VOPS, x \in AMOUNTS :
        DoL("Undelegate", [s |-> s, a |-> a, o |-> o, x |-> x, nonce |-> Len(hist) + 1, txh |-> "t1"])
  \/ \E s \in STK, o \in VOPS : DoL("Associate", [s |-> s, o |-> o])
  \/ \E s \in STK : DoL("Dissociate", [s |-> s])
  \/ \E o \in VOPS, id \in SLASHIDS, pw \in POWERS, f \in FACTORS :
        DoL("Slash", [o |-> o, id |-> id, infr |-> L.h, power |-> pw, factor |-> f])
  \/ \E o \in VOPS, x \in AVSS, f \in XFORMS : DoV("OptIn", [o |-> o, avs |-> x, form |-> f])
  \/ \E o \in VOPS, x \in AVSS, f \in XFORMS : DoV("OptOut", [o |-> o, avs |-> x, form |-> f])
  \/ \E o \in V.removing : DoV("KeyRemovalDone", [o |-> o])
  \/ \E a \in VASSETS, p \in PRICES, pd \in PDECS : DoV("SetPrice", [a |-> a, p |-> p, pd |-> pd])
  \/ \E x \in UPDAVS, ls \in UPDLISTS, m \in UPDMINS : DoV("UpdateAvs", [avs |-> x, minSelf |-> m, assets |-> ls])
  \/ \E i \in DOMAIN EIDS : DoEpoch(EIDS[i])

Spec == Init /\ [][Next]_vars

View == <<L, V, nfail, since>>

\* ----- C05 on the model -----
\* whichever identifier's epoch ends next, the state after the hook satisfies C05 for every AVS it obliges
InvC05 ==
  \A i \in DOMAIN EIDS :
     LET v2 == BeginBlock(L.pool, V, TickTime(V, EIDS[i])) IN EpochEndOK(L.pool, v2, DueBetween(V, v2))
InvNonNeg     == VNonNegative(V)
InvNotOptedIn == NotOptedInNothing(V)
\* the hook never fails in reachable states (TokensFromShares cannot err on a consistent ledger)
InvHookNeverFails ==
  \A x \in AVSS, o \in VOPS : StakingInfo(L.pool, V, o, V.avs[x].assets).err = ""

\* behaviour generation: print the history once it reaches the depth bound
EmitAtDepth == Len(hist) < Len(PRELUDE) + MAXOPS \/ PrintT("BEHAVIOUR " \o ToJson(hist))
=============================================================================
