---------------------------- MODULE VotingPower ----------------------------
(***************************************************************************)
(* Voting power of exocore (property C05): the USD-value stores of          *)
(* x/operator and everything that writes them.                              *)
(*                                                                         *)
(*   x/operator/keeper/common_func.go   CalculateUSDValue                   *)
(*   x/operator/keeper/usd_value.go     CalculateUSDValueForOperator (the   *)
(*        non-slash branch), Init/Delete/GetOperatorOptedUSDValue,          *)
(*        IterateOperatorsForAVS, SetAVSUSDValue, GetVotePowerForChainID    *)
(*   x/operator/keeper/abci.go          UpdateVotingPower                   *)
(*   x/operator/keeper/impl_epoch_hook.go AfterEpochEnd                     *)
(*   x/operator/keeper/opt.go + msg_server.go  OptIn / OptOut (message path,*)
(*        cached), consensus-key removal marker of the chain AVS            *)
(*   x/avs/keeper/avs.go                GetEpochEndAVSs, supported assets,  *)
(*        minimum self delegation                                           *)
(*   x/oracle/keeper/prices.go          GetMultipleAssetsPrices: latest     *)
(*        stored round, default price 1 / decimal 0 when there is none      *)
(*   x/epochs/keeper/abci.go            BeginBlocker (one tick per          *)
(*        identifier per block, hook before the counter moves)              *)
(*   x/delegation/keeper/share.go       TokensFromShares                    *)
(*                                                                         *)
(* Style: the pools P (x/assets operator pools, owned by the ledger family) *)
(* and the voting-power store V are VALUES; every entry point is a function *)
(* Op(P, V, a) -> [V |-> store after, err |-> "" or an error tag].          *)
(*                                                                         *)
(* Keys are STRINGS in the code: the per-(AVS, operator) value lives under  *)
(* avsAddr + "/" + operator, while the AVS registry resolves an address     *)
(* through HexToAddress (any letter case).  The store is therefore keyed by *)
(* (avs, form, operator): form = "canon" is the string stored in the AVS    *)
(* info (the one GetEpochEndAVSs hands to UpdateVotingPower), form = "alt"  *)
(* the same address in the other letter case.  Since fix 3eab997 OptIn and *)
(* OptOut replace the caller's spelling by the stored one                   *)
(* (avs.GetStoredAVSAddress), so every record they write is "canon"; the    *)
(* constant KEYBYSENT = TRUE restores the behaviour before the fix (records *)
(* keyed by the spelling as sent) - it is only used by the guard            *)
(* configuration MC_VotingPower_dev, which must make InvC05 fail.           *)
(***************************************************************************)
EXTENDS Num, Sequences, FiniteSets, TLC, SequencesExt, FiniteSetsExt, Folds

CONSTANTS
  OORD,     \* sequence of operator ids in store-key order
  AORD,     \* sequence of asset ids in store-key order
  AVSORD,   \* sequence of AVS ids
  EIDS,     \* sequence of the epoch identifiers that matter, in store-key order
  DUR,      \* [identifier -> duration in seconds]
  PREC,     \* LegacyDec unit (10^18 in the code)
  DECI,     \* [asset -> decimals]
  KEYBYSENT \* FALSE: the tree with fix 3eab997; TRUE: the defect F-C05-avs-address-case seeded back

VOPS    == {OORD[i] : i \in DOMAIN OORD}
VASSETS == {AORD[i] : i \in DOMAIN AORD}
AVSS    == {AVSORD[i] : i \in DOMAIN AVSORD}
FORMS   == {"canon", "alt"}

VOk(v)      == [V |-> v, err |-> ""]
VFail(v, e) == [V |-> v, err |-> e]

VFold(f(_, _), acc, s) == FoldLeft(f, acc, s)
VSum(S, f(_)) == MapThenFoldSet(LAMBDA x, y : NAdd(x, y), N0, f, LAMBDA T : CHOOSE x \in T : TRUE, S)

(***************************************************************************)
(* The store                                                               *)
(***************************************************************************)
OKeys == VOPS \X AVSS \X FORMS        \* operator + "/" + avsAddr   (opted info)
UKeys == AVSS \X FORMS \X VOPS        \* avsAddr + "/" + operator   (USD value)
AKeys == AVSS \X FORMS                \* avsAddr                    (AVS USD value)

ZeroUsd == [ex |-> FALSE, self |-> N0, total |-> N0, active |-> N0]
InitUsd == [ex |-> TRUE, self |-> N0, total |-> N0, active |-> N0]
NoAvsUsd == [ex |-> FALSE, v |-> N0]

\* V.opt[k]      "none" | "in" | "out"          (OptedInfo absent / OptedOutHeight = default / set)
\* V.usd[k]      [ex, self, total, active]      (OperatorOptedUSDValue)
\* V.avsusd[k]   [ex, v]
\* V.price[a]    [valid, v, dec]                latest stored price round (valid: found and numeric)
\* V.avs[x]      [ex, assets, minSelf, epoch, start, chain]
\* V.removing    operators with the consensus-key removal marker of the chain AVS
\* V.ep[id]      [cur, end]                     current epoch number, end time (s) of the current epoch
\* V.now         block time (s)

(***************************************************************************)
(* prices: GetMultipleAssetsPrices                                          *)
(***************************************************************************)
PriceMissing(V, a) == ~(V.price[a].valid /\ NIsPos(V.price[a].v))
EffPrice(V, a) == IF PriceMissing(V, a) THEN [v |-> N1, dec |-> 0]
                  ELSE [v |-> V.price[a].v, dec |-> V.price[a].dec]

(***************************************************************************)
(* common_func.go: CalculateUSDValue                                        *)
(*   LegacyNewDecFromBigInt(amount*price).QuoInt(10^(dec+pdec))             *)
(***************************************************************************)
USD(amount, price, dec, pdec) == DecQuoInt(DecFromInt(NMul(amount, price), PREC), NPow10(dec + pdec))

\* cosmossdk.io/math panics with "Int overflow": Int.Mul above 256 bits, LegacyDec.MulInt / Add above
\* 315 bits (lead L23: inside the epoch hook such a panic halts the chain)
IntMulPanics(a, b) == NBitLen(NMul(a, b)) > 256
DecPanics(d)       == NBitLen(d) > 315

(***************************************************************************)
(* x/delegation/keeper/share.go: TokensFromShares                           *)
(***************************************************************************)
VTokensFromShares(sh, tsh, amt) ==
  IF NGt(sh, tsh) THEN [v |-> N0, err |-> "ErrInsufficientShares"] ELSE
  IF NIsZero(tsh) THEN (IF NIsZero(amt) THEN [v |-> N0, err |-> ""] ELSE [v |-> N0, err |-> "ErrDivisorIsZero"]) ELSE
  IF DecPanics(DecMulInt(sh, amt)) THEN [v |-> N0, err |-> "PANIC"] ELSE
  [v |-> DecTruncInt(DecQuo(DecMulInt(sh, amt), tsh, PREC), PREC), err |-> ""]

(***************************************************************************)
(* usd_value.go: CalculateUSDValueForOperator(isForSlash = false)           *)
(* iterates the operator's EXISTING pools in key order, filtered by assets  *)
(***************************************************************************)
StakingInfo(P, V, o, assets) ==
  LET step(acc, a) ==
        IF acc.err # "" THEN acc ELSE
        IF a \notin assets \/ ~P[<<o, a>>].ex THEN acc ELSE
        LET p  == P[<<o, a>>]
            pr == EffPrice(V, a) IN
        IF IntMulPanics(p.amt, pr.v) THEN [acc EXCEPT !.err = "PANIC"] ELSE
        LET tot == NAdd(acc.total, USD(p.amt, pr.v, DECI[a], pr.dec)) IN
        IF DecPanics(tot) THEN [acc EXCEPT !.err = "PANIC"] ELSE
        LET te == VTokensFromShares(p.osh, p.tsh, p.amt) IN
        IF te.err # "" THEN [acc EXCEPT !.err = te.err] ELSE
        [total |-> tot, self |-> NAdd(acc.self, USD(te.v, pr.v, DECI[a], pr.dec)), err |-> ""]
  IN VFold(step, [total |-> N0, self |-> N0, err |-> ""], AORD)

MinSelfDec(V, x) == DecFromInt(V.avs[x].minSelf, PREC)

(***************************************************************************)
(* abci.go: UpdateVotingPower(avs) - inside one cache context               *)
(* the iteration prefix is the STORED address + "/": form "canon" only      *)
(***************************************************************************)
UpdateVotingPower(P, V, x) ==
  LET info == V.avs[x]
      min  == MinSelfDec(V, x)
      step(acc, o) ==
        IF acc.err # "" THEN acc ELSE
        IF ~acc.usd[<<x, "canon", o>>].ex THEN acc ELSE
        LET si == StakingInfo(P, V, o, info.assets) IN
        IF si.err # "" THEN [acc EXCEPT !.err = si.err] ELSE
        LET meets == NGe(si.self, min) IN
        [usd |-> [acc.usd EXCEPT ![<<x, "canon", o>>] =
                    [ex |-> TRUE, self |-> si.self, total |-> si.total, active |-> IF meets THEN si.total ELSE N0]],
         sum |-> IF meets THEN NAdd(acc.sum, si.total) ELSE acc.sum, err |-> ""]
      r == VFold(step, [usd |-> V.usd, sum |-> N0, err |-> ""], OORD)
  IN IF r.err # "" THEN V      \* cache context dropped, the hook logs the error and goes on
     ELSE [V EXCEPT !.usd = r.usd, !.avsusd[<<x, "canon">>] = [ex |-> TRUE, v |-> r.sum]]

(***************************************************************************)
(* impl_epoch_hook.go: AfterEpochEnd(id, n) + avs.go: GetEpochEndAVSs       *)
(***************************************************************************)
DueAVSs(V, id, n) == {x \in AVSS : V.avs[x].ex /\ V.avs[x].epoch = id /\ n >= V.avs[x].start - 1}

AfterEpochEnd(P, V, id, n) ==
  VFold(LAMBDA v, x : IF x \in DueAVSs(V, id, n) THEN UpdateVotingPower(P, v, x) ELSE v, V, AVSORD)

(***************************************************************************)
(* x/epochs BeginBlocker at block time t: every identifier whose current    *)
(* epoch ended before t ticks ONCE (hook first, then the counter)           *)
(***************************************************************************)
BeginBlock(P, V, t) ==
  LET step(v, id) ==
        IF v.ep[id].end < t
        THEN LET v2 == AfterEpochEnd(P, v, id, v.ep[id].cur)
             IN [v2 EXCEPT !.ep[id] = [cur |-> v.ep[id].cur + 1, end |-> v.ep[id].end + DUR[id]]]
        ELSE v
  IN VFold(step, [V EXCEPT !.now = t], EIDS)

\* the block time the driver chooses to end the current epoch of identifier x
TickTime(V, x) == (IF V.ep[x].end > V.now THEN V.ep[x].end ELSE V.now) + 1

(***************************************************************************)
(* opt.go: OptIn through msg_server.go: OptIntoAVS (one cache context)      *)
(*   a = [o, avs, form]                                                     *)
(***************************************************************************)
KeyForm(a) == IF KEYBYSENT THEN a.form ELSE "canon"    \* opt.go: avsAddr = GetStoredAVSAddress(avsAddr)

OptIn(P, V, a) ==
  LET x == a.avs  ok == <<a.o, a.avs, KeyForm(a)>>  uk == <<a.avs, KeyForm(a), a.o>> IN
  IF ~V.avs[x].ex THEN VFail(V, "ErrNoSuchAvs") ELSE
  IF V.opt[ok] = "in" THEN VFail(V, "ErrAlreadyOptedIn") ELSE
  \* GetOrCalculateOperatorUSDValues: a missing price round is an ERROR here (not in the epoch hook)
  IF \E s \in V.avs[x].assets : PriceMissing(V, s) THEN VFail(V, "ErrGetPriceRoundNotFound") ELSE
  LET si == StakingInfo(P, V, a.o, V.avs[x].assets) IN
  IF si.err # "" THEN VFail(V, si.err) ELSE
  IF NLt(si.self, MinSelfDec(V, x)) THEN VFail(V, "ErrMinDelegationNotMet") ELSE
  IF V.usd[uk].ex THEN VFail(V, "ErrKeyAlreadyExist") ELSE
  \* chain AVS: SetOperatorConsKeyForChainID with a fresh key (never in use)
  IF V.avs[x].chain /\ a.o \in V.removing THEN VFail(V, "ErrAlreadyRemovingKey") ELSE
  VOk([V EXCEPT !.usd[uk] = InitUsd, !.opt[ok] = "in"])

(***************************************************************************)
(* opt.go: OptOut through msg_server.go: OptOutOfAVS                        *)
(***************************************************************************)
OptOut(V, a) ==
  LET x == a.avs  ok == <<a.o, a.avs, KeyForm(a)>>  uk == <<a.avs, KeyForm(a), a.o>> IN
  IF ~V.avs[x].ex THEN VFail(V, "ErrNoSuchAvs") ELSE
  IF V.opt[ok] # "in" THEN VFail(V, "ErrNotOptedIn") ELSE
  VOk([V EXCEPT !.usd[uk] = ZeroUsd, !.opt[ok] = "out",
                !.removing = IF V.avs[x].chain THEN @ \cup {a.o} ELSE @])

\* consensus_keys.go: CompleteOperatorKeyRemovalForChainID (dogfood does it when the opt-out matures)
KeyRemovalDone(V, a) ==
  IF a.o \notin V.removing THEN VFail(V, "ErrOperatorNotRemovingKey")
  ELSE VOk([V EXCEPT !.removing = @ \ {a.o}])

\* a new latest price round (how rounds come about is C12's business)   a = [a, p, pd]
SetPrice(V, a) == VOk([V EXCEPT !.price[a.a] = [valid |-> TRUE, v |-> NC(a.p), dec |-> a.pd]])

\* a panic inside the operator epoch hook is not recovered by BeginBlock: the block (and the chain)
\* stops, nothing of it is written
HookPanics(P, V, t) ==
  \E i \in DOMAIN EIDS : LET id == EIDS[i] IN
     /\ V.ep[id].end < t
     /\ \E x \in DueAVSs(V, id, V.ep[id].cur), o \in VOPS :
           V.usd[<<x, "canon", o>>].ex /\ StakingInfo(P, V, o, V.avs[x].assets).err = "PANIC"

EpochEnd(P, V, a) ==
  LET t == TickTime(V, a.id) IN
  IF HookPanics(P, V, t) THEN VFail([V EXCEPT !.now = t], "PANIC") ELSE VOk(BeginBlock(P, V, t))

\* x/avs/keeper/keeper.go: UpdateAVSInfo(UpdateAction)   a = [avs, minSelf, assets (a set)]
\* new asset list and minimum; the starting epoch is reset to the epoch after the current one
UpdateAvs(V, a) ==
  IF ~V.avs[a.avs].ex THEN VFail(V, "ErrUnregisterNonExistent") ELSE
  LET info == V.avs[a.avs] IN
  VOk([V EXCEPT !.avs[a.avs] = [info EXCEPT !.assets = a.assets, !.minSelf = NC(a.minSelf),
                                             !.start = V.ep[info.epoch].cur + 1]])

LedgerEvents == {"Deposit", "Withdraw", "Delegate", "Undelegate", "Associate", "Dissociate", "Slash"}

\* entry points by event name; ledger events do not touch V
VApply(P, V, ev, a) ==
  CASE ev = "OptIn"          -> OptIn(P, V, a)
    [] ev = "OptOut"         -> OptOut(V, a)
    [] ev = "KeyRemovalDone" -> KeyRemovalDone(V, a)
    [] ev = "SetPrice"       -> SetPrice(V, a)
    [] ev = "EpochEnd"       -> EpochEnd(P, V, a)
    [] ev = "UpdateAvs"      -> UpdateAvs(V, a)
    [] OTHER                 -> VOk(V)

(***************************************************************************)
(* PROPERTY C05, written from the statement (not from the code):            *)
(*  total  = SUM over the AVS's assets of amount x price / 10^(dec + pdec)   *)
(*  self   = the same formula on the token equivalent of the self share     *)
(*  active = total if self >= minimum self delegation, else 0               *)
(*  AVS    = SUM of the active values of the opted-in operators             *)
(* Where the statement leaves rounding open the check accepts 1 unit of the *)
(* last decimal place (1/PREC) per summand, and any integer between floor   *)
(* and ceiling of osh * amt / tsh as the token equivalent.                  *)
(***************************************************************************)
\* floor(amount * price * PREC / 10^(dec+pdec)) in units of 1/PREC
FloorUSD(amount, pr, a) == NQuo(NMul(NMul(amount, pr.v), PREC), NPow10(DECI[a] + pr.dec))

Summands(P, V, o, x) == {a \in V.avs[x].assets : P[<<o, a>>].ex}

TotalLo(P, V, o, x) == VSum(Summands(P, V, o, x), LAMBDA a : FloorUSD(P[<<o, a>>].amt, EffPrice(V, a), a))

TokLo(p) == IF NIsZero(p.tsh) THEN N0 ELSE NQuo(NMul(p.osh, p.amt), p.tsh)
TokHi(p) == IF NIsZero(p.tsh) THEN N0 ELSE
            IF NIsZero(NRem(NMul(p.osh, p.amt), p.tsh)) THEN TokLo(p) ELSE NAdd(TokLo(p), 1)
SelfLo(P, V, o, x) == VSum(Summands(P, V, o, x), LAMBDA a : FloorUSD(TokLo(P[<<o, a>>]), EffPrice(V, a), a))
SelfHi(P, V, o, x) == VSum(Summands(P, V, o, x), LAMBDA a : FloorUSD(TokHi(P[<<o, a>>]), EffPrice(V, a), a))

Within(v, lo, hi, n) == NGe(v, NSub(lo, n)) /\ NLe(v, NAdd(hi, n))

TotalOK(P, V, o, x, e)  == LET n == Cardinality(Summands(P, V, o, x)) t == TotalLo(P, V, o, x) IN Within(e.total, t, t, n)
SelfOK(P, V, o, x, e)   == LET n == Cardinality(Summands(P, V, o, x)) IN Within(e.self, SelfLo(P, V, o, x), SelfHi(P, V, o, x), n)
ActiveOK(V, x, e)       == IF NGe(e.self, MinSelfDec(V, x)) THEN NEq(e.active, e.total) ELSE NIsZero(e.active)

OptedForms(V, o, x) == {f \in FORMS : V.opt[<<o, x, f>>] = "in"}
OptedIn(V, o, x)    == OptedForms(V, o, x) # {}

\* the active value recorded for operator o of AVS x (under whichever spelling it opted in with)
RecordedActive(V, o, x) == VSum(OptedForms(V, o, x), LAMBDA f : V.usd[<<x, f, o>>].active)

AvsValueOK(V, x) ==
  /\ V.avsusd[<<x, "canon">>].ex
  /\ NEq(V.avsusd[<<x, "canon">>].v, VSum({o \in VOPS : OptedIn(V, o, x)}, LAMBDA o : RecordedActive(V, o, x)))

\* values exist only for opted-in operators (at all times)
NotOptedInNothing(V) ==
  \A k \in UKeys : V.opt[<<k[3], k[1], k[2]>>] # "in" =>
      (~V.usd[k].ex \/ (NIsZero(V.usd[k].self) /\ NIsZero(V.usd[k].total) /\ NIsZero(V.usd[k].active)))

VNonNegative(V) ==
  /\ \A k \in UKeys : ~NIsNeg(V.usd[k].self) /\ ~NIsNeg(V.usd[k].total) /\ ~NIsNeg(V.usd[k].active)
  /\ \A k \in AKeys : ~NIsNeg(V.avsusd[k].v)

\* the per-operator violations of AVS x in state (P, V): set of [avs, o, form, what]
OperatorViolations(P, V, x) ==
  UNION {
    LET e == V.usd[<<x, f, o>>] IN
    (IF ~e.ex THEN {[avs |-> x, o |-> o, form |-> f, what |-> "Missing"]} ELSE {}) \cup
    (IF e.ex /\ ~TotalOK(P, V, o, x, e) THEN {[avs |-> x, o |-> o, form |-> f, what |-> "Total"]} ELSE {}) \cup
    (IF e.ex /\ ~SelfOK(P, V, o, x, e) THEN {[avs |-> x, o |-> o, form |-> f, what |-> "Self"]} ELSE {}) \cup
    (IF e.ex /\ ~ActiveOK(V, x, e) THEN {[avs |-> x, o |-> o, form |-> f, what |-> "Active"]} ELSE {})
    : <<o, f>> \in {k \in VOPS \X FORMS : V.opt[<<k[1], x, k[2]>>] = "in"} }

\* C05 at the end of an epoch for the set `due` of AVSs whose epoch just ended
EpochEndOK(P, V, due) == \A x \in due : OperatorViolations(P, V, x) = {} /\ AvsValueOK(V, x)

\* which AVSs an observed BeginBlock pre -> post obliges: identifier ticked and n >= start - 1
Ticked(pre, post) == {id \in DOMAIN pre.ep : post.ep[id].cur # pre.ep[id].cur}
DueBetween(pre, post) == UNION {DueAVSs(pre, id, pre.ep[id].cur) : id \in Ticked(pre, post)}
=============================================================================
