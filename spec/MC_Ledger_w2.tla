---------------------------- MODULE MC_Ledger_w2 ----------------------------
EXTENDS MC_Ledger
c_SORD == <<"s1", "s2", "s3">>
c_OORD == <<"o1", "o2", "o3">>
c_AORD == <<"nat", "lst", "nst">>
c_KIND == [lst |-> "lst", nst |-> "nst", nat |-> "nat"]
c_DECI == [lst |-> 0, nst |-> 0, nat |-> 0]
c_PRICE == [lst |-> 1, nst |-> 1, nat |-> 1]
c_PDEC == [lst |-> 0, nst |-> 0, nat |-> 0]
c_NSTDELTAS == {-7, -3, -1, 2}
=============================================================================
