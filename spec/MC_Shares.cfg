SPECIFICATION Spec
CONSTANTS
  SORD <- c_SORD
  OORD <- c_OORD
  AORD <- c_AORD
  KIND <- c_KIND
  DECI <- c_DECI
  PRICE <- c_PRICE
  PDEC <- c_PDEC
  REGISTERED = {"lst"}
  PREC = 10
  UNBOND = 1
  HOLDOPS = {}
  HOOKED = TRUE
  TMAX = 12
  XMAX = 12
  SMAX = 240
INVARIANTS DelegateRoundTrip DelegateFair UndelegateExact AcceptWithinPosition Monotone
CHECK_DEADLOCK FALSE
