----------------------------- MODULE MC_EvmTx -----------------------------
(***************************************************************************)
(* Bounded exhaustive / simulation model of the evmtx family (C19).         *)
(*                                                                         *)
(* A transaction is chosen by CLASSES (relations to the current state:      *)
(* price below/at/above the floor, value above the balance, nonce ahead,    *)
(* ...); AbsTx turns the classes into small abstract numbers for the        *)
(* exhaustive run, the harness turns the same classes into concrete         *)
(* signed transactions against the real state.  AbsOut is the abstract      *)
(* stand-in for the EVM (gas consumed, vm error) of the fixture contracts.  *)
(***************************************************************************)
EXTENDS EvmTx, Json

CONSTANTS
  SENDERS, TARGETS, TYPES,
  PCS_N, PCS_X,      \* price classes: normal / exceptional
  TIPS_N, TIPS_X,    \* tip classes of dynamic-fee txs
  GLS_N, GLS_X,      \* gas limit classes
  VCS_N, VCS_X,      \* value classes
  NCS_X,             \* exceptional nonce classes ("ok" is the normal one)
  MAXEXC,            \* 0: no exceptional field, 1: at most one exceptional field per tx, 2: any combination
  MAXTX,             \* transactions per block
  MAXBLOCKS,         \* NewBlock events per behaviour
  MAXOPS,            \* events per behaviour
  GENBAL,            \* initial balance of every account
  BFS,               \* base fees a block may have
  BATCH,             \* "no": no multi-message txs; "first": a two-message Cosmos tx may open a behaviour; "block": may open any block
  WCS,               \* word classes of calls to the storage fixture: "zero" (clear), "same", "new" (another non-zero value)
  OPS,               \* restaking operations sent through gw / w: "dep", "dlg", "und", and "dlgx"/"undx" (amount above what is available)
  GEN                \* TRUE: random choice of every field (behaviour generation by -simulate)

VARIABLES st, hist, ntx, nblk, last
\* last: the transaction and result of the latest Tx step (observation only, hidden by the VIEW)
vars == <<st, hist, ntx, nblk, last>>

INTR == 21
CALLCOST == 9
\* abstract gas schedule of the storage fixture (same shape as the real one: set > reset > cold > noop, clear < reset)
c_FIX == [exec |-> 3, cold |-> 2, noop |-> 1, set |-> 8, reset |-> 4, clear |-> 3, quot |-> 5]

ModesOf(to) ==
  IF to \in ACCTS THEN {"ok"}
  ELSE IF to = "c" THEN {"ok", "rev", "oog"}
  ELSE IF to \in {"new", "newp"} THEN {"ok", "rev", "oog"}
  ELSE IF to = "gw" THEN {"ok", "rev"}
  ELSE IF to = "w" THEN {"ok", "irev"}
  ELSE {"ok"}

Floor(s) == NMax(s.bf, (MINGP + PREC - 1) \div PREC)

AbsWord(s, k) ==
  IF k.to # "c" THEN 7
  ELSE CASE k.wc = "zero" -> 0 [] k.wc = "same" -> s.stor["c"] [] k.wc = "new" -> (IF s.stor["c"] = 1 THEN 2 ELSE 1)

\* classes -> abstract transaction on state s
AbsTx(s, k) ==
  LET bal == s.bal[k.s]
      gas == CASE k.gl = "lo" -> INTR - 1 [] k.gl = "intr" -> INTR [] k.gl = "mid" -> INTR + 5
               [] k.gl = "big" -> 100 [] k.gl = "large" -> 60 [] k.gl = "huge" -> BLOCKGAS + 1
               \* "fit": just what a successful execution needs (the minimum-gas floor does not bind)
               [] k.gl = "fit" -> IF k.to = "c" THEN CRaw(s, [intr |-> INTR, ty |-> k.ty, word |-> AbsWord(s, k)])
                                  ELSE IF k.to \in ACCTS THEN INTR ELSE INTR + CALLCOST
      f   == Floor(s)
      price == CASE k.pc = "below" -> (IF f > 0 THEN f - 1 ELSE 0) [] k.pc = "at" -> f [] k.pc = "above" -> f + 1
                 [] k.pc = "rich" -> bal \div gas + 1
      tip == IF k.ty # "dyn" THEN price
             ELSE CASE k.tc = "zero" -> 0 [] k.tc = "one" -> 1 [] k.tc = "cap" -> price [] k.tc = "over" -> price + 1
      t0  == [s |-> k.s, to |-> k.to, ty |-> k.ty, gas |-> gas, price |-> price, tip |-> tip, value |-> 0,
              nonce |-> 0, intr |-> INTR, mode |-> k.mode, word |-> AbsWord(s, k),
              op |-> IF k.op \in {"dlg", "dlgx"} THEN "dlg" ELSE IF k.op \in {"und", "undx"} THEN "und" ELSE "dep",
              amt |-> CASE k.op = "dep" -> 2 [] k.op = "dlg" -> 1 [] k.op = "und" -> 1
                        [] k.op = "dlgx" -> s.wd[k.s] + 1 [] k.op = "undx" -> s.dl[k.s] + 1]
      fee == Fee(t0, s.bf)
      value == CASE k.vc = "zero" -> 0 [] k.vc = "one" -> 1 [] k.vc = "over" -> bal + 1
                 [] k.vc = "split" -> (IF bal >= fee THEN bal - fee + 1 ELSE bal)
      n   == s.nonce[k.s]
      nonce == CASE k.nc = "ok" -> n [] k.nc = "ahead" -> n + 1 [] k.nc = "behind" -> (IF n > 0 THEN n - 1 ELSE n + 2)
  IN [t0 EXCEPT !.value = value, !.nonce = nonce]

\* abstract EVM: gas consumed and vm error of executing t (after a successful ante handler) on s
AbsOut(s, t) ==
  LET need == IF t.to \in ACCTS THEN t.intr ELSE IF t.to = "c" THEN CRaw(s, t) ELSE t.intr + CALLCOST
      poor == NLt(NSub(s.bal[t.s], Fee(t, s.bf)), t.value)     \* core.CanTransfer fails inside evm.Call
  IN IF poor /\ NIsPos(t.value) THEN [gasEvm |-> t.intr, vmfail |-> TRUE, gasRej |-> 0, wflag |-> 0, inner |-> FALSE]
     ELSE IF t.mode = "oog" \/ t.gas < need THEN [gasEvm |-> t.gas, vmfail |-> TRUE, gasRej |-> 0, wflag |-> 0, inner |-> FALSE]
     ELSE IF t.mode = "rev" THEN [gasEvm |-> need - 3, vmfail |-> TRUE, gasRej |-> 0, wflag |-> 0, inner |-> FALSE]
     ELSE [gasEvm |-> need, vmfail |-> FALSE, gasRej |-> 0, wflag |-> 0, inner |-> FALSE]

\* the EVM-internal facts of the wrapper fixture: the gateway frame reverts exactly in mode "irev", and its
\* precompile call succeeds
WithW(t, x) == [x EXCEPT !.wflag = IF t.mode = "irev" THEN 1 ELSE 2, !.inner = (t.mode = "irev")]

Init ==
  /\ st = [nonce |-> [a \in ACCTS |-> 0], bal |-> [p \in Parties |-> IF p \in ACCTS THEN GENBAL ELSE 0],
           fc |-> 0, sink |-> 0, bg |-> 0, bf |-> CHOOSE b \in BFS : \A c \in BFS : b <= c,
           stor |-> [c \in {"c", "w", "w1"} |-> 0], dep |-> 0,
           wd |-> [a \in ACCTS |-> 0], dl |-> [a \in ACCTS |-> 0], avs |-> 0]
  /\ hist = <<>>
  /\ ntx = 0
  /\ nblk = 0
  /\ last = [ev |-> "init"]

\* choice: exhaustive (\E) or random (behaviour generation)
Choose(S, P(_)) == IF GEN THEN (S # {} /\ P(RandomElement(S))) ELSE \E x \in S : P(x)
\* weighted choice for generation (repeated entries), plain \E over the entries otherwise
ChooseW(q, P(_)) == IF GEN THEN P(q[RandomElement(1..Len(q))]) ELSE \E x \in ToSet(q) : P(x)

DoTx(k) ==
  LET t == AbsTx(st, k)
      x == WithW(t, AbsOut(st, t))
      r == Deliver(st, t, x)
  IN /\ st' = r.st
     /\ hist' = Append(hist, [ev |-> "Tx", a |-> k])
     /\ ntx' = ntx + 1
     /\ last' = [ev |-> "Tx", t |-> t, o |-> [code |-> r.code, gu |-> r.gu, vmfail |-> r.vmfail]]
     /\ UNCHANGED nblk

\* which field (if any) takes an exceptional class
ExcFields == IF MAXEXC = 0 THEN {"none"} ELSE {"none", "pc", "tc", "gl", "vc", "nc"}
\* generation: half of the transactions carry no exceptional field
ExcPick(i) == IF i <= 5 THEN "none" ELSE <<"pc", "tc", "gl", "vc", "nc">>[i - 5]
Dom(e, f, N, X) == IF MAXEXC >= 2 THEN N \cup X ELSE IF e = f THEN X ELSE N

TxStep ==
  /\ ntx < MAXTX
  /\ Len(hist) < MAXOPS
  /\ Choose(IF GEN /\ MAXEXC = 1 THEN 1..10 ELSE ExcFields, LAMBDA ee :
     LET e == IF GEN /\ MAXEXC = 1 THEN ExcPick(ee) ELSE ee IN
     Choose(SENDERS, LAMBDA s :
     \* generation favours the storage fixture (histories set -> clear ... need several calls of it) and clearing words
     ChooseW(IF GEN /\ "c" \in TARGETS THEN <<"c", "c", "c", "c">> \o SetToSeq(TARGETS) ELSE SetToSeq(TARGETS), LAMBDA to :
     Choose(IF to \in {"gw", "w"} THEN OPS ELSE {"dep"}, LAMBDA op :
     ChooseW(IF to # "c" THEN <<"new">> ELSE IF GEN THEN <<"zero", "zero", "new", "new", "same">> ELSE SetToSeq(WCS), LAMBDA wc :
     ChooseW(IF GEN /\ to = "c" THEN <<"ok", "ok", "ok", "rev", "oog">> ELSE SetToSeq(ModesOf(to)), LAMBDA mode :
     Choose(IF e = "tc" /\ MAXEXC < 2 THEN TYPES \cap {"dyn"} ELSE TYPES, LAMBDA ty :
     Choose(IF ty = "dyn" THEN Dom(e, "tc", TIPS_N, TIPS_X) ELSE {"cap"}, LAMBDA tc :
     Choose(Dom(e, "pc", PCS_N, PCS_X), LAMBDA pc :
     Choose(Dom(e, "gl", GLS_N, GLS_X \ (IF BLOCKGAS = 0 THEN {"huge"} ELSE {})), LAMBDA gl :
     Choose(Dom(e, "vc", VCS_N, VCS_X), LAMBDA vc :
     Choose(Dom(e, "nc", {"ok"}, NCS_X), LAMBDA nc :
       DoTx([s |-> s, to |-> to, ty |-> ty, pc |-> pc, tc |-> tc, gl |-> gl, vc |-> vc, nc |-> nc, mode |-> mode, op |-> op, wc |-> wc])))))))))))))

(***************************************************************************)
(* one Cosmos tx with two MsgEthereumTx.  The second message's classes are  *)
(* resolved against the state the first one's ante effects leave (its       *)
(* nonce class "ok" is the NEXT sequence when both have the same sender).   *)
(* Targets exclude the wrapper (its two flags are per-tx observations);     *)
(* value class "split" is left to single txs (F-C19-1 is matched there).    *)
(***************************************************************************)
AbsOutExec(s, t) ==
  \* like AbsOut, but s already has every fee of the Cosmos tx deducted
  LET need == IF t.to \in ACCTS THEN t.intr ELSE IF t.to = "c" THEN CRaw(s, t) ELSE t.intr + CALLCOST IN
  IF NIsPos(t.value) /\ NLt(s.bal[t.s], t.value) THEN [gasEvm |-> t.intr, vmfail |-> TRUE, gasRej |-> 0, wflag |-> 0, inner |-> FALSE]
  ELSE IF t.mode = "oog" \/ t.gas < need THEN [gasEvm |-> t.gas, vmfail |-> TRUE, gasRej |-> 0, wflag |-> 0, inner |-> FALSE]
  ELSE IF t.mode = "rev" THEN [gasEvm |-> need - 3, vmfail |-> TRUE, gasRej |-> 0, wflag |-> 0, inner |-> FALSE]
  ELSE [gasEvm |-> need, vmfail |-> FALSE, gasRej |-> 0, wflag |-> 0, inner |-> FALSE]

DoBatch(k1, k2) ==
  LET t1 == AbsTx(st, k1)
      a1 == Ante(st, t1)
      t2 == AbsTx(IF a1.code = 0 THEN a1.st ELSE st, k2)
      ts == <<t1, t2>>
      ab == AnteBatch(st, ts)
      x1 == AbsOutExec(ab.st, t1)
      \* the second message runs on the state the first one left
      s12 == IF x1.vmfail \/ t1.gas < t1.intr THEN ab.st ELSE Effects(ab.st, t1, x1)
      x2 == AbsOutExec(s12, t2)
      r  == DeliverBatch(st, ts, <<x1, x2>>)
  IN /\ st' = r.st
     /\ hist' = Append(hist, [ev |-> "Batch", a |-> [ks |-> <<k1, k2>>]])
     /\ ntx' = ntx + 2
     /\ last' = [ev |-> "Batch", ts |-> ts, o |-> [code |-> r.code, gu |-> r.gu, gus |-> r.gus, vmfails |-> r.vmfails]]
     /\ UNCHANGED nblk

BTargets == TARGETS \ {"w"}

\* generation favours what the batch path is about: the same sender again, and contract creations
BPick(k0, P(_)) ==
  ChooseW(IF GEN /\ k0.s \in SENDERS THEN <<k0.s, k0.s>> \o SetToSeq(SENDERS) ELSE SetToSeq(SENDERS), LAMBDA s :
  ChooseW(IF GEN /\ "new" \in BTargets THEN <<"new", "new">> \o SetToSeq(BTargets) ELSE SetToSeq(BTargets), LAMBDA to :
  Choose(ModesOf(to), LAMBDA mode :
  Choose(IF to = "gw" THEN OPS ELSE {"dep"}, LAMBDA op :
  Choose(IF to = "c" THEN WCS ELSE {"new"}, LAMBDA wc :
  Choose(IF GEN THEN TYPES ELSE {"leg"}, LAMBDA ty :
  Choose(IF ty = "dyn" THEN TIPS_N ELSE {"cap"}, LAMBDA tc :
  ChooseW(IF GEN THEN <<"at", "at", "above", "above", "above", "above", "below">> ELSE <<"at">>, LAMBDA pc :
  ChooseW(IF GEN THEN <<"intr", "mid", "fit", "fit", "big", "big", "big", "large", "lo">> ELSE <<"fit", "big">>, LAMBDA gl :
  ChooseW(IF GEN THEN <<"zero", "zero", "zero", "one", "one", "one", "over">> ELSE <<"one">>, LAMBDA vc :
  ChooseW(IF GEN THEN <<"ok", "ok", "ok", "ok", "ok", "ok", "ahead">> ELSE <<"ok", "ahead">>, LAMBDA nc :
    P([s |-> s, to |-> to, ty |-> ty, pc |-> pc, tc |-> tc, gl |-> gl, vc |-> vc, nc |-> nc, mode |-> mode, op |-> op, wc |-> wc]))))))))))))

BatchStep ==
  /\ BATCH # "no"
  /\ ntx = 0
  /\ BATCH = "first" => hist = <<>>
  /\ MAXTX >= 2
  /\ Len(hist) < MAXOPS
  /\ BPick([s |-> "none"], LAMBDA k1 : BPick(k1, LAMBDA k2 : DoBatch(k1, k2)))

BlockStep ==
  /\ nblk < MAXBLOCKS
  /\ Len(hist) < MAXOPS
  /\ ntx > 0
  /\ Choose(BFS, LAMBDA b :
       /\ st' = NewBlock(st, [bf |-> b, fc |-> st.fc, wd |-> st.wd])
       /\ hist' = Append(hist, [ev |-> "NewBlock", a |-> [x |-> 0]])
       /\ ntx' = 0
       /\ last' = [ev |-> "NewBlock"]
       /\ nblk' = nblk + 1)

Next == TxStep \/ BatchStep \/ BlockStep
Spec == Init /\ [][Next]_vars
View == <<st, ntx, nblk>>

(***************************************************************************)
(* C19 on the model: every Tx step the model takes satisfies every clause   *)
(* of the property.  Action properties are evaluated by TLC on every        *)
(* generated transition, so they do not depend on what the VIEW hides.      *)
(***************************************************************************)
TagsOfStep == IF last'.ev = "Tx" THEN C19Tags(st, st', last'.t, last'.o)
              ELSE IF last'.ev = "Batch" THEN C19BatchTags(st, st', last'.ts, last'.o) ELSE {}
\* a one-message Cosmos tx through the batch operators is the single-tx operator
BatchIsTx == last'.ev # "Tx" \/
  LET x == [gasEvm |-> last'.o.gu, vmfail |-> last'.o.vmfail, gasRej |-> 0, wflag |-> st'.stor["w"], inner |-> NEq(st'.stor["w1"], 2)]
      b == DeliverBatch(st, <<last'.t>>, <<x>>)
  IN b.st = st' /\ b.code = last'.o.code
PropBatchIsTx  == [][BatchIsTx]_vars
StepC19        == TagsOfStep = {}
StepAdmission  == TagsOfStep \cap {"C19_InadmissibleIncluded"} = {}
StepFrame      == TagsOfStep \cap {"C19_RevertedFrameKeptState", "C19_FailedChangedState"} = {}
StepAccounting == TagsOfStep \cap {"C19_Nonce", "C19_GasBounds", "C19_SenderPays", "C19_CollectorReceives", "C19_RecipientGets", "C19_ZeroSum"} = {}
PropC19        == [][StepC19]_vars
PropAdmission  == [][StepAdmission]_vars
PropFrame      == [][StepFrame]_vars
PropAccounting == [][StepAccounting]_vars
\* sanity of the model itself
InvNonNeg == /\ \A p \in Parties : st.bal[p] >= 0
             /\ st.fc >= 0 /\ st.sink >= 0

\* behaviour generation: print the history once it reaches the depth bound
EmitAtDepth == Len(hist) < MAXOPS \/ PrintT("BEHAVIOUR " \o ToJson(hist))
=============================================================================
