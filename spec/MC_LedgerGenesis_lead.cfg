SPECIFICATION Spec
CONSTANTS
  SORD <- c_SORD
  OORD <- c_OORD
  AORD <- c_AORD
  KIND <- c_KIND
  DECI <- c_DECI
  PRICE <- c_PRICE
  PDEC <- c_PDEC
  REGISTERED = {"lst"}
  PREC = 100
  UNBOND = 10
  HOLDOPS = {"o1"}
  HOOKED = TRUE
  BASEH = 254
  RESTARTS = {1, 2, 16, 17, 26, 100, 263, 264}
  MAXSTEPS = 4
INVARIANTS InvNotEarly
CHECK_DEADLOCK FALSE
