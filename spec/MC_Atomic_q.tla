---------------------------- MODULE MC_Atomic_q ----------------------------
(* Configurations of the atomic model (C09).                                 *)
(*   MC_Atomic_q.cfg     quick exhaustive: DEVS = {} (repaired orders), every *)
(*                       call of the alphabet in every state reachable in     *)
(*                       2 events from 6 prepared worlds: InvAtomic           *)
(*   MC_Atomic_d.cfg     same with the tree's DEVS: InvAtomic must FAIL       *)
(*   MC_Atomic_cov_*.cfg class cover (generation)                             *)
(*   MC_Atomic_gen*.cfg  -simulate (generation)                               *)
EXTENDS MC_Atomic

Reg(a, t, al) == E("pcRegisterAVS", [a |-> a, sender |-> "w1", own |-> "W1", t |-> t, eid |-> "minute", al |-> al, ms |-> 0, unb |-> 2, bad |-> ""])
In(a, o)      == E("pcOptIn", [a |-> a, o |-> o, bad |-> ""])
Bls(o)        == E("pcRegisterBLS", [o |-> o, cls |-> "good", bad |-> ""])
TickE         == E("Tick", [x |-> 0])
Task(t, r, s, c) == E("pcCreateTask", [t |-> t, sender |-> "w1", resp |-> r, stat |-> s, chal |-> c, bad |-> ""])
Sub(o, stage) == E("MsgSubmit", [o |-> o, from |-> o, t |-> "t1", id |-> 1, stage |-> stage, sig |-> "g1", resp |-> IF stage = "1" THEN "nil" ELSE "r1"])
UpdAl(a, al)  == E("pcUpdateAVS", [a |-> a, sender |-> "w1", own |-> "", t |-> "", eid |-> "", al |-> al, ms |-> 0, bad |-> ""])

P0 == <<>>
\* a1 registered with task contract t1; o1, o2 opted in with BLS keys; one epoch end (voting power recorded)
PA == <<Reg("a1", "t1", "L"), In("a1", "o1"), In("a1", "o2"), Bls("o1"), Bls("o2"), TickE>>
\* ... and one task (windows of one epoch each)
PT == PA \o <<Task("t1", 1, 1, 1)>>
\* ... phase one of o1 and o2 accepted, epoch moved into the statistical window
PR == PT \o <<Sub("o1", "1"), Sub("o2", "1"), TickE, TickE, TickE>>
\* ... phase two of o1 accepted, epoch moved into the challenge window
PC == PR \o <<Sub("o1", "2"), TickE>>
\* two AVSs on the ticking identifier; a2 becomes unpriceable AFTER operators opted in (its asset list is updated to
\* one that names the staking asset without oracle token): the next epoch end has one failing and one succeeding item
PV == <<Reg("a1", "t1", "L"), Reg("a2", "t2", "L"), In("a1", "o1"), In("a2", "o1"), In("a2", "o2"), UpdAl("a2", "N")>>
\* the same with a task of a1 whose statistical period ends while a2's item fails
PW == <<Reg("a1", "t1", "L"), Reg("a2", "t2", "L"), In("a1", "o1"), In("a2", "o2"), Bls("o1"), TickE, Task("t1", 0, 0, 1), Sub("o1", "1"), UpdAl("a2", "N"), In("a1", "o2")>>

c_PREFIX_Q   == {P0, PA, PT, PR, PC, PV}
PU == PA \o <<TickE, TickE, TickE>>
c_PREFIX_REG == {P0, PA, PU}
c_PREFIX_0   == {P0}
c_PREFIX_T   == {PT, PR}
\* the mirror image: the FIRST AVS in store order is the one that fails
PV1 == <<Reg("a1", "t1", "L"), Reg("a2", "t2", "L"), In("a1", "o1"), In("a1", "o2"), In("a2", "o1"), UpdAl("a1", "N")>>
c_PREFIX_V   == {PV, PV1, PW, PR}
c_PREFIX_GEN == {P0, PA, PT, PV}
c_DEVS_NONE  == {}
c_DEVS_CODE  == {"OraMemTx"}   \* RegTokenOrder repaired by fix f40b68e
c_ALLEPS == ALLEPS
EV_REG  == {"pcRegisterAVS", "pcUpdateAVS", "pcDeregisterAVS", "pcOptIn", "pcOptOut", "pcCreateTask", "pcRegisterBLS", "Tick"}
EV_MISC == {"pcRegisterChain", "pcRegisterToken", "pcUpdateToken", "pcClaimReward", "MsgRegisterOperator", "MsgOptIn", "MsgOptOut", "MsgSetConsKey"}
EV_TASK == {"MsgSubmit", "pcChallenge", "Tick"}
EV_PHASE == {"Tick", "pcOptIn", "pcOptOut", "MsgSubmit"}
EV_ORA  == {"OraTx"}
EV_SLASH == {"StakeNop", "Downtime"}
EV_CTX  == ALLEPS \ (EV_ORA \cup EV_SLASH)
=============================================================================
