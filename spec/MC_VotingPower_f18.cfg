SPECIFICATION Spec
CONSTANTS
  KEYBYSENT = FALSE
  OORD <- c_OORD
  AORD <- c_AORD18
  AVSORD <- c_AVSORD
  EIDS <- c_EIDS
  DUR <- c_DUR
  DECI <- c_DECI18
  LISTS <- c_LISTS18
  PREC = "1000000000000000000"
  AMTS = {"0", "1000003", "700000000000000003"}
  PRS = {"1", "12345678901"}
  PDS = {0, 8}
  MINS = {"0", "1", "5"}
  FRACS = {"0", "1", "4"}
  TSH = "4"
  UNIT = "1000000000000000000"
INVARIANTS LemStatement LemNonNeg LemMonoAmount LemMonoPrice
CHECK_DEADLOCK FALSE
