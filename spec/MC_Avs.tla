------------------------------ MODULE MC_Avs ------------------------------
(* Bounded exhaustive / simulation model of the AVS family (C20).          *)
EXTENDS Avs, Json

CONSTANTS
  PREFIXES,   \* set of event sequences; a behaviour starts with one of them (executed, not checked)
  EVENTS,    \* event names that Next may take
  A_AVS, A_T, MINSELFS, EIDS, U_EIDS, UNBONDS, CALLERS, NAMES, A_OPS, BLSCLS,
  P_RESP, P_STAT, P_CHAL, STAGES, SIGS, RESPS, IDS, HASHC, FOREIGN,
  MAXTASKS, MAXEPOCH, MAXOPS,
  FAILBUDGET, \* failing operations allowed per behaviour
  ONCEPERERR, \* TRUE: a behaviour contains every (event, error) kind at most once (spreads the budget under -simulate)
  COVER,      \* TRUE: compute the transition class (cover configuration only)
  TICKW       \* weight of Tick under -simulate (number of identical successors)

VARIABLES L, G, hist, tags, nfail, errs, cls
vars == <<L, G, hist, tags, nfail, errs, cls>>

RunPrefix(p) == FoldLeft(LAMBDA acc, e : Apply(acc, e.ev, e.a).st, EmptyStore, p)
\* ghosts of a prefix (prefix events are executed, and taken as accepted when the model accepts them)
PrefixGhost(p) ==
  FoldLeft(LAMBDA acc, e : LET r == Apply(acc.st, e.ev, e.a) IN [st |-> r.st, g |-> GhostStep(acc.g, r.st, e.ev, e.a, r.err = "")],
           [st |-> EmptyStore, g |-> ZeroG], p).g

Init ==
  /\ TLCSet(7, {})
  /\ \E p \in PREFIXES :
    /\ L = RunPrefix(p)
    /\ G = PrefixGhost(p)
    /\ hist = p
    /\ tags = {}
    /\ nfail = 0
    /\ errs = {}
    /\ cls = <<>>

(***************************************************************************)
(* Class of a transition, for the class cover (behaviour generation from    *)
(* the exhaustive search): event, result, argument classes and the position *)
(* of the AVS's current epoch relative to the window the event is checked   *)
(* against.                                                                 *)
(***************************************************************************)
\* position of epoch n relative to the window lo < n <= hi (empty when hi = lo)
PosIn(n, lo, hi) ==
  IF n < lo THEN "before2" ELSE IF n = lo THEN "before1"
  ELSE IF n > hi + 1 THEN "after2" ELSE IF n = hi + 1 THEN "after1"
  ELSE IF lo + 1 = hi THEN "only" ELSE IF n = lo + 1 THEN "first" ELSE IF n = hi THEN "last" ELSE "mid"

EdgeClass(st, ev, a, r) ==
  CASE ev = "Submit" ->
         LET tk == <<a.t, a.id>>
             rk == <<a.o, a.t, a.id>>
             cur == CurOf(st, a.t)
         IN IF ~Has(st.tasks, tk) \/ ~cur.ok THEN <<ev, r.err, a.stage, "notask">>
            ELSE LET task == st.tasks[tk]
                     e1 == task.start + task.resp
                     pos == IF a.stage = "2" THEN PosIn(cur.n, e1, e1 + task.stat) ELSE PosIn(cur.n, -5, e1)
                     has == Has(st.res, rk)
                     \* what is stored for (operator, task), and how the submission relates to it
                     prev == IF has THEN st.res[rk].stage ELSE "none"
                     sigrel == IF ~has THEN "-" ELSE IF st.res[rk].sig = StoredSig(a.sig) THEN "sameSig" ELSE "otherSig"
                     revealed == has /\ st.res[rk].resp # "nil"
                     respcls == IF a.resp = "nil" THEN "nil"
                                ELSE IF revealed /\ st.res[rk].resp = a.resp THEN "sameResp"
                                ELSE IF ~RespHasTaskId(a.resp) THEN "noid"
                                ELSE IF revealed THEN "otherRespSameId" ELSE "id"
                 IN <<ev, r.err, a.stage, pos, prev, sigrel, respcls,
                      IF a.from = a.o THEN "self" ELSE "foreign", IF a.o \in Range(task.optin) THEN "listed" ELSE "outsider",
                      IF r.err = "" THEN a.sig ELSE "-">>
    [] ev = "Challenge" ->
         LET tk == <<a.t, a.id>>
             rk == <<a.o, a.t, a.id>>
             cur == CurOf(st, a.t)
         IN IF ~Has(st.tasks, tk) \/ ~cur.ok THEN <<ev, r.err, "notask">>
            ELSE LET task == st.tasks[tk]
                     e2 == task.start + task.resp + task.stat
                     prev == IF Has(st.res, rk) THEN st.res[rk].stage ELSE "none"
                 IN <<ev, r.err, a.thash, a.rhash, PosIn(cur.n, e2, e2 + task.chal), prev,
                      IF rk \in st.chal THEN "again" ELSE "first">>
    [] ev = "Tick" ->
         LET due == DueGroups(st, st.epoch[TICKID])
             sum(tk) == LET W == {o \in OPS : Has(st.res, <<o, tk[1], tk[2]>>)}
                            N == {o \in W : st.res[<<o, tk[1], tk[2]>>].sig = "nil"}
                        IN <<Cardinality(W \ N), Cardinality(N), Cardinality(W \ Range(st.tasks[tk].optin)), Len(st.tasks[tk].optin)>>
         IN <<ev, r.err, ToString({sum(tk) : tk \in due})>>
    [] ev = "CreateTask" /\ r.err = "" -> <<ev, r.err, ToString(<<a.resp, a.stat, a.chal>>)>>
    [] OTHER -> <<ev, r.err>>

\* ACTION_CONSTRAINT of the cover configuration (run with ONE worker): prints the history of the first
\* transition found (breadth first: a shortest one) of every class; never restricts the search
CoverEdge ==
  \/ cls' \in TLCGet(7)
  \/ TLCSet(7, TLCGet(7) \cup {cls'}) /\ PrintT("BEHAVIOUR " \o ToJson(hist'))

Do(ev, a) ==
  /\ ev \in EVENTS
  /\ ~L.halted
  /\ Len(hist) < MAXOPS
  /\ LET r  == Apply(L, ev, a)
         ok == r.err = ""
         eff == (ok /\ r.st # L) \/ ev = "Tick"   \* budgeted: failures and successes without effect
     IN /\ (eff \/ nfail < FAILBUDGET)
        /\ (eff \/ ~ONCEPERERR \/ <<ev, r.err>> \notin errs)
        /\ nfail' = IF eff THEN nfail ELSE nfail + 1
        /\ errs' = IF eff \/ ~ONCEPERERR THEN errs ELSE errs \cup {<<ev, r.err>>}
        /\ L' = r.st
        /\ G' = GhostStep(G, r.st, ev, a, ok)
        /\ tags' = IF COVER THEN tags ELSE tags \cup PropTags(L, r.st, G, ev, a, ok, r.err = "PANIC")
        /\ hist' = Append(hist, [ev |-> ev, a |-> a])
        /\ cls' = IF COVER THEN EdgeClass(L, ev, a, r) ELSE <<>>

NTasks == Cardinality(DOMAIN L.tasks)

Next ==
  \/ \E a \in A_AVS, t \in A_T, m \in MINSELFS, e \in EIDS, u \in UNBONDS :
        Do("RegisterAVS", [a |-> a, t |-> t, minself |-> m, eid |-> e, unbond |-> u])
  \/ \E a \in A_AVS, t \in A_T \cup {""}, m \in MINSELFS, e \in U_EIDS, u \in {0} :
        Do("UpdateAVS", [a |-> a, t |-> t, minself |-> m, eid |-> e, unbond |-> u])
  \/ \E a \in A_AVS, c \in CALLERS, n \in NAMES : Do("DeregisterAVS", [a |-> a, caller |-> c, name |-> n])
  \/ \E o \in A_OPS, a \in A_AVS : Do("OptIn", [o |-> o, a |-> a])
  \/ \E o \in A_OPS, a \in A_AVS : Do("OptOut", [o |-> o, a |-> a])
  \/ \E o \in A_OPS, c \in BLSCLS : Do("RegisterBLS", [o |-> o, cls |-> c])
  \/ \E t \in A_T \ {""}, c \in CALLERS, r \in P_RESP, s \in P_STAT, ch \in P_CHAL :
        /\ NTasks < MAXTASKS
        /\ Do("CreateTask", [t |-> t, caller |-> c, resp |-> r, stat |-> s, chal |-> ch])
  \/ \E o \in A_OPS, t \in A_T \ {""}, id \in IDS, sg \in STAGES, sig \in SIGS, rp \in RESPS :
        \E f \in {o} \cup (IF FOREIGN THEN {"w2"} ELSE {}) :
           Do("Submit", [o |-> o, from |-> f, t |-> t, id |-> id, stage |-> sg, sig |-> sig, resp |-> rp])
  \/ \E o \in A_OPS, t \in A_T \ {""}, id \in IDS, th \in HASHC, rh \in HASHC :
        Do("Challenge", [t |-> t, id |-> id, o |-> o, thash |-> th, rhash |-> rh])
  \/ \E w \in 1..TICKW : L.epoch[TICKID] < MAXEPOCH /\ Do("Tick", [x |-> 0])

Spec == Init /\ [][Next]_vars

View == <<L, G, tags>>

\* C20 on the model: no clause of the property is ever violated
NoTags == tags = {}

\* behaviour generation: print the history when the behaviour is complete
EmitAtDepth == (Len(hist) < MAXOPS /\ ~L.halted) \/ PrintT("BEHAVIOUR " \o ToJson(hist))
=============================================================================
