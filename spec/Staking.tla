------------------------------- MODULE Staking -------------------------------
(***************************************************************************)
(* Validator-set / consensus-key / unbonding-queue part of exocore:         *)
(*   x/operator  key registry per chain (operator->chain->key,              *)
(*               chain->operator->key, chain->consAddr->operator, previous  *)
(*               key, key-removal marker), opt-in state (opted, jailed),    *)
(*               USD value entry of the dogfood AVS                         *)
(*   x/dogfood   stored validator set, last total power, validator updates, *)
(*               per-epoch queues (opt-outs, cons addresses to prune,       *)
(*               undelegations to mature), pending lists, reverse lookups,  *)
(*               params, epoch-end flag, EndBlock diff                      *)
(*   x/delegation  only what the dogfood hook touches: the hold count of an *)
(*               undelegation record, and the amounts that make up power    *)
(*   x/epochs    the dogfood epoch counter (one tick per block at most)     *)
(*                                                                         *)
(* Style (DESIGN.md 3.1): the store is a VALUE `st`; every entry point is a *)
(* FUNCTION Op(st, ..) -> [st, err] following the Go code step by step      *)
(* (Appendix D sheets).  Where the code is known to depart from the         *)
(* property, the code's behaviour is selected by a name in DEVS and the     *)
(* intended behaviour is the other branch (DESIGN.md 3.1 "Deviations are    *)
(* named"): DEVS = the current tree for generation / strict lane, DEVS = {} *)
(* for the exhaustive check of the properties.                              *)
(* Deviations: "L3" "LEAK" "ACT" "WINDOW" (key registry / opt-out hooks),    *)
(* "L17" (ApplyValidatorChanges), "PCHOOK" (the delegation precompile works  *)
(* on a keeper copy without hooks).  "ALWAYS" is not a deviation but the     *)
(* design of the REPAIRED hooks (always schedule the opt-out and the pruning *)
(* of a replaced key, hook on every replacement, no hold once the finish     *)
(* epoch is cleared); with it the four hook deviations are moot.             *)
(*                                                                         *)
(* Properties C06, C07, C16 are evaluated by Tags(pre, post, ev, a, ok, G)  *)
(* over OBSERVABLE states only (the same operator serves the bounded model  *)
(* and trace validation), with history ghosts G carried next to the store.  *)
(***************************************************************************)
EXTENDS Num, Sequences, FiniteSets, TLC, SequencesExt, FiniteSetsExt, Folds

CONSTANTS
  OORD,     \* sequence of operator ids, ascending by address BYTES (store order, tie-break order)
  KORD,     \* sequence of consensus key ids, ascending by tmproto PublicKey.String()
  GENVALS,  \* [operator -> [k |-> key, p |-> staked amount]] genesis validators
  DECI,     \* decimals of the staking asset (price 1, price decimals 0)
  PREC,     \* LegacyDec unit
  UNBOND,   \* operatortypes.UnbondingExpiration: blocks after which delegation.EndBlock releases a record
  DEVS      \* names of the deviations present in the code (see header)

OPS  == {OORD[i] : i \in DOMAIN OORD}
KEYS == {KORD[i] : i \in DOMAIN KORD}
STAKERS == {"s1", "v"}      \* s1: an ordinary staker; v: the operator's own genesis self-staker
NoKey == ""
NoOp  == ""
OIdx(o) == CHOOSE i \in DOMAIN OORD : OORD[i] = o
KIdx(k) == CHOOSE i \in DOMAIN KORD : KORD[i] = k

Ok(st)      == [st |-> st, err |-> ""]
Fail(st, e) == [st |-> st, err |-> e]
IsOk(r)     == r.err = ""
WithCache(st, r) == IF IsOk(r) THEN r ELSE Fail(st, r.err)

Put(f, k, v) == [x \in DOMAIN f \cup {k} |-> IF x = k THEN v ELSE f[x]]
Del(f, k)    == [x \in DOMAIN f \ {k} |-> f[x]]
Elems(s)     == {s[i] : i \in DOMAIN s}
NoDup(s)     == \A i, j \in DOMAIN s : i # j => s[i] # s[j]
QGet(q, e)       == IF e \in DOMAIN q THEN q[e] ELSE <<>>
QAppend(q, e, x) == Put(q, e, Append(QGet(q, e), x))
QAll(q)          == UNION {Elems(q[e]) : e \in DOMAIN q}
SumF(S, f(_)) == MapThenFoldSet(LAMBDA x, y : NAdd(x, y), N0, f, LAMBDA T : CHOOSE x \in T : TRUE, S)
TakeN(s, n) == SubSeq(s, 1, IF n < Len(s) THEN n ELSE Len(s))

\* x/operator CalculateUSDValue with price 1: amount * 10^18 QuoInt 10^decimals
UsdOf(a)   == DecQuoInt(DecFromInt(a, PREC), NPow10(DECI))
\* GetVotePowerForChainID: ActiveUSDValue.TruncateInt64()
PowerOf(u) == DecTruncInt(u, PREC)

(***************************************************************************)
(* The store                                                               *)
(***************************************************************************)
GenOps == DOMAIN GENVALS
GenKeyOwner(k) == IF \E o \in GenOps : GENVALS[o].k = k THEN CHOOSE o \in GenOps : GENVALS[o].k = k ELSE NoOp

InitStore ==
  [ h |-> 1, epoch |-> 1, lag |-> 0, flag |-> FALSE, N |-> 1, maxV |-> 1, nrec |-> 0,
    fwd1 |-> [o \in OPS |-> IF o \in GenOps THEN GENVALS[o].k ELSE NoKey],
    fwd2 |-> [o \in OPS |-> IF o \in GenOps THEN GENVALS[o].k ELSE NoKey],
    prev |-> [o \in OPS |-> NoKey],
    rev  |-> [k \in KEYS |-> GenKeyOwner(k)],
    removing |-> [o \in OPS |-> FALSE],
    info   |-> [o \in OPS |-> o \in GenOps],
    opted  |-> [o \in OPS |-> o \in GenOps],
    jailed |-> [o \in OPS |-> FALSE],
    hasUsd |-> [o \in OPS |-> o \in GenOps],
    usd    |-> [o \in OPS |-> IF o \in GenOps THEN UsdOf(GENVALS[o].p) ELSE N0],
    stake  |-> [o \in OPS |-> IF o \in GenOps THEN NC(GENVALS[o].p) ELSE N0],
    del    |-> [x \in STAKERS \X OPS |-> IF x[1] = "v" /\ x[2] \in GenOps THEN NC(GENVALS[x[2]].p) ELSE N0],
    vals   |-> [k \in {GENVALS[o].k : o \in GenOps} |-> PowerOf(UsdOf(GENVALS[GenKeyOwner(k)].p))],
    lastTotal |-> SumF(GenOps, LAMBDA o : PowerOf(UsdOf(GENVALS[o].p))),
    updates |-> <<>>, rsp |-> <<>>,
    qOpt |-> <<>>, qPrune |-> <<>>, qUndel |-> <<>>,
    pOpt |-> <<>>, pPrune |-> <<>>, pUndel |-> <<>>,
    finish |-> <<>>, mat |-> <<>>, hold |-> <<>>, recs |-> <<>>,
    \* model-only memory used by the INTENDED behaviour ("ACT" \notin DEVS): the key has been in the
    \* validator set while registered to its present owner.  The code keeps no such record.
    wasAct |-> [k \in KEYS |-> \E o \in GenOps : GENVALS[o].k = k] ]

HoldOf(st, id) == IF id \in DOMAIN st.hold THEN st.hold[id] ELSE 0
InVals(st, k)  == k # NoKey /\ k \in DOMAIN st.vals
\* DEV "ACT": the code asks "is the key in the validator set NOW" when it decides whether a retired
\* key must stay resolvable; a key that was in the set earlier (jailed / out-ranked since) is dropped
\* at once.  Intended: "has been in the set".
Retain(st, k)  == InVals(st, k) \/ ("ACT" \notin DEVS /\ k # NoKey /\ st.wasAct[k])
\* x/operator IsActive
IsActive(st, o) == st.info[o] /\ st.opted[o] /\ ~st.jailed[o]

(***************************************************************************)
(* x/operator/keeper/consensus_keys.go: setOperatorConsKeyForChainID +      *)
(* x/dogfood/keeper/impl_operator_hooks.go: AfterOperatorKeyReplaced        *)
(***************************************************************************)
RetireKey(st, old) ==
  IF "ALWAYS" \in DEVS \/ Retain(st, old) THEN [st EXCEPT !.qPrune = QAppend(@, st.epoch + st.N, old)]
  ELSE [st EXCEPT !.rev[old] = NoOp, !.wasAct[old] = FALSE]

SetKeyCore(st, o, k) ==
  IF st.removing[o] THEN Fail(st, "ErrAlreadyRemovingKey") ELSE
  IF st.rev[k] # NoOp THEN Fail(st, "ErrConsKeyAlreadyInUse") ELSE
  LET old   == st.fwd1[o]
      found == old # NoKey
  IN IF found /\ old = k THEN Ok(st) ELSE
  LET already == found /\ st.prev[o] # NoKey
      s1 == IF found /\ ~already THEN [st EXCEPT !.prev[o] = old] ELSE st
      s2 == [s1 EXCEPT !.fwd1[o] = k, !.fwd2[o] = k, !.rev[k] = o]
      s3 == IF ~found THEN s2
            ELSE IF ~already THEN RetireKey(s2, old)
            \* DEV "LEAK": a second replacement inside one epoch calls no hook, the intermediate
            \* key's reverse lookup stays for ever.  Intended: retire it like the first one.
            ELSE IF "LEAK" \in DEVS /\ "ALWAYS" \notin DEVS THEN s2 ELSE RetireKey(s2, old)
  IN Ok(s3)

\* operator msg server OptIntoAVS (own cache context) -> OptInWithConsKey
OptIn(st, o, k) ==
  WithCache(st,
    IF st.opted[o] THEN Fail(st, "ErrAlreadyOptedIn") ELSE
    IF st.hasUsd[o] THEN Fail(st, "ErrKeyAlreadyExist") ELSE
    SetKeyCore([st EXCEPT !.hasUsd[o] = TRUE, !.usd[o] = N0, !.info[o] = TRUE, !.opted[o] = TRUE, !.jailed[o] = FALSE], o, k))

\* operator msg server SetConsKey
SetKey(st, o, k) ==
  IF ~IsActive(st, o) THEN Fail(st, "ErrNotOptedIn") ELSE SetKeyCore(st, o, k)

\* CompleteOperatorKeyRemovalForChainID
CompleteRemoval(st, o) ==
  IF ~st.removing[o] THEN st ELSE
  LET key == st.fwd1[o] IN
  [st EXCEPT !.fwd1[o] = NoKey, !.fwd2[o] = NoKey,
             !.rev = IF key # NoKey THEN [@ EXCEPT ![key] = NoOp] ELSE @,
             !.wasAct = IF key # NoKey THEN [@ EXCEPT ![key] = FALSE] ELSE @,
             !.removing[o] = FALSE]

\* opt.go OptOut -> InitiateOperatorKeyRemovalForChainID -> AfterOperatorKeyRemovalInitiated
OptOut(st, o) ==
  IF ~IsActive(st, o) THEN Fail(st, "ErrNotOptedIn") ELSE
  LET key == st.fwd1[o] IN
  IF key = NoKey THEN Fail(st, "PANIC") ELSE
  LET s1 == [st EXCEPT !.hasUsd[o] = FALSE, !.usd[o] = N0, !.opted[o] = FALSE, !.removing[o] = TRUE]
      e  == s1.epoch + s1.N
      sched == [s1 EXCEPT !.qOpt = QAppend(@, e, o), !.finish = Put(@, o, e)]
  IN IF "ALWAYS" \in DEVS THEN Ok(sched)
     ELSE IF "L3" \in DEVS
     \* code: only the CURRENT key is looked up; if it is not in the validator set the reverse
     \* lookup is deleted and nothing is scheduled: marker and forward entries stay for ever
     THEN IF InVals(s1, key) THEN Ok(sched) ELSE Ok([s1 EXCEPT !.rev[key] = NoOp, !.wasAct[key] = FALSE])
     \* intended: same membership test as the undelegation hook (current or previous key);
     \* a key that never reached the validator set is removed at once
     ELSE IF Retain(s1, key) \/ InVals(s1, s1.prev[o]) THEN Ok(sched) ELSE Ok(CompleteRemoval(s1, o))

(***************************************************************************)
(* delegation (power input) and the AfterUndelegationStarted hook           *)
(***************************************************************************)
Delegate(st, o, x) ==
  IF ~NIsPos(x) THEN Fail(st, "ErrAmountIsNotPositive") ELSE
  Ok([st EXCEPT !.stake[o] = NAdd(@, x), !.del[<<"s1", o>>] = NAdd(@, x)])

PlaceHold(st, id, e) ==
  [st EXCEPT !.qUndel = QAppend(@, e, id), !.mat = Put(@, id, e), !.hold = Put(@, id, HoldOf(st, id) + 1)]

Undelegate(st, s, o, x, path) ==
  LET st0 == [st EXCEPT !.nrec = @ + 1]
      id  == st.nrec + 1
  IN
  IF ~NIsPos(x) THEN Fail(st0, "ErrAmountIsNotPositive") ELSE
  IF NLt(st.del[<<s, o>>], x) THEN Fail(st0, "ErrInsufficientShares") ELSE
  LET s1 == [st0 EXCEPT !.stake[o] = NSub(@, x), !.del[<<s, o>>] = NSub(@, x),
                        !.recs = Put(@, id, [s |-> s, o |-> o, amt |-> x, start |-> st.h])]
  IN
  \* DEV "PCHOOK": app.go hands the precompiles a COPY of the delegation keeper taken before SetHooks:
  \* an undelegation that arrives through the delegation precompile (path "pc") calls no hook at all
  IF path = "pc" /\ "PCHOOK" \in DEVS THEN Ok(s1) ELSE
  IF s1.removing[o] THEN
     LET e == IF o \in DOMAIN s1.finish THEN s1.finish[o] ELSE -1 IN
     \* finish epoch -1 -> nil store key -> panic "key is nil" (the transaction is dropped)
     \* DEV "WINDOW": AfterEpochEnd deletes the finish epoch in BeginBlock, the marker is cleared only
     \* in EndBlock: in the block that completes an opt-out the lookup misses as well.  Intended: the
     \* opt-out completes at the end of this very block, nothing needs to be held.
     IF e < 0 THEN (IF "ALWAYS" \in DEVS \/ ("WINDOW" \notin DEVS /\ o \in Elems(s1.pOpt)) THEN Ok(s1) ELSE Fail(st0, "PANIC"))
     ELSE Ok(PlaceHold(s1, id, e))
  ELSE IF s1.fwd1[o] = NoKey THEN Ok(s1)
  ELSE IF ~(InVals(s1, s1.fwd1[o]) \/ InVals(s1, s1.prev[o])) THEN Ok(s1)
  ELSE Ok(PlaceHold(s1, id, s1.epoch + s1.N))

(***************************************************************************)
(* jail / unjail by consensus address (dogfood impl_sdk.go -> operator)     *)
(***************************************************************************)
SetJailed(st, k, v) ==
  IF st.rev[k] = NoOp THEN Ok(st) ELSE
  LET o == st.rev[k] IN IF ~st.info[o] THEN Ok(st) ELSE Ok([st EXCEPT !.jailed[o] = v])

UpdateParams(st, mv, n) ==
  Ok([st EXCEPT !.maxV = IF mv = 0 THEN @ ELSE mv, !.N = IF n = 0 THEN @ ELSE n])

(***************************************************************************)
(* BeginBlock: x/epochs tick (at most one per block) -> operator hook       *)
(* (UpdateVotingPower) -> dogfood hook (AfterEpochEnd)                      *)
(***************************************************************************)
BeginBlock(st, adv) ==
  LET lag1 == st.lag + adv
      s0   == [st EXCEPT !.h = @ + 1]
  IN IF lag1 < 1 THEN Ok([s0 EXCEPT !.lag = lag1]) ELSE
  LET e  == st.epoch
      po == QGet(s0.qOpt, e)
  IN Ok([s0 EXCEPT
        !.usd    = [o \in OPS |-> IF s0.hasUsd[o] THEN UsdOf(s0.stake[o]) ELSE s0.usd[o]],
        !.flag   = TRUE,
        !.pOpt   = po,
        !.finish = [o \in DOMAIN s0.finish \ Elems(po) |-> s0.finish[o]],
        !.qOpt   = Del(@, e),
        !.pPrune = QGet(s0.qPrune, e),
        !.qPrune = Del(@, e),
        !.pUndel = QGet(s0.qUndel, e),
        !.qUndel = Del(@, e),
        !.epoch  = e + 1,
        !.lag    = lag1 - 1])

(***************************************************************************)
(* dogfood EndBlock                                                         *)
(***************************************************************************)
UpdLess(a, b) == IF NEq(a.p, b.p) THEN KIdx(a.k) > KIdx(b.k) ELSE NGt(a.p, b.p)

\* ApplyValidatorChanges
ApplyChanges(st, res) ==
  LET step(acc, c) ==
        IF c.k \in DOMAIN acc.vals THEN
           IF NLt(c.p, 1) THEN [vals |-> Del(acc.vals, c.k), ret |-> Append(acc.ret, c)]
           \* DEV "L17": the new power is written outside the cache context before the
           \* reverse-lookup check that `continue`s
           ELSE IF st.rev[c.k] = NoOp
                THEN [vals |-> IF "L17" \in DEVS THEN Put(acc.vals, c.k, c.p) ELSE acc.vals, ret |-> acc.ret]
                ELSE [vals |-> Put(acc.vals, c.k, c.p), ret |-> Append(acc.ret, c)]
        ELSE IF NGt(c.p, 0) THEN [vals |-> Put(acc.vals, c.k, c.p), ret |-> Append(acc.ret, c)]
        ELSE acc
      fin == FoldLeft(step, [vals |-> st.vals, ret |-> <<>>], res)
  IN [vals |-> fin.vals, ret |-> SortSeq(fin.ret, UpdLess)]

DogfoodEndBlock(st) ==
  IF ~st.flag THEN Ok([st EXCEPT !.updates = <<>>, !.rsp = <<>>]) ELSE
  LET s1 == [st EXCEPT !.prev = [o \in OPS |-> NoKey]]
      \* pending undelegations: release the hold, forget the maturity epoch
      s2 == [FoldLeft(LAMBDA s, id : [s EXCEPT !.hold = IF HoldOf(s, id) > 0 THEN Put(@, id, HoldOf(s, id) - 1) ELSE @,
                                               !.mat = Del(@, id)], s1, s1.pUndel)
             EXCEPT !.pUndel = <<>>]
      \* pending opt-outs: complete the key removal
      s3 == [FoldLeft(LAMBDA s, o : CompleteRemoval(s, o), s2, s2.pOpt) EXCEPT !.pOpt = <<>>]
      \* pending consensus addresses: prune the reverse lookup
      s4 == [FoldLeft(LAMBDA s, k : [s EXCEPT !.rev[k] = NoOp, !.wasAct[k] = FALSE], s3, s3.pPrune) EXCEPT !.pPrune = <<>>]
      \* GetActiveOperatorsForChainID (iterates chain->operator->key), vote powers, SortByPower
      act  == {o \in OPS : s4.fwd2[o] # NoKey /\ IsActive(s4, o)}
      broken == \E o \in act : ~s4.hasUsd[o]     \* GetVotePowerForChainID errors: return, nothing stored
      pw(o) == PowerOf(s4.usd[o])
      sorted == SetToSortSeq(act, LAMBDA a, b : IF NEq(pw(a), pw(b)) THEN OIdx(a) < OIdx(b) ELSE NGt(pw(a), pw(b)))
      chosen == SelectSeq(TakeN(sorted, s4.maxV), LAMBDA o : NGe(pw(o), 1))
      d1 == FoldLeft(LAMBDA acc, o :
                LET key == s4.fwd2[o] IN
                [res |-> IF key \in acc.pm /\ NEq(s4.vals[key], pw(o)) THEN acc.res ELSE Append(acc.res, [k |-> key, p |-> pw(o)]),
                 pm  |-> acc.pm \ {key},
                 tot |-> NAdd(acc.tot, pw(o))],
              [res |-> <<>>, pm |-> DOMAIN s4.vals, tot |-> N0], chosen)
      gone == SetToSortSeq(d1.pm, LAMBDA a, b : KIdx(a) < KIdx(b))
      res  == d1.res \o [i \in DOMAIN gone |-> [k |-> gone[i], p |-> N0]]
      ap   == ApplyChanges(s4, res)
  IN IF broken THEN Ok([s4 EXCEPT !.flag = FALSE, !.rsp = <<>>]) ELSE
     Ok([s4 EXCEPT !.vals = ap.vals,
                   !.wasAct = [k \in KEYS |-> s4.rev[k] # NoOp /\ (s4.wasAct[k] \/ k \in DOMAIN ap.vals)],
                   !.lastTotal = IF Len(res) > 0 THEN d1.tot ELSE @,
                   !.updates = ap.ret, !.rsp = ap.ret, !.flag = FALSE])

\* app.EndBlocker: ... dogfood, then delegation.EndBlock: a record whose completion height
\* (start + UNBOND, pushed to h+1 while it is held) has come and that is not held is released
EndBlock(st) ==
  LET s == DogfoodEndBlock(st).st IN
  Ok([s EXCEPT !.recs = [id \in {x \in DOMAIN s.recs : ~(s.recs[x].start + UNBOND <= s.h /\ HoldOf(s, x) = 0)} |-> s.recs[id]]])

(***************************************************************************)
(* dispatcher: one trace event = one Apply                                  *)
(***************************************************************************)
Quiet(r) == [r EXCEPT !.st.rsp = <<>>]

Apply(st, ev, a) ==
  CASE ev = "OptIn"        -> Quiet(OptIn(st, a.o, a.k))
    [] ev = "OptOut"       -> Quiet(WithCache(st, OptOut(st, a.o)))
    [] ev = "SetKey"       -> Quiet(SetKey(st, a.o, a.k))
    [] ev = "Delegate"     -> Quiet(Delegate(st, a.o, a.x))
    [] ev = "Undelegate"   -> Quiet(Undelegate(st, a.s, a.o, a.x, IF "path" \in DOMAIN a THEN a.path ELSE "keeper"))
    [] ev = "Jail"         -> Quiet(SetJailed(st, a.k, TRUE))
    [] ev = "Unjail"       -> Quiet(SetJailed(st, a.k, FALSE))
    [] ev = "UpdateParams" -> Quiet(UpdateParams(st, a.maxVals, a.n))
    [] ev = "BeginBlock"   -> Quiet(BeginBlock(st, a.adv))
    [] ev = "EndBlock"     -> EndBlock(st)
    [] OTHER               -> Fail(st, "unknown event")

(***************************************************************************)
(* Ghosts (history the properties need), maintained from OBSERVED states    *)
(*   engine : the validator set the consensus engine holds after applying   *)
(*            every update list it was handed                               *)
(*   closed : dogfood epoch closed by the BeginBlock of the current block   *)
(*            (0 = none)                                                    *)
(*   due    : [item -> epoch] for every registered, not yet released item:  *)
(*            <<"O", o>> opt-out, <<"K", k>> pruning of a replaced key,     *)
(*            <<"U", id>> hold on an undelegation;  due = e + N as of       *)
(*            registration (an undelegation from an operator that is opting *)
(*            out inherits the opt-out's epoch)                             *)
(*   ret    : [key -> [o, due, act]] keys that stopped being the current    *)
(*            key of o (replaced / removal initiated) and have not matured  *)
(*   ord    : pairs <<u, v>> of update entries [k, p] such that u was handed  *)
(*            to the engine before v in one list                            *)
(*   lost   : keys of ret that were active and stopped resolving to their   *)
(*            operator in this very step, before maturing                   *)
(*   act    : [key -> BOOLEAN] the key has been in the validator set while  *)
(*            registered to its present owner                               *)
(***************************************************************************)
ApplyUpd(set, upd) ==
  FoldLeft(LAMBDA s, u : IF NIsZero(u.p) THEN Del(s, u.k) ELSE Put(s, u.k, u.p), set, upd)

InitGhost(st) ==
  [engine |-> st.vals, closed |-> 0, due |-> <<>>, ret |-> <<>>, lost |-> {}, ord |-> {},
   act |-> [k \in KEYS |-> k \in DOMAIN st.vals /\ st.rev[k] # NoOp]]

Released(x, pre, post) ==
  CASE x[1] = "O" -> pre.removing[x[2]] /\ ~post.removing[x[2]]
    [] x[1] = "K" -> pre.rev[x[2]] # NoOp /\ post.rev[x[2]] = NoOp
    [] x[1] = "U" -> HoldOf(post, x[2]) < HoldOf(pre, x[2])

GhostStep(G, pre, post, ev, a, ok) ==
  LET reg == pre.epoch + pre.N
      \* registrations observed in this step
      newO == {<<"O", o>> : o \in {o \in OPS : ~pre.removing[o] /\ post.removing[o]}}
      newK == {<<"K", k>> : k \in (QAll(post.qPrune) \ (QAll(pre.qPrune) \cup Elems(pre.pPrune)))}
      newU == IF ev = "Undelegate" /\ ok /\ HoldOf(post, a.id) > HoldOf(pre, a.id) THEN {<<"U", a.id>>} ELSE {}
      dueOf(x) == IF x[1] = "U" /\ pre.removing[a.o] /\ <<"O", a.o>> \in DOMAIN G.due THEN G.due[<<"O", a.o>>] ELSE reg
      kept == {x \in DOMAIN G.due : ~Released(x, pre, post)}
      due2 == [x \in kept \cup newO \cup newK \cup newU |-> IF x \in kept THEN G.due[x] ELSE dueOf(x)]
      \* key retirements observed in this step: the current key of o stops being current
      retiring(o, k) == /\ pre.fwd1[o] = k
                        /\ \/ (post.fwd1[o] # k /\ ev # "EndBlock")
                           \/ (~pre.removing[o] /\ post.removing[o])
      retNow == {k \in KEYS : \E o \in OPS : retiring(o, k)}
      ownerOf(k) == CHOOSE o \in OPS : retiring(o, k)
      matured(k) == ev = "EndBlock" /\ G.closed # 0 /\ G.ret[k].due <= G.closed
      readopted(k) == post.fwd1[G.ret[k].o] = k
      keepRet == {k \in DOMAIN G.ret : ~matured(k) /\ ~readopted(k)}
      retAll == [k \in keepRet \cup retNow |->
                 IF k \in retNow THEN [o |-> ownerOf(k), due |-> reg, act |-> G.act[k] \/ k \in DOMAIN pre.vals]
                 ELSE G.ret[k]]
      \* an entry lives while the address still resolves to its operator; one that was active and
      \* stops resolving before it matured is reported once (lost) and forgotten
      ret2 == [k \in {k \in DOMAIN retAll : post.rev[k] = retAll[k].o} |-> retAll[k]]
      lost == {k \in DOMAIN retAll : retAll[k].act /\ post.rev[k] # retAll[k].o}
  IN [engine |-> IF ev = "EndBlock" THEN ApplyUpd(G.engine, post.rsp) ELSE G.engine,
      closed |-> IF ev = "BeginBlock" THEN (IF post.epoch # pre.epoch THEN pre.epoch ELSE 0) ELSE G.closed,
      due |-> due2, ret |-> ret2, lost |-> lost,
      ord |-> IF ev = "EndBlock"
              THEN G.ord \cup {<<post.rsp[q[1]], post.rsp[q[2]]>> : q \in {q \in (DOMAIN post.rsp) \X (DOMAIN post.rsp) : q[1] < q[2]}}
              ELSE G.ord,
      act |-> [k \in KEYS |-> post.rev[k] # NoOp /\ (k \in DOMAIN post.vals \/ (G.act[k] /\ post.rev[k] = pre.rev[k]))]]

(***************************************************************************)
(* Property predicates (C06, C07, C16) -> tags                              *)
(***************************************************************************)
T(holds, tag) == IF holds THEN {} ELSE {tag}

\* keys an operator holds: current key in either forward index, and every address still resolving to
\* it (replaced / being removed, not yet matured).  The previous-key record is bookkeeping for the
\* epoch-end diff, not ownership: a replaced key that never reached the validator set is free at once.
KeysOf(st, o) == ({st.fwd1[o], st.fwd2[o]} \ {NoKey}) \cup {k \in KEYS : st.rev[k] = o}

\* C06: who should be in the set after an epoch-closing EndBlock
Eligible(st) == {o \in OPS : st.fwd1[o] # NoKey /\ st.opted[o] /\ ~st.jailed[o] /\ NGe(PowerOf(st.usd[o]), 1)}
TopOps(st) ==
  LET pw(o) == PowerOf(st.usd[o])
      s == SetToSortSeq(Eligible(st), LAMBDA a, b : IF NEq(pw(a), pw(b)) THEN OIdx(a) < OIdx(b) ELSE NGt(pw(a), pw(b)))
  IN Elems(TakeN(s, st.maxV))
ExpectedSet(st) == {<<st.fwd1[o], PowerOf(st.usd[o])>> : o \in TopOps(st)}
AsPairs(f) == {<<k, f[k]>> : k \in DOMAIN f}

QueuesConsistent(st) ==
  /\ \A o \in DOMAIN st.finish : st.finish[o] \in DOMAIN st.qOpt /\ o \in Elems(st.qOpt[st.finish[o]])
  /\ \A e \in DOMAIN st.qOpt : \A o \in Elems(st.qOpt[e]) : o \in DOMAIN st.finish /\ st.finish[o] = e
  /\ \A id \in DOMAIN st.mat : st.mat[id] \in DOMAIN st.qUndel /\ id \in Elems(st.qUndel[st.mat[id]])
  /\ \A e \in DOMAIN st.qUndel : \A id \in Elems(st.qUndel[e]) : id \in DOMAIN st.mat /\ st.mat[id] = e

FlatQ(q) == FoldLeft(LAMBDA acc, e : acc \o q[e], <<>>, SetToSortSeq(DOMAIN q, LAMBDA a, b : a < b))

StateTags(post, G2) ==
  \* --- C07: registry injective and consistent
  T(\A o1, o2 \in OPS : o1 # o2 => KeysOf(post, o1) \cap KeysOf(post, o2) = {}, "C07_Injective") \cup
  T(post.fwd1 = post.fwd2 /\ \A o \in OPS : post.fwd1[o] # NoKey => post.rev[post.fwd1[o]] = o, "C07_IndexesAgree") \cup
  T(\A k \in KEYS : post.rev[k] # NoOp =>
        \/ post.fwd1[post.rev[k]] = k
        \/ (k \in DOMAIN G2.ret /\ G2.ret[k].o = post.rev[k]), "C07_OrphanReverse") \cup
  \* --- C07: an address that was active stays resolvable to its operator until it matures
  T(G2.lost = {}, "C07_Slashable") \cup
  \* --- C06: stored set = engine's set, total power = sum
  T(AsPairs(post.vals) = AsPairs(G2.engine), "C06_AgreeEngine") \cup
  T(NEq(post.lastTotal, SumF(DOMAIN post.vals, LAMBDA k : post.vals[k])), "C06_AgreeTotal") \cup
  \* --- C16: an item sits in at most one queue slot
  T(NoDup(FlatQ(post.qOpt) \o post.pOpt) /\ NoDup(FlatQ(post.qPrune) \o post.pPrune) /\ NoDup(FlatQ(post.qUndel) \o post.pUndel), "C16_Once")

StepTags(pre, post, ev, a, ok, G, G2) ==
  LET closed == G.closed
      relNow == {x \in DOMAIN G.due : Released(x, pre, post)}
  IN
  (IF ev = "EndBlock" THEN
     LET rsp == post.rsp
         after == ApplyUpd(pre.vals, rsp)
     IN
     (IF closed = 0
      THEN T(Len(rsp) = 0 /\ Len(post.updates) = 0, "C06_QuietOtherwise") \cup
           T(post.vals = pre.vals /\ NEq(post.lastTotal, pre.lastTotal), "C06_QuietOtherwise")
      ELSE T(AsPairs(after) = ExpectedSet(pre), "C06_TopSet")) \cup
     T(post.updates = rsp, "C06_AgreeUpdates") \cup
     T(/\ NoDup([i \in DOMAIN rsp |-> rsp[i].k])
       /\ \A i \in DOMAIN rsp : ~NIsNeg(rsp[i].p) /\ (NIsZero(rsp[i].p) => rsp[i].k \in DOMAIN pre.vals)
       \* "identically ordered on every node": the order is a function of the entries - no two
       \* entries were ever handed over in the opposite relative order (any fixed order passes)
       /\ \A i, j \in DOMAIN rsp : i < j => <<rsp[j], rsp[i]>> \notin G.ord, "C06_WellFormed") \cup
     \* C16 timing: exactly the items due at the closed epoch are released now
     T(\A x \in relNow : closed # 0 /\ G.due[x] <= closed, "C16_ReleasedEarly") \cup
     T(\A x \in relNow : closed = 0 \/ G.due[x] >= closed, "C16_ReleasedLate") \cup
     T(\A x \in DOMAIN G.due : (closed # 0 /\ G.due[x] = closed) => x \in relNow, "C16_NotReleasedOnTime") \cup
     \* C16 drained at the block boundary
     T(/\ \A e \in DOMAIN post.qOpt \cup DOMAIN post.qPrune \cup DOMAIN post.qUndel : e >= post.epoch
       /\ Len(post.pOpt) = 0 /\ Len(post.pPrune) = 0 /\ Len(post.pUndel) = 0
       /\ QueuesConsistent(post), "C16_Drained") \cup
     \* C07: a retired key is pruned when its unbonding epochs have ended
     T(\A k \in DOMAIN G.ret : (closed # 0 /\ G.ret[k].due = closed /\ post.fwd1[G.ret[k].o] # k) => post.rev[k] = NoOp, "C07_PrunedThen")
   ELSE
     T(relNow = {}, "C16_ReleasedOutsideEndBlock")) \cup
  (IF ev = "BeginBlock" /\ post.epoch = pre.epoch
   THEN T(Len(post.pOpt) = 0 /\ Len(post.pPrune) = 0 /\ Len(post.pUndel) = 0 /\ ~post.flag, "C16_Drained") ELSE {}) \cup
  (IF ev \in {"SetKey", "OptIn"} /\ pre.removing[a.o] THEN T(~ok, "C07_NoSetWhileRemoving") ELSE {}) \cup
  (IF ev = "Undelegate" /\ ok THEN
     LET held == HoldOf(post, a.id) > HoldOf(pre, a.id) IN
     T(IF pre.removing[a.o] THEN (held \/ a.o \in Elems(pre.pOpt))   \* completes in this very block
       ELSE held <=> (InVals(pre, pre.fwd1[a.o]) \/ InVals(pre, pre.prev[a.o])), "C16_HoldDecision")
   ELSE {}) \cup
  \* an undelegation from an operator that is opting out must mature with the opt-out, not bounce
  (IF ev = "Undelegate" /\ ~ok /\ pre.removing[a.o] /\ NIsPos(a.x) /\ NLe(a.x, pre.del[<<a.s, a.o>>])
   THEN {"C16_HoldDecision"} ELSE {})

Tags(pre, post, ev, a, ok, G, G2) == StateTags(post, G2) \cup StepTags(pre, post, ev, a, ok, G, G2)

C06TAGS == {"C06_TopSet", "C06_WellFormed", "C06_AgreeEngine", "C06_AgreeTotal", "C06_AgreeUpdates", "C06_QuietOtherwise",
            "C06_EngineRejects"}
C07TAGS == {"C07_Injective", "C07_IndexesAgree", "C07_OrphanReverse", "C07_Slashable", "C07_PrunedThen", "C07_NoSetWhileRemoving"}
C16TAGS == {"C16_ReleasedEarly", "C16_ReleasedLate", "C16_NotReleasedOnTime", "C16_ReleasedOutsideEndBlock", "C16_Drained",
            "C16_Once", "C16_HoldDecision"}
=============================================================================
