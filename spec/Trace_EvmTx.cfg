SPECIFICATION Spec
CONSTANTS
  ACCTS <- t_ACCTS
  CONTRACTS <- t_CONTRACTS
  PREC <- t_PREC
  MINGP <- t_MINGP
  MULT <- t_MULT
  BLOCKGAS <- t_BLOCKGAS
  GATEWAY <- t_GATEWAY
  FIX <- t_FIX
  DEVS <- t_DEVS
POSTCONDITION Consumed
CHECK_DEADLOCK FALSE
