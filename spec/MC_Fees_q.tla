----------------------------- MODULE MC_Fees_q -----------------------------
EXTENDS MC_Fees
c_OPS    == <<"o1", "o2", "o3">>
c_SELF   == <<"v1", "v2", "v3">>
c_ASSETS == <<"a1", "a2">>
c_IDORD  == <<"ea", "eb">>
\* power vectors (0 = not a validator) and commission-rate vectors in units of PREC = 100
c_PWS    == {<<1, 2, 0>>, <<2, 1, 1>>, <<0, 0, 0>>}
c_RATES  == {<<0, 50, 100>>, <<100, 0, 50>>}
c_IDPAIRS == {<<"ea", "ea">>, <<"ea", "eb">>, <<"eb", "ea">>}
=============================================================================
