SPECIFICATION Spec
CONSTANTS
  OPS <- c_OPS
  SELF <- c_SELF
  ASSETS <- c_ASSETS
  IDORD <- c_IDORD
  PWS <- c_PWS
  RATESETS <- c_RATES
  IDPAIRS <- c_IDPAIRS
  STAKERS = {"s1"}
  PREC = 100
  DEVIATIONS = {}
  EXTRAS = {1, 2}
  TAXES = {2}
  REWARDS = {0}
  FEES = {100}
  PATHS = {"bank"}
  BURNS = {}
  DELAMTS = {1}
  MAXDEL = 2
  MAXUPD = 0
  MAXJAIL = 0
  MAXEPOCHS = 2
  MAXOPS = 5
  GENSUPPLY = 10
VIEW View
INVARIANTS InvSupplyDelta InvAllMoved InvBooked InvSolvent InvProportional InvCommission InvStakerPart InvNonNegative InvNoPanic
CHECK_DEADLOCK FALSE
