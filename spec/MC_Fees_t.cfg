SPECIFICATION Spec
CONSTANTS
  OPS <- c_OPS
  SELF <- c_SELF
  ASSETS <- c_ASSETS
  IDORD <- c_IDORD
  PWS <- c_PWS
  RATESETS <- c_RATES
  IDPAIRS <- c_IDPAIRS
  STAKERS = {"s1", "s2"}
  PREC = 100
  DEVIATIONS = {}
  EXTRAS = {0}
  TAXES = {2}
  REWARDS = {5}
  FEES = {0, 1, 7, 100}
  PATHS = {"bank"}
  BURNS = {1}
  DELAMTS = {1}
  MAXDEL = 1
  MAXJAIL = 1
  MAXEPOCHS = 4
  MAXOPS = 5
  GENSUPPLY = 10
VIEW View
INVARIANTS InvSupplyDelta InvAllMoved InvBooked InvSolvent InvProportional InvCommission InvStakerPart InvNonNegative InvNoPanic
CHECK_DEADLOCK FALSE
