----------------------------- MODULE MC_Fees_c -----------------------------
(* CLASS COVER of the boundary values of the distribution parameters.  A scripted, fully enumerated family of          *)
(* behaviours (TLC breadth-first, no VIEW: every behaviour is a state):                                                 *)
(*   Setup(world, tax)  FeeIncome(f1)  Block({dist})  UpdateParams(tax2, reward2)  FeeIncome(100)  UpdateParamsDropped(tax3, reward3)  Block({dist, mint}) *)
(* for every world in c_WORLDS (0 / 1 / 3 validators, commission 0 / mid / 1), tax in TAXES (0, small, 1), f1 in FEES   *)
(* (1 unit, an amount that leaves remainders, a larger one) and every tax2 # tax.  The invariants are checked on every  *)
(* one of them, and every complete behaviour is printed for replay on the real code.                                    *)
EXTENDS MC_Fees
c_OPS    == <<"o1", "o2", "o3">>
c_SELF   == <<"v1", "v2", "v3">>
c_ASSETS == <<"a1", "a2">>
c_IDORD  == <<"ea", "eb">>
\* <<power vector, commission vector>>: 3 validators with commission 0 / 50 % / 100 %, one validator with 100 %, one with
\* 0 %, and the zero-power world
c_WORLDS == {<< <<2, 1, 1>>, <<0, 50, 100>> >>, << <<2, 0, 0>>, <<100, 0, 50>> >>, << <<2, 0, 0>>, <<0, 50, 100>> >>,
             << <<0, 0, 0>>, <<0, 50, 100>> >>}
c_PWS    == {w[1] : w \in c_WORLDS}
c_RATES  == {w[2] : w \in c_WORLDS}
c_IDPAIRS == {<<"ea", "eb">>}
REWARD2 == 7
REWARD3 == 3

CoverNext ==
  \/ \E w \in c_WORLDS, tax \in TAXES : Setup(w[1], w[2], tax, 5, <<"ea", "eb">>, 0)
  \/ /\ Len(hist) = 1
     /\ \E x \in FEES : Do("FeeIncome", [x |-> x, path |-> "bank"]) /\ UNCHANGED <<env, dels, nep, nup>>
  \/ /\ Len(hist) = 2
     /\ Do("Block", [ended |-> {env.distId}]) /\ nep' = nep + 1 /\ UNCHANGED <<env, dels, nup>>
  \/ /\ Len(hist) = 3
     /\ \E tax \in TAXES \ {env.tax} :
          /\ Do("UpdateParams", [tax |-> tax, reward |-> REWARD2])
          /\ env' = [env EXCEPT !.tax = tax, !.reward = REWARD2]
          /\ nup' = nup + 1 /\ UNCHANGED <<dels, nep>>
  \/ /\ Len(hist) = 4
     /\ Do("FeeIncome", [x |-> 100, path |-> "bank"]) /\ UNCHANGED <<env, dels, nep, nup>>
  \/ /\ Len(hist) = 5      \* a parameter update on a branch of state that is discarded: the configured values stay
     /\ \E tax \in TAXES \ {env.tax} :
          /\ Do("UpdateParamsDropped", [tax |-> tax, reward |-> REWARD3])
          /\ nup' = nup + 1 /\ UNCHANGED <<env, dels, nep>>
  \/ /\ Len(hist) = 6
     /\ Do("Block", [ended |-> {env.distId, env.mintId}]) /\ nep' = nep + 1 /\ UNCHANGED <<env, dels, nup>>

CoverSpec == Init /\ [][CoverNext]_vars
=============================================================================
