----------------------------- MODULE MC_Avs_q -----------------------------
(* Quick exhaustive configurations of the AVS model.                        *)
(*   MC_Avs_q.cfg  task windows: one AVS/task contract prepared by a prefix, *)
(*                 every period in {0,1}, every submission/challenge class   *)
(*                 at every epoch offset                                     *)
(*   MC_Avs_r.cfg  registry: two AVSs, two task addresses, register /        *)
(*                 update / deregister / opt-in / opt-out interleavings      *)
(*   MC_Avs_d.cfg  = q with the deviations of the current tree switched on:  *)
(*                 TLC must REJECT NoTags (vacuity guard of the findings)    *)
EXTENDS MC_Avs
c_AORD == <<"a1", "a2">>
c_TORD == <<"t1", "t2">>
c_OORD == <<"o1", "u1", "o2", "o3">>
c_VAL  == [o1 |-> 100, u1 |-> 0, o2 |-> 50, o3 |-> 0]
\* o3 has no stake of its own; a staker that is not associated with it delegated 80 to it
c_VALT == [o1 |-> 100, u1 |-> 0, o2 |-> 50, o3 |-> 80]
c_EPOCH0 == [minute |-> 1, hour |-> 1]

E(ev, a) == [ev |-> ev, a |-> a]
Reg(a, t, m)  == E("RegisterAVS", [a |-> a, t |-> t, minself |-> m, eid |-> "minute", unbond |-> 5])
In(o, a)      == E("OptIn", [o |-> o, a |-> a])
Bls(o)        == E("RegisterBLS", [o |-> o, cls |-> "good"])
TickE         == E("Tick", [x |-> 0])

\* a1 registered with task contract t1, o1 and o2 opted in with BLS keys, o3 has a BLS key but is
\* not opted in, voting power updated by one epoch end
c_PREFIX_W == {<<Reg("a1", "t1", 0), In("o1", "a1"), In("o2", "a1"), Bls("o1"), Bls("o2"), Bls("o3"), TickE>>}
c_PREFIX_0 == {<<>>}
\* generation prefixes: the prepared world, with and without a minimum self delegation that o2 misses
c_PREFIX_GW == {<<Reg("a1", "t1", 0), In("o1", "a1"), In("o2", "a1"), Bls("o1"), Bls("o2"), Bls("o3"), TickE>>,
                <<Reg("a1", "t1", 0), In("o1", "a1"), Bls("o1"), Bls("o2"), TickE>>,
                <<Reg("a1", "t1", 60), In("o1", "a1"), Bls("o1"), Bls("o2"), Bls("o3"), TickE>>,
                \* ... and that o3 misses with its own stake (0) while its total value (80) exceeds it: refused
                <<Reg("a1", "t1", 60), In("o1", "a1"), In("o3", "a1"), Bls("o1"), Bls("o3"), TickE>>}
\* registry generation: from the empty state, and from a state in which a task with an accepted result exists
c_PREFIX_GR == {<<>>,
                <<Reg("a1", "t1", 0), In("o1", "a1"), Bls("o1"), Bls("o2"), TickE,
                  E("CreateTask", [t |-> "t1", caller |-> "w1", resp |-> 1, stat |-> 1, chal |-> 1]),
                  E("Submit", [o |-> "o1", from |-> "o1", t |-> "t1", id |-> 1, stage |-> "1", sig |-> "g1", resp |-> "nil"])>>}
\* class cover: the prepared world followed by one task, for a choice of (response, statistical, challenge) periods
\* that produces empty, one-epoch and two-epoch windows
WPrefix == <<Reg("a1", "t1", 0), In("o1", "a1"), In("o2", "a1"), Bls("o1"), Bls("o2"), Bls("o3"), Bls("u1"), TickE>>
Task(r, s, c) == E("CreateTask", [t |-> "t1", caller |-> "w1", resp |-> r, stat |-> s, chal |-> c])
c_PREFIX_COV == {Append(WPrefix, Task(v[1], v[2], v[3])) :
                   v \in {<<0, 0, 0>>, <<0, 1, 1>>, <<1, 2, 2>>}}
\* side classes (unregistered submitter, response with another task id, empty signature): one task (0,1,1)
c_PREFIX_COV2 == {Append(WPrefix, Task(0, 1, 1))}
c_PREFIX_COVT == {Append(WPrefix, Task(r, s, c)) : r \in {0, 1, 2}, s \in {0, 1, 2}, c \in {0, 1, 2}}
\* deviations of the current tree (EmptySigPhase1 left with fix 9d0a8b8, ChallengeWrapNil with fix 4ac3ef5)
c_DEVS_ALL == {"SymDiff"}
\* deviations switched on in the GENERATING model (class cover, -simulate): every deviation the tree has or ever had,
\* so that the behaviours that triggered a repaired defect keep being generated and replayed (DESIGN 7: "its
\* triggering behaviours stay in the normal lane forever"). The strict lane and the guard use c_DEVS_ALL / t_DEVS.
c_DEVS_GEN == {"EmptySigPhase1", "SymDiff", "ChallengeWrapNil"}
=============================================================================
