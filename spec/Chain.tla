------------------------------- MODULE Chain -------------------------------
(***************************************************************************)
(* Chain family (C08 determinism, C18 genesis round trip).                  *)
(*                                                                         *)
(* Part A  - a small model of WHOLE BLOCKS: what a block of the script does *)
(*           to the queue / index state of x/epochs, x/dogfood, x/operator  *)
(*           (consensus-key registry) and x/delegation (undelegation        *)
(*           records + hold counts).  A block = optional epoch end, then a  *)
(*           list of transactions, then EndBlock.  Transcribed from         *)
(*             x/epochs/keeper/abci.go                BeginBlocker          *)
(*             x/dogfood/keeper/impl_epochs_hooks.go  AfterEpochEnd         *)
(*             x/dogfood/keeper/impl_operator_hooks.go                      *)
(*             x/dogfood/keeper/impl_delegation_hooks.go                    *)
(*             x/dogfood/keeper/abci.go               EndBlock              *)
(*             x/operator/keeper/opt.go, consensus_keys.go                  *)
(*             x/delegation/keeper/delegation.go UndelegateFrom, abci.go    *)
(*           Its job is to enumerate block-script SHAPES (which tx kinds    *)
(*           appear where, when epochs end) that put entries into every     *)
(*           queue / index, and to be the strict-lane reference for what    *)
(*           the real chain did with such a script.                         *)
(* Part B  - Export / Import of the simplest modules (epochs, dogfood       *)
(*           queues, delegation records + hold counts, operator key         *)
(*           registry) transcribed from x/*/keeper/genesis.go, with the     *)
(*           predicates Valid / RoundTrip / Stable (property C18).          *)
(* Part C  - the observation function property (C08; also used for C18      *)
(*           SameFuture): same input prefix => same observation.            *)
(*                                                                         *)
(* Where the code departs from the intended behaviour the code's behaviour  *)
(* is a named deviation selected by DEVIATIONS:                             *)
(*   "L12"     dogfood GetAllConsAddrsToPrune / GetAllUndelegationsToMature *)
(*             iterate OptOutsToFinishBytePrefix                            *)
(*   "L13hold" delegation genesis carries no hold counts                    *)
(*   "L13rev"  operator genesis carries only the reverse lookup of the      *)
(*             CURRENT key of each operator                                 *)
(*   "NOHOOK"  the delegation keeper copy inside the precompiles has no     *)
(*             hooks (app.go passed the keeper by value before SetHooks):   *)
(*             undelegations through the gateway never reach dogfood        *)
(*             (repaired by 103357a; kept as a selectable deviation)        *)
(*   "VALKEYS" dogfood ExportGenesis writes, for every validator, the       *)
(*             CURRENT consensus key of its operator (a replacement key     *)
(*             that is not active yet) instead of the validator's key, and  *)
(*             drops validators whose reverse lookup is gone                *)
(***************************************************************************)
EXTENDS Integers, Sequences, FiniteSets, TLC, SequencesExt, Folds

CONSTANTS OPS,        \* operator ids, e.g. {"o1","o2","o3","o4"}
          KEYSEQ,     \* [o \in OPS |-> sequence of consensus key labels the operator uses, in order]
          GENVALS,    \* operators that are validators in genesis (with KEYSEQ[o][1])
          UNB,        \* dogfood EpochsUntilUnbonded
          UNBH,       \* operator.UnbondingExpiration (blocks)
          DEVIATIONS

(***************************************************************************)
(* helpers                                                                 *)
(***************************************************************************)
Put(f, k, v) == [x \in DOMAIN f \cup {k} |-> IF x = k THEN v ELSE f[x]]
Del(f, k)    == [x \in DOMAIN f \ {k} |-> f[x]]
Get(f, k, d) == IF k \in DOMAIN f THEN f[k] ELSE d
RangeS(s)    == {s[i] : i \in DOMAIN s}
QAppend(q, e, x) == Put(q, e, Append(Get(q, e, <<>>), x))
EmptyF == <<>>

RecId(o, h, n) == o \o "/" \o ToString(h) \o "/" \o ToString(n)

(***************************************************************************)
(* Part A: state and block step                                            *)
(***************************************************************************)
\* usd[o]: "none" no USD-value entry, "zero" entry created by opt-in, "pos" computed by the epoch hook
InitState(h0, ep0, seq0, lzn0) ==
  [ h |-> h0, ep |-> ep0,
    opted    |-> [o \in OPS |-> o \in GENVALS],
    usd      |-> [o \in OPS |-> IF o \in GENVALS THEN "pos" ELSE "none"],
    key      |-> [o \in OPS |-> IF o \in GENVALS THEN KEYSEQ[o][1] ELSE ""],
    nkey     |-> [o \in OPS |-> IF o \in GENVALS THEN 2 ELSE 1],
    prev     |-> [o \in OPS |-> ""],
    removing |-> [o \in OPS |-> FALSE],
    rev      |-> [k \in {KEYSEQ[o][1] : o \in GENVALS} |-> CHOOSE o \in GENVALS : KEYSEQ[o][1] = k],
    vals     |-> {KEYSEQ[o][1] : o \in GENVALS},
    optq |-> EmptyF, optfin |-> EmptyF, pruneq |-> EmptyF, matq |-> EmptyF, mate |-> EmptyF,
    recs |-> EmptyF, hold |-> EmptyF,
    seq |-> seq0, lzn |-> lzn0 ]

Ok(st)   == [st |-> st, ok |-> TRUE]
Fail(st) == [st |-> st, ok |-> FALSE]

\* x/dogfood impl_delegation_hooks.go AfterUndelegationStarted; returns [st, ok] (ok = FALSE: panic, tx reverted)
HookUndelegationStarted(st, o, r) ==
  LET place(e) == Ok([st EXCEPT !.matq = QAppend(@, e, r), !.mate = Put(@, r, e), !.hold = Put(@, r, Get(@, r, 0) + 1)])
  IN IF st.removing[o]
       THEN IF o \in DOMAIN st.optfin THEN place(st.optfin[o])
            ELSE Ok(st)     \* opt-out completes at the end of this very block: not held (b16d110; was a nil-key panic, L3)
     ELSE IF st.key[o] = "" THEN Ok(st)
     ELSE IF st.key[o] \in st.vals \/ (st.prev[o] # "" /\ st.prev[o] \in st.vals) THEN place(st.ep + UNB)
     ELSE Ok(st)

\* x/delegation UndelegateFrom (share bookkeeping abstracted: the script keeps every position funded)
\* path "pre": gateway precompile, nonce = next layer-zero nonce; path "msg": MsgUndelegation of the native
\* token, nonce = account sequence AFTER the ante handler incremented it
TxUndel(st, o, path) ==
  LET n  == IF path = "pre" THEN st.lzn + 1 ELSE st.seq + 1
      s0 == IF path = "pre" THEN [st EXCEPT !.lzn = @ + 1] ELSE [st EXCEPT !.seq = @ + 1]
      r  == RecId(o, st.h, n)
      s1 == [s0 EXCEPT !.recs = Put(@, r, st.h + UNBH)]
  IN IF path = "pre" /\ "NOHOOK" \in DEVIATIONS THEN Ok(s1)
     ELSE LET hk == HookUndelegationStarted(s1, o, r) IN IF hk.ok THEN hk ELSE Fail(s0)

\* x/operator consensus_keys.go setOperatorConsKeyForChainID (not genesis)
SetKey(st, o, k) ==
  IF st.removing[o] THEN Fail(st)
  ELSE IF k \in DOMAIN st.rev THEN Fail(st)
  ELSE LET found   == st.key[o] # ""
           old     == st.key[o]
           already == st.prev[o] # ""
           s1 == [st EXCEPT !.prev = IF found /\ ~already THEN [@ EXCEPT ![o] = old] ELSE @,
                            !.key  = [@ EXCEPT ![o] = k],
                            !.rev  = Put(@, k, o)]
       IN IF found
            THEN \* dogfood AfterOperatorKeyReplaced, on EVERY replacement: the old key's reverse lookup is always kept
                 \* until the unbonding epochs have passed (b16d110)
                 Ok([s1 EXCEPT !.pruneq = QAppend(@, st.ep + UNB, old)])
          ELSE Ok(s1)

NextKey(st, o) == IF st.nkey[o] <= Len(KEYSEQ[o]) THEN KEYSEQ[o][st.nkey[o]] ELSE ""

\* MsgOptIntoAVS with a key (operator msg_server.go: cache context around OptIn + key)
TxOptIn(st, o) ==
  LET k == NextKey(st, o) IN
  IF k = "" THEN Fail(st)
  ELSE IF st.opted[o] THEN Fail([st EXCEPT !.nkey = [@ EXCEPT ![o] = @ + 1]])   \* the key label is consumed by the attempt
  ELSE LET s1 == [st EXCEPT !.opted = [@ EXCEPT ![o] = TRUE], !.usd = [@ EXCEPT ![o] = "zero"], !.nkey = [@ EXCEPT ![o] = @ + 1]]
           r  == SetKey(s1, o, k)
       IN IF r.ok THEN r ELSE Fail([st EXCEPT !.nkey = [@ EXCEPT ![o] = @ + 1]])

TxSetKey(st, o) ==
  LET k == NextKey(st, o) IN
  IF k = "" THEN Fail(st)
  ELSE LET s0 == [st EXCEPT !.nkey = [@ EXCEPT ![o] = @ + 1]]
           r  == SetKey(s0, o, k)
       IN IF ~st.opted[o] THEN Fail(s0) ELSE IF r.ok THEN r ELSE Fail(s0)

\* MsgOptOutOfAVS: OptOut + InitiateOperatorKeyRemovalForChainID + dogfood AfterOperatorKeyRemovalInitiated
TxOptOut(st, o) ==
  IF ~st.opted[o] THEN Fail(st)
  ELSE IF st.key[o] = "" THEN Fail(st)                      \* unreachable: opt-in always sets a key
  ELSE LET s1 == [st EXCEPT !.opted = [@ EXCEPT ![o] = FALSE], !.usd = [@ EXCEPT ![o] = "none"],
                            !.removing = [@ EXCEPT ![o] = TRUE]]
       IN \* the completion of the key removal is ALWAYS scheduled (b16d110)
          Ok([s1 EXCEPT !.optq = QAppend(@, st.ep + UNB, o), !.optfin = Put(@, o, st.ep + UNB)])

ApplyEv(st, ev) ==
  CASE ev.k = "undel"  -> TxUndel(st, ev.o, ev.path)
    [] ev.k = "optin"  -> TxOptIn(st, ev.o)
    [] ev.k = "setkey" -> TxSetKey(st, ev.o)
    [] ev.k = "optout" -> TxOptOut(st, ev.o)

\* epochs BeginBlocker + operator / dogfood AfterEpochEnd
BeginBlock(st, ee) ==
  IF ~ee THEN [st |-> [st EXCEPT !.h = @ + 1], pOpt |-> <<>>, pPrune |-> <<>>, pMat |-> <<>>]
  ELSE LET e == st.ep
           pOpt == Get(st.optq, e, <<>>) IN
       [ st |-> [st EXCEPT !.h = @ + 1, !.ep = e + 1,
                           !.usd = [o \in OPS |-> IF st.usd[o] = "none" THEN "none" ELSE "pos"],
                           !.optq = Del(@, e),
                           !.optfin = [o \in DOMAIN @ \ RangeS(pOpt) |-> @[o]],
                           !.pruneq = Del(@, e), !.matq = Del(@, e)],
         pOpt |-> pOpt, pPrune |-> Get(st.pruneq, e, <<>>), pMat |-> Get(st.matq, e, <<>>) ]

\* dogfood EndBlock on an epoch end
ReleaseOne(st, r) ==
  [st EXCEPT !.hold = IF Get(@, r, 0) > 0 THEN (IF @[r] = 1 THEN Del(@, r) ELSE Put(@, r, @[r] - 1)) ELSE @,
             !.mate = Del(@, r)]
CompleteRemoval(st, o) ==
  IF o \notin OPS \/ ~st.removing[o] THEN st
  ELSE [st EXCEPT !.rev = Del(@, st.key[o]), !.key = [@ EXCEPT ![o] = ""], !.removing = [@ EXCEPT ![o] = FALSE]]
DogfoodEndBlock(st, b) ==
  LET s1 == [st EXCEPT !.prev = [o \in OPS |-> ""]]
      s2 == FoldLeft(ReleaseOne, s1, b.pMat)
      s3 == FoldLeft(CompleteRemoval, s2, b.pOpt)
      s4 == FoldLeft(LAMBDA s, k : [s EXCEPT !.rev = Del(@, k)], s3, b.pPrune)
  IN [s4 EXCEPT !.vals = {s4.key[o] : o \in {x \in OPS : s4.opted[x] /\ s4.key[x] # "" /\ s4.usd[x] = "pos"}}]

\* delegation EndBlock: records whose completion height is this height
DelegationEndBlock(st) ==
  LET due == {r \in DOMAIN st.recs : st.recs[r] = st.h} IN
  [st EXCEPT !.recs = [r \in {x \in DOMAIN @ : x \notin due \/ Get(st.hold, x, 0) > 0} |->
                          IF r \in due THEN st.h + 1 ELSE @[r]]]

\* a block: b = [ee |-> BOOLEAN, evs |-> sequence of events]; returns [st, oks]
BlockStep(st, b) ==
  LET bb  == BeginBlock(st, b.ee)
      acc == FoldLeft(LAMBDA a, ev : LET r == ApplyEv(a.st, ev) IN [st |-> r.st, oks |-> Append(a.oks, r.ok)],
                      [st |-> bb.st, oks |-> <<>>], b.evs)
      s1  == IF b.ee THEN DogfoodEndBlock(acc.st, bb) ELSE acc.st
  IN [st |-> DelegationEndBlock(s1), oks |-> acc.oks]

(***************************************************************************)
(* Part B: Export / Import (x/*/keeper/genesis.go) and the C18 predicates   *)
(***************************************************************************)
Persisted == {"ep", "opted", "usd", "key", "prev", "removing", "rev", "vals", "optq", "optfin", "pruneq", "matq", "mate", "recs", "hold"}
Proj(st) == [f \in Persisted |-> st[f]]

Export(st) ==
  [ epochs     |-> [ep |-> st.ep],
    dogfood    |-> [vals   |-> IF "VALKEYS" \in DEVIATIONS      \* IterateBondedValidatorsByPower -> ValidatorByConsAddrForChainID:
                                 THEN {st.key[st.rev[k]] : k \in {x \in st.vals : x \in DOMAIN st.rev /\ st.key[st.rev[x]] # ""}}
                                 ELSE st.vals,                   \* the operator's CURRENT key, not the validator's
                    optq   |-> st.optq,                                       \* GetAllOptOutsToFinish
                    pruneq |-> IF "L12" \in DEVIATIONS THEN st.optq ELSE st.pruneq,   \* GetAllConsAddrsToPrune
                    matq   |-> IF "L12" \in DEVIATIONS THEN st.optq ELSE st.matq],    \* GetAllUndelegationsToMature
    delegation |-> [recs |-> st.recs,
                    hold |-> IF "L13hold" \in DEVIATIONS THEN EmptyF ELSE st.hold],
    operator   |-> [opted |-> st.opted, usd |-> st.usd, key |-> st.key, prev |-> st.prev, removing |-> st.removing,
                    rev |-> IF "L13rev" \in DEVIATIONS
                              THEN [k \in {st.key[o] : o \in {x \in OPS : st.key[x] # ""}} |-> CHOOSE o \in OPS : st.key[o] = k]
                              ELSE st.rev] ]

\* queue -> reverse index, as dogfood InitGenesis does (SetOperatorOptOutFinishEpoch / SetUndelegationMaturityEpoch)
Invert(q) ==
  LET items == UNION {{<<q[e][i], e>> : i \in DOMAIN q[e]} : e \in DOMAIN q} IN
  [x \in {it[1] : it \in items} |-> CHOOSE e \in DOMAIN q : x \in RangeS(q[e])]

Import(doc) ==
  [ ep |-> doc.epochs.ep,
    opted |-> doc.operator.opted, usd |-> doc.operator.usd, key |-> doc.operator.key, prev |-> doc.operator.prev,
    removing |-> doc.operator.removing, rev |-> doc.operator.rev,
    vals |-> doc.dogfood.vals,
    optq |-> doc.dogfood.optq, optfin |-> Invert(doc.dogfood.optq),
    pruneq |-> doc.dogfood.pruneq,
    matq |-> doc.dogfood.matq, mate |-> Invert(doc.dogfood.matq),
    recs |-> doc.delegation.recs, hold |-> doc.delegation.hold ]

\* x/dogfood/types/genesis.go Validate (the part that concerns the queues): every maturity entry must parse as
\* an undelegation record key; operators / consensus addresses are 20-byte addresses either way
IsRecKey(x) == x \notin OPS
ValidDoc(doc) == \A e \in DOMAIN doc.dogfood.matq : \A i \in DOMAIN doc.dogfood.matq[e] : IsRecKey(doc.dogfood.matq[e][i])

Valid(st)     == ValidDoc(Export(st))
RoundTrip(st) == Import(Export(st)) = Proj(st)
ExportOfProj(p) == Export(p)     \* Export only reads persisted fields
Stable(st)    == Export(Import(Export(st))) = Export(st)

(***************************************************************************)
(* Part C: observation function (C08 Observe, C18 SameFuture)               *)
(***************************************************************************)
\* seen \in [prefix -> observation]; a new observation under a known prefix must be equal
ObserveOk(seen, prefix, obs) == prefix \in DOMAIN seen => seen[prefix] = obs
ObserveNext(seen, prefix, obs) == IF prefix \in DOMAIN seen THEN seen ELSE Put(seen, prefix, obs)
=============================================================================
