--------------------------- MODULE MC_Ledger_goalS2 ---------------------------
EXTENDS MC_Ledger_q
c_WANTED == {"slash_reduced_record_below_cap"}
=============================================================================
