SPECIFICATION Spec
CONSTANTS
  KEYBYSENT = FALSE
  OORD <- c_OORD
  SORD <- c_SORD
  AORD <- c_AORD
  AVSORD <- c_AVSORD
  EIDS <- c_EIDS
  DUR <- c_DUR
  KIND <- c_KIND
  DECI <- c_DECI
  GENPRICE <- c_GENPRICE_np
  AVSINFO <- c_AVSINFO
  PRELUDE <- c_GENPRELUDE
  REGISTERED = {"a1", "a2"}
  PREC = 100
  UNBOND = 1
  HOLDOPS = {}
  AMOUNTS = {1, 2}
  PRICES = {1, 2, 3}
  PDECS = {0, 1}
  XFORMS = {"canon"}
  FACTORS = {25, 50}
  POWERS = {1}
  SLASHIDS = {"i1", "i2"}
  UPDAVS = {"avsB"}
  UPDLISTS <- c_UPDLISTS
  UPDMINS = {0, 1, 5}
  PREDEP = 6
  MAXOPS = 20
  FAILBUDGET = 2
  MAXEPOCH = 40
  EPOCHEVERY = 5
INVARIANTS EmitAtDepth
CHECK_DEADLOCK FALSE
