SPECIFICATION Spec
CONSTANTS
  VALS = {"v1", "v2", "v3", "v4", "v5"}
  FORD <- c_FORD
  TOKENS = {"t1", "t2"}
  FIX = {"FROMTO", "WINDOW", "L26", "L8", "L25S", "RPNIL"}
  CFGS <- g_CFGS
  PSS <- g_PSS
  PSS2 <- g_PSS2
  TWOMSG = FALSE
  BADBASE = TRUE
  BADNONCE = TRUE
  MAXH = 8
  MAXTX = 3
  MAXOPS = 26
  MAXRESTART = 2
  UPDENDS = {3, 4, 5, 7, 8}
  MAXUPD = 2
  ADDS <- g_ADDS
  MAXSTAKE = 1
  SECONDBAD = FALSE
  FAILBUDGET = 2
INVARIANTS EmitAtDepth
CHECK_DEADLOCK FALSE
