SPECIFICATION Spec
CONSTANTS
  AORD <- c_AORD
  TORD <- c_TORD
  OORD <- c_OORD
  REGOPS = {"o1", "o2", "o3"}
  VAL <- c_VAL
  VALT <- c_VALT
  PREC = 1
  U64 = 1073741824
  EPOCH0 <- c_EPOCH0
  TICKID = "minute"
  DEVS <- c_DEVS_GEN
  PREFIXES <- c_PREFIX_COV2
  EVENTS = {"Submit", "Challenge", "Tick"}
  A_AVS = {"a1"}
  A_T = {"t1"}
  MINSELFS = {0}
  EIDS = {"minute"}
  U_EIDS = {""}
  UNBONDS = {5}
  CALLERS = {"w1"}
  NAMES = {"n1"}
  A_OPS = {"o1", "u1"}
  BLSCLS = {"good"}
  P_RESP = {0, 1}
  P_STAT = {0, 1}
  P_CHAL = {0, 1}
  STAGES = {"1", "2"}
  SIGS = {"g2", "empty"}
  RESPS = {"nil", "r1", "rw"}
  IDS = {1}
  HASHC = {"good", "bad"}
  FOREIGN = FALSE
  MAXTASKS = 1
  MAXEPOCH = 9
  MAXOPS = 22
  FAILBUDGET = 99
  ONCEPERERR = FALSE
  TICKW = 1
  COVER = TRUE
VIEW View
ACTION_CONSTRAINTS CoverEdge
CHECK_DEADLOCK FALSE
