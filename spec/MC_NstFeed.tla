----------------------------- MODULE MC_NstFeed -----------------------------
(* Bounded exhaustive / simulation model of the nstfeed family.             *)
EXTENDS NstFeed, Json

CONSTANTS STK,        \* stakers that act (subset of STAKERS)
          PKS,        \* validator pubkeys used in deposits / withdrawals
          AMOUNTS,    \* deposit / withdrawal amounts (base units)
          DAMOUNTS,   \* delegation amounts
          PAYLOADS,   \* set of payloads (byte sequences) for Feed / Price
          RIDS,       \* round ids for the direct keeper call Feed
          NONCES, TXHS,
          PRE,        \* events applied before the exploration starts (generation profiles; <<>> = none)
          STRS,       \* liveness part: tuples of price-string classes (one per validator) for an ordinary token's round
          EVENTS, MAXOPS, FAILBUDGET, MAXH

VARIABLES S, G, hist, last, nfail, atom, halted, stopped
vars == <<S, G, hist, last, nfail, atom, halted, stopped>>

PreState ==
  LET step(acc, e) == LET r == NApply(acc.S, e.ev, e.a) IN [S |-> r.st, G |-> NGhost(acc.G, e.ev, e.a, r.err = "", acc.S, r.st)]
  IN Fold(step, [S |-> EmptyState, G |-> ZeroG], PRE)

Init ==
  /\ S = PreState.S
  /\ G = PreState.G
  /\ hist = PRE
  /\ last = [ev |-> "init", ok |-> TRUE, err |-> ""]
  /\ nfail = 0
  /\ atom = TRUE
  /\ halted = FALSE
  /\ stopped = FALSE

\* block-phase events: a panic there is not a rejected transaction but a halted chain
InBlockPhase(ev) == ev \in {"Carry", "Epoch"}

Do(ev, a) ==
  /\ ev \in EVENTS
  /\ ~halted
  /\ Len(hist) < MAXOPS + Len(PRE)
  /\ LET r == NApply(S, ev, a)
         rid == IF ev = "Feed" THEN a.rid ELSE S.O.next
         raw == IF ev = "Carry" THEN (IF S.O.next > 1 THEN S.O.p ELSE <<>>) ELSE IF ev \in {"Feed", "Price"} THEN a.raw ELSE <<>>
     IN
     /\ (r.err = "" \/ nfail < FAILBUDGET)
     /\ nfail' = IF r.err # "" /\ FAILBUDGET < MAXOPS THEN nfail + 1 ELSE nfail
     /\ atom' = (r.err = "" \/ ev = "EndBlock" \/ Unchanged(S, r.st))
     /\ halted' = (r.err = "PANIC" /\ InBlockPhase(ev))
     /\ stopped' = (ev \in FeedLike /\ r.err # "PANIC" /\ StoppedOthers(S, r.st, raw, rid))
     /\ S' = r.st
     /\ G' = NGhost(G, ev, a, r.err = "", S, r.st)
     /\ hist' = Append(hist, [ev |-> ev, a |-> a])
     /\ last' = [ev |-> ev, ok |-> r.err = "", err |-> r.err]

Next ==
  \/ \E s \in STK, pk \in PKS, x \in AMOUNTS : Do("Deposit", [s |-> s, pk |-> pk, x |-> x])
  \/ \E s \in STK, pk \in PKS, x \in AMOUNTS : Do("Withdraw", [s |-> s, pk |-> pk, x |-> x])
  \/ \E s \in STK, o \in OPERATORS, x \in DAMOUNTS : Do("Delegate", [s |-> s, a |-> NSTA, o |-> o, x |-> x])
  \/ \E s \in STK, o \in OPERATORS, x \in DAMOUNTS, n \in NONCES, t \in TXHS :
        n \notin G.used /\ Do("Undelegate", [s |-> s, a |-> NSTA, o |-> o, x |-> x, nonce |-> n, txh |-> t])
  \/ \E p \in PAYLOADS, r \in RIDS : Do("Feed", [raw |-> p, rid |-> r])
  \/ \E p \in PAYLOADS : Do("Price", [raw |-> p])
  \/ Do("Carry", [x |-> 0])
  \/ \E ps \in STRS : Do("Str", [ps |-> ps])
  \/ Do("Epoch", [x |-> 0])
  \/ S.L.h < MAXH /\ Do("EndBlock", [x |-> 0])

Spec == Init /\ [][Next]_vars
View == <<S, G, nfail, atom, halted, stopped, Len(hist)>>
ViewG == <<S, G, nfail, atom, halted, stopped>>

\* ----- invariants -----
InvConservation == Conservation(S.L, G)
InvPublished    == Published(S.L, G)
InvNonNeg       == NonNegative(S.L)
InvAtomic       == atom                 \* C09: a reported failure leaves the state untouched
InvAlive        == ~halted              \* C11: no block phase panics
InvIsolated     == ~stopped             \* C09: a failing staker does not stop the others
\* the oracle's staker list holds exactly the stakers with a stored info, once each
InvListInfo     == /\ NoDupSeq(S.O.list)
                   /\ \A s \in STAKERS : S.O.info[s].ex => InSeq(s, S.O.list)

EmitAtDepth == (Len(hist) < MAXOPS + Len(PRE) /\ ~halted) \/ PrintT("BEHAVIOUR " \o ToJson(hist))

=============================================================================
