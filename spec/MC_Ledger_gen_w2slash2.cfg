SPECIFICATION Spec
CONSTANTS
  SORD <- c_SORD
  OORD <- c_OORD
  AORD <- c_AORD
  KIND <- c_KIND
  DECI <- c_DECI
  PRICE <- c_PRICE
  PDEC <- c_PDEC
  REGISTERED = {"lst","nst"}
  PREC = 100
  UNBOND = 2
  HOLDOPS = {"o1"}
  HOOKED = TRUE
  AMOUNTS = {1,3}
  NONCES = {1,2,3}
  TXHS = {"t1"}
  MAXH = 8
  MAXOPS = 10
  FACTORS = {0,1,33,50,100,150}
  POWERS = {1,2,50}
  SLASHIDS = {"i1","i2"}
  NSTDELTAS <- c_NSTDELTAS
  GENBAL = 9
  FAILBUDGET = 4
  FRESH = TRUE
  WANTED = {}
  PREFUND = 9
  PREDEL = 3
  EVENTS = {"Undelegate","Slash","EndBlock","ReleaseHold"}
INVARIANTS EmitAtDepth
CHECK_DEADLOCK FALSE
