SPECIFICATION Spec
CONSTANTS
  IDORD <- c_IDORD
  TPL <- t_TPL
  GT <- c_GT
  STEPS = {1, 2, 3, 5, 11}
  MAXBLOCKS = 7
VIEW View
INVARIANTS InvClosedForm InvNotifyOnce InvNotifyOrder
PROPERTIES PropFirst PropAdvance PropStartTime PropSubs PropFrame PropIndependent
CHECK_DEADLOCK FALSE
