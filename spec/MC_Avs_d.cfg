SPECIFICATION Spec
CONSTANTS
  AORD <- c_AORD
  TORD <- c_TORD
  OORD <- c_OORD
  REGOPS = {"o1", "o2", "o3"}
  VAL <- c_VAL
  VALT <- c_VALT
  PREC = 1
  U64 = 1073741824
  EPOCH0 <- c_EPOCH0
  TICKID = "minute"
  DEVS <- c_DEVS_ALL
  PREFIXES <- c_PREFIX_W
  EVENTS = {"CreateTask", "Submit", "Challenge", "Tick"}
  A_AVS = {"a1"}
  A_T = {"t1"}
  MINSELFS = {0}
  EIDS = {"minute"}
  U_EIDS = {""}
  UNBONDS = {5}
  CALLERS = {"w1"}
  NAMES = {"n1"}
  A_OPS = {"o1", "o3"}
  BLSCLS = {"good"}
  P_RESP = {0, 1}
  P_STAT = {0, 1}
  P_CHAL = {0, 1}
  STAGES = {"1", "2"}
  SIGS = {"g1", "g3", "x1"}
  RESPS = {"nil", "r1", "r2", "rw"}
  IDS = {1}
  HASHC = {"good", "bad"}
  FOREIGN = FALSE
  MAXTASKS = 1
  MAXEPOCH = 7
  MAXOPS = 17
  FAILBUDGET = 99
  ONCEPERERR = FALSE
  TICKW = 1
  COVER = FALSE
VIEW View
INVARIANTS NoTags
CHECK_DEADLOCK FALSE
