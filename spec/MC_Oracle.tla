----------------------------- MODULE MC_Oracle -----------------------------
(* Bounded exhaustive / simulation model of the oracle family (C12, C14).   *)
(* Two copies of the oracle run in lockstep on the same inputs: S is the     *)
(* node that restarts where the behaviour says so, T its continuous twin.    *)
EXTENDS Oracle, Json

CONSTANTS CFGS,      \* configurations one of which is chosen by Init
          PSS,       \* price lists a message may carry (sequences of [d, p])
          PSS2,      \* price lists of the second message of a two-message tx
          TWOMSG,    \* TRUE: txs with two messages of one validator are generated
          BADBASE,   \* TRUE: messages with a stale base block are generated
          BADNONCE,  \* TRUE: messages with a non-consecutive nonce are generated
          MAXH,      \* last block height executed
          MAXTX,     \* txs per block
          MAXOPS,    \* events per behaviour
          MAXRESTART,\* restarts per behaviour
          UPDENDS,   \* EndBlock values a params update may set on a feeder
          MAXUPD,    \* params updates per behaviour
          MAXSTAKE,  \* delegations to one validator's operator per behaviour (partial validator-set changes)
          ADDS,      \* feeders a params update may add / resume: records [tok, start, iv]; the round id is the valid one
          SECONDBAD, \* TRUE: the second message of a two-message tx always carries a stale base block (lead L7 probes)
          FAILBUDGET \* rejected txs per behaviour (>= MAXOPS: unlimited)

VARIABLES S, T, G, hist, last, nfail, nrestart, ntx, bp, nupd, stk
\* bp: <<price of token t1 at the last BeginBlock on S, on T>> (x/operator turns it into voting power at an epoch end)
\* stk: extra whole units of the staking asset delegated to each validator's operator (env: x/assets, x/delegation)
vars == <<S, T, G, hist, last, nfail, nrestart, ntx, bp, nupd, stk>>

\* latest stored price of the staking asset's token (t1); 1 if there is none
LatestT1(X) == LET l == X.prices["t1"].list IN IF l = <<>> \/ ~l[Len(l)].p.some THEN 1 ELSE l[Len(l)].p.v
\* validator updates x/dogfood emits in EndBlock(h): at the end of a dogfood epoch (every c.ep blocks) x/operator
\* recomputes every validator's power as (staked amount = genesis power) * (price of t1 at BeginBlock);
\* updates are emitted only if something changed.  (Prediction used for generation; traces log the real ones.)
PredictVU(X, price) ==
  IF X.c.ep = 0 \/ X.h = 1 \/ (X.h - 1) % X.c.ep # 0 THEN <<>>
  ELSE LET new == [v \in DOMAIN X.c.pw |-> (X.c.pw[v] + stk[v]) * price]
           ch  == {v \in DOMAIN new : new[v] # X.dv[v]}          \* the ABCI diff lists only the validators that changed
       IN [v \in ch |-> new[v]]

Init ==
  /\ \E c \in CFGS : S = InitState(c) /\ hist = <<[ev |-> "Init", a |-> [cfg |-> c]]>>
  /\ T = S
  /\ G = [subs |-> {}]
  /\ last = [ev |-> "Init", okS |-> TRUE, okT |-> TRUE, fin |-> {}, carryOK |-> TRUE, halt |-> FALSE]
  /\ nupd = 0
  /\ stk = [v \in DOMAIN S.c.pw |-> 0]
  /\ nfail = 0 /\ nrestart = 0 /\ ntx = 0
  /\ bp = <<LatestT1(S), LatestT1(S)>>

\* prices recorded by a step: <<token, round id, price option>> of every new list entry
NewEntries(pre, post) ==
  UNION {{<<t, e.r, e.p>> : e \in {x \in RangeOf(post.prices[t].list) : x.r >= pre.prices[t].next}} : t \in TOKENS}

FeedersOfTok(c, t) == {f \in FEEDERS : c.fd[f].tok = t}

\* threshold boundary reached by the accepted reports of a round: the best-backed (source round, value) has exactly
\* floor(2T/3) or floor(2T/3)+1 power, the reported power exceeds 2/3 and somebody reported something else
Boundary(subs, c, f, k) ==
  LET R == SubsOf(subs, f, k)
      T3 == (2 * Total(c)) \div 3
      backing(s) == PowerOf(c, {x.v : x \in {y \in R : y.d = s.d /\ y.p = s.p}})
  IN /\ R # {} /\ Exceeds(PowerOf(c, {s.v : s \in R}), Total(c))
     /\ \E s \in R : backing(s) \in {T3, T3 + 1} /\ \A x \in R : backing(x) <= backing(s)
     /\ \E s, x \in R : s.d = x.d /\ s.p # x.p

DoTx(msgs) ==
  /\ Len(hist) < MAXOPS /\ ntx < MAXTX /\ S.h <= MAXH /\ ~last.halt
  /\ LET rs == DeliverTx(S, msgs)
         rt == IF T = S THEN rs ELSE DeliverTx(T, msgs)
         g2 == IF rs.err = "" THEN [G EXCEPT !.subs = AddSubs(@, S.c, S.h, msgs)] ELSE G
     IN /\ (rs.err = "" \/ nfail < FAILBUDGET)
        /\ nfail' = IF rs.err # "" /\ FAILBUDGET < MAXOPS THEN nfail + 1 ELSE nfail
        /\ S' = rs.st /\ T' = rt.st /\ G' = g2
        /\ hist' = Append(hist, [ev |-> "Tx", a |-> [msgs |-> msgs],
                                  \* notes for the behaviour selection of tools/fam_oracle.py (ignored by the harness)
                                  n |-> (IF NewEntries(S, rs.st) # {} THEN {"fin"} ELSE {}) \cup
                                        (IF rs.err = "" /\ Boundary(g2.subs, [S.c EXCEPT !.pw = S.pw], msgs[1].f, RoundIdx(S.c, msgs[1].f, S.h)) THEN {"bnd"} ELSE {}) \cup
                                        (IF rs.err # "" /\ Mem(rs.st) # Mem(S) THEN {"failmem"} ELSE {}) \cup
                                        (IF Stored(rs.st) # Stored(rt.st) \/ (rs.err = "") # (rt.err = "") THEN {"div"} ELSE {})])
        /\ last' = [ev |-> "Tx", okS |-> rs.err = "", okT |-> rt.err = "",
                    fin |-> UNION {{[f |-> f, k |-> RoundIdx(S.c, f, S.h), p |-> e[3]] :
                                      f \in {x \in FeedersOfTok(S.c, e[1]) : \E i \in DOMAIN msgs : msgs[i].f = x}} : e \in NewEntries(S, rs.st)},
                    carryOK |-> TRUE, halt |-> FALSE]
        /\ ntx' = ntx + 1 /\ UNCHANGED <<nrestart, bp, nupd, stk>>

CarryOK(pre, post) ==
  \A t \in TOKENS :
    \A i \in DOMAIN post.prices[t].list :
      LET e == post.prices[t].list[i] IN
      (e.r >= pre.prices[t].next /\ \E x \in RangeOf(pre.prices[t].list) : x.r = e.r - 1) =>
         e.p = (CHOOSE x \in RangeOf(pre.prices[t].list) : x.r = e.r - 1).p

\* where a behaviour restarts: c.rs = {0}: anywhere (free choice); otherwise exactly after the blocks in c.rs
RestartChoices == IF S.c.rs = {0} THEN BOOLEAN ELSE {S.h \in S.c.rs}

DoEnd(restart) ==
  /\ Len(hist) < MAXOPS /\ S.h <= MAXH /\ ~last.halt
  /\ restart => nrestart < MAXRESTART
  /\ restart \in RestartChoices
  /\ LET rs == Apply(S, "EndBlock", [restart |-> restart, vu |-> PredictVU(S, bp[1])])
         rt == IF T = S /\ ~restart /\ bp[1] = bp[2] THEN rs ELSE Apply(T, "EndBlock", [restart |-> FALSE, vu |-> PredictVU(T, bp[2])])
         halted == rs.err = "PANIC" \/ rt.err = "PANIC"     \* BeginBlock of the restarted node panics: the node is down
     IN /\ S' = rs.st /\ T' = rt.st /\ bp' = <<LatestT1(rs.st), LatestT1(rt.st)>>
        /\ hist' = Append(hist, [ev |-> "EndBlock", a |-> [restart |-> restart],
                                  n |-> (IF NewEntries(S, rs.st) # {} THEN {"carry"} ELSE {}) \cup (IF rs.st.pw # S.pw THEN {"vu"} ELSE {}) \cup (IF rs.st.dv # S.dv /\ \E v \in DOMAIN S.dv : rs.st.dv[v] = S.dv[v] THEN {"pvu"} ELSE {}) \cup
                                        (IF restart /\ Mem(rs.st) # Mem(rt.st) THEN {"memdiff"} ELSE {}) \cup
                                        (IF Stored(rs.st) # Stored(rt.st) THEN {"div"} ELSE {})])
        /\ last' = [ev |-> "EndBlock", okS |-> TRUE, okT |-> TRUE, fin |-> {}, carryOK |-> halted \/ CarryOK(S, rs.st), halt |-> halted]
  /\ nrestart' = IF restart THEN nrestart + 1 ELSE nrestart
  /\ ntx' = 0 /\ UNCHANGED <<G, nfail, nupd, stk>>

\* MsgUpdateParams (governance): set the EndBlock of a feeder
DoUpd(f, e) ==
  /\ Len(hist) < MAXOPS /\ S.h <= MAXH /\ ~last.halt /\ nupd < MAXUPD
  /\ Present(S.kfd, f) /\ S.kfd[f].start < 1000000      \* not for a feeder that is switched off in this configuration
  /\ LET rs == Apply(S, "Upd", [f |-> f, end |-> e])
         rt == IF T = S THEN rs ELSE Apply(T, "Upd", [f |-> f, end |-> e])
     IN /\ (rs.err = "" \/ nfail < FAILBUDGET)
        /\ nfail' = IF rs.err # "" /\ FAILBUDGET < MAXOPS THEN nfail + 1 ELSE nfail
        /\ S' = rs.st /\ T' = rt.st
        /\ hist' = Append(hist, [ev |-> "Upd", a |-> [f |-> f, end |-> e], n |-> IF rs.err = "" THEN {"upd"} ELSE {}])
        /\ last' = [ev |-> "Upd", okS |-> rs.err = "", okT |-> rt.err = "", fin |-> {}, carryOK |-> TRUE, halt |-> FALSE]
  /\ nupd' = nupd + 1 /\ UNCHANGED <<G, nrestart, ntx, bp, stk>>

\* a delegation to the operator of ONE validator: at the next dogfood epoch end only that validator's power changes
DoStake(v) ==
  /\ Len(hist) < MAXOPS /\ S.h <= MAXH /\ ~last.halt /\ S.c.ep > 0
  /\ FoldFunctionOnSet(LAMBDA a, b : a + b, 0, stk, DOMAIN stk) < MAXSTAKE
  /\ stk' = [stk EXCEPT ![v] = @ + 1]
  /\ hist' = Append(hist, [ev |-> "Stake", a |-> [v |-> v, x |-> 1], n |-> {"stake"}])
  /\ last' = [ev |-> "Stake", okS |-> TRUE, okT |-> TRUE, fin |-> {}, carryOK |-> TRUE, halt |-> FALSE]
  /\ UNCHANGED <<S, T, G, nfail, nrestart, ntx, bp, nupd>>

\* MsgUpdateParams (governance): add the first feeder of a token / re-plan a feeder that has not started / resume a token
\* whose feeder has ended (with the round id that continues the token's numbering)
ResumeRound(fd, tok) == IF IdsOf(fd, tok) = {} THEN 1 ELSE LET p == fd[LatestOf(fd, tok)] IN IF p.end = 0 THEN p.sr ELSE p.sr + (p.end - p.start) \div p.iv + 1
DoAdd(x) ==
  /\ Len(hist) < MAXOPS /\ S.h <= MAXH /\ ~last.halt /\ nupd < MAXUPD
  /\ LET a  == [tok |-> x.tok, start |-> x.start, iv |-> x.iv, sr |-> ResumeRound(S.kfd, x.tok)]
         rs == Apply(S, "Add", a)
         rt == IF T = S THEN rs ELSE Apply(T, "Add", a)
     IN /\ (rs.err = "" \/ nfail < FAILBUDGET)
        /\ nfail' = IF rs.err # "" /\ FAILBUDGET < MAXOPS THEN nfail + 1 ELSE nfail
        /\ S' = rs.st /\ T' = rt.st
        /\ hist' = Append(hist, [ev |-> "Add", a |-> a, n |-> IF rs.err = "" THEN {"add"} ELSE {}])
        /\ last' = [ev |-> "Add", okS |-> rs.err = "", okT |-> rt.err = "", fin |-> {}, carryOK |-> TRUE, halt |-> FALSE]
  /\ nupd' = nupd + 1 /\ UNCHANGED <<G, nrestart, ntx, bp, stk>>

\* message alphabet, relative to the state of S
Bases(f) == (IF f \in DOMAIN S.rounds THEN {S.rounds[f].base} ELSE {0}) \cup
            (IF BADBASE /\ f \in DOMAIN S.rounds THEN {S.rounds[f].base + 1} ELSE {})
NextNonce(nn, v, f) == IF <<v, f>> \in DOMAIN nn THEN nn[<<v, f>>] + 1 ELSE 1
Nonces(nn, v, f) == {NextNonce(nn, v, f)} \cup (IF BADNONCE THEN {NextNonce(nn, v, f) + 1} ELSE {})

MsgsFor(nn, P) ==
  UNION {{[v |-> vf[1], f |-> vf[2], base |-> b, nonce |-> n, ps |-> ps] : b \in Bases(vf[2]), n \in Nonces(nn, vf[1], vf[2]), ps \in P} : vf \in (DOMAIN S.c.pw) \X {f \in FEEDERS : Present(S.c.fd, f)}}
AfterFirst(m) == IF <<m.v, m.f>> \in DOMAIN S.nonce THEN [S.nonce EXCEPT ![<<m.v, m.f>>] = m.nonce] ELSE S.nonce
StaleBase(f) == IF f \in DOMAIN S.rounds THEN S.rounds[f].base + 1 ELSE 1
SecondFor(m) ==
  IF SECONDBAD THEN {[v |-> m.v, f |-> f, base |-> StaleBase(f), nonce |-> NextNonce(AfterFirst(m), m.v, f), ps |-> ps] : f \in {x \in FEEDERS : Present(S.c.fd, x)}, ps \in PSS2}
  ELSE {x \in MsgsFor(AfterFirst(m), PSS2) : x.v = m.v}
OneMsgs == {<<m>> : m \in MsgsFor(S.nonce, PSS)}
TwoMsgs ==
  IF ~TWOMSG THEN {} ELSE
  UNION {{<<m, n>> : n \in SecondFor(m)} : m \in MsgsFor(S.nonce, PSS)}

Next ==
  \/ \E ms \in OneMsgs : DoTx(ms)
  \/ \E ms \in TwoMsgs : DoTx(ms)
  \/ \E r \in BOOLEAN : DoEnd(r)
  \/ \E f \in FEEDERS, e \in UPDENDS : DoUpd(f, e)
  \/ \E x \in ADDS : DoAdd(x)
  \/ \E v \in DOMAIN S.c.pw : DoStake(v)

Spec == Init /\ [][Next]_vars

\* hist itself is hidden, but its LENGTH bounds the behaviours (MAXOPS) and therefore must be part of the
\* fingerprint: otherwise a state first reached by a LONGER history loses successors that a shorter history would
\* still have, and the reachable set depends on the exploration order (only strict BFS = one worker explores
\* every state first along a shortest history).  With Len(hist) in the VIEW the exhaustive runs are order-independent.
\* The exhaustive configurations use a MAXOPS that cannot bind (every event is bounded by a state component:
\* MAXH blocks, MAXTX txs per block, MAXUPD updates), then the length adds nothing and is left out.
MaxEvents == 1 + MAXH * (MAXTX + 1) + MAXUPD
View == <<S, T, G, last, nfail, nrestart, ntx, bp, nupd, stk, IF MAXOPS <= MaxEvents THEN Len(hist) ELSE 0>>

\* ----- invariants: C12 on the node S -----
HH == S.h - 1
InvNoGaps ==
  last.ev = "EndBlock" =>
    \A f \in FEEDERS :
      IF FeederLive(S.c, f, HH)
      THEN S.prices[TokOf(S.c, f)].next >= NextLow(S.c, f, HH) /\ S.prices[TokOf(S.c, f)].next <= NextHigh(S.c, f, HH)
      ELSE TRUE
InvConsecutive == \A t \in TOKENS : Consecutive(S.prices[t])
InvRetention   == \A t \in TOKENS : Retention(S.prices[t], S.c)
InvFinal       == \A x \in last.fin : x.p.some /\ Supermajority(S.c, G.subs, x.f, x.k) /\ Agreed(S.c, G.subs, x.f, x.k, x.p.v)
InvCarry       == last.carryOK
\* ----- C14: the restarted node shows what the continuous one shows -----
InvRestartEq   == Stored(S) = Stored(T) /\ last.okS = last.okT
\* ----- C11: no block phase panics (a restarted node must come up) -----
InvNoHalt      == ~last.halt

\* behaviour generation: print the history once it reaches the depth bound
EmitAtDepth == (Len(hist) < MAXOPS /\ S.h <= MAXH /\ ~last.halt) \/ PrintT("BEHAVIOUR " \o ToJson(hist))
=============================================================================
