------------------------------- MODULE Num -------------------------------
(***************************************************************************)
(* Exact integer and fixed-point arithmetic shared by every family spec.    *)
(*                                                                         *)
(* The definitions in this module are the pure-TLA+ meaning of each         *)
(* operator on integers; they are what the bounded exhaustive               *)
(* configurations evaluate (Num.class absent from the run directory).  For  *)
(* trace validation at the implementation's precision (10^18, 256-bit       *)
(* amounts) the same operators are overridden by Num.class (BigInteger):    *)
(* it accepts ints and decimal STRINGS and always returns canonical decimal *)
(* strings, so that "=" between amounts stays structural (TLC refuses to    *)
(* compare a string with an integer; therefore every AMOUNT that is stored  *)
(* or compared must come out of an N-operator or be written N0 / N1, and    *)
(* traces log every amount as a string; heights, nonces and counters stay   *)
(* plain integers).  The override is arithmetic only: every formula,        *)
(* rounding rule and property is TLA+.                                      *)
(***************************************************************************)
EXTENDS Integers

NAbs(a) == IF a < 0 THEN -a ELSE a

\* canonical form of a number (identity on ints; decimal string under the override)
NC(a) == a
N0 == NC(0)
N1 == NC(1)

NAdd(a, b) == a + b
NSub(a, b) == a - b
NMul(a, b) == a * b
NNeg(a)    == -a

\* Go's big.Int.Quo: truncation toward zero
NQuo(a, b) ==
  IF (a >= 0) = (b > 0) THEN NAbs(a) \div NAbs(b) ELSE -(NAbs(a) \div NAbs(b))
NRem(a, b) == a - b * NQuo(a, b)

NLt(a, b) == a < b
NLe(a, b) == a <= b
NGt(a, b) == a > b
NGe(a, b) == a >= b
NEq(a, b) == a = b
NIsZero(a) == a = 0
NIsPos(a)  == a > 0
NIsNeg(a)  == a < 0
NMin(a, b) == IF a <= b THEN a ELSE b
NMax(a, b) == IF a >= b THEN a ELSE b
NIsOdd(a)  == NAbs(a) % 2 = 1

RECURSIVE NPow10(_)
NPow10(n) == IF n = 0 THEN 1 ELSE 10 * NPow10(n - 1)

\* number of bits of |a| (big.Int.BitLen) -- used for the sdkmath overflow panics
RECURSIVE NBitLenPos(_)
NBitLenPos(a) == IF a = 0 THEN 0 ELSE 1 + NBitLenPos(a \div 2)
NBitLen(a) == NBitLenPos(NAbs(a))

(***************************************************************************)
(* cosmossdk.io/math LegacyDec, represented by its scaled integer d.i,      *)
(* parametrised by the precision unit P (10^18 in the implementation).      *)
(***************************************************************************)

\* chopPrecisionAndRound: banker's rounding of x / P
ChopRound(x, P) ==
  LET ax  == IF NIsNeg(x) THEN NNeg(x) ELSE x
      q   == NQuo(ax, P)
      r   == NRem(ax, P)
      twr == NMul(2, r)
      up  == IF NIsZero(r) THEN FALSE
             ELSE IF NLt(twr, P) THEN FALSE
             ELSE IF NGt(twr, P) THEN TRUE
             ELSE NIsOdd(q)
      res == IF up THEN NAdd(q, 1) ELSE q
  IN IF NIsNeg(x) THEN NNeg(res) ELSE res

ChopTrunc(x, P) == NQuo(x, P)

DecFromInt(i, P)    == NMul(i, P)                       \* LegacyNewDecFromInt
DecMul(a, b, P)     == ChopRound(NMul(a, b), P)         \* Mul
DecMulTrunc(a, b, P) == ChopTrunc(NMul(a, b), P)        \* MulTruncate
DecMulInt(a, i)     == NMul(a, i)                       \* MulInt
DecQuo(a, b, P)     == ChopRound(NQuo(NMul(a, NMul(P, P)), b), P)   \* Quo
DecQuoTrunc(a, b, P) == ChopTrunc(NQuo(NMul(a, NMul(P, P)), b), P)  \* QuoTruncate
DecQuoInt(a, i)     == NQuo(a, i)                       \* QuoInt
DecTruncInt(a, P)   == ChopTrunc(a, P)                  \* TruncateInt
DecRoundInt(a, P)   == ChopRound(a, P)                  \* RoundInt
=============================================================================
