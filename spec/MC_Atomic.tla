----------------------------- MODULE MC_Atomic -----------------------------
(* Bounded model of the atomic family (C09): every entry point with every    *)
(* argument of a small domain in every reachable registry state.             *)
(*   InvAtomic   in every reachable state EVERY call of the alphabet is      *)
(*               atomic (Atomic!AtomicStep) - exhaustive check, DEVS = {}    *)
(*   CoverEdge   class cover: breadth-first, prints one shortest behaviour   *)
(*               for every class (entry point, failing check | ok, lead)     *)
(*   EmitAtDepth behaviour generation by -simulate                           *)
EXTENDS Atomic, Json

CONSTANTS
  PREFIXES,   \* set of event sequences a behaviour starts with
  EVENTS,     \* entry points Next may take
  MAXOPS,     \* number of events after the prefix
  MAXEP,      \* Tick is disabled from this epoch on
  FAILBUDGET, \* failing calls allowed per behaviour (simulation); cover: 99
  COVER       \* TRUE: compute classes

VARIABLES st, hist, nfail, cls, nstep
vars == <<st, hist, nfail, cls, nstep>>

E(ev, a) == [ev |-> ev, a |-> a]
RunPrefix(p) == FoldLeft(LAMBDA acc, e : Step(acc, e.ev, e.a).st, Genesis, p)

(***************************************************************************)
(* Argument domains: a base call per entry point and one-dimension          *)
(* variations of it (plus the malformed-argument classes `bad`)              *)
(***************************************************************************)
Vary(base, field, vals) == {[base EXCEPT ![field] = v] : v \in vals}
BadOf(base, names) == {[base EXCEPT !.bad = b] : b \in names}

RegBase(a, t) == [a |-> a, sender |-> "w1", own |-> "W1", t |-> t, eid |-> "minute", al |-> "L", ms |-> 0, unb |-> 2, bad |-> ""]
CallsRegisterAVS ==
  UNION {{RegBase(a, t)} \cup Vary(RegBase(a, t), "sender", {"w2"}) \cup Vary(RegBase(a, t), "eid", {"nope", "hour"})
         \cup Vary(RegBase(a, t), "al", {"N", "B"}) \cup Vary(RegBase(a, t), "ms", {1000}) \cup Vary(RegBase(a, t), "own", {"W12"})
         : a \in AVSS, t \in TADDRS}
  \cup BadOf(RegBase("a1", "t1"), {"sender0", "name", "minstake0", "task0", "slash0", "reward0", "ownerbad", "noassets", "unbond0", "eid0", "params"})

UpdBase(a) == [a |-> a, sender |-> "w1", own |-> "", t |-> "", eid |-> "", al |-> "", ms |-> 0, bad |-> ""]
CallsUpdateAVS ==
  UNION {{UpdBase(a)} \cup Vary(UpdBase(a), "sender", {"w2"}) \cup Vary(UpdBase(a), "t", {"t1", "t2"}) \cup Vary(UpdBase(a), "eid", {"nope"})
         \cup Vary(UpdBase(a), "al", {"N", "B", "L"}) \cup Vary(UpdBase(a), "own", {"W2"}) \cup Vary(UpdBase(a), "ms", {1000})
         : a \in AVSS}
  \cup BadOf(UpdBase("a1"), {"sender0", "task0", "ownerbad", "params"})

DeregBase(a) == [a |-> a, sender |-> "w1", name |-> "n1", bad |-> ""]
CallsDeregisterAVS ==
  UNION {{DeregBase(a)} \cup Vary(DeregBase(a), "sender", {"w2"}) \cup Vary(DeregBase(a), "name", {"nx"}) : a \in AVSS}
  \cup BadOf(DeregBase("a1"), {"sender0", "name0"})

CallsOpt == {[a |-> a, o |-> o, bad |-> ""] : a \in AVSS, o \in {"o1", "o2", "o3", "u1"}} \cup {[a |-> "a1", o |-> "o1", bad |-> "sender0"]}

TaskBase(t) == [t |-> t, sender |-> "w1", resp |-> 1, stat |-> 1, chal |-> 1, bad |-> ""]
CallsCreateTask ==
  UNION {{TaskBase(t)} \cup Vary(TaskBase(t), "sender", {"w2"}) \cup Vary(TaskBase(t), "stat", {0}) : t \in TADDRS}
  \cup BadOf(TaskBase("t1"), {"sender0", "name0"})

CallsBLS == {[o |-> o, cls |-> c, bad |-> ""] : o \in {"o1", "o2", "u1"}, c \in {"good"}}
            \cup {[o |-> "o3", cls |-> c, bad |-> ""] : c \in {"good", "badsig", "junksig", "badpk"}}
            \cup BadOf([o |-> "o3", cls |-> "good", bad |-> ""], {"sender0", "name0"})

ChalBase(o) == [t |-> "t1", sender |-> "w1", id |-> 1, o |-> o, thash |-> "good", rhash |-> "good", bad |-> ""]
CallsChallenge ==
  UNION {{ChalBase(o)} \cup Vary(ChalBase(o), "thash", {"bad"}) \cup Vary(ChalBase(o), "rhash", {"bad"}) \cup Vary(ChalBase(o), "id", {2})
         \cup Vary(ChalBase(o), "t", {"t2"}) : o \in {"o1", "o2"}}
  \cup BadOf(ChalBase("o1"), {"sender0", "op0", "opbad"})

ChainBase == [caller |-> "gw", id |-> 102, bad |-> ""]
CallsChain == {ChainBase} \cup Vary(ChainBase, "caller", {"x"}) \cup Vary(ChainBase, "id", {101}) \cup BadOf(ChainBase, {"addrlen0", "addrlenshort", "name", "meta"})

TokBase == [caller |-> "gw", chain |-> 101, as |-> "new1", dec |-> 6, oi |-> "ok", bad |-> ""]
CallsToken ==
  {TokBase} \cup Vary(TokBase, "caller", {"x"}) \cup Vary(TokBase, "chain", {103}) \cup Vary(TokBase, "as", {"lst", "new2"}) \cup Vary(TokBase, "dec", {19})
  \cup Vary(TokBase, "oi", {"short", "baddec", "badiv"}) \cup BadOf(TokBase, {"addrshort", "name", "meta"})
  \cup {[TokBase EXCEPT !.dec = 19, !.as = "new2"]}

UTokBase == [caller |-> "gw", chain |-> 101, as |-> "lst", bad |-> ""]
CallsUpdToken == {UTokBase} \cup Vary(UTokBase, "caller", {"x"}) \cup Vary(UTokBase, "chain", {103}) \cup Vary(UTokBase, "as", {"new1"}) \cup BadOf(UTokBase, {"addrshort", "meta"})
CallsReward == {UTokBase} \cup Vary(UTokBase, "caller", {"x"}) \cup Vary(UTokBase, "chain", {103}) \cup BadOf(UTokBase, {"addrshort", "amount0"})

CallsRegOp == {[o |-> o, earn |-> e] : o \in {"u1"}, e \in {"none", "ok", "empty", "badchain"}} \cup {[o |-> "o1", earn |-> "none"]}
CallsMsgOptIn ==
  {[o |-> o, a |-> a, key |-> ""] : o \in {"o1", "o3", "u1"}, a \in AVSS}
  \cup {[o |-> "o3", a |-> "a1", key |-> "k3"]}
  \cup {[o |-> o, a |-> DOG, key |-> k] : o \in {"o3", "o1"}, k \in {"", "junk", "k3", "k1"}}
CallsMsgOptOut == {[o |-> o, a |-> a] : o \in {"o1", "o3", "u1"}, a \in AVSALL}
CallsSetKey == {[o |-> o, a |-> DOG, key |-> k] : o \in {"o1", "o3"}, k \in {"k3", "k4", "k2", "k1", "junk"}} \cup {[o |-> "o1", a |-> "a1", key |-> "k3"]}

SubBase(o, stage) == [o |-> o, from |-> o, t |-> "t1", id |-> 1, stage |-> stage, sig |-> "g1", resp |-> IF stage = "1" THEN "nil" ELSE "r1"]
CallsSubmit ==
  UNION {{SubBase(o, s)} \cup Vary(SubBase(o, s), "sig", {"x1", "empty"}) \cup Vary(SubBase(o, s), "resp", {"nil", "r1", "rw"})
         \cup Vary(SubBase(o, s), "id", {2}) : o \in {"o1", "o2"}, s \in {"1", "2"}}
  \cup {[SubBase("o1", "1") EXCEPT !.from = "w2"], SubBase("u1", "1"), SubBase("o3", "1"), [SubBase("o1", "1") EXCEPT !.stage = "3"],
        [SubBase("o1", "1") EXCEPT !.t = "t2"]}

OMsgs == {[v |-> v, cls |-> c] : v \in {"v1", "v2", "v3"}, c \in {"good", "base", "feeder"}}
CallsOraTx == {<<m>> : m \in {x \in OMsgs : x.cls = "good" \/ x.v = "v1"}}
              \cup {<<m1, m2>> : m1 \in {x \in OMsgs : x.cls = "good"}, m2 \in {x \in OMsgs : x.cls # "feeder"}}

CallsOf(ep) ==
  CASE ep = "pcRegisterAVS" -> CallsRegisterAVS [] ep = "pcUpdateAVS" -> CallsUpdateAVS [] ep = "pcDeregisterAVS" -> CallsDeregisterAVS
    [] ep = "pcOptIn" -> CallsOpt [] ep = "pcOptOut" -> CallsOpt [] ep = "pcCreateTask" -> CallsCreateTask
    [] ep = "pcRegisterBLS" -> CallsBLS [] ep = "pcChallenge" -> CallsChallenge [] ep = "pcRegisterChain" -> CallsChain
    [] ep = "pcRegisterToken" -> CallsToken [] ep = "pcUpdateToken" -> CallsUpdToken [] ep = "pcClaimReward" -> CallsReward
    [] ep = "MsgRegisterOperator" -> CallsRegOp [] ep = "MsgOptIn" -> CallsMsgOptIn [] ep = "MsgOptOut" -> CallsMsgOptOut
    [] ep = "MsgSetConsKey" -> CallsSetKey [] ep = "MsgSubmit" -> CallsSubmit
    [] ep = "OraTx" -> {[msgs |-> ms] : ms \in CallsOraTx}
    [] ep = "Tick" -> {[x |-> 0]}
    [] ep = "StakeNop" -> {[o |-> o] : o \in {"o1", "o2"}}
    [] ep = "Downtime" -> {[ops |-> s] : s \in {<<"o1">>, <<"o2">>, <<"o1", "o2">>, <<"o2", "o1">>}}

ALLEPS == {"pcRegisterAVS", "pcUpdateAVS", "pcDeregisterAVS", "pcOptIn", "pcOptOut", "pcCreateTask", "pcRegisterBLS", "pcChallenge",
           "pcRegisterChain", "pcRegisterToken", "pcUpdateToken", "pcClaimReward", "MsgRegisterOperator", "MsgOptIn", "MsgOptOut",
           "MsgSetConsKey", "MsgSubmit", "OraTx", "Tick", "StakeNop", "Downtime"}

\* the class universe: every (entry point, check) the ladders of the call alphabet contain, plus (entry point, ok)
CALLEPS == ALLEPS \ {"Tick", "StakeNop", "Downtime"}
ChecksOf(ep, a) == LET lad == Ladder(Genesis, ep, a) IN {<<ep, lad[i].n>> : i \in {j \in 1..Len(lad) : lad[j].t = "C"}}
LeadsOf(ep, a) == LET lad == Ladder(Genesis, ep, a) IN
  {<<ep, lad[i].n>> : i \in {j \in 1..Len(lad) : lad[j].t = "C" /\ \E w \in 1..(j-1) : lad[w].t \in {"W", "M"}}}
Universe == UNION {{<<ep, "ok">>} \cup UNION {ChecksOf(ep, a) : a \in CallsOf(ep)} : ep \in CALLEPS}
\* checks that stand AFTER a write in some ladder (the leads), whether or not they can fail
LeadChecks == UNION {UNION {LeadsOf(ep, a) : a \in CallsOf(ep)} : ep \in CALLEPS}

Init ==
  /\ (~COVER \/ PrintT("UNIVERSE " \o ToJson(Universe)))
  /\ (~COVER \/ PrintT("LEADCHECKS " \o ToJson(LeadChecks)))
  /\ TLCSet(7, {})
  /\ \E p \in PREFIXES :
       /\ st = RunPrefix(p)
       /\ hist = p
       /\ nfail = 0
       /\ cls = <<>>
       /\ nstep = 0

\* class of a transition: entry point, outcome (ok | failing check), whether writes precede the failing check (lead);
\* for the block phase: how many items are due and how many of them fail
ClassOf(s, ep, a, r) ==
  IF ep = "Tick" THEN
     LET dv == DueAvs(s)
         s1 == FoldLeft(LAMBDA acc, x : VpItem(acc, x), s, dv)
         dt == DueTasks(s1)
     IN <<ep, "vp", [i \in 1..Len(dv) |-> IF VpItemFails(s, dv[i]) THEN "fail" ELSE IF \E o \in ACCTS : s.usd[<<dv[i], o>>] = "zero" THEN "ok-stale" ELSE "ok"],
          "stat", Cardinality(dt), Cardinality({tk \in dt : StatItemFails(s1, tk)})>>
  ELSE IF ep = "StakeNop" THEN <<ep>>
  ELSE IF ep = "Downtime" THEN <<ep, "items", Len(a.ops), [i \in 1..Len(a.ops) |-> IF a.ops[i] \in s.tomb THEN "skip" ELSE IF SlashItemFails(s, a.ops[i]) THEN "fail" ELSE "ok"]>>
  ELSE <<ep, r.out, IF LeadOf(s, ep, a) = {} THEN "clean" ELSE "lead", IF r.st = s THEN "same" ELSE "changed">>

CoverEdge ==
  \/ ~COVER
  \/ cls' \in TLCGet(7)
  \/ TLCSet(7, TLCGet(7) \cup {cls'}) /\ PrintT("GOAL " \o ToJson(cls') \o " " \o ToJson(hist'))

Do(ep, a) ==
  /\ ep \in EVENTS
  /\ nstep < MAXOPS
  /\ nstep' = nstep + 1
  /\ LET r == Step(st, ep, a)
         fail == r.out # "ok"
     IN /\ (~fail \/ nfail < FAILBUDGET)
        /\ nfail' = IF fail THEN nfail + 1 ELSE nfail
        /\ st' = r.st
        /\ hist' = Append(hist, E(ep, a))
        /\ cls' = IF COVER THEN ClassOf(st, ep, a, r) ELSE <<>>

Next ==
  \E ep \in ALLEPS : \E a \in CallsOf(ep) :
     /\ (ep = "Tick" => st.ep < MAXEP)
     /\ (ep = "OraTx" => OraAdmissible(st, a))
     /\ Do(ep, a)

Spec == Init /\ [][Next]_vars

View == <<st, nfail, nstep>>

\* C09 on the model: in every reachable state every call of the alphabet is atomic
InvAtomic == \A ep \in ALLEPS : \A a \in CallsOf(ep) : AtomicStep(st, ep, a)

\* the same from the second state on (guard configuration: TLC prints no statistics for a violation in an initial state)
InvAtomicLater == nstep = 0 \/ InvAtomic

\* behaviour generation (-simulate)
EmitAtDepth == nstep < MAXOPS \/ PrintT("BEHAVIOUR " \o ToJson(hist))
=============================================================================
