------------------------- MODULE MC_VotingPower_f -------------------------
(***************************************************************************)
(* Function-level exhaustive check of C05's formulas over a grid: one       *)
(* operator, one AVS, three assets of different decimals; every combination *)
(* of asset list, pool amounts, self-share fraction, prices, price decimals *)
(* and minimum self delegation is an INITIAL state; the lemmas are          *)
(* invariants:                                                              *)
(*   LemStatement   what UpdateVotingPower stores satisfies the statement-  *)
(*                  level check of the property lane (no false alarm, and   *)
(*                  the transcribed code agrees with the statement)         *)
(*   LemNonNeg      values are never negative, self <= total,               *)
(*                  active is 0 or total                                    *)
(*   LemMonoAmount  one more unit of any asset never lowers total, self,    *)
(*                  active                                                  *)
(*   LemMonoPrice   a higher price of any asset never lowers them either    *)
(***************************************************************************)
EXTENDS VotingPower

CONSTANTS AMTS, PRS, PDS, MINS, FRACS, LISTS, TSH, UNIT
\* FRACS: operator share as a multiple of UNIT out of a total share of TSH * UNIT

\* the grid is split in two so that TLC's workers share it: (list, f, m) are the initial states,
\* (amt, pr, pd) their successors
VARIABLES g1, g2
Init == g1 \in [list : LISTS, f : FRACS, m : MINS] /\ g2 = [set |-> FALSE]
Next == /\ ~g2.set
        /\ g2' \in [set : {TRUE}, amt : [VASSETS -> AMTS], pr : [VASSETS -> PRS], pd : [VASSETS -> PDS]]
        /\ UNCHANGED g1
Spec == Init /\ [][Next]_<<g1, g2>>
g == [amt |-> g2.amt, pr |-> g2.pr, pd |-> g2.pd, list |-> g1.list, f |-> g1.f, m |-> g1.m]

PoolOf(amt, f) == [k \in VOPS \X VASSETS |->
                    IF NIsZero(amt[k[2]]) THEN [ex |-> TRUE, amt |-> N0, tsh |-> N0, osh |-> N0]
                    ELSE [ex |-> TRUE, amt |-> NC(amt[k[2]]), tsh |-> NMul(TSH, UNIT), osh |-> NMul(f, UNIT)]]

VOf(pr, pd, list, m) ==
  [ opt      |-> [k \in OKeys |-> IF k[3] = "canon" THEN "in" ELSE "none"],
    usd      |-> [k \in UKeys |-> IF k[2] = "canon" THEN InitUsd ELSE ZeroUsd],
    avsusd   |-> [k \in AKeys |-> NoAvsUsd],
    price    |-> [a \in VASSETS |-> [valid |-> TRUE, v |-> NC(pr[a]), dec |-> pd[a]]],
    avs      |-> [x \in AVSS |-> [ex |-> TRUE, assets |-> list, minSelf |-> NC(m), epoch |-> "e", start |-> 0, chain |-> FALSE]],
    removing |-> {},
    ep       |-> [id \in {"e"} |-> [cur |-> 1, end |-> 1]],
    now      |-> 1 ]

X == AVSORD[1]
O == OORD[1]
After(amt, pr) == UpdateVotingPower(PoolOf(amt, g.f), VOf(pr, g.pd, g.list, g.m), X)
E(amt, pr) == After(amt, pr).usd[<<X, "canon", O>>]

LemStatement == ~g2.set \/ EpochEndOK(PoolOf(g.amt, g.f), After(g.amt, g.pr), {X})
LemNonNeg == ~g2.set \/
  LET e == E(g.amt, g.pr) IN
  /\ ~NIsNeg(e.total) /\ ~NIsNeg(e.self) /\ ~NIsNeg(e.active) /\ NLe(e.self, e.total)
  /\ (NIsZero(e.active) \/ NEq(e.active, e.total))
Ge3(e2, e1) == NGe(e2.total, e1.total) /\ NGe(e2.self, e1.self) /\ NGe(e2.active, e1.active)
LemMonoAmount == ~g2.set \/
  \A a \in VASSETS : NIsZero(g.amt[a]) \/ Ge3(E([g.amt EXCEPT ![a] = NAdd(@, 1)], g.pr), E(g.amt, g.pr))
LemMonoPrice == ~g2.set \/
  \A a \in VASSETS : Ge3(E(g.amt, [g.pr EXCEPT ![a] = NAdd(@, 1)]), E(g.amt, g.pr))

c_OORD == <<"o1">>
c_AVSORD == <<"x">>
c_EIDS == <<"e">>
c_DUR == [e |-> 1]
c_AORD == <<"d0", "d1", "d2">>
c_DECI == [d0 |-> 0, d1 |-> 1, d2 |-> 2]
c_LISTS == SUBSET {"d0", "d1", "d2"}
c_LISTSq == {{"d0", "d1", "d2"}, {"d0", "d2"}}
\* real precision (run with the Num override): decimals 0 / 6 / 18
c_AORD18 == <<"d0", "d18", "d6">>
c_DECI18 == [d0 |-> 0, d6 |-> 6, d18 |-> 18]
c_LISTS18 == {{"d0", "d6", "d18"}, {"d0", "d18"}, {"d6"}}
=============================================================================
