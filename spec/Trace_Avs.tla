------------------------------ MODULE Trace_Avs ------------------------------
(***************************************************************************)
(* Trace validation for the AVS family (C20).                               *)
(*                                                                         *)
(* Input: trace.ndjson written by `harness avs` - one line per event        *)
(* executed on the REAL keepers / msg server / BeginBlocker: event name,    *)
(* arguments, reported result, and the full projection of the family's      *)
(* state after the event.                                                   *)
(*                                                                         *)
(*   C20_..    property lane: the clauses of property C20 (Avs!PropTags)    *)
(*             evaluated on OBSERVED pre/post states, arguments and result. *)
(*   C11_Halt  property lane of C11: the real app.BeginBlocker panicked (a   *)
(*             panic in a block phase is not recovered by baseapp: the node  *)
(*             stops, the block is never committed).                         *)
(*   STRICT_.. strict lane: observed post-state / result differ from        *)
(*             Apply(pre, event, args) of spec/Avs.tla with DEVS = the      *)
(*             deviations of the current tree (drift, never a violation).   *)
(***************************************************************************)
EXTENDS Avs, Json

Trace == ndJsonDeserialize("trace.ndjson")
Hdr   == Trace[1].cfg

t_AORD == Hdr.aord
t_TORD == Hdr.tord
t_OORD == Hdr.oord
t_REGOPS == Range(Hdr.regops)
t_VAL == Hdr.val
t_VALT == Hdr.valt
t_PREC == "1000000000000000000"
t_U64 == "18446744073709551616"
t_EPOCH0 == Hdr.epoch0
t_TICKID == Hdr.tickid
\* deviations of the tree AFTER the fix commits 9d0a8b8 (L10) and 4ac3ef5 (L21): only the symmetric difference is left
t_DEVS == {"SymDiff"}

VARIABLES l, L, G
vars == <<l, L, G>>

Pick(S) == CHOOSE x \in S : TRUE

FromLog(j) ==
  [ epoch  |-> j.epoch,
    avs    |-> [a \in AVSS |->
                  LET R == {r \in Range(j.avs) : r.a = a} IN
                  IF R = {} THEN NoAvs ELSE LET r == Pick(R) IN
                  [ex |-> TRUE, name |-> r.name, taddr |-> r.taddr, owners |-> r.owners, minself |-> r.minself,
                   eid |-> r.eid, start |-> r.start, unbond |-> r.unbond]],
    opt    |-> [k \in OPS \X AVSS |->
                  LET R == {r \in Range(j.opt) : r.o = k[1] /\ r.a = k[2]} IN IF R = {} THEN "none" ELSE Pick(R).s],
    usd    |-> [k \in AVSS \X OPS |->
                  LET R == {r \in Range(j.usd) : r.a = k[1] /\ r.o = k[2]} IN
                  IF R = {} THEN NoUsd ELSE LET r == Pick(R) IN [ex |-> TRUE, self |-> r.self, total |-> r.total, active |-> r.active]],
    avsusd |-> [a \in AVSS |->
                  LET R == {r \in Range(j.avsusd) : r.a = a} IN IF R = {} THEN [ex |-> FALSE, v |-> N0] ELSE [ex |-> TRUE, v |-> Pick(R).v]],
    bls    |-> [o \in OPS |-> \E r \in Range(j.bls) : r.o = o /\ r.own],
    tnum   |-> [t \in TADDRS |-> LET R == {r \in Range(j.tnum) : r.t = t} IN IF R = {} THEN 0 ELSE Pick(R).n],
    tasks  |-> [k \in {<<r.t, r.id>> : r \in Range(j.tasks)} |->
                  LET r == Pick({x \in Range(j.tasks) : <<x.t, x.id>> = k}) IN
                  [start |-> r.start, resp |-> r.resp, stat |-> r.stat, chal |-> r.chal, optin |-> r.optin, signed |-> r.signed,
                   nosigned |-> r.nosigned, powers |-> r.powers, total |-> r.total, actual |-> r.actual]],
    res    |-> [k \in {<<r.o, r.t, r.id>> : r \in Range(j.res)} |->
                  LET r == Pick({x \in Range(j.res) : <<x.o, x.t, x.id>> = k}) IN
                  [stage |-> r.stage, sig |-> r.sig, resp |-> r.resp, rhash |-> r.rhash, ver |-> r.ver, idok |-> r.idok]],
    chal   |-> {<<r.o, r.t, r.id>> : r \in Range(j.chal)},
    halted |-> j.halted ]

\* clauses that need the raw log: one AVSInfo per AVS address; the keeper's own reverse lookup and
\* opt-in list agree with the projection
RawTags(j, st) ==
  T(\A i, k \in DOMAIN j.avs : i # k => j.avs[i].a # j.avs[k].a, "C20_UniqueAvs") \cup
  T(\A i, k \in DOMAIN j.avs : (i # k /\ j.avs[i].taddr # "") => j.avs[i].taddr # j.avs[k].taddr, "C20_UniqueTaskAddr") \cup
  T(\A t \in TADDRS : j.bytask[t] = AvsByTask(st, t), "STRICT_bytask") \cup
  T(\A a \in AVSS : j.optlist[a] = OptRecordList(st, a), "STRICT_optlist") \cup
  T(\A r \in Range(j.chal) : r.exists, "STRICT_chalscan")

\* C11: Tick is the only block phase this family executes (BeginBlock with every module's BeginBlocker)
HaltTags(ev, panic) == IF ev = "Tick" /\ panic THEN {"C11_Halt"} ELSE {}

StrictTags(pre, post, ev, a, ok, panic) ==
  LET r == Apply(pre, ev, a) IN
  T(r.st = post, "STRICT_state_" \o ev) \cup
  T((r.err = "") = ok, "STRICT_result_" \o ev) \cup
  T((r.err = "PANIC") = panic, "STRICT_panic_" \o ev)

Init ==
  /\ l = 1
  /\ L = EmptyStore
  /\ G = ZeroG

Next ==
  /\ l <= Len(Trace)
  /\ l' = l + 1
  /\ LET line == Trace[l] IN
     IF line.ev = "reset" THEN
       LET st == FromLog(line.st)
           tags == StateTags(st) \cup RawTags(line.st, st) \cup T(st = EmptyStore, "STRICT_state_reset")
       IN /\ L' = st /\ G' = ZeroG
          /\ tags = {} \/ PrintT("TAG " \o ToJson([l |-> l, ev |-> "reset", tags |-> tags]))
     ELSE
       LET post == FromLog(line.st)
           tags == PropTags(L, post, G, line.ev, line.a, line.ok, line.panic) \cup RawTags(line.st, post) \cup
                   HaltTags(line.ev, line.panic) \cup
                   StrictTags(L, post, line.ev, line.a, line.ok, line.panic)
       IN /\ L' = post /\ G' = GhostStep(G, post, line.ev, line.a, line.ok)
          /\ tags = {} \/ PrintT("TAG " \o ToJson([l |-> l, ev |-> line.ev, tags |-> tags,
                                                     d |-> IF line.ev = "Tick" THEN StatsDetail(L, post) ELSE <<>>]))

Spec == Init /\ [][Next]_vars

Consumed == TLCGet("stats").diameter - 1 = Len(Trace)
=============================================================================
