SPECIFICATION Spec
CONSTANTS
  DEVS <- t_DEVS
POSTCONDITION Consumed
CHECK_DEADLOCK FALSE
