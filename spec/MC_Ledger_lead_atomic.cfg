SPECIFICATION Spec
CONSTANTS
  SORD <- c_SORD
  OORD <- c_OORD
  AORD <- c_AORD
  KIND <- c_KIND
  DECI <- c_DECI
  PRICE <- c_PRICE
  PDEC <- c_PDEC
  NSTDELTAS <- c_NSTDELTAS
  REGISTERED = {"lst","nst"}
  PREC = 100
  UNBOND = 1
  HOLDOPS = {"o1"}
  HOOKED = TRUE
  AMOUNTS = {1,2}
  NONCES = {1,2}
  TXHS = {"t1"}
  MAXH = 3
  MAXOPS = 5
  FACTORS = {50,100,150}
  POWERS = {1}
  SLASHIDS = {"i1"}
  GENBAL = 0
  FRESH = TRUE
  WANTED = {}
  PREFUND = 0
  PREDEL = 0
  EVENTS = {"Deposit","Withdraw","Delegate","Undelegate","Associate","Dissociate","Slash","NstUpdate","ReleaseHold","EndBlock"}
  FAILBUDGET = 99
VIEW ViewG
INVARIANTS InvAtomic
CHECK_DEADLOCK FALSE
