---------------------------- MODULE Trace_Epochs ----------------------------
(***************************************************************************)
(* Trace validation for the epoch clock (C15).                              *)
(*                                                                         *)
(* Input: trace.ndjson written by `harness epochs` - per behaviour one       *)
(* `reset` line (the x/epochs genesis that was installed; constants) and one *)
(* `Block` line per REAL block: block time/height, AllEpochInfos after       *)
(* BeginBlock, every hook delivery recorded by hook H2 (with the subscriber  *)
(* derived from the concrete hook type), the epoch_start/epoch_end events,   *)
(* and - when the non-interference world was run - the same observations of  *)
(* a second app whose genesis keeps only the identifiers cfg.soloIds.        *)
(*                                                                         *)
(*   C15_..    property lane: the predicates of the statement on OBSERVED    *)
(*             pre/post states and deliveries (ghosts: genesis entry g0,     *)
(*             everything delivered so far D).                               *)
(*   STRICT_.. strict lane: observed block = Block(observed pre, t, h) of    *)
(*             spec/Epochs.tla (also heights, events, store order).          *)
(***************************************************************************)
EXTENDS Epochs, Json

Trace == ndJsonDeserialize("trace.ndjson")
t_IDORD == Trace[1].cfg.idord

VARIABLES l, I, G
\* l: next line; I: observed info (after the last block); G: ghosts [g0, D, solo (ids compared), u (seconds per unit = sn/sd)]
vars == <<l, I, G>>

FromLog(st) ==
  [id \in RangeOf(st.ids) |->
     LET e == st.info[id] IN
     [started |-> e.started, cur |-> e.cur, cs |-> e.cs, csz |-> e.csz, csh |-> e.csh, start |-> e.start, dur |-> e.dur]]
OffGrid(st, f) == {id \in RangeOf(st.ids) : st.info[id][f]}

T(holds, tag) == IF holds THEN {} ELSE {tag}

(***************************************************************************)
(* property lane                                                           *)
(***************************************************************************)
PropertyTags(pre, post, g, d2, line) ==
  LET t     == line.a.t
      notes == line.notes
      ids   == DOMAIN pre \cap DOMAIN post
  IN
  T(DOMAIN post = DOMAIN pre, "C15_IdentifierLost") \cup
  T(\A id \in ids : FirstEpoch(g.g0[id], pre[id], post[id], t), "C15_FirstEpoch") \cup
  T(\A id \in ids : AdvanceByOne(g.g0[id], pre[id], post[id], t), "C15_AdvanceByOne") \cup
  T(\A id \in ids : /\ StartTimeStep(g.g0[id], pre[id], post[id])
                    /\ StartTimeClosed(g.g0[id], post[id])
                    /\ (post[id].started => id \notin OffGrid(line.st, "ogc")), "C15_StartTime") \cup
  T(SubscriberOrder(notes), "C15_SubscriberOrder") \cup
  T(/\ Stray(g.D, notes) = {}
    /\ \A id \in ids : \A s \in RangeOf(SUBS) : NotifyOnce(g.g0[id], post[id], d2[id][s]), "C15_NotifyOnce") \cup
  T(/\ EndBeforeStart(notes)
    /\ \A id \in ids : \A s \in RangeOf(SUBS) : NotifyOrder(g.g0[id], post[id], d2[id][s]), "C15_NotifyOrder") \cup
  \* identifiers do not influence one another: the same identifiers, with the others removed / made
  \* inert in a second app driven through the same block times, make exactly the same steps
  (IF line.solo.on
   THEN LET sp == FromLog(line.solo.st) IN
        T(\A id \in g.solo : /\ id \in DOMAIN sp /\ id \in DOMAIN post
                             /\ post[id] = sp[id]
                             /\ NotesOf(notes, id) = NotesOf(line.solo.notes, id), "C15_Independent")
   ELSE {})

(***************************************************************************)
(* strict lane                                                             *)
(***************************************************************************)
\* start_time attribute: CurrentEpochStartTime.Unix() relative to block 1 = floor(units * sn / sd)
Sec(x, u) == (x * u.sn) \div u.sd
EvOK(o, m, u) == o.kind = m.kind /\ o.id = m.id /\ o.n = m.n /\ (m.kind = "start" => o.sec = Sec(m.cs, u))

StrictTags(pre, post, g, line) ==
  LET r == Block(pre, line.a.t, line.a.h) IN
  T(r.info = post, "STRICT_state_Block") \cup
  T(r.notes = line.notes, "STRICT_notes_Block") \cup
  T(line.noev \/ (Len(line.evs) = Len(r.evs) /\ \A i \in DOMAIN r.evs : EvOK(line.evs[i], r.evs[i], g.u)), "STRICT_events_Block") \cup
  T(line.st.ids = IdSeq(post), "STRICT_order_Block") \cup
  T(OffGrid(line.st, "ogs") = {} /\ OffGrid(line.st, "ogd") = {}, "STRICT_offgrid_Block")

(***************************************************************************)
(* replay                                                                  *)
(***************************************************************************)
Init ==
  /\ l = 1
  /\ I = <<>>
  /\ G = [g0 |-> <<>>, D |-> <<>>, solo |-> {}, u |-> [sn |-> 1, sd |-> 1]]

Next ==
  /\ l <= Len(Trace)
  /\ l' = l + 1
  /\ LET line == Trace[l] IN
     IF line.ev = "reset" THEN
       \* the state after InitChain is not observable (block 1 runs inside the world builder):
       \* it is derived from the genesis input by the model's AddEpochInfo
       LET st == Genesis(line.cfg.gen, line.cfg.gt) IN
       /\ I' = st
       /\ G' = [g0 |-> st, D |-> D0(st), solo |-> RangeOf(line.cfg.soloIds), u |-> [sn |-> line.cfg.sn, sd |-> line.cfg.sd]]
     ELSE IF line.panic THEN
       /\ I' = FromLog(line.st) /\ G' = G
       /\ PrintT("TAG " \o ToJson([l |-> l, ev |-> line.ev, tags |-> {"STRICT_panic_Block"}]))
     ELSE
       LET post == FromLog(line.st)
           d2   == DStep(G.D, line.notes)
           tags == PropertyTags(I, post, G, d2, line) \cup StrictTags(I, post, G, line)
       IN /\ I' = post
          /\ G' = [G EXCEPT !.D = [id \in DOMAIN d2 \cap DOMAIN post |-> d2[id]]]
          /\ tags = {} \/ PrintT("TAG " \o ToJson([l |-> l, ev |-> line.ev, tags |-> tags]))

Spec == Init /\ [][Next]_vars

Consumed == TLCGet("stats").diameter - 1 = Len(Trace)
=============================================================================
