SPECIFICATION Spec
CONSTANTS
  VALS = {"o1","o2"}
  STAKERS = {"s1"}
  MAXLEN = 9
INVARIANTS EmitAtDepth
CHECK_DEADLOCK FALSE
