---------------------------- MODULE Trace_Staking ----------------------------
(***************************************************************************)
(* Trace validation for the staking family (C06 C07 C16).                   *)
(*                                                                         *)
(* Input: trace.ndjson written by `harness staking` - one line per event    *)
(* executed on the REAL code of a full ExocoreApp: event name, concrete     *)
(* arguments, reported result, and the projection of spec/Staking.tla's     *)
(* store after the event (key indexes and queues read raw by prefix).       *)
(*                                                                         *)
(*   C..       property lane: Staking!Tags on OBSERVED pre/post states, the *)
(*             ghosts carried here, plus the checks that need observations  *)
(*             only a trace has (CometBFT's verdict on each update list,    *)
(*             ValidatorByConsAddr of every key, the keeper's own getters). *)
(*   STRICT_.. strict lane: observed post-state / result differ from        *)
(*             Staking!Apply(pre, event, args) with DEVS = the deviations   *)
(*             the trace header names (drift, never a violation).           *)
(*   NOTE_..   observations outside the statements of C06/C07/C16 (kept in  *)
(*             the result for the notes; no verdict).                       *)
(***************************************************************************)
EXTENDS Staking, Json

Trace == ndJsonDeserialize("trace.ndjson")
Hdr   == Trace[1].cfg

t_OORD == Hdr.oord
t_KORD == Hdr.kord
t_GENVALS == [o \in DOMAIN Hdr.genvals |-> [k |-> Hdr.genvals[o].k, p |-> Hdr.genvals[o].p]]
t_DECI == Hdr.deci
t_UNBOND == Hdr.unbond
t_PREC == "1000000000000000000"
t_DEVS == {Hdr.devs[i] : i \in DOMAIN Hdr.devs}

VARIABLES l, L, G
vars == <<l, L, G>>

Pick(S) == CHOOSE x \in S : TRUE
Fld(r, f, d) == IF f \in DOMAIN r THEN r[f] ELSE d
QFrom(lst) == [e \in {r.e : r \in Elems(lst)} |-> Pick({r \in Elems(lst) : r.e = e}).xs]

FromLog(j, wasAct) ==
  [ h |-> j.h, epoch |-> j.epoch, lag |-> j.lag, flag |-> j.flag, N |-> j.N, maxV |-> j.maxV, nrec |-> j.nrec,
    fwd1 |-> [o \in OPS |-> Fld(j.fwd1, o, NoKey)],
    fwd2 |-> [o \in OPS |-> Fld(j.fwd2, o, NoKey)],
    prev |-> [o \in OPS |-> Fld(j.prev, o, NoKey)],
    rev  |-> [k \in KEYS |-> Fld(j.rev, k, NoOp)],
    removing |-> [o \in OPS |-> o \in Elems(j.removing)],
    info   |-> [o \in OPS |-> j.info[o]],
    opted  |-> [o \in OPS |-> j.opted[o]],
    jailed |-> [o \in OPS |-> j.jailed[o]],
    hasUsd |-> [o \in OPS |-> j.hasUsd[o]],
    usd    |-> [o \in OPS |-> j.usd[o]],
    stake  |-> [o \in OPS |-> j.stake[o]],
    del    |-> [x \in STAKERS \X OPS |-> Fld(j.del, x[1] \o "|" \o x[2], N0)],
    vals   |-> [k \in DOMAIN j.vals |-> j.vals[k]],
    lastTotal |-> j.lastTotal,
    updates |-> [i \in DOMAIN j.updates |-> [k |-> j.updates[i].k, p |-> j.updates[i].p]],
    rsp     |-> [i \in DOMAIN j.rsp |-> [k |-> j.rsp[i].k, p |-> j.rsp[i].p]],
    qOpt |-> QFrom(j.qOpt), qPrune |-> QFrom(j.qPrune), qUndel |-> QFrom(j.qUndel),
    pOpt |-> j.pOpt, pPrune |-> j.pPrune, pUndel |-> j.pUndel,
    finish |-> [o \in DOMAIN j.finish |-> j.finish[o]],
    mat  |-> [id \in {r.id : r \in Elems(j.mat)} |-> Pick({r \in Elems(j.mat) : r.id = id}).e],
    hold |-> [id \in {r.id : r \in {x \in Elems(j.hold) : x.n > 0}} |-> Pick({r \in Elems(j.hold) : r.id = id}).n],
    recs |-> [id \in {r.id : r \in Elems(j.recs)} |->
                LET r == Pick({x \in Elems(j.recs) : x.id = id}) IN [s |-> r.s, o |-> r.o, amt |-> r.amt, start |-> r.start]],
    wasAct |-> wasAct ]

\* the model keeps a released hold as count 0 (the store keeps the key with value 0): compare
\* without zero entries; wasAct is model-only memory
Norm(st) == [st EXCEPT !.hold = [id \in {x \in DOMAIN st.hold : st.hold[x] > 0} |-> st.hold[id]],
                       !.wasAct = [k \in KEYS |-> FALSE]]

(***************************************************************************)
(* checks that need trace-only observations                                 *)
(***************************************************************************)
ObsTags(pre, post, ev, j, G2) ==
  \* CometBFT's own acceptance rules on the list it was handed
  (IF ev = "EndBlock" /\ ~j.cmt.ok
   THEN (IF ExpectedSet(pre) # {} THEN {"C06_EngineRejects"} ELSE {"NOTE_EngineRejectsEmptySet"}) ELSE {}) \cup
  (IF j.cmt.ok /\ AsPairs(G2.engine) # {<<k, j.cmt.set[k]>> : k \in DOMAIN j.cmt.set} THEN {"C06_AgreeEngine"} ELSE {}) \cup
  \* marker read raw by prefix = IsOperatorRemovingKeyFromChainID
  T(Elems(j.removing) = Elems(j.removingQ), "C07_IndexesAgree") \cup
  \* slashing-side resolution (ValidatorByConsAddr) of retired keys that were active
  T(\A k \in DOMAIN G2.ret : G2.ret[k].act => j.vbc[k] = G2.ret[k].o, "C07_Slashable") \cup
  \* lead L12: the keeper's GetAll... getters (genesis export) against the raw store
  (IF j.getters.opt # Cardinality(DOMAIN post.qOpt) THEN {"NOTE_L12_GetAllOptOutsToFinish"} ELSE {}) \cup
  (IF j.getters.prune # Cardinality(DOMAIN post.qPrune) THEN {"NOTE_L12_GetAllConsAddrsToPrune"} ELSE {}) \cup
  (IF j.getters.undel # Cardinality(DOMAIN post.qUndel) THEN {"NOTE_L12_GetAllUndelegationsToMature"} ELSE {})

(***************************************************************************)
(* who is at fault, per tag (lets the pipeline tell a listed finding from   *)
(* any other violation of the same property)                                *)
(***************************************************************************)
ItemStr(x) == x[1] \o ":" \o (IF x[1] = "U" THEN ToString(x[2]) ELSE x[2])
Who(pre, post, ev, a, ok, g, g2, j) ==
  LET relNow == {x \in DOMAIN g.due : Released(x, pre, post)} IN
  {"C07_IndexesAgree:" \o o : o \in {o \in OPS : post.fwd1[o] # post.fwd2[o] \/ (post.fwd1[o] # NoKey /\ post.rev[post.fwd1[o]] # o)}} \cup
  {"C07_Injective:" \o k : k \in {k \in KEYS : \E o1, o2 \in OPS : o1 # o2 /\ k \in KeysOf(post, o1) /\ k \in KeysOf(post, o2)}} \cup
  {"C07_OrphanReverse:" \o k : k \in {k \in KEYS : post.rev[k] # NoOp /\ post.fwd1[post.rev[k]] # k /\ ~(k \in DOMAIN g2.ret /\ g2.ret[k].o = post.rev[k])}} \cup
  {"C07_Slashable:" \o k : k \in g2.lost} \cup
  {"C07_Slashable:" \o k : k \in {k \in DOMAIN g2.ret : g2.ret[k].act /\ j.vbc[k] # g2.ret[k].o}} \cup
  (IF ev = "EndBlock" THEN
     {"C07_PrunedThen:" \o k : k \in {k \in DOMAIN g.ret : g.closed # 0 /\ g.ret[k].due = g.closed /\ post.fwd1[g.ret[k].o] # k /\ post.rev[k] # NoOp}} \cup
     {"C16_NotReleasedOnTime:" \o ItemStr(x) : x \in {x \in DOMAIN g.due : g.closed # 0 /\ g.due[x] = g.closed /\ x \notin relNow}} \cup
     {"C16_ReleasedEarly:" \o ItemStr(x) : x \in {x \in relNow : ~(g.closed # 0 /\ g.due[x] <= g.closed)}} \cup
     {"C16_ReleasedLate:" \o ItemStr(x) : x \in {x \in relNow : ~(g.closed = 0 \/ g.due[x] >= g.closed)}}
   ELSE {"C16_ReleasedOutsideEndBlock:" \o ItemStr(x) : x \in relNow}) \cup
  (IF ev = "Undelegate" THEN {"C16_HoldDecision:" \o a.o} ELSE {}) \cup
  (IF ev \in {"SetKey", "OptIn"} THEN {"C07_NoSetWhileRemoving:" \o a.o} ELSE {})

StrictTags(pre, post, ev, a, ok, panic) ==
  LET r == Apply(pre, ev, a) IN
  T(Norm(r.st) = Norm(post), "STRICT_state_" \o ev) \cup
  T((r.err = "") = ok, "STRICT_result_" \o ev) \cup
  T((r.err = "PANIC") = panic, "STRICT_panic_" \o ev)

(***************************************************************************)
(* replay                                                                  *)
(***************************************************************************)
Init ==
  /\ l = 1
  /\ L = InitStore
  /\ G = InitGhost(InitStore)

Next ==
  /\ l <= Len(Trace)
  /\ l' = l + 1
  /\ LET line == Trace[l] IN
     IF line.ev = "reset" THEN
       LET st0 == FromLog(line.st, [k \in KEYS |-> FALSE])
           g0  == InitGhost(st0)
           st  == [st0 EXCEPT !.wasAct = g0.act]
           tags == StateTags(st, g0) \cup
                   T(Norm(st) = Norm([InitStore EXCEPT !.N = st.N, !.maxV = st.maxV, !.updates = st.updates]), "STRICT_state_reset")
       IN /\ L' = st /\ G' = g0
          /\ tags = {} \/ PrintT("TAG " \o ToJson([l |-> l, ev |-> "reset", tags |-> tags]))
     ELSE
       LET post0 == FromLog(line.st, [k \in KEYS |-> FALSE])
           g2    == GhostStep(G, L, post0, line.ev, line.a, line.ok)
           post  == [post0 EXCEPT !.wasAct = g2.act]
           tags  == Tags(L, post, line.ev, line.a, line.ok, G, g2) \cup
                    ObsTags(L, post, line.ev, line.st, g2) \cup
                    StrictTags(L, post, line.ev, line.a, line.ok, line.panic)
       IN /\ L' = post /\ G' = g2
          /\ tags = {} \/ PrintT("TAG " \o ToJson([l |-> l, ev |-> line.ev, tags |-> tags,
                                                      who |-> Who(L, post, line.ev, line.a, line.ok, G, g2, line.st)]))

Spec == Init /\ [][Next]_vars

Consumed == TLCGet("stats").diameter - 1 = Len(Trace)
=============================================================================
