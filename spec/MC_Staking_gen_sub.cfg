SPECIFICATION Spec
CONSTANTS
  OORD <- c_OORD
  KORD <- c_KORD5
  GENVALS <- c_GENVALS_sub
  DEVS <- c_DEVS_code
  UNBOND = 10
  DECI = 1
  PREC = 10
  AMOUNTS = {5, 10, 15}
  MAXVS = {1, 2, 3}
  NS = {1, 2}
  INITMAXV = 2
  INITN = 1
  ADVS = {0, 1, 2}
  MAXH = 10
  MAXOPS = 30
  MAXREC = 4
  NOOPBUDGET = 3
  VSTAKERS = {"s1", "v"}
  PATHS = {"keeper", "pc"}
  COVER = FALSE
  NONEMPTY = TRUE
  BLOCKW = 4
INVARIANTS EmitAtDepth
CHECK_DEADLOCK FALSE
