---------------------------- MODULE MC_Epochs_q ----------------------------
EXTENDS MC_Epochs
c_GT == -1
c_IDORD == <<"day", "e1">>
c_TPL == [day |-> StdTemplates({2, 3}), e1 |-> StdTemplates({5}) \cup {Invalid}]
\* thorough (MC_Epochs_t.cfg): three durations per identifier, seven blocks
t_TPL == [day |-> StdTemplates({2, 3, 5}), e1 |-> StdTemplates({2, 3, 5}) \cup {Invalid}]
\* generation world: the four identifiers other modules need + two extra ones
g_IDORD == <<"day", "e1", "e2", "hour", "minute", "week">>
g_TPL == [day    |-> StdTemplates({2, 3, 5, 8}),
          e1     |-> StdTemplates({2, 3, 5}) \cup {Invalid},
          e2     |-> StdTemplates({2, 13}) \cup {Invalid},
          hour   |-> {Inert, NotStarted(TRUE, 0, 7, 0), Mid(-2, 4, 2, 0)},
          minute |-> StdTemplates({2, 3}),
          week   |-> {Inert, NotStarted(FALSE, 6, 5, 0)}]
=============================================================================
