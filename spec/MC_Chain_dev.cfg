SPECIFICATION Spec
CONSTANTS
  OPS = {"o1", "o2", "o3", "o4"}
  KEYSEQ <- c_KEYSEQ
  GENVALS = {"o1", "o2", "o3"}
  UNB = 1
  UNBH = 3
  DEVIATIONS = {"L13hold", "L13rev", "VALKEYS"}
  ACTORS = {"o3", "o4"}
  UNDELFROM = {"o1", "o4"}
  PATHS = {"pre", "msg"}
  MAXTX = 1
  MAXBLOCKS = 4
  MAXUNDEL = 2
  FAILBUDGET = 1
  H0 = 2
  EP0 = 1
  SEQ0 = 3
  LZN0 = 100
VIEW View
INVARIANTS InvValid InvRoundTrip InvStable InvIndexes
CHECK_DEADLOCK FALSE
