----------------------------- MODULE OracleAdm -----------------------------
(***************************************************************************)
(* Oracle price submissions: admission (ante chain) and counting (message  *)
(* handler + aggregator filter).  Property C13.                            *)
(*                                                                         *)
(* Transcribed from (exocore, pinned commit):                              *)
(*   app/ante/cosmos/context.go   SetUpContextDecorator (oracle branch)    *)
(*   app/ante/cosmos/txsize_gas.go ConsumeTxSizeGasDecorator (size limit)  *)
(*   app/ante/cosmos/fees.go      DeductFeeDecorator (no fee, max priority)*)
(*   app/ante/cosmos/sigverify.go SetPubKeyDecorator, SigVerification-     *)
(*                                Decorator, IncrementSequenceDecorator    *)
(*   x/oracle/keeper/nonce.go     CheckAndIncreaseNonce, AddZeroNonce...,  *)
(*                                RemoveNonceWithFeederIDForValidators     *)
(*   x/oracle/keeper/msg_server_create_price.go  CreatePrice,checkTimestamp*)
(*   x/oracle/keeper/aggregator/context.go  sanityCheck, checkMsg,         *)
(*                                FillPrice, SealRound, PrepareRoundEndBlock*)
(*   x/oracle/keeper/aggregator/{filter,worker,calculator,aggregator}.go   *)
(*   x/oracle/module.go           EndBlock                                 *)
(*                                                                         *)
(* The round lifecycle is modelled only as far as admission needs it: one  *)
(* deterministic source, every validator reports the same price for a      *)
(* given source round (detID); price agreement itself is property C12.     *)
(*                                                                         *)
(* State (a VALUE, as in the other families):                              *)
(*   h       height of the block being executed (deliver state)            *)
(*   vals    current validator set (dogfood store = agc.validatorsPower)    *)
(*   out     validators whose operator opted out of the chain AVS (leave at *)
(*           the next dogfood epoch end); ep: the epoch ended in this block *)
(*   nonce   deliver-state nonce store  <<v,f>> -> last nonce, -1 = absent *)
(*   cnonce  check-state nonce store (reset to nonce at Commit)            *)
(*   rounds  in-memory round per feeder [status none/open/closed, base]    *)
(*   wk      in-memory worker per feeder: filter (fnon, seen), aggregator  *)
(*           (reps), calculator (cpow, conf), sealed                       *)
(*                                                                         *)
(* Events:  Tx (mode deliver/check/recheck), NextBlock, ValOut(v), Epoch   *)
(*          (Epoch = NextBlock whose next block time passes the epoch end) *)
(*                                                                         *)
(* Deviations of the code from the property that were confirmed on the     *)
(* real code are named disjuncts selected by DEV:                          *)
(*   "L6"  sigverify.go (oracle branch) discards the result of             *)
(*         pubKey.VerifySignature: any signature bytes are accepted        *)
(*   "L7"  the aggregator context is mutated while a message executes and  *)
(*         is not restored when the transaction fails afterwards           *)
(*   "L27" when the validator set changes, EndBlock removes the nonces of  *)
(*         the force-sealed rounds only for the NEW set: the entry of a    *)
(*         validator that just left stays in the store for ever            *)
(***************************************************************************)
EXTENDS Integers, Sequences, FiniteSets, TLC

CONSTANTS VALS,      \* validator identities (all that ever exist in a run)
          OTHERS,    \* other senders (ordinary accounts)
          POWER,     \* [VALS -> Nat]
          FIDS,      \* feeder ids (1..n)
          FEED,      \* [FIDS -> [start, interval, endb]]   endb = 0: none
          MAXNONCE, MAXDETID, THA, THB,
          DETS,      \* source round ids used in messages
          DEV        \* deviations present in the code under test

Senders == VALS \cup OTHERS
NKeys   == VALS \X FIDS
Range(s) == {s[i] : i \in DOMAIN s}

RECURSIVE SumPow(_)
SumPow(S) == IF S = {} THEN 0 ELSE LET v == CHOOSE x \in S : TRUE IN POWER[v] + SumPow(S \ {v})
\* common.ExceedsThreshold
Exceeds(p, t) == p * THB > t * THA

NoWk     == [ex |-> FALSE, sealed |-> FALSE, fnon |-> [v \in VALS |-> {}], seen |-> [v \in VALS |-> {}],
             reps |-> {}, cpow |-> [d \in DETS |-> 0], conf |-> ""]
NewWk    == [NoWk EXCEPT !.ex = TRUE]
SealedWk == [NoWk EXCEPT !.ex = TRUE, !.sealed = TRUE]      \* worker.seal(): f, c, a dropped
NoRound  == [status |-> "none", base |-> 0]

InitState == [h |-> 1, vals |-> VALS, out |-> {}, ep |-> FALSE,
              nonce |-> [k \in NKeys |-> -1], cnonce |-> [k \in NKeys |-> -1],
              rounds |-> [f \in FIDS |-> NoRound], wk |-> [f \in FIDS |-> NoWk]]

(***************************************************************************)
(* ante chain for a tx made only of MsgCreatePrice                         *)
(***************************************************************************)
\* IncrementSequenceDecorator -> CheckAndIncreaseNonce, message by message, on the ante cache
RECURSIVE AnteNonce(_, _, _, _)
AnteNonce(ns, v, msgs, i) ==
  IF i > Len(msgs) THEN [ok |-> TRUE, ns |-> ns] ELSE
  LET m == msgs[i] IN
  IF m.nonce > MAXNONCE \/ m.nonce < 0          THEN [ok |-> FALSE, ns |-> ns]   \* "nonce is too large" (uint32 cast)
  ELSE IF v \notin VALS \/ m.f \notin FIDS        THEN [ok |-> FALSE, ns |-> ns]   \* "validator not found"/"feeder not found"
  ELSE IF ns[<<v, m.f>>] < 0                      THEN [ok |-> FALSE, ns |-> ns]
  ELSE IF ns[<<v, m.f>>] + 1 # m.nonce            THEN [ok |-> FALSE, ns |-> ns]   \* "nonce is not consecutive"
  ELSE AnteNonce([ns EXCEPT ![<<v, m.f>>] = m.nonce], v, msgs, i + 1)

Ante(ns, a) ==
  LET fail == [ok |-> FALSE, ns |-> ns] IN
  IF a.sig = "none" /\ a.mode # "recheck"                 THEN fail   \* ValidateBasicDecorator: no signatures (skipped on recheck)
  ELSE IF a.size = "big"                                   THEN fail   \* ConsumeTxSizeGasDecorator: > TxSizeLimit
  ELSE IF a.sig = "pkmismatch"                             THEN fail   \* SetPubKeyDecorator: pubkey address # signer
  ELSE IF a.sig \in {"zero", "forged"} /\ "L6" \notin DEV  THEN fail   \* SigVerificationDecorator (intended)
  ELSE AnteNonce(ns, a.sender, a.msgs, 1)

(***************************************************************************)
(* message execution: msgServer.CreatePrice on M = [nonce, rounds, wk]     *)
(***************************************************************************)
\* filter.addPSource: detIDs.Add one by one (Set.Add: refuses when full or present)
RECURSIVE Kept(_, _, _)
Kept(seen, dets, i) ==
  IF i > Len(dets) THEN <<>> ELSE
  LET d == dets[i] IN
  IF Cardinality(seen) >= MAXDETID \/ d \in seen THEN Kept(seen, dets, i + 1)
  ELSE <<d>> \o Kept(seen \cup {d}, dets, i + 1)

\* calculator.fillPrice: skipped once a detID is confirmed; stops at the first confirmation
RECURSIVE CalcFill(_, _, _, _, _)
CalcFill(w, kept, p, total, i) ==
  IF w.conf # "" \/ i > Len(kept) THEN w ELSE
  LET d  == kept[i]
      np == w.cpow[d] + p
      w1 == [w EXCEPT !.cpow[d] = np]
  IN IF Exceeds(np, total) THEN [w1 EXCEPT !.conf = d] ELSE CalcFill(w1, kept, p, total, i + 1)

\* AggregatorContext.FillPrice + the KV effects of a final price in CreatePrice
Fill(M, vals, v, m) ==
  LET f  == m.f
      w0 == IF M.wk[f].ex THEN M.wk[f] ELSE NewWk
  IN IF w0.sealed THEN [M |-> M, err |-> TRUE] ELSE
  LET nonceOk == Cardinality(w0.fnon[v]) < MAXNONCE /\ m.nonce \notin w0.fnon[v]
      w1   == IF nonceOk THEN [w0 EXCEPT !.fnon[v] = @ \cup {m.nonce}] ELSE w0
      kept == IF nonceOk THEN Kept(w0.seen[v], m.dets, 1) ELSE <<>>
      w2   == [w1 EXCEPT !.seen[v] = @ \cup Range(kept)]
  IN IF kept = <<>> THEN [M |-> [M EXCEPT !.wk[f] = w2], err |-> TRUE] ELSE      \* ErrPriceProposalIgnored
  LET total == SumPow(vals)
      w3    == [w2 EXCEPT !.reps = @ \cup {v}]
      w4    == CalcFill(w3, kept, POWER[v], total, 1)
      final == Exceeds(SumPow(w4.reps), total) /\ w4.conf # ""
  IN IF ~final THEN [M |-> [M EXCEPT !.wk[f] = w4], err |-> FALSE]
     ELSE [M |-> [M EXCEPT !.wk[f] = SealedWk, !.rounds[f].status = "closed",
                           !.nonce = [k \in NKeys |-> IF k[2] = f /\ k[1] \in vals THEN -1 ELSE M.nonce[k]]],
           err |-> FALSE]

ExecMsg(M, vals, v, m) ==
  LET fail == [M |-> M, err |-> TRUE] IN
  IF m.ts > 5                                   THEN fail     \* checkTimestamp: > block time + 5 s
  ELSE IF v \notin vals                          THEN fail     \* sanityCheck: signer is not validator
  ELSE IF m.src \in {"none", "oor"}              THEN fail     \* no prices / source index out of range (panic)
  ELSE IF Len(m.dets) = 0 \/ Len(m.dets) > MAXDETID THEN fail
  ELSE IF m.f \notin FIDS                        THEN fail
  ELSE IF M.rounds[m.f].status # "open"          THEN fail     \* context not exist or not available
  ELSE IF m.base # M.rounds[m.f].base            THEN fail     \* baseblock not match
  ELSE IF m.src # "ok"                           THEN fail     \* CheckRules
  ELSE IF m.dec # "ok"                           THEN fail     \* CheckDecimal
  ELSE Fill(M, vals, v, m)

RECURSIVE RunMsgs(_, _, _, _, _)
RunMsgs(M, vals, v, msgs, i) ==
  IF i > Len(msgs) THEN [M |-> M, err |-> FALSE] ELSE
  LET r == ExecMsg(M, vals, v, msgs[i]) IN
  IF r.err THEN r ELSE RunMsgs(r.M, vals, v, msgs, i + 1)

(***************************************************************************)
(* entry points                                                            *)
(***************************************************************************)
DeliverTx(st, a) ==
  LET an == Ante(st.nonce, a) IN
  IF ~an.ok THEN [st |-> st, res |-> "ante"] ELSE
  LET M0 == [nonce |-> an.ns, rounds |-> st.rounds, wk |-> st.wk]
      r  == RunMsgs(M0, st.vals, a.sender, a.msgs, 1)
  IN IF ~r.err
     THEN [st |-> [st EXCEPT !.nonce = r.M.nonce, !.rounds = r.M.rounds, !.wk = r.M.wk], res |-> "ok"]
     ELSE IF "L7" \in DEV
     THEN \* message cache dropped (KV = after ante), in-memory context keeps what the messages did
          [st |-> [st EXCEPT !.nonce = an.ns, !.rounds = r.M.rounds, !.wk = r.M.wk], res |-> "msg"]
     ELSE [st |-> [st EXCEPT !.nonce = an.ns], res |-> "msg"]

\* CheckTx / ReCheckTx: ante only, on the check state (runMsgs does not execute handlers)
CheckTx(st, a) ==
  LET an == Ante(st.cnonce, a) IN
  IF ~an.ok THEN [st |-> st, res |-> "ante"]
  ELSE [st |-> [st EXCEPT !.cnonce = an.ns], res |-> "ok"]

\* x/oracle/module.go EndBlock(h), then Commit and BeginBlock(h+1).
\* dogfood's EndBlock (which runs before the oracle's) publishes validator updates when the epoch ended in
\* this block's BeginBlock: validators whose operator opted out leave the set.
EndBlock(st, epochEndsNext) ==
  LET h == st.h
      change  == st.ep /\ (st.out \cap st.vals) # {}
      newVals == IF change THEN st.vals \ st.out ELSE st.vals      \* agc.SetValidatorPowers
      \* SealRound(ctx, force = change)
      expired(f) == FEED[f].endb > 0 /\ h >= FEED[f].endb
      outWin(f)  == h - st.rounds[f].base >= MAXNONCE
      drop(f)    == st.rounds[f].status = "open" /\ (expired(f) \/ outWin(f) \/ change)
      r1 == [f \in FIDS |-> IF drop(f) THEN (IF expired(f) THEN NoRound ELSE [st.rounds[f] EXCEPT !.status = "closed"]) ELSE st.rounds[f]]
      w1 == [f \in FIDS |-> IF drop(f) \/ (st.wk[f].ex /\ st.wk[f].sealed) THEN NoWk ELSE st.wk[f]]
      sealed == {f \in FIDS : drop(f) \/ (st.wk[f].ex /\ st.wk[f].sealed)}
      \* RemoveNonceWithFeederIDForValidators(ctx, feederID, agc.GetValidators()): the set AFTER the update
      rmSet == IF "L27" \in DEV THEN newVals ELSE VALS
      n1 == [k \in NKeys |-> IF k[2] \in sealed /\ k[1] \in rmSet THEN -1 ELSE st.nonce[k]]
      \* PrepareRoundEndBlock(h)
      active(f) == ~((FEED[f].endb > 0 /\ FEED[f].endb <= h) \/ FEED[f].start > h)
      left(f)   == (h - FEED[f].start) % FEED[f].interval
      r2 == [f \in FIDS |->
               IF ~active(f) THEN r1[f]
               ELSE IF r1[f].status = "none"
                    THEN [status |-> IF left(f) >= MAXNONCE THEN "closed" ELSE "open", base |-> h - left(f)]
               ELSE IF left(f) = 0 THEN [status |-> "open", base |-> h]
               ELSE IF r1[f].status = "open" /\ left(f) >= MAXNONCE THEN [r1[f] EXCEPT !.status = "closed"]
               ELSE r1[f]]
      newRound == {f \in FIDS : active(f) /\ left(f) = 0}
      w2 == [f \in FIDS |-> IF f \in newRound /\ r1[f].status # "none" THEN NoWk ELSE w1[f]]
      \* AddZeroNonceItemWithFeederIDForValidators(ctx, feederID, agc.GetValidators())
      n2 == [k \in NKeys |-> IF k[2] \in newRound /\ k[1] \in newVals /\ n1[k] < 0 THEN 0 ELSE n1[k]]
  IN [st |-> [st EXCEPT !.h = h + 1, !.vals = newVals, !.ep = epochEndsNext, !.nonce = n2, !.cnonce = n2, !.rounds = r2, !.wk = w2],
      res |-> "ok"]

NextBlock(st) == EndBlock(st, FALSE)

\* operator.OptOut on the deliver state: recorded, effective at the next epoch end
ValOut(st, a) == IF a.v \in st.out THEN [st |-> st, res |-> "ante"] ELSE [st |-> [st EXCEPT !.out = @ \cup {a.v}], res |-> "ok"]

Apply(st, ev, a) ==
  CASE ev = "Tx" /\ a.mode = "deliver" -> DeliverTx(st, a)
    [] ev = "Tx" /\ a.mode # "deliver" -> CheckTx(st, a)
    [] ev = "NextBlock"                -> NextBlock(st)
    [] ev = "Epoch"                    -> EndBlock(st, TRUE)
    [] ev = "ValOut"                   -> ValOut(st, a)

(***************************************************************************)
(* PROPERTY C13 — written from the statement, evaluated on (pre, post)     *)
(* pairs; used unchanged by the bounded model (on model states) and by the *)
(* trace spec (on states observed on the real code).                       *)
(*                                                                         *)
(* Ghost G (carried by the caller):                                        *)
(*   cb[f]       base block of the round the counters below refer to       *)
(*   cnt[<<s,f>>]  messages of sender s admitted to blocks for that round  *)
(*   rep[<<s,f>>]  source rounds of s counted in that round                *)
(*   fin[f]      base block of the last round observed finalised           *)
(*   finc[f]     the same as of the last Commit (what the check state,     *)
(*               against which CheckTx/ReCheckTx decide, can know)         *)
(***************************************************************************)
GKeys == Senders \X FIDS
ZeroG == [cb  |-> [f \in FIDS |-> -1], cnt |-> [k \in GKeys |-> 0],
          rep |-> [k \in GKeys |-> {}], fin |-> [f \in FIDS |-> -1], finc |-> [f \in FIDS |-> -1]]

\* the round a transaction of block h belongs to: base b = start + k*interval <= h-1, window b+1 .. b+MAXNONCE
WinBase(f, h) == IF h - 1 < FEED[f].start THEN -1 ELSE (h - 1) - ((h - 1 - FEED[f].start) % FEED[f].interval)
InWindow(f, h) == /\ f \in FIDS
                  /\ LET b == WinBase(f, h) IN b >= 0 /\ h - b <= MAXNONCE /\ (FEED[f].endb = 0 \/ b < FEED[f].endb)
RoundOpen(f, h, G, mode) == InWindow(f, h) /\ (IF mode = "deliver" THEN G.fin[f] ELSE G.finc[f]) # WinBase(f, h)

Admitted(a, res) == res \in {"ok", "msg"}
Counted(a, res)  == a.mode = "deliver" /\ res = "ok"

PriorSame(msgs, i) == Cardinality({j \in 1..(i - 1) : msgs[j].f = msgs[i].f})
CntOf(G, s, f, b) == IF G.cb[f] = b THEN G.cnt[<<s, f>>] ELSE 0
RepOf(G, s, f, b) == IF G.cb[f] = b THEN G.rep[<<s, f>>] ELSE {}
PriorDets(msgs, i) == UNION {Range(msgs[j].dets) : j \in {k \in 1..(i - 1) : msgs[k].f = msgs[i].f}}

T(holds, tag) == IF holds THEN {} ELSE {tag}

\* same: [all |-> digests say nothing at all changed, butNonce |-> nothing but nonce-store entries changed]
\*       (the bounded model passes TRUE, TRUE: there the abstract state is everything)
TxTags(pre, post, a, res, G, same) ==
  LET v    == a.sender
      h    == pre.h
      ns0  == IF a.mode = "deliver" THEN pre.nonce ELSE pre.cnonce
      ns1  == IF a.mode = "deliver" THEN post.nonce ELSE post.cnonce
      idx  == DOMAIN a.msgs
      fs   == {a.msgs[i].f : i \in idx} \cap FIDS
      mine == {k \in NKeys : k[1] = v /\ k[2] \in fs}
      othersSame(x, y) == \A k \in NKeys \ mine : x[k] = y[k]
      wkButFnon(x, y) == \A f \in FIDS :
            /\ x[f].ex = y[f].ex /\ x[f].sealed = y[f].sealed /\ x[f].seen = y[f].seen
            /\ x[f].reps = y[f].reps /\ x[f].cpow = y[f].cpow /\ x[f].conf = y[f].conf
            /\ \A u \in VALS \ {v} : x[f].fnon[u] = y[f].fnon[u]
  IN
  (IF Admitted(a, res) THEN
     T(v \in pre.vals, "C13_AdmitNonValidator") \cup
     T(a.sig # "pkmismatch", "C13_AdmitPubKeyMismatch") \cup
     T(a.sig \in {"ok", "pkmismatch"}, "C13_AdmitBadSig") \cup
     T(a.size = "ok", "C13_AdmitTooLarge") \cup
     T(\A i \in idx : RoundOpen(a.msgs[i].f, h, G, a.mode), "C13_AdmitClosedRound") \cup
     T(\A i \in idx : LET m == a.msgs[i] IN
          m.f \in FIDS /\ v \in VALS =>
             /\ ns0[<<v, m.f>>] >= 0
             /\ m.nonce = ns0[<<v, m.f>>] + PriorSame(a.msgs, i) + 1
             /\ m.nonce <= MAXNONCE, "C13_AdmitBadNonce") \cup
     (IF a.mode = "deliver"
      THEN T(\A f \in fs : CntOf(G, v, f, WinBase(f, h)) + Cardinality({i \in idx : a.msgs[i].f = f}) <= MAXNONCE, "C13_OverLimit")
      ELSE {})
   ELSE {}) \cup
  (IF Counted(a, res) THEN
     T(\A i \in idx : a.msgs[i].f \in FIDS /\ a.msgs[i].base = WinBase(a.msgs[i].f, h), "C13_CountBadBase") \cup
     T(\A i \in idx : a.msgs[i].src = "ok", "C13_CountBadSource") \cup
     T(\A i \in idx : a.msgs[i].dec = "ok", "C13_CountBadDecimal") \cup
     T(\A i \in idx : a.msgs[i].ts <= 5, "C13_CountFutureTs") \cup
     T(\A i \in idx : LET m == a.msgs[i] IN
          m.f \in FIDS => ~(Range(m.dets) \subseteq (RepOf(G, v, m.f, WinBase(m.f, h)) \cup PriorDets(a.msgs, i))), "C13_CountDupDet")
   ELSE {}) \cup
  \* effects
  (IF res = "ante" THEN T(post = pre /\ same.all, "C13_RejectedButChanged") ELSE {}) \cup
  (IF res \in {"msg", "panic"} \/ (res = "ok" /\ a.mode # "deliver") THEN
     T(/\ post.h = pre.h /\ post.vals = pre.vals /\ post.out = pre.out /\ post.ep = pre.ep /\ post.rounds = pre.rounds
       /\ wkButFnon(pre.wk, post.wk)
       /\ (IF a.mode = "deliver" THEN post.cnonce = pre.cnonce /\ othersSame(pre.nonce, post.nonce)
                                 ELSE post.nonce = pre.nonce /\ othersSame(pre.cnonce, post.cnonce) /\ post.wk = pre.wk)
       /\ same.butNonce, "C13_NotCountedChangedMore")
   ELSE {})

\* ghost update after an observed Tx step; finalised = feeders whose round got its final price in this tx
\* (model: the round went from open to closed in a counted tx; real code: the stored next round id grew)
GStep(G, pre, post, a, res, finalised) ==
  IF ~(a.mode = "deliver" /\ Admitted(a, res)) THEN G ELSE
  LET v   == a.sender
      idx == DOMAIN a.msgs
      fs  == {a.msgs[i].f : i \in idx} \cap FIDS
      b(f) == WinBase(f, pre.h)
      cb1  == [f \in FIDS |-> IF f \in fs THEN b(f) ELSE G.cb[f]]
      fresh(f) == f \in fs /\ G.cb[f] # b(f)
      cnt0 == [k \in GKeys |-> IF fresh(k[2]) THEN 0 ELSE G.cnt[k]]
      rep0 == [k \in GKeys |-> IF fresh(k[2]) THEN {} ELSE G.rep[k]]
      cnt1 == [k \in GKeys |-> IF k[1] = v /\ k[2] \in fs THEN cnt0[k] + Cardinality({i \in idx : a.msgs[i].f = k[2]}) ELSE cnt0[k]]
      rep1 == IF Counted(a, res)
              THEN [k \in GKeys |-> IF k[1] = v /\ k[2] \in fs THEN rep0[k] \cup UNION {Range(a.msgs[i].dets) : i \in {j \in idx : a.msgs[j].f = k[2]}} ELSE rep0[k]]
              ELSE rep0
      fin1 == IF Counted(a, res)
              THEN [f \in FIDS |-> IF f \in fs /\ f \in finalised THEN b(f) ELSE G.fin[f]]
              ELSE G.fin
  IN [cb |-> cb1, cnt |-> cnt1, rep |-> rep1, fin |-> fin1, finc |-> G.finc]

\* ghost update at Commit
GBlock(G) == [G EXCEPT !.finc = G.fin]
=============================================================================
