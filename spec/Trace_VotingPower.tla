-------------------------- MODULE Trace_VotingPower --------------------------
(***************************************************************************)
(* Trace validation for the voting-power family (C05).                      *)
(*                                                                         *)
(* Input: trace.ndjson written by `harness votingpower` - one line per      *)
(* event executed on the REAL keepers / message server / BeginBlocker:      *)
(* event name, concrete arguments, reported result and the projection after *)
(* the event (pools, latest price rounds, AVS infos, opt-in records, the    *)
(* raw USD-value stores, and the answers of the exported getters).          *)
(*                                                                         *)
(*   C05_..     property lane: the STATEMENT of C05 evaluated on observed    *)
(*              states (exact functional comparison at PREC = 10^18)        *)
(*   C11_Halt   property lane of C11: BeginBlocker panicked on the real app   *)
(*   STRICT_..  strict lane: observed post-state / result differ from       *)
(*              VApply(pre, event, args) of spec/VotingPower.tla (drift)    *)
(***************************************************************************)
EXTENDS VotingPower, Json

Trace == ndJsonDeserialize("trace.ndjson")
Hdr   == Trace[1].cfg

t_OORD   == Hdr.oord
t_AORD   == Hdr.aord
t_AVSORD == Hdr.avsord
t_EIDS   == Hdr.eids
t_DUR    == Hdr.dur
t_DECI   == Hdr.deci
t_PREC   == "1000000000000000000"

VARIABLES l, P, V, M
\* l: next line; P: observed pools; V: observed voting-power store;
\* M: per (avs, form, operator) the snapshot taken at the last obliging epoch end (monotonicity ghost)
vars == <<l, P, V, M>>

Pick(S) == CHOOSE x \in S : TRUE
Rows(s) == {s[i] : i \in DOMAIN s}

NoPool == [ex |-> FALSE, amt |-> N0, tsh |-> N0, osh |-> N0]

PoolsFromLog(j) ==
  [k \in VOPS \X VASSETS |->
     LET R == {r \in Rows(j.pool) : r.o = k[1] /\ r.a = k[2]} IN
     IF R = {} THEN NoPool ELSE LET r == Pick(R) IN [ex |-> TRUE, amt |-> r.amt, tsh |-> r.tsh, osh |-> r.osh]]

VFromLog(j) ==
  [ opt |-> [k \in OKeys |->
               LET R == {r \in Rows(j.opt) : r.o = k[1] /\ r.avs = k[2] /\ r.form = k[3]} IN
               IF R = {} THEN "none" ELSE IF Pick(R).in THEN "in" ELSE "out"],
    usd |-> [k \in UKeys |->
               LET R == {r \in Rows(j.usd) : r.avs = k[1] /\ r.form = k[2] /\ r.o = k[3]} IN
               IF R = {} THEN ZeroUsd ELSE LET r == Pick(R) IN [ex |-> TRUE, self |-> r.self, total |-> r.total, active |-> r.active]],
    avsusd |-> [k \in AKeys |->
               LET R == {r \in Rows(j.avsusd) : r.avs = k[1] /\ r.form = k[2]} IN
               IF R = {} THEN NoAvsUsd ELSE [ex |-> TRUE, v |-> Pick(R).v]],
    price |-> [a \in VASSETS |-> [valid |-> j.price[a].valid, v |-> j.price[a].v, dec |-> j.price[a].dec]],
    avs |-> [x \in AVSS |-> [ex |-> j.avs[x].ex, assets |-> Rows(j.avs[x].assets), minSelf |-> j.avs[x].minSelf,
                              epoch |-> j.avs[x].epoch, start |-> j.avs[x].start, chain |-> j.avs[x].chain]],
    removing |-> Rows(j.removing),
    ep |-> [id \in Rows(EIDS) |-> [cur |-> j.epoch[id].cur, end |-> j.epoch[id].end]],
    now |-> j.now ]

T(holds, tag) == IF holds THEN {} ELSE {tag}

(***************************************************************************)
(* property lane                                                           *)
(***************************************************************************)
\* what the exported getters answered must be the recorded values
QRow(j, x, f, o) == Pick({r \in Rows(j.q) : r.avs = x /\ r.form = f /\ r.o = o})
GetterOK(j, v, x) ==
  /\ \A f \in FORMS, o \in VOPS :
        LET r == QRow(j, x, f, o)
            e == IF v.opt[<<o, x, f>>] = "in" THEN v.usd[<<x, f, o>>] ELSE ZeroUsd IN
        /\ (v.opt[<<o, x, f>>] = "in") = r.in
        /\ (r.in /\ ~e.ex) = ~r.ok
        /\ r.ok => NEq(r.self, e.self) /\ NEq(r.total, e.total) /\ NEq(r.active, e.active)
  /\ LET r == Pick({r \in Rows(j.qavs) : r.avs = x /\ r.form = "canon"}) IN
        r.ok = v.avsusd[<<x, "canon">>].ex /\ (r.ok => NEq(r.v, v.avsusd[<<x, "canon">>].v))

\* GetVotePowerForChainID: the whole units of the recorded active value
\* The statement of C05 is about the RECORDED values; the int64 vote-power getter is checked against them
\* wherever it can represent them. A recorded active value above 2^63-1 cannot be returned by the getter
\* (it panics: "Int64() out of bound" - the known int64 limit, a C11 matter when it happens in a block phase),
\* so a failing query in such a state is not a C05 violation (reported in the strict lane instead).
MaxInt64 == NC("9223372036854775807")   \* trace specs run under the Num.class override (decimal strings)
Unrepresentable(v, x) == \E o \in VOPS : NGt(DecTruncInt(RecordedActive(v, o, x), PREC), MaxInt64)
VotePowerOK(j, v, x) ==
  ~v.avs[x].chain \/ (IF j.vpok THEN \A o \in VOPS : NEq(j.vp[o], DecTruncInt(RecordedActive(v, o, x), PREC))
                                 ELSE Unrepresentable(v, x))

NotOptedInNothingFor(v, due) ==
  \A k \in UKeys : (k[1] \in due /\ v.opt[<<k[3], k[1], k[2]>>] # "in") =>
      (~v.usd[k].ex \/ (NIsZero(v.usd[k].self) /\ NIsZero(v.usd[k].total) /\ NIsZero(v.usd[k].active)))

EpochEndWho(p, pre, post) == UNION {OperatorViolations(p, post, x) : x \in DueBetween(pre, post)}

\* monotonicity between two consecutive obliging epoch ends of the same AVS: if every pool amount
\* and every price (as a rational) is at least what it was, the asset list is the same and the
\* operator stayed opted in, the recorded total must not have decreased (beyond rounding)
PriceGe(p2, p1) == NGe(NMul(p2.v, NPow10(p1.dec)), NMul(p1.v, NPow10(p2.dec)))
Snapshot(p, v, x, o) ==
  [assets |-> v.avs[x].assets, amt |-> [a \in VASSETS |-> IF p[<<o, a>>].ex THEN p[<<o, a>>].amt ELSE N0],
   price |-> [a \in VASSETS |-> EffPrice(v, a)]]
MonotoneOK(m, p, post, due) ==
  \A k \in UKeys : (k[1] \in due /\ post.opt[<<k[3], k[1], k[2]>>] = "in" /\ m[k].ex) =>
     LET s2 == Snapshot(p, post, k[1], k[3]) s1 == m[k].snap IN
     (/\ s1.assets = s2.assets
      /\ \A a \in s2.assets : NGe(s2.amt[a], s1.amt[a]) /\ PriceGe(s2.price[a], s1.price[a]))
       => NGe(NAdd(post.usd[k].total, Cardinality(s2.assets)), m[k].total)
MStep(m, p, post, due) ==
  [k \in UKeys |->
     IF k[1] \in due
     THEN (IF post.opt[<<k[3], k[1], k[2]>>] = "in" /\ post.usd[k].ex
           THEN [ex |-> TRUE, snap |-> Snapshot(p, post, k[1], k[3]), total |-> post.usd[k].total]
           ELSE [ex |-> FALSE])
     ELSE m[k]]
M0 == [k \in UKeys |-> [ex |-> FALSE]]

EpochEndTags(j, p, pre, post, m) ==
  LET due == DueBetween(pre, post)
      who == EpochEndWho(p, pre, post) IN
  {"C05_" \o w.what : w \in who} \cup
  T(\A x \in due : AvsValueOK(post, x), "C05_AvsValue") \cup
  T(NotOptedInNothingFor(post, due), "C05_NotOptedIn") \cup
  T(\A x \in due : GetterOK(j, post, x), "C05_Getter") \cup
  T(\A x \in due : VotePowerOK(j, post, x), "C05_VotePower") \cup
  T(j.vpok \/ due = {}, "STRICT_votepower_query_failed") \cup
  T(MonotoneOK(m, p, post, due), "C05_Monotone")

(***************************************************************************)
(* strict lane                                                             *)
(***************************************************************************)
StrictTags(prep, postp, pre, post, ev, a, ok, panic) ==
  LET aa == IF ev = "UpdateAvs" THEN [a EXCEPT !.assets = Rows(@)] ELSE a   \* JSON array -> set
      r  == VApply(prep, pre, ev, aa) IN
  T(r.V = post, "STRICT_state_" \o ev) \cup
  \* results and panics of ledger events are the ledger family's business (C01-C04, C09, C11)
  T(ev \in LedgerEvents \/ (r.err = "") = ok, "STRICT_result_" \o ev) \cup
  T(ev \in LedgerEvents \/ (r.err = "PANIC") = panic, "STRICT_panic_" \o ev) \cup
  T(ev \in LedgerEvents \/ postp = prep, "STRICT_pools_" \o ev)

(***************************************************************************)
(* replay                                                                  *)
(***************************************************************************)
Init ==
  /\ l = 1
  /\ P = [k \in VOPS \X VASSETS |-> NoPool]
  /\ V = VFromLog(Trace[1].st)
  /\ M = M0

Next ==
  /\ l <= Len(Trace)
  /\ l' = l + 1
  /\ LET line == Trace[l] IN
     IF line.ev = "reset" THEN
       /\ P' = PoolsFromLog(line.st) /\ V' = VFromLog(line.st) /\ M' = M0
       /\ LET tags == T(VNonNegative(VFromLog(line.st)), "C05_Negative") IN
            tags = {} \/ PrintT("TAG " \o ToJson([l |-> l, ev |-> "reset", tags |-> tags, who |-> {}]))
     ELSE
       LET postp == PoolsFromLog(line.st)
           post  == VFromLog(line.st)
           isEp  == line.ev = "EpochEnd" /\ ~line.panic   \* a panic in BeginBlock halts the chain (C11): no epoch-end state
           who   == IF isEp THEN EpochEndWho(postp, V, post) ELSE {}
           tags  == T(VNonNegative(post), "C05_Negative") \cup
                    \* C11: a block phase (here BeginBlocker at an epoch end) panicked on the real app = chain halt
                    T(~(line.ev = "EpochEnd" /\ line.panic), "C11_Halt") \cup
                    (IF isEp THEN EpochEndTags(line.st, postp, V, post, M) ELSE {}) \cup
                    StrictTags(P, postp, V, post, line.ev, line.a, line.ok, line.panic)
       IN /\ P' = postp /\ V' = post
          /\ M' = IF isEp THEN MStep(M, postp, post, DueBetween(V, post)) ELSE M
          /\ tags = {} \/ PrintT("TAG " \o ToJson([l |-> l, ev |-> line.ev, tags |-> tags, who |-> who]))

Spec == Init /\ [][Next]_vars

Consumed == TLCGet("stats").diameter - 1 = Len(Trace)
=============================================================================
