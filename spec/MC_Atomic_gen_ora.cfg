SPECIFICATION Spec
CONSTANTS
  DEVS <- c_DEVS_CODE
  PREFIXES <- c_PREFIX_0
  EVENTS <- EV_ORA
  MAXOPS = 4
  MAXEP = 9
  FAILBUDGET = 4
  COVER = FALSE
VIEW View
CHECK_DEADLOCK FALSE
INVARIANTS EmitAtDepth
