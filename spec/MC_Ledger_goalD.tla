--------------------------- MODULE MC_Ledger_goalD ---------------------------
\* association / dissociation of a staker holding positions in two assets with the same operator
EXTENDS MC_Ledger_t
c_WANTED == {"assoc_with_positions_in_two_assets", "dissoc_with_positions_in_two_assets"}
=============================================================================
