SPECIFICATION Spec
CONSTANTS
  ACCTS = {"a1", "a2", "a3"}
  CONTRACTS = {"c", "gw", "w", "pre"}
  PREC = 10
  MINGP = 10
  MULT = 5
  BLOCKGAS = 250
  GATEWAY = "gw"
  FIX <- c_FIX
  DEVS = {"DEV_BatchCreateResetsNonce"}
  SENDERS = {"a1", "a2"}
  TARGETS = {"a2", "c", "w", "newp"}
  TYPES = {"leg", "dyn"}
  PCS_N = {"at", "above"}
  PCS_X = {"below"}
  TIPS_N = {"one"}
  TIPS_X = {}
  GLS_N = {"fit", "big"}
  GLS_X = {}
  VCS_N = {"zero", "one"}
  VCS_X = {"split"}
  NCS_X = {"ahead"}
  MAXEXC = 1
  MAXTX = 2
  MAXBLOCKS = 1
  MAXOPS = 1
  GENBAL = 1000
  BFS = {2}
  BATCH = "first"
  WCS = {"zero", "new"}
  OPS = {"dep", "dlg"}
  GEN = FALSE
VIEW View
INVARIANTS InvNonNeg
PROPERTIES PropAdmission PropFrame PropAccounting
CHECK_DEADLOCK FALSE
