SPECIFICATION Spec
CONSTANTS
  VALS = {"v1", "v2", "v3", "v4", "v5"}
  FORD <- c_FORD
  TOKENS = {"t1", "t2"}
  FIX = {"L7", "L25S", "FROMTO", "WINDOW", "L26", "RPNIL"}
  CFGS <- c_CFGS
  PSS <- c_PSS
  PSS2 <- c_PSS2
  TWOMSG = FALSE
  BADBASE = FALSE
  BADNONCE = FALSE
  MAXH = 4
  MAXTX = 2
  MAXOPS = 99
  MAXRESTART = 1
  UPDENDS = {}
  MAXUPD = 0
  ADDS = {}
  MAXSTAKE = 0
  SECONDBAD = FALSE
  FAILBUDGET = 99
VIEW View
INVARIANTS InvNoGaps InvConsecutive InvRetention InvFinal InvCarry InvRestartEq InvNoHalt
CHECK_DEADLOCK FALSE
