---------------------------- MODULE Trace_Chain ----------------------------
(***************************************************************************)
(* Trace validation for the chain family (C08, C18).                        *)
(*                                                                         *)
(* Input: trace.ndjson = the MERGED observation streams of all OS processes *)
(* (`harness chain-node`) that executed the block scripts of one group:     *)
(*   reset   header of a script: model constants, prologue state            *)
(*   obs     one executed block of one run (role node | orig | imp): input  *)
(*           prefix, observation, per-prefix store digests of the listed    *)
(*           modules, projection of the modelled state, model-level block   *)
(*   export  ExportAppStateAndValidators at a height of an `orig` run       *)
(*   import  InitChain of a fresh process on that document                  *)
(*                                                                         *)
(* Property lane (the REAL CODE violated the property):                     *)
(*   C08_*  Observe: two runs with the same input prefix differ in app      *)
(*          hash / tx results / validator updates / consensus params        *)
(*          (detail = the modules whose store digests differ)               *)
(*   C18_Invalid_<m>    the exported document of module m fails its own     *)
(*                      ValidateGenesis                                     *)
(*   C18_ImportFails    InitChain on the exported document panics           *)
(*   C18_RoundTrip_<m>  KV store of m after import # store at export        *)
(*                      (detail = key prefixes that differ)                 *)
(*   C18_Stable_<m>     re-exported document of m # exported document       *)
(*   C18_SameFuture     the imported chain's continuation differs from the  *)
(*                      original's (detail = what differs)                  *)
(* Strict lane (drift: code no longer follows spec/Chain.tla):              *)
(*   STRICT_Init, STRICT_State, STRICT_TxOk, STRICT_Export, STRICT_Import   *)
(***************************************************************************)
EXTENDS Chain, Json

Trace == ndJsonDeserialize("trace.ndjson")
Hdr   == Trace[1].cfg

SeqSet(s) == {s[i] : i \in DOMAIN s}
t_OPS     == SeqSet(Hdr.ops)
t_KEYSEQ  == Hdr.keyseq
t_GENVALS == SeqSet(Hdr.genvals)
t_UNB     == Hdr.unb
t_UNBH    == Hdr.unbh
t_DEV     == SeqSet(Hdr.dev)

LISTED == {"assets", "delegation", "operator", "dogfood", "epochs", "oracle", "exomint", "feedistribution"}
\* key prefixes that are caches / derived data rewritten before they are read (documented assumption):
\*   dogfood 0c historical info (rolling window for IBC), dogfood 0f validator updates of the last EndBlock
Excluded(m) == IF m = "dogfood" THEN {"0c", "0f"} ELSE {}

VARIABLES l, hdr, cur, gh, seen, fut, exps
vars == <<l, hdr, cur, gh, seen, fut, exps>>
\* hdr  : header of the script being replayed
\* cur  : run -> [st (last observed model state), g (model-internal counters)]
\* gh   : height -> model-internal counters after that height (same for every run of a script)
\* seen : input prefix -> observation (C08 Observe)
\* fut  : input prefix -> C18 observation of the original chain (SameFuture)
\* exps : height -> export line of the original chain

(***************************************************************************)
(* logged projection -> model state                                        *)
(***************************************************************************)
QF(list) == [e \in {list[i].e : i \in DOMAIN list} |-> (LET i == CHOOSE i \in DOMAIN list : list[i].e = e IN list[i].l)]

FromLog(h, s, g) ==
  [ h |-> h, ep |-> s.ep,
    opted    |-> [o \in OPS |-> s.ops[o].opted],
    usd      |-> [o \in OPS |-> s.ops[o].usd],
    key      |-> [o \in OPS |-> s.ops[o].key],
    prev     |-> [o \in OPS |-> s.ops[o].prev],
    removing |-> [o \in OPS |-> s.ops[o].removing],
    nkey |-> g.nkey,
    rev  |-> s.rev,
    vals |-> SeqSet(s.vals),
    optq |-> QF(s.optq), optfin |-> s.optfin, pruneq |-> QF(s.pruneq), matq |-> QF(s.matq), mate |-> s.mate,
    recs |-> [r \in DOMAIN s.recs |-> s.recs[r].complete],
    hold |-> s.hold,
    seq |-> g.seq, lzn |-> g.lzn ]

Ghost(st) == [seq |-> st.seq, lzn |-> st.lzn, nkey |-> st.nkey]

\* logged document parts -> the shape of Export(st)
DocOf(d) ==
  [ epochs |-> [ep |-> d.epochs.ep],
    dogfood |-> [vals |-> SeqSet(d.dogfood.vals), optq |-> QF(d.dogfood.optq), pruneq |-> QF(d.dogfood.pruneq), matq |-> QF(d.dogfood.matq)],
    delegation |-> [recs |-> [r \in DOMAIN d.delegation.recs |-> d.delegation.recs[r].complete]] ]
ModelDocOf(st) ==
  LET e == Export(st) IN
  [ epochs |-> e.epochs,
    dogfood |-> e.dogfood,
    delegation |-> [recs |-> e.delegation.recs] ]

DiffFields(a, b) == {f \in DOMAIN a : a[f] # b[f]}

T(holds, tag) == IF holds THEN {} ELSE {tag}
Emit(ev, tags, detail) == tags = {} \/ PrintT("TAG " \o ToJson([l |-> l, ev |-> ev, tags |-> tags, detail |-> detail]))

(***************************************************************************)
(* C08: Observe                                                            *)
(***************************************************************************)
HasF(r, f) == f \in DOMAIN r
ObsTags(a, b) ==
  IF a = b THEN {} ELSE
  IF HasF(a, "halt") \/ HasF(b, "halt") THEN {"C08_Halt"} ELSE
  T(a.apphash = b.apphash, "C08_AppHash") \cup T(a.txs = b.txs, "C08_TxResult") \cup
  T(a.valupd = b.valupd, "C08_ValUpdates") \cup T(a.cpupd = b.cpupd, "C08_ConsParams") \cup
  (IF a.apphash = b.apphash THEN T(a.dg = b.dg, "C08_StoreDigest") ELSE {})   \* otherwise the digests are the localisation (detail)
ObsDetail(a, b) ==
  IF HasF(a, "halt") \/ HasF(b, "halt") THEN {} ELSE {m \in DOMAIN a.dg : m \notin DOMAIN b.dg \/ a.dg[m] # b.dg[m]}

(***************************************************************************)
(* C18                                                                     *)
(***************************************************************************)
PfxDiff(a, b, m) ==
  LET x == a[m] y == b[m] IN
  {p \in (DOMAIN x \cup DOMAIN y) \ Excluded(m) : p \notin DOMAIN x \/ p \notin DOMAIN y \/ x[p] # y[p]}

\* what the statement's "behaves like the original" is about
C18Obs(line) ==
  IF HasF(line.obs, "halt") THEN [halt |-> line.obs.halt] ELSE
  [ recs |-> line.st.recs, hold |-> line.st.hold, optq |-> line.st.optq, optfin |-> line.st.optfin,
    pruneq |-> line.st.pruneq, matq |-> line.st.matq, mate |-> line.st.mate, vals |-> line.st.vals,
    ops |-> line.st.ops, rev |-> line.st.rev, ep |-> line.st.ep,
    valupd |-> line.obs.valupd, txok |-> line.oks,
    oracle |-> line.pdg.oracle ]

(***************************************************************************)
(* replay                                                                  *)
(***************************************************************************)
Init ==
  /\ l = 1
  /\ hdr = Trace[1]
  /\ cur = <<>>
  /\ gh = <<>>
  /\ seen = <<>>
  /\ fut = <<>>
  /\ exps = <<>>

G0(h) == [seq |-> h.init.seq0, lzn |-> h.init.lzn0, nkey |-> [o \in OPS |-> IF o \in GENVALS THEN 2 ELSE 1]]

ObsStep(line) ==
  LET isImp  == line.role = "imp"
      strict == hdr.strict /\ ~HasF(line.obs, "halt")
      h0     == hdr.init.h0
      \* ---- strict lane: the model's block step from the previous observed state of this run
      havePre == line.run \in DOMAIN cur
      pre    == cur[line.run]
      doStep == strict /\ havePre /\ line.h > h0 /\ HasF(line, "m")
      r      == BlockStep(pre.st, [ee |-> line.m.ee, evs |-> line.m.evs])
      g2     == IF doStep THEN Ghost(r.st) ELSE IF havePre THEN pre.g ELSE IF line.h \in DOMAIN gh THEN gh[line.h] ELSE G0(hdr)
      post   == IF HasF(line.obs, "halt") THEN (IF havePre THEN pre.st ELSE InitState(h0, 1, 0, 0)) ELSE FromLog(line.h, line.st, g2)
      nev    == IF doStep THEN Len(line.m.evs) ELSE 0
      sdiff  == IF doStep THEN DiffFields(Proj(r.st), Proj(post)) ELSE {}
      stags  == (IF doStep THEN T(sdiff = {}, "STRICT_State") \cup T(r.oks = SubSeq(line.oks, 1, nev), "STRICT_TxOk") ELSE {}) \cup
                (IF strict /\ line.h = h0 /\ ~isImp
                   THEN T(Proj(InitState(h0, hdr.init.ep0, hdr.init.seq0, hdr.init.lzn0)) = Proj(post), "STRICT_Init") ELSE {})
      \* ---- C08
      o8     == line.obs
      ctags  == IF isImp \/ line.prefix \notin DOMAIN seen THEN {} ELSE ObsTags(seen[line.prefix], o8)
      cdet   == IF ctags = {} THEN {} ELSE ObsDetail(seen[line.prefix], o8)
      \* ---- C18 SameFuture
      o18    == C18Obs(line)
      ftags  == IF isImp /\ line.prefix \in DOMAIN fut /\ fut[line.prefix] # o18 THEN {"C18_SameFuture"} ELSE {}
      fdet   == IF ftags = {} THEN {} ELSE
                  IF HasF(o18, "halt") THEN {"imported chain halts: " \o o18.halt}
                  ELSE IF HasF(fut[line.prefix], "halt") THEN {"original chain halts: " \o fut[line.prefix].halt}
                  ELSE DiffFields(fut[line.prefix], o18)
  IN
  /\ cur' = Put(cur, line.run, [st |-> post, g |-> g2])
  /\ gh' = IF isImp THEN gh ELSE Put(gh, line.h, g2)
  /\ seen' = IF isImp THEN seen ELSE ObserveNext(seen, line.prefix, o8)
  /\ fut' = IF line.role = "orig" THEN Put(fut, line.prefix, o18) ELSE fut
  /\ UNCHANGED <<hdr, exps>>
  /\ Emit("obs", stags, sdiff)
  /\ Emit("obs", ctags, cdet)
  /\ Emit("obs", ftags, fdet)

ExportStep(line) ==
  LET bad    == IF line.ok THEN {m \in LISTED : line.valid[m] # ""} ELSE {}
      strict == hdr.strict /\ line.ok /\ line.run \in DOMAIN cur
      md     == ModelDocOf(cur[line.run].st)
      ld     == DocOf(line.doc)
      sdet   == IF strict THEN {"epochs" : x \in {1} \ {y \in {1} : md.epochs = ld.epochs}} \cup
                               {"delegation" : x \in {1} \ {y \in {1} : md.delegation = ld.delegation}} \cup
                               {"dogfood." \o f : f \in DiffFields(md.dogfood, ld.dogfood)} ELSE {}
      stags  == T(sdet = {}, "STRICT_Export")
  IN
  /\ exps' = Put(exps, line.h, line)
  /\ UNCHANGED <<hdr, cur, gh, seen, fut>>
  /\ Emit("export", T(line.ok, "C18_ExportFails"), {})
  /\ \A m \in bad : Emit("export", {"C18_Invalid_" \o m}, {line.valid[m]})
  /\ Emit("export", stags, sdet)

ImportStep(line) ==
  LET e == exps[line.h] IN
  IF ~line.ok THEN
    /\ UNCHANGED <<hdr, cur, gh, seen, fut, exps>>
    /\ Emit("import", {"C18_ImportFails"}, {line.panic})
  ELSE
    LET g      == IF line.h \in DOMAIN gh THEN gh[line.h] ELSE G0(hdr)
        post   == FromLog(line.h, line.st, g)
        rt     == {m \in LISTED : PfxDiff(e.pdg, line.pdg, m) # {}}
        stb    == {m \in LISTED : e.docdg[m] # line.docdg[m]}
        stbdet(m) == {k \in DOMAIN e.docdg \cup DOMAIN line.docdg :
                        /\ \E i \in 1..Len(k) : SubSeq(k, 1, i) = m \o "."
                        /\ (k \notin DOMAIN e.docdg \/ k \notin DOMAIN line.docdg \/ e.docdg[k] # line.docdg[k])}
        strict == hdr.strict
        want   == Import(Export(FromLog(e.h, e.st, g)))
        sdiff  == IF strict THEN DiffFields(want, Proj(post)) ELSE {}
    IN
    /\ cur' = Put(cur, line.run, [st |-> post, g |-> g])
    /\ UNCHANGED <<hdr, gh, seen, fut, exps>>
    /\ \A m \in rt : Emit("import", {"C18_RoundTrip_" \o m}, PfxDiff(e.pdg, line.pdg, m))
    /\ \A m \in stb : Emit("import", {"C18_Stable_" \o m}, stbdet(m))
    /\ Emit("import", T(sdiff = {}, "STRICT_Import"), sdiff)

Next ==
  /\ l <= Len(Trace)
  /\ l' = l + 1
  /\ LET line == Trace[l] IN
     CASE line.ev = "reset"  -> /\ hdr' = line /\ cur' = <<>> /\ gh' = <<>> /\ fut' = <<>> /\ exps' = <<>>
                                /\ UNCHANGED seen
       [] line.ev = "obs"    -> ObsStep(line)
       [] line.ev = "export" -> ExportStep(line)
       [] line.ev = "import" -> ImportStep(line)

Spec == Init /\ [][Next]_vars

Consumed == TLCGet("stats").diameter - 1 = Len(Trace)
=============================================================================
