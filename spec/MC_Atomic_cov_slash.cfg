SPECIFICATION Spec
CONSTANTS
  DEVS <- c_DEVS_CODE
  PREFIXES <- c_PREFIX_0
  EVENTS <- EV_SLASH
  MAXOPS = 3
  MAXEP = 9
  FAILBUDGET = 99
  COVER = TRUE
VIEW View
CHECK_DEADLOCK FALSE
ACTION_CONSTRAINTS CoverEdge
