SPECIFICATION Spec
CONSTANTS
  OPS <- c_OPS
  SELF <- c_SELF
  ASSETS <- c_ASSETS
  IDORD <- c_IDORD
  PWS <- c_PWS
  RATESETS <- c_RATES
  IDPAIRS <- c_IDPAIRS
  STAKERS = {"s1", "s2", "s3"}
  PREC = 100
  DEVIATIONS = {}
  EXTRAS = {0, 1, 2}
  TAXES = {0, 2, 100}
  REWARDS = {0, 5}
  FEES = {0, 1, 7, 100}
  PATHS = {"bank", "tx"}
  BURNS = {1, 3}
  DELAMTS = {1, 2, 3}
  MAXDEL = 4
  MAXUPD = 2
  MAXJAIL = 1
  MAXEPOCHS = 5
  MAXOPS = 16
  GENSUPPLY = 1000
INVARIANTS EmitAtDepth
CHECK_DEADLOCK FALSE
