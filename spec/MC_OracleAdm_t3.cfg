SPECIFICATION Spec
CONSTANTS
  VALS = {"v1", "v2", "v3"}
  OTHERS = {"a1"}
  POWER <- c_POWER
  FIDS = {1, 2}
  FEED <- c_FEEDg
  MAXNONCE = 2
  MAXDETID = 2
  THA = 2
  THB = 3
  DETS = {"d1", "d2"}
  DEV = {}
  MAXH = 5
  MAXTX = 1
  MAXCHK = 1
  MAXOPS = 99
  MUTS = {"feeder", "baseP", "gap", "repeat", "huge", "dec", "ts6", "src"}
  MUTSC = {"gap", "repeat"}
  MUTS2 = {"baseP", "gap"}
  SIGS = {"zero"}
  MODES = {"deliver", "check"}
  VALOUT = {}
  MAXEP = 0
  EMITLVL = 9999
  BIAS = FALSE
VIEW View
INVARIANTS InvC13 InvNonceRange InvOpenHasNonce
CHECK_DEADLOCK FALSE
