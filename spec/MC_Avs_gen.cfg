SPECIFICATION Spec
CONSTANTS
  AORD <- c_AORD
  TORD <- c_TORD
  OORD <- c_OORD
  REGOPS = {"o1", "o2", "o3"}
  VAL <- c_VAL
  VALT <- c_VALT
  PREC = 1
  U64 = 1073741824
  EPOCH0 <- c_EPOCH0
  TICKID = "minute"
  DEVS <- c_DEVS_GEN
  PREFIXES <- c_PREFIX_GW
  EVENTS = {"CreateTask", "Submit", "Challenge", "Tick", "OptIn", "OptOut", "RegisterBLS", "UpdateAVS"}
  A_AVS = {"a1"}
  A_T = {"t1"}
  MINSELFS = {0, 60}
  EIDS = {"minute"}
  U_EIDS = {""}
  UNBONDS = {5}
  CALLERS = {"w1", "w2"}
  NAMES = {"n1"}
  A_OPS = {"o1", "o2", "o3", "u1"}
  BLSCLS = {"good", "badsig"}
  P_RESP = {0, 1, 2}
  P_STAT = {0, 1, 2}
  P_CHAL = {0, 1, 2}
  STAGES = {"1", "2", "3"}
  SIGS = {"g1", "g2", "g3", "x1", "junk", "empty", "nil"}
  RESPS = {"nil", "r1", "r2", "rw", "rj"}
  IDS = {1, 2}
  HASHC = {"good", "bad"}
  FOREIGN = TRUE
  MAXTASKS = 2
  MAXEPOCH = 9
  MAXOPS = 40
  FAILBUDGET = 14
  ONCEPERERR = TRUE
  TICKW = 8
  COVER = FALSE
INVARIANTS EmitAtDepth
CHECK_DEADLOCK FALSE
