---------------------------- MODULE MC_NstFeed_r ----------------------------
(* real scale: 32-byte index bitmap, maxEffectiveBalance 32, BalanceList cap 100 *)
EXTENDS MC_NstFeed
c_SORD == <<"s1", "s2", "s3">>
c_OORD == <<"o1", "o2">>
c_AORD == <<"nst">>
c_KIND == [nst |-> "nst"]
c_DECI == [nst |-> 0]
c_DECI1 == [nst |-> 1]
c_PRICE == [nst |-> 1]
c_PDEC == [nst |-> 0]
\* entry = 4 bits L, 1 bit sign, L bits (|change| - 1), packed without padding:
\*   24 = 0001 1 0.. : -1      16 = 0001 0 0.. : +1      60 = 0011 1 100 : -5
\*   95,192 = 0101 1 11111 : -32     24,96 = -1,-1      0 = L=0
P_none   == Mk({}, <<>>)
P_m1_0   == Mk({0}, <<24>>)
P_m1_1   == Mk({1}, <<24>>)
P_m5_1   == Mk({1}, <<60>>)
P_m1_2   == Mk({2}, <<24>>)
P_m1m1   == Mk({0, 1}, <<24, 96>>)
P_p1_0   == Mk({0}, <<16>>)
P_m32_0  == Mk({0}, <<95, 192>>)
P_trunc  == Mk({0}, <<>>)
P_trunc2 == Mk({0, 1}, <<24>>)
P_idx3   == Mk({3}, <<24>>)
P_len0   == Mk({0}, <<0>>)
P_short  == Digits(<<1, 2, 3>>)
\* what the message path can store for a token: a canonical decimal string.  "1" "0"x31 "8": bits 2,3,7 of byte 0 ...
P_dig33  == Digits(<<1>> \o [i \in 1..31 |-> 0] \o <<8>>)
c_PAYLOADS == {P_none, P_m1_0, P_m1_1, P_m5_1, P_m1_2, P_m1m1, P_p1_0, P_m32_0, P_trunc, P_trunc2, P_idx3, P_len0, P_short, P_dig33}
P_m25_0  == Mk({0}, <<94, 0>>)       \* 0101 1 11000 : -25
P_m31_0  == Mk({0}, <<95, 128>>)     \* 0101 1 11110 : -31
P_m20_1  == Mk({1}, <<92, 192>>)     \* 0101 1 10011 : -20
c_PAYLOADS_del == {P_none, P_m1_0, P_m25_0, P_m31_0, P_m20_1, P_m1m1, P_m32_0}
c_PRE == << [ev |-> "Deposit", a |-> [s |-> "s1", pk |-> "k1", x |-> 40]], [ev |-> "Deposit", a |-> [s |-> "s2", pk |-> "k1", x |-> 32]],
            [ev |-> "Delegate", a |-> [s |-> "s1", a |-> "nst", o |-> "o1", x |-> 20]], [ev |-> "Delegate", a |-> [s |-> "s1", a |-> "nst", o |-> "o2", x |-> 10]],
            [ev |-> "Delegate", a |-> [s |-> "s2", a |-> "nst", o |-> "o2", x |-> 20]] >>
c_NOPRE == <<>>
c_PAYLOADS_iso == {P_m1_0, P_m1m1}
c_PAYLOADS_lead == {P_m1_0, P_m1_2, P_trunc, P_dig33, P_m1m1}
\* liveness part: price-string classes reported for an ORDINARY token by three validators
CL == {"num2", "empty", "alpha", "plus", "neg", "hex", "space", "exp", "dot", "zero", "lead0", "huge70", "huge76", "huge90", "bytes", "absent"}
c_STRS == {<<c, c, c>> : c \in CL} \cup {<<c, "num", "num">> : c \in CL} \cup {<<"num", c, "num">> : c \in CL} \cup {<<"num", "num", c>> : c \in CL}
           \cup {<<"num", "num", "num">>}
c_PAYLOADS_abci == {P_dig33, P_short, Digits(<<1>> \o [i \in 1..31 |-> 0])}
=============================================================================
