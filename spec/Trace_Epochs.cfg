SPECIFICATION Spec
CONSTANTS
  IDORD <- t_IDORD
POSTCONDITION Consumed
CHECK_DEADLOCK FALSE
