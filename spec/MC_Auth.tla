------------------------------ MODULE MC_Auth ------------------------------
(***************************************************************************)
(* Bounded model of the authorisation matrix (C10).                         *)
(*                                                                         *)
(* Init picks one of the base states (the same ones harness/auth.go builds  *)
(* on the real application: B0 = genesis, B1 = rich state in which every    *)
(* entry point has a feasible payload) and a chain-id class; Next performs  *)
(* one cell of the matrix Entry x Caller.  With MAXOPS = 1 the reachable    *)
(* transitions ARE the matrix (every cell is printed as a behaviour by      *)
(* MC_Auth_gen.cfg); with MAXOPS = 2 the quick configuration also checks    *)
(* every cell in every state reachable by one effective call (a second      *)
(* owner, a deregistered AVS, a moved gateway address, ...).                *)
(***************************************************************************)
EXTENDS Auth, Json

CONSTANTS MAXOPS,
          BASES,     \* subset of {"B0","B1"}
          CHAINS,    \* subset of {"main","test"}
          REJBUDGET  \* calls without effect allowed per behaviour (>= MAXOPS: unlimited); biases -simulate

VARIABLES st, base, chain, hist, last, nrej
vars == <<st, base, chain, hist, last, nrej>>

B0 == [ mainnet |-> TRUE, gw |-> "gw", avs |-> <<>>, usd |-> {}, tasks |-> {}, results |-> {}, chal |-> {},
        ops |-> {"o1", "o2", "o3"}, opt |-> {[o |-> "o1", a |-> "chain"], [o |-> "o3", a |-> "chain"]}, bls |-> {},
        ckey |-> [o1 |-> "k1", o3 |-> "k3"], vals |-> {"k1", "k3"}, nonce |-> [k1 |-> 0, k3 |-> 0], round |-> 2,
        pv |-> [assets |-> "gw", dogfood |-> "10", exomint |-> "20", feedistribution |-> "minute", oracle |-> "100"],
        assoc |-> {}, natdel |-> {}, newtoken |-> FALSE, chain102 |-> FALSE, tokmeta |-> FALSE, funded |-> FALSE ]

B1 == [ B0 EXCEPT !.avs = [cA |-> [owners |-> {"a1"}, task |-> "cA", ver |-> 1]], !.usd = {"cA"},
                   !.tasks = {[t |-> "cA", n |-> 1], [t |-> "cA", n |-> 2]},
                   !.results = {[o |-> "o2", t |-> "cA", n |-> 2]},
                   !.opt = @ \cup {[o |-> "o2", a |-> "cA"]}, !.bls = {"o2"},
                   !.assoc = {"s2"}, !.natdel = {"s2"}, !.funded = TRUE ]

BaseState(b, ch) == [ (IF b = "B0" THEN B0 ELSE B1) EXCEPT !.mainnet = (ch = "main") ]

(***************************************************************************)
(* the caller matrix                                                       *)
(***************************************************************************)
Mk(kind, via, from, sender, origin, claimed, key, sig) ==
  [kind |-> kind, via |-> via, from |-> from, sender |-> sender, origin |-> origin, claimed |-> claimed, key |-> key, sig |-> sig,
   carrier |-> "-"]

\* multi-message transactions: the cells of S as the second / first message of a tx whose other
\* message is the honest carrier (another signer, correctly signed)
WithCarrier(S) == {[c EXCEPT !.carrier = p] : c \in S, p \in {"before", "after"}}
\* signer-slot classes of the message under test inside a multi-signer tx
MULTISIGS == {"valid", "nopub", "forged", "zero", "empty", "noinfo", "othersig"}

\* calling addresses (contract.CallerAddress); gwL / gwF = the gateway address with its last /
\* first byte changed
ADDRS == {"gw", "gwL", "gwF", "cA", "cB", "a1", "a2", "o2", "s1", "gov"}
KEYED == {"gw", "cA", "a1", "a2", "o2", "s1"}                \* ... that are EOAs able to send a real tx
BADSIGS == {"forged", "zero", "empty", "missing"}

GwCallers ==
  {Mk("evm", "run", f, "-", "-", "-", "-", "-") : f \in ADDRS} \cup
  {Mk("evm", "tx", f, "-", f, "-", "-", "-") : f \in KEYED}

\* AVS management: calling contract x reported sender.  On the run path an EOA `sender` calls the
\* contract `from`, which forwards msg.sender; on the tx path the EOA `from` calls the precompile
\* itself and reports whatever sender it likes.
AvsCallers ==
  {Mk("evm", "run", f, s, s, "-", "-", "-") : f \in {"cA", "cB", "a1", "gw"}, s \in {"a1", "a2", "o2"}} \cup
  {Mk("evm", "tx", f, s, f, "-", "-", "-") : f \in {"cA", "a1", "a2"}, s \in {"a1", "a2"}}

\* operator-bound precompile methods: who is acted for (sender) vs who signed (origin)
OppCallers ==
  {Mk("evm", "run", f, s, o, "-", "-", "-") : f \in {"cA", "cB", "a2"}, s \in {"o2", "o3", "a2"}, o \in {"o2", "o3", "a2"}} \cup
  {Mk("evm", "tx", f, s, f, "-", "-", "-") : f \in {"cA", "a2", "o2"}, s \in {"o2", "o3", "a2"}}

\* every signed transaction is also offered to CheckTx (mempool admission)
WithCheck(S) == S \cup {[c EXCEPT !.via = "check"] : c \in {x \in S : x.via = "tx"}}

OpmCallers(e) ==
  LET p == Principal(e) IN WithCheck(
  {Mk("cosmos", "tx", "-", "-", "-", p, p, s) : s \in {"valid", "nopub", "noinfo"} \cup BADSIGS} \cup
  {Mk("cosmos", "tx", "-", "-", "-", p, "a2", s) : s \in {"valid", "nopub"}}) \cup
  LET M == WithCarrier({Mk("cosmos", "tx", "-", "-", "-", p, p, s) : s \in MULTISIGS} \cup
                       {Mk("cosmos", "tx", "-", "-", "-", p, "a2", "nopub")})
  IN M \cup {[c EXCEPT !.via = "check"] : c \in {x \in M : x.carrier = "before"}}

OraCallers == WithCheck(
  {Mk("oracle", "tx", "-", "-", "-", k, k, s) : k \in {"k1", "k9"}, s \in {"valid"} \cup BADSIGS} \cup
  {Mk("oracle", "tx", "-", "-", "-", "k1", "k9", "valid"), Mk("oracle", "tx", "-", "-", "-", "k9", "k1", "valid"),
   Mk("oracle", "tx", "-", "-", "-", "k1", "k9", "nopub"), Mk("oracle", "tx", "-", "-", "-", "k1", "k1", "nopub"),
   Mk("oracle", "tx", "-", "-", "-", "k1", "k1", "noinfo"), Mk("oracle", "tx", "-", "-", "-", "k9", "k9", "noinfo")} \cup
  \* >= 2 MsgCreatePrice with different creators: validator k3's honest report + a report attributed to k1
  WithCarrier({Mk("oracle", "tx", "-", "-", "-", "k1", "k1", s) : s \in MULTISIGS}))

ParCallers == WithCheck(
  {Mk("gov", "exec", "-", "-", "-", "gov", "-", "-")} \cup
  {Mk("cosmos", "tx", "-", "-", "-", "a2", "a2", s) : s \in {"valid", "forged"}} \cup
  {Mk("cosmos", "tx", "-", "-", "-", "gov", "a2", s) : s \in {"valid", "nopub"} \cup BADSIGS}) \cup
  WithCarrier({Mk("cosmos", "tx", "-", "-", "-", "gov", "a2", s) : s \in {"forged", "noinfo", "othersig", "nopub"}})

CallersOf(e) ==
  CASE e \in GW   -> GwCallers
    [] e \in AVSM -> AvsCallers
    [] e \in OPP  -> OppCallers
    [] e \in OPM  -> OpmCallers(e)
    [] e \in ORA  -> OraCallers
    [] e \in PAR  -> ParCallers

\* which part of the matrix is exercised in which base state / chain class (keeps the number of
\* real executions in the low hundreds; every entry point is crossed with every caller class in
\* at least one state where its payload is feasible)
InScope(b, ch, e) ==
  CASE e \in GW   -> b = "B1" /\ ch = "main"
    [] e \in AVSM -> ch = "main"
    [] e \in OPP  -> ch = "main"
    [] e \in OPM  -> b = "B1" /\ ch = "main"
    [] e \in ORA  -> b = "B1" /\ ch = "main"
    [] e \in PAR  -> b = "B0"

Init ==
  /\ base \in BASES /\ chain \in CHAINS
  /\ st = BaseState(base, chain)
  /\ hist = <<>>
  /\ last = [e |-> "init", c |-> Mk("-", "-", "-", "-", "-", "-", "-", "-"), pre |-> st, mods |-> {}, ok |-> FALSE]
  /\ nrej = 0

Do(e, c) ==
  /\ Len(hist) < MAXOPS
  \* CheckTx works on the check state, which the model does not carry: only as a first step
  /\ (c.via = "check" => hist = <<>>)
  /\ LET r == Call(st, e, c) IN
     /\ (r.st # st \/ r.mods # {} \/ nrej < REJBUDGET)
     /\ nrej' = IF r.st # st \/ r.mods # {} \/ REJBUDGET >= MAXOPS THEN nrej ELSE nrej + 1
     /\ st' = r.st
     /\ last' = [e |-> e, c |-> c, pre |-> st, mods |-> r.mods, ok |-> r.ok]
     /\ hist' = Append(hist, [ev |-> "Call", a |-> [base |-> base, chain |-> chain, e |-> e, c |-> c]])
  /\ UNCHANGED <<base, chain>>

Next == \E e \in Entry : InScope(base, chain, e) /\ \E c \in CallersOf(e) : Do(e, c)

Spec == Init /\ [][Next]_vars

View == <<st, base, chain, last, Len(hist), nrej>>

(***************************************************************************)
(* invariants = the property                                               *)
(***************************************************************************)
InvRejectNoChange == last.e = "init" \/ RejectNoChange(last.pre, st, last.e, last.c, last.mods)
InvBinding        == last.e = "init" \/ Binding(last.pre, st, last.e, last.c, last.mods)
\* vacuity guards: the rightful caller with a feasible payload IS served, and every group has
\* at least one effective cell
InvRightfulServed == last.e = "init" \/
                     ((StmtAuthorized(last.pre, last.e, last.c) /\ Feasible(last.pre, last.e, last.c) /\ CodeAccepts(last.pre, last.e, last.c)) => last.ok)
\* the code never lets through LESS than the statement allows (a rightful caller is never refused
\* for an authorisation reason) - except where the statement makes no demand (testnet)
InvNoOverRejection == last.e = "init" \/ ~last.pre.mainnet \/
                      (StmtAuthorized(last.pre, last.e, last.c) => CodeAccepts(last.pre, last.e, last.c))

\* behaviour generation: every history of full length is printed once
EmitAtDepth == Len(hist) < MAXOPS \/ PrintT("BEHAVIOUR " \o ToJson(hist))
=============================================================================
