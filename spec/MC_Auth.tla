------------------------------ MODULE MC_Auth ------------------------------
(***************************************************************************)
(* Bounded model of the authorisation matrix (C10).                         *)
(*                                                                         *)
(* Init picks one of the base states (the same ones harness/auth.go builds  *)
(* on the real application: B0 = genesis, B1 = rich state in which every    *)
(* entry point has a feasible payload) and a chain-id class; Next performs  *)
(* one cell of the matrix Entry x Caller.  With MAXOPS = 1 the reachable    *)
(* transitions ARE the matrix (every cell is printed as a behaviour by      *)
(* MC_Auth_gen.cfg); with MAXOPS = 2 the quick configuration also checks    *)
(* every cell in every state reachable by one effective call (a second      *)
(* owner, a deregistered AVS, a moved gateway address, ...).                *)
(***************************************************************************)
EXTENDS Auth, Json

CONSTANTS MAXOPS,
          BASES,     \* subset of {"B0","B1"}
          CHAINS,    \* subset of {"main","main2","test"} (exocore_233-1, exocore_233-2, exocoretestnet_233-1)
          REJBUDGET  \* calls without effect allowed per behaviour (>= MAXOPS: unlimited); biases -simulate

VARIABLES st, base, chain, hist, last, nrej
vars == <<st, base, chain, hist, last, nrej>>

\* the base states B0, B1, B2 and BaseState(b, ch) are defined in Auth.tla (the trace spec compares them
\* with the projections the harness logs at every reset)

(***************************************************************************)
(* the caller matrix                                                       *)
(***************************************************************************)
Mk(kind, via, from, sender, origin, claimed, key, sig) ==
  [kind |-> kind, via |-> via, from |-> from, sender |-> sender, origin |-> origin, claimed |-> claimed, key |-> key, sig |-> sig,
   carrier |-> "-"]

\* multi-message transactions: the cells of S as the second / first message of a tx whose other
\* message is the honest carrier (another signer, correctly signed)
WithCarrier(S) == {[c EXCEPT !.carrier = p] : c \in S, p \in {"before", "after"}}
\* signer-slot classes of the message under test inside a multi-signer tx
MULTISIGS == {"valid", "nopub", "forged", "zero", "empty", "noinfo", "othersig"}

\* calling addresses (contract.CallerAddress); gwL / gwF = the gateway address with its last /
\* first byte changed
ADDRS == {"gw", "gwL", "gwF", "cA", "cB", "a1", "a2", "o2", "s1", "gov"}
KEYED == {"gw", "cA", "a1", "a2", "o2", "s1"}                \* ... that are EOAs able to send a real tx
BADSIGS == {"forged", "zero", "empty", "missing"}

GwCallers ==
  {Mk("evm", "run", f, "-", "-", "-", "-", "-") : f \in ADDRS} \cup
  {Mk("evm", "tx", f, "-", f, "-", "-", "-") : f \in KEYED}

\* AVS management: calling contract x reported sender.  On the run path an EOA `sender` calls the
\* contract `from`, which forwards msg.sender; on the tx path the EOA `from` calls the precompile
\* itself and reports whatever sender it likes.
AvsCallers ==
  {Mk("evm", "run", f, s, s, "-", "-", "-") : f \in {"cA", "cB", "a1", "gw"}, s \in {"a1", "a2", "o2"}} \cup
  {Mk("evm", "tx", f, s, f, "-", "-", "-") : f \in {"cA", "a1", "a2"}, s \in {"a1", "a2"}}

\* operator-bound precompile methods: who is acted for (sender) vs who signed (origin)
OppCallers ==
  {Mk("evm", "run", f, s, o, "-", "-", "-") : f \in {"cA", "cB", "a2"}, s \in {"o2", "o3", "a2"}, o \in {"o2", "o3", "a2"}} \cup
  {Mk("evm", "tx", f, s, f, "-", "-", "-") : f \in {"cA", "a2", "o2"}, s \in {"o2", "o3", "a2"}}

\* every signed transaction is also offered to CheckTx (mempool admission)
WithCheck(S) == S \cup {[c EXCEPT !.via = "check"] : c \in {x \in S : x.via = "tx"}}

OpmCallers(e) ==
  LET p == Principal(e) IN WithCheck(
  {Mk("cosmos", "tx", "-", "-", "-", p, p, s) : s \in {"valid", "nopub", "noinfo"} \cup BADSIGS} \cup
  \* another account signs: an unregistered EOA (a2), a registered operator (o3)
  {Mk("cosmos", "tx", "-", "-", "-", p, "a2", s) : s \in {"valid", "nopub"}} \cup
  {Mk("cosmos", "tx", "-", "-", "-", p, k, "valid") : k \in {"o3"} \ {p}}) \cup
  LET M == WithCarrier({Mk("cosmos", "tx", "-", "-", "-", p, p, s) : s \in MULTISIGS} \cup
                       {Mk("cosmos", "tx", "-", "-", "-", p, "a2", "nopub")})
  IN M \cup {[c EXCEPT !.via = "check"] : c \in {x \in M : x.carrier = "before"}}

OraCallers == WithCheck(
  {Mk("oracle", "tx", "-", "-", "-", k, k, s) : k \in {"k1", "k9"}, s \in {"valid"} \cup BADSIGS} \cup
  {Mk("oracle", "tx", "-", "-", "-", "k1", "k9", "valid"), Mk("oracle", "tx", "-", "-", "-", "k9", "k1", "valid"),
   Mk("oracle", "tx", "-", "-", "-", "k1", "k9", "nopub"), Mk("oracle", "tx", "-", "-", "-", "k1", "k1", "nopub"),
   Mk("oracle", "tx", "-", "-", "-", "k1", "k1", "noinfo"), Mk("oracle", "tx", "-", "-", "-", "k9", "k9", "noinfo")} \cup
  \* >= 2 MsgCreatePrice with different creators: validator k3's honest report + a report attributed to k1
  WithCarrier({Mk("oracle", "tx", "-", "-", "-", "k1", "k1", s) : s \in MULTISIGS}))

ParCallers == WithCheck(
  {Mk("gov", "exec", "-", "-", "-", "gov", "-", "-")} \cup
  {Mk("cosmos", "tx", "-", "-", "-", "a2", "a2", s) : s \in {"valid", "forged"}} \cup
  {Mk("cosmos", "tx", "-", "-", "-", "gov", "a2", s) : s \in {"valid", "nopub"} \cup BADSIGS}) \cup
  WithCarrier({Mk("cosmos", "tx", "-", "-", "-", "gov", "a2", s) : s \in {"forged", "noinfo", "othersig", "nopub"}})

CallersOf(e) ==
  CASE e \in GW   -> GwCallers
    [] e \in AVSM -> AvsCallers
    [] e \in OPP  -> OppCallers
    [] e \in OPM  -> OpmCallers(e)
    [] e \in ORA  -> OraCallers
    [] e \in PAR  -> ParCallers

\* B2 (later stages): the stage-dependent entry points only; the signer-bound messages with their
\* single-signer DeliverTx callers (multi-signer and CheckTx classes are crossed with them in B1)
StagedAvs == {"updateAVS", "updateAVS2", "deregisterAVS", "createTask", "challenge"}
StagedMsg == {"SetConsKey", "SubmitTaskResult", "SubmitTaskResult2"}
CallersFor(b, e) == IF b = "B2" /\ e \in OPM THEN {c \in CallersOf(e) : c.carrier = "-" /\ c.via = "tx"} ELSE CallersOf(e)

\* which part of the matrix is exercised in which base state / chain class (keeps the number of
\* real executions in the low hundreds; every entry point is crossed with every caller class in
\* at least one state where its payload is feasible)
InScope(b, ch, e) ==
  IF b = "B2" THEN ch = "main" /\ e \in StagedAvs \cup StagedMsg ELSE
  CASE e \in GW   -> b = "B1" /\ ch = "main"
    [] e \in AVSM -> ch = "main"
    [] e \in OPP  -> ch = "main"
    [] e \in OPM  -> b = "B1" /\ ch = "main"
    [] e \in ORA  -> b = "B1" /\ ch = "main"
    [] e \in PAR  -> b = "B0"

Init ==
  /\ base \in BASES /\ chain \in CHAINS
  /\ st = BaseState(base, chain)
  /\ hist = <<>>
  /\ last = [e |-> "init", c |-> Mk("-", "-", "-", "-", "-", "-", "-", "-"), pre |-> st, mods |-> {}, ok |-> FALSE]
  /\ nrej = 0

Do(e, c) ==
  /\ Len(hist) < MAXOPS
  \* CheckTx works on the check state, which the model does not carry: only as a first step
  /\ (c.via = "check" => hist = <<>>)
  /\ LET r == Call(st, e, c) IN
     /\ (r.st # st \/ r.mods # {} \/ nrej < REJBUDGET)
     /\ nrej' = IF r.st # st \/ r.mods # {} \/ REJBUDGET >= MAXOPS THEN nrej ELSE nrej + 1
     /\ st' = r.st
     /\ last' = [e |-> e, c |-> c, pre |-> st, mods |-> r.mods, ok |-> r.ok]
     /\ hist' = Append(hist, [ev |-> "Call", a |-> [base |-> base, chain |-> chain, e |-> e, c |-> c]])
  /\ UNCHANGED <<base, chain>>

Next == \E e \in Entry : InScope(base, chain, e) /\ \E c \in CallersFor(base, e) : Do(e, c)

Spec == Init /\ [][Next]_vars

View == <<st, base, chain, last, Len(hist), nrej>>

(***************************************************************************)
(* invariants = the property                                               *)
(***************************************************************************)
InvRejectNoChange == last.e = "init" \/ RejectNoChange(last.pre, st, last.e, last.c, last.mods)
InvBinding        == last.e = "init" \/ Binding(last.pre, st, last.e, last.c, last.mods)
\* vacuity guards: the rightful caller with a feasible payload IS served, and every group has
\* at least one effective cell
InvRightfulServed == last.e = "init" \/
                     ((StmtAuthorized(last.pre, last.e, last.c) /\ Feasible(last.pre, last.e, last.c) /\ CodeAccepts(last.pre, last.e, last.c)) => last.ok)
\* the code never lets through LESS than the statement allows (a rightful caller is never refused
\* for an authorisation reason) - except where the statement makes no demand (testnet)
InvNoOverRejection == last.e = "init" \/ ~last.pre.mainnet \/
                      (StmtAuthorized(last.pre, last.e, last.c) => CodeAccepts(last.pre, last.e, last.c))

\* behaviour generation: every history of full length is printed once
EmitAtDepth == Len(hist) < MAXOPS \/ PrintT("BEHAVIOUR " \o ToJson(hist))
=============================================================================
