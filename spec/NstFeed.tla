------------------------------ MODULE NstFeed ------------------------------
(***************************************************************************)
(* Native-restaking (NST) balance feed of exocore.                          *)
(*                                                                         *)
(*   precompiles/assets/tx.go        DepositOrWithdraw (depositNST /         *)
(*                                   withdrawNST as the gateway)            *)
(*   x/oracle/keeper/native_token.go UpdateNSTValidatorListForStaker,        *)
(*                                   UpdateNSTByBalanceChange,              *)
(*                                   parseBalanceChange                     *)
(*   x/oracle/keeper/prices.go       AppendPriceTR, GrowRoundID (NST branch) *)
(*                                                                         *)
(* The restaking ledger (x/assets, x/delegation) is spec/Ledger.tla, used   *)
(* unchanged: Ledger!DepositOrWithdraw is PerformDepositOrWithdraw,         *)
(* Ledger!UpdateNSTBalance is the delegation keeper's UpdateNSTBalance.     *)
(*                                                                         *)
(* State: [L |-> ledger store, O |-> oracle NST store]                      *)
(*   O.list      StakerList of the NST asset (sequence: the index matters)  *)
(*   O.info[s]   StakerInfo: ex, vals (ValidatorPubkeyList), latest         *)
(*               BalanceInfo (bal in WHOLE units, idx, rid, chg), nbl =     *)
(*               len(BalanceList), sidx = StakerIndex                       *)
(*   O.p, O.next latest stored "price" payload of the NST token (a sequence *)
(*               of BYTES) and the token's next round id                    *)
(*   O.lstp      liveness part: class of the latest stored price of the     *)
(*               ORDINARY staking token ("" = the genesis price)            *)
(*   O.skew      abci mode only: rounds the in-memory aggregator is ahead   *)
(*               of the stored next round id (a finalising tx that panicked *)
(*               closed its round in memory without storing it)             *)
(*                                                                         *)
(* DEVS names the places where the code deviates from the intended design   *)
(* (the design under which the listed properties hold):                     *)
(*   "NOCACHE"     DepositOrWithdraw runs PerformDepositOrWithdraw and the   *)
(*                 oracle step without a common cache context               *)
(*   "PARSEPANIC"  parseBalanceChange indexes out of range (truncated bit   *)
(*                 stream, index bit beyond the staker list) instead of     *)
(*                 returning an error                                       *)
(*   "FEEDSTOPS"   UpdateNSTByBalanceChange returns at the first staker     *)
(*                 whose update fails: earlier stakers keep their update,   *)
(*                 later ones are not processed                             *)
(*   "PRICEOVERFLOW" the epoch-end consumers of a stored price (x/operator  *)
(*                 USD values -> voting power) overflow on a huge agreed    *)
(*                 price instead of skipping the asset                      *)
(***************************************************************************)
EXTENDS Ledger

CONSTANTS
  NSTA,      \* model id of the NST asset
  MAXEFB,    \* maxEffectiveBalance[assetID] (32)
  BMBYTES,   \* length of the index bitmap in bytes (32)
  BLCAP,     \* cap of StakerInfo.BalanceList in Append (100)
  DEVS,
  MODE       \* "ctx": keeper-level entry points; "abci": oracle events go through real blocks

Unit == NPow10(DECI[NSTA])

RECURSIVE Pow2(_)
Pow2(k) == IF k = 0 THEN 1 ELSE 2 * Pow2(k - 1)

(***************************************************************************)
(* parseBalanceChange, byte level (transcription of the Go loop).           *)
(* raw: sequence of bytes; n = len(StakerList).  Result: [map, err] with    *)
(* map: index (0-based) -> signed change, err in {"", "ErrLen0", "PANIC"}.  *)
(* The two `|` of the Go code join disjoint bit ranges, hence `+`.          *)
(***************************************************************************)
Shl8(b, k) == (b * Pow2(k)) % 256
Shr(b, k)  == b \div Pow2(k)

\* the inner `for bitsExtracted < int(lenValue)` loop
RECURSIVE ValueBits(_, _, _, _, _, _)
ValueBits(ch, bi, bo, len, got, sc) ==
  IF got >= len THEN [bi |-> bi, bo |-> bo, sc |-> sc, panic |-> FALSE] ELSE
  IF bi >= Len(ch) THEN [bi |-> bi, bo |-> bo, sc |-> sc, panic |-> TRUE] ELSE
  LET left == 8 - bo
      bv   == Shl8(ch[bi + 1], bo)
      part == (len - got) < left
      bl   == IF part THEN len - got ELSE left
  IN ValueBits(ch, IF part THEN bi ELSE bi + 1, IF part THEN bo + bl ELSE 0, len, got + bl,
               sc * Pow2(bl) + Shr(bv, 8 - bl))

ParseEntry(acc, index, ch, n) ==
  IF acc.bi >= Len(ch) THEN [acc EXCEPT !.err = "PANIC"] ELSE
  LET bo == acc.bo  bi == acc.bi
      left == 8 - bo
      lv0  == Shr(Shl8(ch[bi + 1], bo), 3)
  IN IF left < 5 /\ bi + 1 >= Len(ch) THEN [acc EXCEPT !.err = "PANIC"] ELSE
  LET lv  == IF left < 5 THEN lv0 + Shr(ch[bi + 2], 3 + left) ELSE lv0
      bi1 == IF left < 5 THEN bi + 1 ELSE IF left = 5 THEN bi + 1 ELSE bi
      bo1 == IF left < 5 THEN 5 - left ELSE IF bo + 5 = 8 THEN 0 ELSE bo + 5
      sym == lv % 2
      len == lv \div 2
  IN IF len = 0 THEN [acc EXCEPT !.err = "ErrLen0", !.bi = bi1, !.bo = bo1] ELSE
  LET v == ValueBits(ch, bi1, bo1, len, 0, 0) IN
  IF v.panic THEN [acc EXCEPT !.err = "PANIC"] ELSE
  IF index >= n THEN [acc EXCEPT !.err = "PANIC"] ELSE
  [bi |-> v.bi, bo |-> v.bo, err |-> "",
   map |-> Put(acc.map, index, IF sym = 1 THEN -(v.sc + 1) ELSE v.sc + 1)]

BitOf(raw, index) == (raw[(index \div 8) + 1] \div Pow2(7 - (index % 8))) % 2

ParseCode(raw, n) ==
  LET ch == SubSeq(raw, BMBYTES + 1, Len(raw))
      step(acc, index) ==
        IF acc.err # "" THEN acc ELSE
        IF BitOf(raw, index) = 0 THEN acc ELSE ParseEntry(acc, index, ch, n)
      r == FoldLeft(step, [bi |-> 0, bo |-> 0, err |-> "", map |-> <<>>], [i \in 1..(8 * BMBYTES) |-> i - 1])
  IN [map |-> r.map, err |-> r.err]

(***************************************************************************)
(* The INTENDED decoder: a total function on bit sequences.                 *)
(*   payload = bitmap (8*BMBYTES bits) ++ stream;                           *)
(*   for every set bit, in index order: 4 bits length L, 1 bit sign,        *)
(*   L bits (value - 1), most significant bit first.                        *)
(* Errors: "ErrTrunc" (stream ends inside an entry), "ErrLen0", "ErrIndex"  *)
(* (set bit at or beyond the list length); trailing bits are ignored.       *)
(***************************************************************************)
Bits(raw) == [i \in 1..(8 * Len(raw)) |-> BitOf(raw, i - 1)]
RECURSIVE BitsVal(_, _, _)
BitsVal(bits, from, k) == IF k = 0 THEN 0 ELSE 2 * BitsVal(bits, from, k - 1) + bits[from + k - 1]

ParseSpec(raw, n) ==
  LET bits == Bits(raw)
      W == 8 * BMBYTES
      step(acc, index) ==
        IF acc.err # "" THEN acc ELSE
        IF bits[index + 1] = 0 THEN acc ELSE
        IF acc.pos + 5 > Len(bits) + 1 THEN [acc EXCEPT !.err = "ErrTrunc"] ELSE
        LET len == BitsVal(bits, acc.pos, 4)
            sym == bits[acc.pos + 4]
            p1  == acc.pos + 5
        IN IF len = 0 THEN [acc EXCEPT !.err = "ErrLen0"] ELSE
           IF p1 + len > Len(bits) + 1 THEN [acc EXCEPT !.err = "ErrTrunc"] ELSE
           IF index >= n THEN [acc EXCEPT !.err = "ErrIndex"] ELSE
           LET v == BitsVal(bits, p1, len) + 1 IN
           [pos |-> p1 + len, err |-> "", map |-> Put(acc.map, index, IF sym = 1 THEN -v ELSE v)]
      r == FoldLeft(step, [pos |-> W + 1, err |-> "", map |-> <<>>], [i \in 1..W |-> i - 1])
  IN [map |-> r.map, err |-> r.err]

\* the code's decoder is the intended one except that two error classes are panics
CodeErrOf(e) == IF e \in {"ErrTrunc", "ErrIndex"} THEN "PANIC" ELSE e
ParseAgree(raw, n) ==
  LET c == ParseCode(raw, n) s == ParseSpec(raw, n) IN
  c.err = CodeErrOf(s.err) /\ (s.err = "" => c.map = s.map)

\* the decoder of this model instance
Parse(raw, n) == IF "PARSEPANIC" \in DEVS THEN ParseCode(raw, n) ELSE ParseSpec(raw, n)

\* ----- payload construction (bounded models) -----
\* bitmap with the given index bits set, followed by the stream bytes
Mk(idxs, stream) ==
  [k \in 1..BMBYTES |-> SumF({i \in idxs : i \div 8 = k - 1}, LAMBDA i : Pow2(7 - (i % 8)))] \o stream
\* ASCII of a decimal digit string given as digits
Digits(ds) == [i \in DOMAIN ds |-> 48 + ds[i]]

(***************************************************************************)
(* The oracle NST store                                                     *)
(***************************************************************************)
NoInfo == [ex |-> FALSE, vals |-> <<>>, bal |-> N0, idx |-> 0, rid |-> 0, chg |-> "", nbl |-> 0, sidx |-> 0]
EmptyO == [list |-> <<>>, info |-> [s \in STAKERS |-> NoInfo], p |-> <<>>, next |-> 1, skew |-> 0, lstp |-> ""]
EmptyState == [L |-> EmptyStore, O |-> EmptyO]

PosIn(q, x) == IF InSeq(x, q) THEN CHOOSE j \in DOMAIN q : q[j] = x /\ \A k \in 1..(j - 1) : q[k] # x ELSE 0
FailO(o, e) == [o |-> o, err |-> e]

(***************************************************************************)
(* UpdateNSTValidatorListForStaker(assetID, staker, pubkey, amount)         *)
(* x: signed amount (negative = withdrawal)                                 *)
(***************************************************************************)
UpdValList(o, s, pk, x) ==
  LET cur == o.info[s]
      si0 == IF ~cur.ex THEN [NoInfo EXCEPT !.vals = <<pk>>]
             ELSE IF NIsPos(x) THEN [cur EXCEPT !.vals = Append(@, pk)] ELSE cur
      nb0 == IF si0.nbl > 0 THEN [bal |-> si0.bal, idx |-> si0.idx + 1, rid |-> si0.rid]
             ELSE [bal |-> N0, idx |-> 0, rid |-> 0]
      vals1 == IF NIsPos(x) THEN si0.vals ELSE DropFirst(si0.vals, pk)
      capped == NGe(x, NMul(MAXEFB, Unit))
      q == IF capped THEN NC(MAXEFB) ELSE NQuo(x, Unit)
      nbal == NAdd(nb0.bal, q)
      pos == PosIn(o.list, s)
      gone == NLe(nbal, 0)
  IN \* sdkmath.Int.Int64() panics outside int64
     IF ~capped /\ NBitLen(q) > 63 THEN FailO(o, "PANIC") ELSE
     IF pos = 0 /\ ~NIsPos(x) THEN FailO(o, "ErrRemoveUnexist") ELSE
     LET list1 == IF pos = 0 THEN Append(o.list, s)
                  ELSE IF gone THEN SubSeq(o.list, 1, pos - 1) \o SubSeq(o.list, pos + 1, Len(o.list)) ELSE o.list
         sidx == IF pos = 0 THEN Len(o.list) ELSE pos - 1
         inf1 == IF gone THEN NoInfo
                 ELSE [ex |-> TRUE, vals |-> vals1, bal |-> nbal, idx |-> nb0.idx, rid |-> nb0.rid,
                       chg |-> IF NIsPos(x) THEN "dep" ELSE "wd", nbl |-> si0.nbl + 1, sidx |-> sidx]
     IN [o |-> [o EXCEPT !.list = list1, !.info[s] = inf1], err |-> ""]

(***************************************************************************)
(* precompiles/assets/tx.go: DepositOrWithdraw for depositNST / withdrawNST *)
(* a = [s, pk, x, dir]; a failure is reported as success flag = false       *)
(***************************************************************************)
GwOp(st, a) ==
  IF ~NIsPos(a.x) THEN Fail(st, "ErrInput") ELSE
  LET r1 == DepositOrWithdraw(st.L, [s |-> a.s, a |-> NSTA, x |-> a.x, dir |-> a.dir]) IN
  IF r1.err # "" THEN Fail(st, r1.err) ELSE
  LET r2 == UpdValList(st.O, a.s, a.pk, IF a.dir = 1 THEN a.x ELSE NNeg(a.x)) IN
  IF r2.err = "" THEN Ok([L |-> r1.st, O |-> r2.o]) ELSE
  IF r2.err = "PANIC" THEN Fail(st, "PANIC") ELSE          \* the transaction is reverted
  IF "NOCACHE" \in DEVS THEN Fail([L |-> r1.st, O |-> st.O], r2.err)   \* the deposit / withdrawal stays
  ELSE Fail(st, r2.err)

(***************************************************************************)
(* UpdateNSTByBalanceChange(assetID, rawData, roundID)                      *)
(***************************************************************************)
\* one staker of the list; returns [st, err]
FeedItem(st, s, change, rid) ==
  LET inf == st.O.info[s] IN
  IF ~inf.ex THEN Fail(st, "ErrNoInfo") ELSE
  LET maxB == MAXEFB * Len(inf.vals)
      balance == maxB + change
  IN IF balance > maxB \/ balance <= 0 THEN Fail(st, "ErrBalanceRange") ELSE
  LET delta == NSub(balance, inf.bal)
      r == IF NIsZero(delta) THEN Ok(st.L)
           ELSE UpdateNSTBalance(st.L, [s |-> s, a |-> NSTA, d |-> NMul(delta, Unit)])
  IN IF r.err # "" THEN Fail([st EXCEPT !.L = r.st], r.err) ELSE
     Ok([L |-> r.st,
         O |-> [st.O EXCEPT !.info[s] = [inf EXCEPT !.bal = NC(balance),
                                                     !.idx = IF inf.rid = rid THEN inf.idx + 1 ELSE 0,
                                                     !.rid = rid, !.chg = "sr",
                                                     !.nbl = IF inf.nbl + 1 > BLCAP THEN BLCAP ELSE inf.nbl + 1]]])

ChangeOf(pm, i) == IF Has(pm, i - 1) THEN pm[i - 1] ELSE 0

Feed(st, raw, rid) ==
  IF Len(raw) < BMBYTES THEN Fail(st, "ErrShort") ELSE
  IF Len(st.O.list) = 0 THEN Fail(st, "ErrEmptyList") ELSE
  LET lst == st.O.list
      pr == Parse(raw, Len(lst)) IN
  IF pr.err # "" THEN Fail(st, pr.err) ELSE
  IF "FEEDSTOPS" \in DEVS THEN
    LET step(acc, i) == IF acc.err # "" THEN acc ELSE FeedItem(acc.st, lst[i], ChangeOf(pr.map, i), rid)
    IN Fold(step, Ok(st), [i \in DOMAIN lst |-> i])
  ELSE \* intended: a staker whose update fails is skipped without any effect, the others are processed
    LET step(acc, i) == LET r == FeedItem(acc, lst[i], ChangeOf(pr.map, i), rid) IN IF r.err = "" THEN r.st ELSE acc
    IN Ok(Fold(step, st, [i \in DOMAIN lst |-> i]))

(***************************************************************************)
(* prices.go: AppendPriceTR (round id = next) and GrowRoundID for the NST   *)
(* token.  The error of UpdateNSTByBalanceChange is only logged.            *)
(***************************************************************************)
AppendPrice(st, raw) ==
  LET rid == st.O.next
      f == Feed([st EXCEPT !.O.p = raw, !.O.next = rid + 1], raw, rid)
  IN IF f.err = "PANIC" THEN Fail(st, "PANIC") ELSE Ok(f.st)

\* GrowRoundID: latest price carried forward (no stored round yet: an empty price is stored)
Grow(st) == AppendPrice(st, IF st.O.next > 1 THEN st.O.p ELSE <<>>)

\* the NST token's round is finalised by a price transaction
\*   ctx  : AppendPriceTR called with the next round id
\*   abci : msg server; when the store lags the in-memory round id AppendPriceTR refuses and the
\*          msg server falls back to GrowRoundID; a panic is recovered by baseapp, the tx is rejected,
\*          but the round stays closed in memory: the store falls one (more) round behind
PriceEv(st, raw) ==
  LET r == IF MODE = "abci" /\ st.O.skew > 0 THEN Grow(st) ELSE AppendPrice(st, raw) IN
  IF r.err = "PANIC" /\ MODE = "abci" THEN Fail([st EXCEPT !.O.skew = @ + 1], "PANIC") ELSE r

(***************************************************************************)
(* Liveness part (abci mode): one oracle round of an ORDINARY token in      *)
(* which three validators of equal power report the price strings of the    *)
(* classes ps, and the end of the dogfood epoch, where x/operator turns the *)
(* latest price into USD values and voting power.  A price is recorded only *)
(* when more than 2/3 of the power reports the same number: all three.      *)
(***************************************************************************)
NUMERIC == {"num", "num2", "plus", "neg", "zero", "lead0", "huge70", "huge76", "huge90"}   \* big.Int.SetString(s, 10) succeeds
StrEv(st, ps) ==
  IF Len(ps) = 3 /\ ps[1] = ps[2] /\ ps[2] = ps[3] /\ ps[1] \in NUMERIC THEN Ok([st EXCEPT !.O.lstp = ps[1]]) ELSE Ok(st)
\* huge70: amount * price fits 256 bits, the voting power does not fit int64; huge76: amount * price overflows
EpochEv(st) ==
  IF "PRICEOVERFLOW" \in DEVS /\ st.O.lstp \in {"huge70", "huge76"} THEN Fail(st, "PANIC") ELSE Ok(st)

(***************************************************************************)
(* Entry points by event name                                               *)
(***************************************************************************)
NApply(st, ev, a) ==
  CASE ev = "Deposit"  -> GwOp(st, [s |-> a.s, pk |-> a.pk, x |-> a.x, dir |-> 1])
    [] ev = "Withdraw" -> GwOp(st, [s |-> a.s, pk |-> a.pk, x |-> a.x, dir |-> -1])
    [] ev = "Feed"     -> Feed(st, a.raw, a.rid)
    [] ev = "Price"    -> PriceEv(st, a.raw)
    [] ev = "Carry"    -> Grow(st)
    [] ev \in {"Delegate", "Undelegate", "EndBlock"} ->
         LET r == Apply(st.L, ev, a) IN [st |-> [st EXCEPT !.L = r.st], err |-> r.err]
    [] ev = "Str"      -> StrEv(st, a.ps)
    [] ev = "Epoch"    -> EpochEv(st)

(***************************************************************************)
(* Properties                                                               *)
(***************************************************************************)
FeedLike == {"Feed", "Price", "Carry"}

\* positive adjustments booked by the oracle in one step: increases of the recorded whole-unit balances
BookedUp(pre, post) ==
  SumF({s \in STAKERS : pre.O.info[s].ex /\ post.O.info[s].ex /\ NGt(post.O.info[s].bal, pre.O.info[s].bal)},
       LAMBDA s : NMul(NSub(post.O.info[s].bal, pre.O.info[s].bal), Unit))
BookedDown(pre, post) ==
  SumF({s \in STAKERS : pre.O.info[s].ex /\ post.O.info[s].ex /\ NLt(post.O.info[s].bal, pre.O.info[s].bal)},
       LAMBDA s : NMul(NSub(pre.O.info[s].bal, post.O.info[s].bal), Unit))

\* ghost bookkeeping (Ledger!ZeroG record): deposits / withdrawals from the request when REPORTED successful;
\* positive NST adjustments from the oracle's own record; decreases from what was observed to leave the ledger
NGhost(g, ev, a, ok, pre, post) ==
  CASE ev = "Deposit" /\ ok  -> [g EXCEPT !.cumDep[NSTA] = NAdd(@, a.x)]
    [] ev = "Withdraw" /\ ok -> [g EXCEPT !.cumWd[NSTA] = NAdd(@, a.x)]
    [] ev \in FeedLike ->
         LET up == BookedUp(pre, post) IN
         [g EXCEPT !.cumUp[NSTA] = NAdd(@, up),
                   !.cumDown[NSTA] = NAdd(@, NSub(NAdd(HeldBy(pre.L, NSTA), up), HeldBy(post.L, NSTA)))]
    [] ev = "Undelegate" -> [g EXCEPT !.used = @ \cup {a.nonce}]
    [] OTHER -> g

\* C01 on a step
OnlyBookedCreate(pre, post, ev, a, ok) ==
  LET inc == NSub(HeldBy(post.L, NSTA), HeldBy(pre.L, NSTA)) IN
  ~NIsPos(inc) \/ (ev = "Deposit" /\ ok /\ NLe(inc, a.x)) \/ (ev \in FeedLike /\ NLe(inc, BookedUp(pre, post)))
\* a feed never takes more out of the ledger than the decreases it books
DecreaseWithinBooked(pre, post, ev) ==
  ev \in FeedLike => NLe(NSub(NAdd(HeldBy(pre.L, NSTA), BookedUp(pre, post)), HeldBy(post.L, NSTA)), BookedDown(pre, post))

\* C09: a reported failure left no trace (skew is process memory bookkeeping of the model, not store state)
Unchanged(pre, post) == post.L = pre.L /\ [post.O EXCEPT !.skew = 0, !.lstp = ""] = [pre.O EXCEPT !.skew = 0, !.lstp = ""]

\* C09 (item isolation): in a feed whose payload decodes, a staker whose own update is satisfiable must not be
\* left unprocessed because another staker's update failed
ItemSatisfiable(st, s, change, rid) == FeedItem(st, s, change, rid).err = ""
StoppedOthers(pre, post, raw, rid) ==
  /\ Len(raw) >= BMBYTES /\ Len(pre.O.list) > 0
  /\ LET lst == pre.O.list pr == ParseSpec(raw, Len(lst)) IN
     /\ pr.err = ""
     /\ \E i, j \in DOMAIN lst :
           /\ i < j
           /\ ~ItemSatisfiable(pre, lst[i], ChangeOf(pr.map, i), rid)
           /\ ItemSatisfiable(pre, lst[j], ChangeOf(pr.map, j), rid)
           /\ post.O.info[lst[j]] = pre.O.info[lst[j]]
           /\ FeedItem(pre, lst[j], ChangeOf(pr.map, j), rid).st.O.info[lst[j]] # pre.O.info[lst[j]]
=============================================================================
