----------------------------- MODULE MC_Fees_t -----------------------------
(* thorough exhaustive configuration: every power vector over {0,1,2}^3 *)
EXTENDS MC_Fees
c_OPS    == <<"o1", "o2", "o3">>
c_SELF   == <<"v1", "v2", "v3">>
c_ASSETS == <<"a1", "a2">>
c_IDORD  == <<"ea", "eb">>
c_PWS    == {<<a, b, c>> : a \in 0..2, b \in 0..2, c \in 0..2}
c_RATES  == {<<a, b, a>> : a \in {0, 50, 100}, b \in {0, 100}}
c_IDPAIRS == {<<"ea", "ea">>, <<"eb", "ea">>}
=============================================================================
