SPECIFICATION Spec
CONSTANTS
  AORD <- c_AORD
  TORD <- c_TORD
  OORD <- c_OORD
  REGOPS = {"o1", "o2", "o3"}
  VAL <- c_VAL
  VALT <- c_VALT
  PREC = 1
  U64 = 1073741824
  EPOCH0 <- c_EPOCH0
  TICKID = "minute"
  DEVS = {}
  PREFIXES <- c_PREFIX_0
  EVENTS = {"RegisterAVS", "UpdateAVS", "DeregisterAVS", "OptIn", "OptOut", "Tick", "CreateTask"}
  A_AVS = {"a1", "a2"}
  A_T = {"t1", "t2", ""}
  MINSELFS = {0, 60}
  EIDS = {"minute", "nope"}
  U_EIDS = {"", "hour"}
  UNBONDS = {1}
  CALLERS = {"w1", "w2"}
  NAMES = {"n1", "bad"}
  A_OPS = {"o1", "o2", "u1"}
  BLSCLS = {"good"}
  P_RESP = {0}
  P_STAT = {0}
  P_CHAL = {0}
  STAGES = {"1"}
  SIGS = {"g1"}
  RESPS = {"nil"}
  IDS = {1}
  HASHC = {"good"}
  FOREIGN = FALSE
  MAXTASKS = 2
  MAXEPOCH = 3
  MAXOPS = 6
  FAILBUDGET = 99
  ONCEPERERR = FALSE
  TICKW = 1
  COVER = FALSE
VIEW View
INVARIANTS NoTags
CHECK_DEADLOCK FALSE
