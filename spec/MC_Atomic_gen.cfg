SPECIFICATION Spec
CONSTANTS
  DEVS <- c_DEVS_CODE
  PREFIXES <- c_PREFIX_GEN
  EVENTS <- EV_CTX
  MAXOPS = 14
  MAXEP = 9
  FAILBUDGET = 4
  COVER = FALSE
VIEW View
CHECK_DEADLOCK FALSE
INVARIANTS EmitAtDepth
