SPECIFICATION Spec
CONSTANTS
  OORD <- c_OORD
  KORD <- c_KORD
  GENVALS <- c_GENVALS
  DEVS <- c_DEVS_design
  UNBOND = 10
  DECI = 0
  PREC = 1
  AMOUNTS = {1}
  MAXVS = {1, 2}
  NS = {1, 2}
  INITMAXV = 2
  INITN = 1
  ADVS = {0, 1}
  MAXH = 5
  MAXOPS = 4
  MAXREC = 2
  NOOPBUDGET = 99
  VSTAKERS = {"s1", "v"}
  PATHS = {"keeper", "pc"}
  COVER = FALSE
  NONEMPTY = FALSE
  BLOCKW = 1
VIEW View
INVARIANTS InvC06 InvC07 InvC16 InvTypes
CHECK_DEADLOCK FALSE
