SPECIFICATION Spec
CONSTANTS
  OORD <- c_OORD
  KORD <- c_KORD5
  GENVALS <- c_GENVALS
  DEVS <- c_DEVS_guard
  DECI = 0
  PREC = 1
  AMOUNTS = {1}
  MAXVS = {1, 2}
  NS = {1, 2}
  INITMAXV = 2
  INITN = 1
  ADVS = {0, 1}
  MAXH = 6
  MAXOPS = 4
  MAXREC = 2
  NOOPBUDGET = 1
  VSTAKERS = {"v"}
  PATHS = {"keeper", "pc"}
  NONEMPTY = FALSE
  BLOCKW = 1
VIEW View
INVARIANTS LeadEmit
CHECK_DEADLOCK FALSE
