------------------------------- MODULE Atomic -------------------------------
(***************************************************************************)
(* Property C09 ("a reported failure leaves no trace") for the entry        *)
(* points the ledger family does not drive:                                 *)
(*   AVS precompile     precompiles/avs/tx.go, types.go  ->                 *)
(*                      x/avs/keeper/keeper.go, task.go,                    *)
(*                      x/operator/keeper/opt.go                            *)
(*   assets precompile  registerOrUpdateClientChain, registerToken,         *)
(*                      updateToken (precompiles/assets/tx.go, types.go ->  *)
(*                      x/assets/keeper, x/oracle/keeper/params.go)         *)
(*   reward precompile  claimReward                                         *)
(*   operator messages  x/operator/keeper/msg_server.go, opt.go,            *)
(*                      consensus_keys.go, operator.go                      *)
(*   AVS message        x/avs/keeper/msg_server.go: SubmitTaskResult        *)
(*   oracle message     MsgCreatePrice through DeliverTx (in-memory         *)
(*                      aggregation included)                               *)
(*   block phases       x/operator/keeper/impl_epoch_hook.go (one AVS's     *)
(*                      voting power = one item), x/avs/keeper/             *)
(*                      impl_epoch_hook.go (one task's statistics = one     *)
(*                      item), evidence -> dogfood -> operator.Slash (one   *)
(*                      slash = one item)                                   *)
(*                                                                         *)
(* METHOD.  Every entry point is a VALIDATION LADDER: the sequence of       *)
(* checks (C) and writes (W: store, M: process memory) in the order of the  *)
(* code.  Exec runs a ladder the way the code does: writes happen as they   *)
(* come, the first failing check ends the call and reports its name.        *)
(* What survives a failure depends on the caching around the call:          *)
(*   "pc"   precompile Run: errors become the flag `false`, NOTHING is      *)
(*          reverted (store and memory writes stay)                         *)
(*   "msg"  message in a delivered transaction: baseapp discards the store  *)
(*          writes of a failed transaction, memory writes stay              *)
(*   inner cache contexts of the code are part of the ladder (CB / CE)      *)
(* C09 = Atomic(Exec): out # "ok" => post = pre.  A check that follows a    *)
(* write in a ladder is a LEAD; DEVS selects, per lead that the tree has,   *)
(* the code's order (member) or the repaired order (not a member).  With    *)
(* DEVS = {} the model is atomic (exhaustive check); with the tree's DEVS   *)
(* it must not be (guard), and the strict lane of trace validation uses     *)
(* the tree's DEVS.                                                         *)
(*                                                                         *)
(* Restriction used by Exec: `pass` of every check is evaluated on the      *)
(* state at call time.  It is sound here because in these ladders no check  *)
(* that follows a write reads what that write wrote (checked per ladder).   *)
(***************************************************************************)
EXTENDS Naturals, Integers, Sequences, FiniteSets, TLC, SequencesExt, FiniteSetsExt, Folds

CONSTANTS
  DEVS      \* subset of {"RegTokenOrder", "OraMemTx"}: leads the tree exhibits

(***************************************************************************)
(* Universe (fixed: ids are what the harness concretises)                   *)
(***************************************************************************)
AVSS    == {"a1", "a2"}                 \* AVS contract addresses (callers of the AVS precompile)
DOG     == "dog"                        \* the chain-type AVS of the chain itself (x/dogfood)
AVSALL  == AVSS \cup {DOG}
AORD    == <<"a1", "a2">>               \* store order of the model AVSs (address bytes)
TADDRS  == {"t1", "t2"}
ACCTS   == {"o1", "o2", "o3", "u1", "w1", "w2"}
VAL     == [o1 |-> 100, o2 |-> 50, o3 |-> 0, u1 |-> 0, w1 |-> 0, w2 |-> 0]   \* whole USD of self stake
EIDS    == {"minute", "hour"}           \* known epoch identifiers; "minute" ticks
OWNSETS == [W1 |-> {"w1"}, W12 |-> {"w1", "w2"}, W2 |-> {"w2"}]
\* asset lists an AVS may name: L = {lst}; N = {lst, nop} (nop: staking asset WITHOUT oracle token);
\* B = {bad} (not a staking asset); "" = leave unchanged (update)
ALISTS  == {"L", "N", "B"}
KEYS    == {"k1", "k2", "k3", "k4"}

Has(f, k)    == k \in DOMAIN f
Put(f, k, v) == [x \in DOMAIN f \cup {k} |-> IF x = k THEN v ELSE f[x]]

NoAvs == [ex |-> FALSE, own |-> {}, t |-> "", eid |-> "", start |-> 0, unb |-> 0, ms |-> 0, al |-> "", name |-> ""]

(***************************************************************************)
(* The state: registry of x/avs, x/operator, the parts of x/assets and      *)
(* x/oracle the entry points write, the oracle round in memory.             *)
(***************************************************************************)
Genesis ==
  [ ep     |-> 1,                                         \* current epoch of "minute" ("hour" stays 1)
    ops    |-> {"o1", "o2", "o3"},                        \* registered operators
    avs    |-> [a \in AVSS |-> NoAvs],
    opt    |-> [k \in ACCTS \X AVSALL |-> IF k \in {<<"o1", DOG>>, <<"o2", DOG>>} THEN "in" ELSE "none"],
    usd    |-> [k \in AVSALL \X ACCTS |-> IF k \in {<<DOG, "o1">>, <<DOG, "o2">>} THEN "set" ELSE "none"],  \* none | zero | set
    avsusd |-> [a \in AVSALL |-> IF a = DOG THEN "pos" ELSE "none"],       \* none | zero | pos
    bls    |-> {},
    tnum   |-> [t \in TADDRS |-> 0],
    tasks  |-> <<>>,                                      \* <<t, id>> -> [start, resp, stat, chal, done]
    res    |-> <<>>,                                      \* <<o, t, id>> -> [stage, resp, sig]
    chal   |-> {},
    chains |-> {101},
    tokens |-> {"lst", "nop"},                            \* x/assets staking assets
    otok   |-> {"lst"},                                   \* asset ids bound to an oracle token (store AND memory params)
    key    |-> [o \in ACCTS |-> IF o = "o1" THEN "k1" ELSE IF o = "o2" THEN "k2" ELSE ""],
    rev    |-> [k \in KEYS |-> IF k = "k1" THEN "o1" ELSE IF k = "k2" THEN "o2" ELSE ""],
    prev   |-> [o \in ACCTS |-> ""],
    rmv    |-> {},                                        \* operators removing their key from the chain AVS
    \* oracle: the running round of feeder f1 (window open), reports counted in the STORE-backed view
    \* (nonces) and in MEMORY (aggregator); sealed = round closed in memory
    nopool |-> {},                                        \* operators holding a pool of the asset without oracle token
    slashed |-> {},                                       \* operators with a recorded slash
    tomb   |-> {},                                        \* operators jailed / tombstoned by evidence
    oraN   |-> [v \in {"v1", "v2", "v3"} |-> 0],          \* price messages carried by delivered transactions (validator nonces: EXEMPT)
    oraS   |-> [price |-> FALSE],                         \* store: price of the round recorded
    oraM   |-> [rep |-> {}, sealed |-> FALSE, non |-> 0] ] \* memory: reports counted, round sealed, nonces recorded by the filter

EpochKnown(eid) == eid \in EIDS
EpochOf(st, eid) == IF eid = "minute" THEN st.ep ELSE 1

AvsByTask(st, t) ==
  IF t = "" THEN "" ELSE
  LET s == SelectSeq(AORD, LAMBDA a : st.avs[a].ex /\ st.avs[a].t = t)
  IN IF Len(s) = 0 THEN "" ELSE s[1]

AvsEx(st, a)  == IF a = DOG THEN TRUE ELSE st.avs[a].ex
AvsAl(st, a)  == IF a = DOG THEN "L" ELSE st.avs[a].al
AvsMs(st, a)  == IF a = DOG THEN 0 ELSE st.avs[a].ms
Priceable(al) == al = "L"     \* GetMultipleAssetsPrices succeeds (a missing ROUND is tolerated, a missing TOKEN is not)

(***************************************************************************)
(* Ladder steps                                                            *)
(***************************************************************************)
C(n, pass) == [t |-> "C", n |-> n, pass |-> pass]
W(n)       == [t |-> "W", n |-> n, pass |-> TRUE]     \* store write
M(n)       == [t |-> "M", n |-> n, pass |-> TRUE]     \* process-memory write
CB         == [t |-> "CB", n |-> "", pass |-> TRUE]   \* the code opens a cache context
CE         == [t |-> "CE", n |-> "", pass |-> TRUE]   \* ... and writes it back (reached only without failure)
Args(a, names) == [i \in 1..Len(names) |-> C("arg_" \o names[i], a.bad # names[i])]

(***************************************************************************)
(* x/operator opt.go                                                       *)
(***************************************************************************)
OptInLadder(st, o, a) ==
  << C("notop", o \in st.ops),
     C("noavs", AvsEx(st, a)),
     C("already", st.opt[<<o, a>>] # "in"),
     C("usdcalc", Priceable(AvsAl(st, a))),            \* GetOrCalculateOperatorUSDValues
     C("minself", VAL[o] >= AvsMs(st, a)),
     C("frozen", TRUE),
     C("usdexists", TRUE),                            \* InitOperatorUSDValue: row exists iff opted in (checked above)
     W("usd_init"),
     C("slashcontract", TRUE),                        \* LATENT: GetAVSSlashContract after a write; the AVS exists (checked above)
     W("opt_in") >>

OptOutLadder(st, o, a) ==
  << C("notop", o \in st.ops),
     C("noavs", AvsEx(st, a)),
     C("notactive", st.opt[<<o, a>>] = "in"),
     C("frozen", TRUE),
     W("usd_del"),
     C("handleopt", TRUE),                            \* LATENT: HandleOptedInfo after a write; the record exists (IsActive above)
     W("opt_out") >>
  \o (IF a = DOG THEN << W("key_removal") >> ELSE <<>>)   \* deferred: InitiateOperatorKeyRemovalForChainID + hook

\* consensus_keys.go: setOperatorConsKeyForChainID
SetKeyLadder(st, o, k) ==
  << C("frozen", TRUE),
     C("removing", o \notin st.rmv),
     C("keyinuse", k \in KEYS /\ st.rev[k] = ""),
     W("key_set") >>

(***************************************************************************)
(* The ladders, one per entry point                                         *)
(***************************************************************************)
OraQuorum(rep) == Cardinality(rep) >= 3      \* three validators of equal power: power*3 > total*2 needs all three

StoredEid(st, a, dflt) == IF st.avs[a].ex /\ st.avs[a].eid # "" THEN st.avs[a].eid ELSE dflt

Ladder(st, ep, a) ==
  CASE ep = "pcRegisterAVS" ->
        Args(a, <<"sender0", "name", "minstake0", "task0", "slash0", "reward0", "ownerbad", "noassets", "unbond0", "eid0", "params">>) \o
        << C("notowner", a.sender \in OWNSETS[a.own]),      \* errorsmod.Wrap(nil) = nil: Run returns NO output (neither true nor false)
           C("epoch", EpochKnown(StoredEid(st, a.a, a.eid))),
           C("exists", ~st.avs[a.a].ex),
           C("taskused", AvsByTask(st, a.t) = ""),
           C("assets", a.al # "B"),
           W("avs_set") >>
    [] ep = "pcUpdateAVS" ->
        Args(a, <<"sender0", "task0", "ownerbad", "params">>) \o
        << C("noavs", st.avs[a.a].ex),
           C("notowner", a.sender \in st.avs[a.a].own),
           C("epoch", EpochKnown(StoredEid(st, a.a, a.eid))),
           C("taskused", AvsByTask(st, a.t) \in {"", a.a}),
           C("assets", a.al # "B"),
           W("avs_upd") >>
    [] ep = "pcDeregisterAVS" ->
        Args(a, <<"sender0", "name0">>) \o
        << C("epoch", st.avs[a.a].ex /\ EpochKnown(st.avs[a.a].eid)),   \* a missing AVS has identifier "" : epoch not found
           C("notowner", a.sender \in st.avs[a.a].own),
           C("unbonding", EpochOf(st, st.avs[a.a].eid) - st.avs[a.a].start <= st.avs[a.a].unb),
           C("name", a.name = st.avs[a.a].name),
           W("avs_del") >>
    [] ep = "pcOptIn" ->
        Args(a, <<"sender0">>) \o << C("notop0", a.o \in st.ops), C("noavs0", st.avs[a.a].ex) >> \o OptInLadder(st, a.o, a.a)
    [] ep = "pcOptOut" ->
        Args(a, <<"sender0">>) \o << C("notop0", a.o \in st.ops), C("noavs0", st.avs[a.a].ex) >> \o OptOutLadder(st, a.o, a.a)
    [] ep = "pcCreateTask" ->
        LET av == AvsByTask(st, a.t) IN
        Args(a, <<"sender0", "name0">>) \o
        << C("noavs", av # ""),
           C("notowner", av # "" /\ a.sender \in st.avs[av].own),
           C("power", av # "" /\ st.avsusd[av] = "pos"),
           C("epoch", av # "" /\ EpochKnown(st.avs[av].eid)),
           C("taskexists", TRUE),
           W("tnum"),
           C("taskaddrhex", TRUE),                      \* LATENT: SetTaskInfo's address check after the counter was advanced
           W("task") >>
    [] ep = "pcRegisterBLS" ->
        Args(a, <<"sender0", "name0">>) \o
        << C("PANIC", a.cls # "badpk"),
           C("sig", a.cls = "good"),
           C("exists", a.o \notin st.bls),
           W("bls") >>
    [] ep = "pcChallenge" ->
        LET tk == <<a.t, a.id>>
            rk == <<a.o, a.t, a.id>>
            av == AvsByTask(st, a.t)
            kn == Has(st.tasks, tk)
            e2 == IF kn THEN st.tasks[tk].start + st.tasks[tk].resp + st.tasks[tk].stat ELSE 0
            cur == IF av # "" THEN EpochOf(st, st.avs[av].eid) ELSE 0
        IN
        Args(a, <<"sender0", "op0", "opbad">>) \o
        << C("notask", kn),
           C("thash", a.thash = "good"),
           C("nores", Has(st.res, rk)),
           C("unmarshal", Has(st.res, rk) /\ st.res[rk].resp # "nil"),
           C("rhash", a.rhash = "good"),
           C("already", rk \notin st.chal),
           C("epoch", av # "" /\ EpochKnown(st.avs[av].eid)),
           C("toosoon", kn /\ cur > e2),
           C("toolate", kn /\ cur <= e2 + st.tasks[tk].chal),
           W("chal") >>
    [] ep = "pcRegisterChain" ->
        << C("caller", a.caller = "gw") >> \o Args(a, <<"addrlen0", "addrlenshort", "name", "meta">>) \o << W("chain") >>
    [] ep = "pcRegisterToken" ->
        << C("caller", a.caller = "gw"), C("nochain", a.chain \in st.chains) >> \o
        Args(a, <<"addrshort", "name", "meta">>) \o
        << C("oinfo", a.oi # "short"),
           C("assetexists", a.as \notin st.tokens) >> \o
        (IF "RegTokenOrder" \in DEVS THEN <<>> ELSE << C("dec", a.dec <= 18) >>) \o     \* repaired order: validate first
        << C("oradup", a.as \notin st.otok),
           C("oradec", a.oi # "baddec"),
           C("oraiv", a.oi # "badiv"),
           W("otok"), M("oraparams") >> \o
        (IF "RegTokenOrder" \in DEVS THEN << C("dec", a.dec <= 18) >> ELSE <<>>) \o     \* code: SetStakingAssetInfo validates AFTER the oracle write
        << W("token") >>
    [] ep = "pcUpdateToken" ->
        << C("caller", a.caller = "gw"), C("nochain", a.chain \in st.chains) >> \o
        Args(a, <<"addrshort", "meta">>) \o << C("noasset", a.as \in st.tokens), W("meta") >>
    [] ep = "pcClaimReward" ->
        << C("caller", a.caller = "gw"), C("nochain", a.chain \in st.chains) >> \o
        Args(a, <<"addrshort", "amount0">>) \o << C("unsupported", FALSE) >>
    [] ep = "MsgRegisterOperator" ->
        << C("exists", a.o \notin st.ops), C("earnempty", a.earn # "empty"), C("earnchain", a.earn # "badchain"), W("op") >>
    [] ep = "MsgOptIn" ->
        IF a.a # DOG
        THEN << CB, C("keygiven", a.key = "") >> \o OptInLadder(st, a.o, a.a) \o << CE >>
        ELSE << C("vb_badkey", a.key # "junk"), CB, C("nokey", a.key # "") >> \o OptInLadder(st, a.o, a.a) \o SetKeyLadder(st, a.o, a.key) \o << CE >>
    [] ep = "MsgOptOut" -> << CB >> \o OptOutLadder(st, a.o, a.a) \o << CE >>
    [] ep = "MsgSetConsKey" ->
        << C("vb_badkey", a.key \notin {"junk", ""}),
           C("notchain", a.a = DOG),
           C("notactive", st.opt[<<a.o, DOG>>] = "in") >> \o SetKeyLadder(st, a.o, a.key)
    [] ep = "MsgSubmit" ->
        LET tk == <<a.t, a.id>>
            rk == <<a.o, a.t, a.id>>
            av == AvsByTask(st, a.t)
            kn == Has(st.tasks, tk)
            e1 == IF kn THEN st.tasks[tk].start + st.tasks[tk].resp ELSE 0
            e2 == IF kn THEN e1 + st.tasks[tk].stat ELSE 0
            cur == IF av # "" THEN EpochOf(st, st.avs[av].eid) ELSE 0
        IN
        << C("from", a.from = a.o),
           C("notop", a.o \in st.ops),
           C("nobls", a.o \in st.bls),
           C("notask", kn),
           C("epoch", av # "" /\ EpochKnown(st.avs[av].eid)) >> \o
        (CASE a.stage = "1" ->
              << C("p1exists", ~Has(st.res, rk)),
                 C("p1nosig", a.sig \notin {"nil", "empty"}),
                 C("p1resp", a.resp = "nil"),
                 C("p1late", cur <= e1),
                 W("res1") >>
           [] a.stage = "2" ->
              << C("p2noresp", a.resp # "nil"),
                 C("p2nophase1", Has(st.res, rk) /\ st.res[rk].sig = a.sig),   \* same signature bytes as in phase one
                 C("p2soon", cur > e1),
                 C("p2late", cur <= e2),
                 C("p2taskid", a.resp = "r1"),
                 C("p2sig", a.sig = "g1" /\ a.resp = "r1"),
                 W("res2") >>
           [] OTHER -> << C("stage", FALSE) >>)
    [] ep = "OraTx" ->
        \* one delivered transaction carrying the price messages a.msgs (each [v, cls]); per message, in order:
        \* format / window / duplicate checks, then the report is counted in MEMORY (aggregator) and the
        \* nonce / cache / price are written to the STORE.  "OraMemTx": the tree counts in memory before the
        \* whole transaction is known to succeed (nothing reverts memory); repaired order = all checks of all
        \* messages first.
        LET n == Len(a.msgs)
            \* reaching message i means messages 1..i-1 passed and were counted in memory
            repBefore(i) == st.oraM.rep \cup {a.msgs[j].v : j \in 1..(i-1)}
            sealedBefore(i) == st.oraM.sealed \/ OraQuorum(repBefore(i))
            chk1(i) == << C("m" \o ToString(i) \o "_ctx", ~sealedBefore(i)),            \* round not open any more
                          C("m" \o ToString(i) \o "_base", a.msgs[i].cls # "base") >>
            chk2(i) == << C("m" \o ToString(i) \o "_dup", a.msgs[i].v \notin repBefore(i)) >>   \* nothing new: "price proposal ignored"
            non(i)  == << M("ora_nonce" \o ToString(i)) >>                              \* filter: the message's nonce is recorded
            wr(i)   == << M("ora_rep" \o ToString(i)), W("ora_price" \o ToString(i)) >>
            idx == [i \in 1..n |-> i]
            \* ante handler, whole transaction: known feeder; the validator still has a nonce record for the feeder
            \* (the records are deleted when the price of the round is stored)
            ante == << C("ante_validator", ~st.oraS.price), C("ante_feeder", \A i \in 1..n : a.msgs[i].cls # "feeder") >>
        IN ante \o
           (IF "OraMemTx" \in DEVS
            THEN FoldLeft(LAMBDA acc, i : acc \o chk1(i) \o non(i) \o chk2(i) \o wr(i), <<>>, idx)
            ELSE FoldLeft(LAMBDA acc, i : acc \o chk1(i) \o chk2(i), <<>>, idx) \o FoldLeft(LAMBDA acc, i : acc \o non(i) \o wr(i), <<>>, idx))
    [] OTHER -> << C("unknown_entry_point", FALSE) >>

\* how failures are contained around the call (see the header)
Mode(ep) == IF ep \in {"MsgRegisterOperator", "MsgOptIn", "MsgOptOut", "MsgSetConsKey", "MsgSubmit", "OraTx"} THEN "msg" ELSE "pc"

(***************************************************************************)
(* Effects of the writes                                                    *)
(***************************************************************************)
NewAvs(st, a) ==
  LET eid == StoredEid(st, a.a, a.eid) IN
  [ex |-> TRUE, own |-> OWNSETS[a.own], t |-> a.t, eid |-> eid, start |-> EpochOf(st, eid) + 1, unb |-> a.unb, ms |-> a.ms, al |-> a.al, name |-> "n1"]
UpdAvs(st, a) ==
  LET cur == st.avs[a.a]
      eid == StoredEid(st, a.a, a.eid)
  IN [cur EXCEPT !.t = IF a.t # "" THEN a.t ELSE @, !.ms = a.ms, !.eid = IF a.eid # "" THEN a.eid ELSE @,
                 !.al = IF a.al # "" THEN a.al ELSE @, !.own = IF a.own # "" THEN OWNSETS[a.own] ELSE @,
                 !.start = EpochOf(st, eid) + 1]

DoW(st, s, ep, a) ==
  LET n == s.n IN
  CASE n = "avs_set"  -> [st EXCEPT !.avs[a.a] = NewAvs(st, a)]
    [] n = "avs_upd"  -> [st EXCEPT !.avs[a.a] = UpdAvs(st, a)]
    [] n = "avs_del"  -> [st EXCEPT !.avs[a.a] = NoAvs]
    [] n = "usd_init" -> [st EXCEPT !.usd[<<a.a, a.o>>] = "zero"]
    [] n = "opt_in"   -> [st EXCEPT !.opt[<<a.o, a.a>>] = "in"]
    [] n = "usd_del"  -> [st EXCEPT !.usd[<<a.a, a.o>>] = "none"]
    [] n = "opt_out"  -> [st EXCEPT !.opt[<<a.o, a.a>>] = "out"]
    [] n = "key_removal" -> [st EXCEPT !.rmv = @ \cup {a.o}]
    [] n = "key_set"  -> [st EXCEPT !.prev[a.o] = IF st.key[a.o] # "" /\ @ = "" THEN st.key[a.o] ELSE @,
                                     !.key[a.o] = a.key, !.rev[a.key] = a.o]
    [] n = "tnum"     -> [st EXCEPT !.tnum[a.t] = @ + 1]
    [] n = "task"     -> LET av == AvsByTask(st, a.t) IN
                         [st EXCEPT !.tasks = Put(@, <<a.t, st.tnum[a.t]>>,
                             [start |-> EpochOf(st, st.avs[av].eid) + 1, resp |-> a.resp, stat |-> a.stat, chal |-> a.chal, done |-> FALSE])]
    [] n = "bls"      -> [st EXCEPT !.bls = @ \cup {a.o}]
    [] n = "chal"     -> [st EXCEPT !.chal = @ \cup {<<a.o, a.t, a.id>>}]
    [] n = "chain"    -> [st EXCEPT !.chains = @ \cup {a.id}]
    [] n = "otok"     -> [st EXCEPT !.otok = @ \cup {a.as}]
    [] n = "oraparams" -> st                               \* same abstract component as otok (store and memory params agree)
    [] n = "token"    -> [st EXCEPT !.tokens = @ \cup {a.as}]
    [] n = "meta"     -> st                                \* the meta string is not part of the abstract state
    [] n = "op"       -> [st EXCEPT !.ops = @ \cup {a.o}]
    [] n = "res1"     -> [st EXCEPT !.res = Put(@, <<a.o, a.t, a.id>>, [stage |-> "1", resp |-> "nil", sig |-> a.sig])]
    [] n = "res2"     -> [st EXCEPT !.res = Put(@, <<a.o, a.t, a.id>>, [stage |-> "2", resp |-> a.resp, sig |-> a.sig])]
    [] OTHER -> st

\* oracle writes carry the message index in their name
OraIdx(n) == IF n \in {"ora_nonce1", "ora_rep1", "ora_price1"} THEN 1 ELSE IF n \in {"ora_nonce2", "ora_rep2", "ora_price2"} THEN 2 ELSE 3
DoOra(st, s, a) ==
  LET i == OraIdx(s.n)
      v == a.msgs[i].v
  IN IF s.n \in {"ora_nonce1", "ora_nonce2", "ora_nonce3"} THEN [st EXCEPT !.oraM.non = @ + 1]
     ELSE IF s.t = "M"
     THEN LET rep == st.oraM.rep \cup {v} IN [st EXCEPT !.oraM.rep = rep, !.oraM.sealed = OraQuorum(rep)]
     ELSE [st EXCEPT !.oraS.price = @ \/ OraQuorum(st.oraM.rep)]

Apply1(st, s, ep, a) == IF ep = "OraTx" THEN DoOra(st, s, a) ELSE DoW(st, s, ep, a)

(***************************************************************************)
(* Exec: the code's execution of a ladder                                   *)
(***************************************************************************)
FirstFail(lad) == LET F == {i \in 1..Len(lad) : lad[i].t = "C" /\ ~lad[i].pass} IN IF F = {} THEN 0 ELSE Min(F)

\* writes that are performed before position `upto` and survive a failure at `upto`:
\*   a store write inside an open cache context of the code (CB without CE before the failure) is dropped;
\*   in mode "msg" every store write is dropped (the transaction's cache); memory writes always stay
Survivors(lad, ff, mode) ==
  LET openCB == {i \in 1..(ff-1) : lad[i].t = "CB" /\ ~\E j \in (i+1)..(ff-1) : lad[j].t = "CE"}
      inCache(i) == \E b \in openCB : b < i
  IN SelectSeq([i \in 1..(ff-1) |-> [s |-> lad[i], i |-> i]],
               LAMBDA x : \/ x.s.t = "M"
                          \/ x.s.t = "W" /\ mode = "pc" /\ ~inCache(x.i))
\* what the HANDLER leaves in the context it was given (before the transaction-level cache is dropped)
HandlerSurvivors(lad, ff) == Survivors(lad, ff, "pc")

Exec(st, ep, a) ==
  LET lad == Ladder(st, ep, a)
      ff  == FirstFail(lad)
  IN IF ff = 0
     THEN [st |-> FoldLeft(LAMBDA acc, s : IF s.t \in {"W", "M"} THEN Apply1(acc, s, ep, a) ELSE acc, st, lad), out |-> "ok", hdirty |-> FALSE]
     ELSE LET sv == Survivors(lad, ff, Mode(ep))
              hs == HandlerSurvivors(lad, ff)
          IN [st |-> FoldLeft(LAMBDA acc, x : Apply1(acc, x.s, ep, a), st, sv), out |-> lad[ff].n,
              hdirty |-> Mode(ep) = "msg" /\ ep # "OraTx" /\ FoldLeft(LAMBDA acc, x : Apply1(acc, x.s, ep, a), st, hs) # st]

\* the lead: a failing check with a write before it in the ladder (whether or not a cache saves the day)
LeadOf(st, ep, a) ==
  LET lad == Ladder(st, ep, a)
      ff  == FirstFail(lad)
  IN IF ff = 0 THEN {} ELSE {lad[i].n : i \in {j \in 1..(ff-1) : lad[j].t \in {"W", "M"}}}

\* all check names of an entry point in a state (the classes of the class cover are (ep, out))
(***************************************************************************)
(* Block phases                                                            *)
(***************************************************************************)
\* x/operator impl_epoch_hook.go: the AVSs whose voting power is updated when epoch n of "minute" ends
DueAvs(st) == SelectSeq(AORD, LAMBDA a : st.avs[a].ex /\ st.avs[a].eid = "minute" /\ st.ep >= st.avs[a].start - 1)
\* one item: UpdateVotingPower(a).  Fails (returns an error before any write) when an asset of the AVS has no oracle
\* token; an AVS naming an unknown asset cannot exist (validated at registration / update)
VpItemFails(st, a) == ~Priceable(st.avs[a].al)
VpItem(st, a) ==
  IF VpItemFails(st, a) THEN st ELSE
  LET rows == {o \in ACCTS : st.usd[<<a, o>>] # "none"}
      act  == {o \in rows : VAL[o] > 0 /\ VAL[o] >= st.avs[a].ms}
  IN [st EXCEPT !.usd = [k \in DOMAIN @ |-> IF k[1] = a /\ k[2] \in rows THEN (IF VAL[k[2]] > 0 THEN "set" ELSE "zero") ELSE @[k]],
                !.avsusd[a] = IF act = {} THEN "zero" ELSE "pos"]

\* x/avs impl_epoch_hook.go: the tasks with at least one stored result whose statistical period ends with epoch n
DueTasks(st) ==
  {tk \in DOMAIN st.tasks :
      /\ \E o \in ACCTS : Has(st.res, <<o, tk[1], tk[2]>>)
      /\ LET av == AvsByTask(st, tk[1]) IN av # "" /\ st.avs[av].eid = "minute"
      /\ st.ep = st.tasks[tk].start + st.tasks[tk].resp + st.tasks[tk].stat}
\* one item: the statistics of one task.  Skipped (`continue`, nothing written) when the AVS has no recorded value
StatItemFails(st, tk) == st.avsusd[AvsByTask(st, tk[1])] = "none"
StatItem(st, tk) == IF StatItemFails(st, tk) THEN st ELSE [st EXCEPT !.tasks[tk].done = TRUE]

Tick(st) ==
  LET s1 == FoldLeft(LAMBDA acc, a : VpItem(acc, a), st, DueAvs(st))
      s2 == FoldLeft(LAMBDA acc, tk : StatItem(acc, tk), s1, SetToSeq(DueTasks(s1)))
  IN [s2 EXCEPT !.ep = @ + 1]

\* end of the oracle block: EndBlock seals / carries forward; new round opens (reports forgotten in memory and store)


\* evidence -> slashing -> dogfood -> operator.Slash: one slash item per listed operator, in order.  An operator that
\* is already jailed is skipped by x/evidence; the slash of an operator with a pool of the unpriceable asset fails
\* before any write; x/evidence jails the validator whatever the slash reported
SlashItemFails(st, o) == o \in st.nopool
SlashItem(st, o) ==
  IF o \in st.tomb \/ st.opt[<<o, DOG>>] = "none" THEN st
  ELSE [st EXCEPT !.tomb = @ \cup {o}, !.slashed = IF SlashItemFails(st, o) THEN @ ELSE @ \cup {o}]
Evidence(st, a) == FoldLeft(LAMBDA acc, o : SlashItem(acc, o), st, a.ops)

\* nonces of the price messages a delivered transaction carries are advanced by the ante handler whatever happens
OraBump(st, a) == [st EXCEPT !.oraN = [v \in DOMAIN @ |-> @[v] + Cardinality({i \in 1..Len(a.msgs) : a.msgs[i].v = v})]]
OraAdmissible(st, a) == \A v \in DOMAIN st.oraN : st.oraN[v] + Cardinality({i \in 1..Len(a.msgs) : a.msgs[i].v = v}) <= 3

Step(st, ep, a) ==
  CASE ep = "Tick"        -> [st |-> Tick(st), out |-> "ok", hdirty |-> FALSE]
    [] ep = "StakeNop"    -> [st |-> [st EXCEPT !.nopool = @ \cup {a.o}], out |-> "ok", hdirty |-> FALSE]
    [] ep = "Downtime"    -> [st |-> Evidence(st, a), out |-> "ok", hdirty |-> FALSE]
    [] ep = "OraTx"       -> LET r == Exec(st, ep, a) IN IF r.out \in {"ante_feeder", "ante_validator"} THEN r ELSE [r EXCEPT !.st = OraBump(@, a)]
    [] OTHER              -> Exec(st, ep, a)

(***************************************************************************)
(* PROPERTY C09 on the model                                                *)
(***************************************************************************)
Core(st) == [st EXCEPT !.oraN = [v \in DOMAIN @ |-> 0]]     \* nonce / sequence changes are exempt
AtomicStep(st, ep, a) == LET r == Step(st, ep, a) IN r.out = "ok" \/ Core(r.st) = Core(st)
=============================================================================
