SPECIFICATION Spec
CONSTANTS
  PREC <- t_PREC
  IDORD <- t_IDORD
  DEVIATIONS <- t_DEV
POSTCONDITION Consumed
CHECK_DEADLOCK FALSE
