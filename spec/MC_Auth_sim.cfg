SPECIFICATION Spec
CONSTANTS
  DEVS <- c_CodeDevs
  MAXOPS = 3
  BASES = {"B0", "B1"}
  CHAINS = {"main", "main2", "test"}
  REJBUDGET = 1
INVARIANTS EmitAtDepth
CHECK_DEADLOCK FALSE
