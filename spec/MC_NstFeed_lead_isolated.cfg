SPECIFICATION Spec
CONSTANTS
  SORD <- c_SORD
  OORD <- c_OORD
  AORD <- c_AORD
  KIND <- c_KIND
  DECI <- c_DECI
  PRICE <- c_PRICE
  PDEC <- c_PDEC
  PAYLOADS <- c_PAYLOADS_iso
  STRS <- c_STRS
  PRE <- c_NOPRE
  REGISTERED = {"nst"}
  PREC = 100
  UNBOND = 1
  HOLDOPS = {"o1"}
  HOOKED = TRUE
  NSTA = "nst"
  MAXEFB = 32
  BMBYTES = 32
  BLCAP = 100
  DEVS = {"FEEDSTOPS", "PRICEOVERFLOW"}
  MODE = "ctx"
  STK = {"s1", "s2"}
  PKS = {"k1", "k2"}
  AMOUNTS = {5, 32}
  DAMOUNTS = {1}
  RIDS = {1, 2}
  NONCES = {1, 2}
  TXHS = {"t1"}
  EVENTS = {"Deposit", "Withdraw", "Price", "Carry"}
  MAXOPS = 4
  FAILBUDGET = 99
  MAXH = 4
VIEW ViewG
INVARIANTS InvIsolated
CHECK_DEADLOCK FALSE
