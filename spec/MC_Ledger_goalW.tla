--------------------------- MODULE MC_Ledger_goalW ---------------------------
\* re-delegation and full exit after a slash that wiped the pool
EXTENDS MC_Ledger_q
c_WANTED == {"del_again_after_slash_wipe", "und_full_exit_from_slashed_operator"}
=============================================================================
