SPECIFICATION Spec
CONSTANTS
  SORD <- c_SORD
  OORD <- c_OORD
  AORD <- c_AORD
  KIND <- c_KIND
  DECI <- c_DECI
  PRICE <- c_PRICE
  PDEC <- c_PDEC
  NSTDELTAS = {}
  REGISTERED = {"lst"}
  PREC = 100
  UNBOND = 1
  HOLDOPS = {"o1"}
  HOOKED = TRUE
  AMOUNTS = {1,2}
  NONCES = {1,2}
  TXHS = {"t1"}
  MAXH = 4
  MAXOPS = 3
  FACTORS = {100}
  POWERS = {100}
  SLASHIDS = {"i1"}
  GENBAL = 3
  FRESH = TRUE
  PREFUND = 3
  PREDEL = 1
  EVENTS = {"Delegate","Undelegate","Slash"}
  FAILBUDGET = 99
  WANTED <- c_WANTED
VIEW ViewG
INVARIANTS EmitGoals
CHECK_DEADLOCK FALSE
