----------------------------- MODULE MC_Ledger_n -----------------------------
(* small world with the native token *)
EXTENDS MC_Ledger
c_SORD == <<"s1", "s2">>
c_OORD == <<"o1", "o2">>
c_AORD == <<"nat", "lst">>
c_KIND == [lst |-> "lst", nat |-> "nat"]
c_DECI == [lst |-> 0, nat |-> 0]
c_PRICE == [lst |-> 1, nat |-> 1]
c_PDEC == [lst |-> 0, nat |-> 0]
c_WANTED == {"del_native", "und_native", "eb_release_native", "slash_multi_asset", "msgdel_two_entries", "msgdel_second_entry_fails",
             "msgund_two_operators", "msgund_same_operator_twice", "msgund_second_entry_fails"}
=============================================================================
