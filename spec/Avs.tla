-------------------------------- MODULE Avs --------------------------------
(***************************************************************************)
(* AVS registry, operator opt-in, tasks, two-phase task results,            *)
(* challenges and epoch-end statistics of exocore:                          *)
(*   x/avs/keeper/keeper.go   UpdateAVSInfo, CreateAVSTask,                 *)
(*                            RegisterBLSPublicKey, OperatorOptAction,      *)
(*                            RaiseAndResolveChallenge                      *)
(*   x/avs/keeper/task.go     GetTaskID, SetTaskResultInfo                  *)
(*   x/avs/keeper/avs.go      GetAVSInfoByTaskAddress, GetEpochEndAVSs,     *)
(*                            GetTaskStatisticalEpochEndAVSs                *)
(*   x/avs/keeper/impl_epoch_hook.go  AfterEpochEnd                         *)
(*   x/operator/keeper/opt.go OptIn, OptOut; abci.go UpdateVotingPower      *)
(*   x/epochs/keeper/abci.go  BeginBlocker (one identifier ticking)         *)
(*                                                                         *)
(* Style (DESIGN.md 3.1): the store is a VALUE, every entry point a         *)
(* FUNCTION Op(st, a) -> [st, err] that follows the code's order of checks  *)
(* and writes.  err = "" success, "PANIC" where the code panics.            *)
(*                                                                         *)
(* Event alphabet (= what the harness executes and logs; ids are strings):  *)
(*   RegisterAVS   [a, t, minself, eid, unbond]   name "n1", owners <<w1>>  *)
(*   UpdateAVS     [a, t, minself, eid, unbond]   ""/0 = "leave unchanged"  *)
(*   DeregisterAVS [a, caller, name]                                        *)
(*   OptIn/OptOut  [o, a]                                                   *)
(*   RegisterBLS   [o, cls]   cls: good | badsig | junksig | badpk          *)
(*   CreateTask    [t, caller, resp, stat, chal]                            *)
(*   Submit        [o, from, t, id, stage, sig, resp]                       *)
(*        sig : g1   operator's own key over response r1                    *)
(*              g2   operator's own key over response rw                    *)
(*              g3   operator's own key over response r2                    *)
(*              x1   another operator's key over r1                         *)
(*              junk bytes that are not a BLS signature                     *)
(*              empty present but zero length;  nil absent                  *)
(*        resp: r1   {TaskID = id}; r2 a DIFFERENT response with TaskID = id; *)
(*              rw {TaskID = id+7}; rj not JSON; nil                         *)
(*   A stored result is [stage, sig, resp, rhash, ver, idok]: the last       *)
(*   submission accepted for the (operator, task) pair, i.e. which phase is   *)
(*   stored with which (signature, response) pair; ver = the stored signature *)
(*   verifies over the stored response under the operator's registered key,   *)
(*   idok = the stored response carries the task id (both FALSE while only    *)
(*   phase one is stored).  In traces ver / idok are RECOMPUTED by the        *)
(*   harness with the real blst code on the stored bytes.                     *)
(*   Challenge     [t, id, o, thash, rhash]  hash classes good | bad        *)
(*   Tick          []   BeginBlock in which epoch TICKID ends               *)
(*                                                                         *)
(* DEVS names the places where the current tree departs from the intended   *)
(* behaviour (DESIGN.md 7).  With DEVS = {} the model satisfies PropTags =   *)
(* {} (checked exhaustively); trace validation's strict lane uses the set   *)
(* of the current tree (after the fix commits for L10 and L21 that is       *)
(* {"SymDiff"}; the other two branches stay in the model as documentation   *)
(* of what was repaired and for the deviation guard):                       *)
(*   "EmptySigPhase1"   a present-but-empty BlsSignature passes phase one   *)
(*                      and is stored as nil; the epoch hook dereferences   *)
(*                      the nil task of a group without signatures instead  *)
(*                      of skipping the group (L10)                         *)
(*   "SymDiff"          non-signers = SYMMETRIC difference of opt-in list   *)
(*                      and signers (types.Difference)                      *)
(*   "ChallengeWrapNil" a wrong task hash makes RaiseAndResolveChallenge    *)
(*                      return errorsmod.Wrap(nil, ..) = nil (L21)          *)
(***************************************************************************)
EXTENDS Num, Sequences, FiniteSets, TLC, SequencesExt, FiniteSetsExt, Folds

CONSTANTS
  AORD,     \* AVS addresses in store order (bytes of the address)
  TORD,     \* task contract addresses
  OORD,     \* operator accounts (registered or not) in bech32 string order
  REGOPS,   \* the accounts registered in x/operator
  VAL,      \* [account -> self-delegated USD value] (LegacyDec, scaled)
  VALT,     \* [account -> total USD value: self-delegated + delegated by stakers not associated with it]
  PREC,     \* LegacyDec unit
  U64,      \* 2^64 (ActualThreshold is the low 64 bits of a scaled decimal)
  EPOCH0,   \* [identifier -> current epoch number at reset]
  TICKID,   \* the identifier whose epoch ends in a Tick
  DEVS

AVSS   == Range(AORD)
TADDRS == Range(TORD)
OPS    == Range(OORD)

Ok(st)      == [st |-> st, err |-> ""]
Fail(st, e) == [st |-> st, err |-> e]
Has(f, k)   == k \in DOMAIN f
Put(f, k, v) == [x \in DOMAIN f \cup {k} |-> IF x = k THEN v ELSE f[x]]

SubSeq_(ord, P(_)) == SelectSeq(ord, P)              \* the members of a set, in store order
OpsSeq(S) == SelectSeq(OORD, LAMBDA o : o \in S)

SumF(S, f(_)) == MapThenFoldSet(LAMBDA x, y : NAdd(x, y), N0, f, LAMBDA T : CHOOSE x \in T : TRUE, S)

(***************************************************************************)
(* The store                                                               *)
(***************************************************************************)
NoAvs == [ex |-> FALSE, name |-> "", taddr |-> "", owners |-> <<>>, minself |-> 0, eid |-> "", start |-> 0, unbond |-> 0]
NoUsd == [ex |-> FALSE, self |-> N0, total |-> N0, active |-> N0]

EmptyStore ==
  [ epoch  |-> EPOCH0,                                   \* x/epochs: identifier -> current epoch
    avs    |-> [a \in AVSS |-> NoAvs],                   \* KeyPrefixAVSInfo
    opt    |-> [k \in OPS \X AVSS |-> "none"],          \* x/operator opted info: none | in | out
    usd    |-> [k \in AVSS \X OPS |-> NoUsd],           \* x/operator KeyPrefixUSDValueForOperator
    avsusd |-> [a \in AVSS |-> [ex |-> FALSE, v |-> N0]],\* x/operator KeyPrefixUSDValueForAVS
    bls    |-> [o \in OPS |-> FALSE],                    \* KeyPrefixOperatePub (own key registered)
    tnum   |-> [t \in TADDRS |-> 0],                     \* KeyPrefixLatestTaskNum (0 = absent)
    tasks  |-> <<>>,                                     \* <<t, id>> -> task
    res    |-> <<>>,                                     \* <<o, t, id>> -> result
    chal   |-> {},                                       \* <<o, t, id>>
    halted |-> FALSE ]

EpochKnown(st, eid) == eid \in DOMAIN st.epoch
\* avs.go: GetAVSInfoByTaskAddress - first AVS in store order whose TaskAddr equals t
AvsByTask(st, t) ==
  IF t = "" THEN "" ELSE
  LET s == SelectSeq(AORD, LAMBDA a : st.avs[a].ex /\ st.avs[a].taddr = t)
  IN IF Len(s) = 0 THEN "" ELSE s[1]

\* the epoch number the window checks of task contract t are made against
CurOf(st, t) ==
  LET a == AvsByTask(st, t) IN
  IF a = "" THEN [ok |-> FALSE, n |-> 0]
  ELSE IF ~EpochKnown(st, st.avs[a].eid) THEN [ok |-> FALSE, n |-> 0]
  ELSE [ok |-> TRUE, n |-> st.epoch[st.avs[a].eid]]

MinSelfDec(av) == DecFromInt(av.minself, PREC)

(***************************************************************************)
(* keeper.go: UpdateAVSInfo                                                *)
(***************************************************************************)
RegisterAVS(st, p) ==
  LET cur == st.avs[p.a]
      eid == IF cur.ex /\ cur.eid # "" THEN cur.eid ELSE p.eid
  IN
  IF ~EpochKnown(st, eid)        THEN Fail(st, "ErrEpochNotFound") ELSE
  IF cur.ex                      THEN Fail(st, "ErrAlreadyRegistered") ELSE
  IF AvsByTask(st, p.t) # ""     THEN Fail(st, "ErrAlreadyRegistered") ELSE
  Ok([st EXCEPT !.avs[p.a] = [ex |-> TRUE, name |-> "n1", taddr |-> p.t, owners |-> <<"w1">>, minself |-> p.minself,
                              eid |-> eid, start |-> st.epoch[eid] + 1, unbond |-> p.unbond]])

DeregisterAVS(st, p) ==
  LET cur == st.avs[p.a]
      eid == IF cur.ex /\ cur.eid # "" THEN cur.eid ELSE ""
  IN
  IF ~EpochKnown(st, eid)                          THEN Fail(st, "ErrEpochNotFound") ELSE
  IF ~cur.ex                                       THEN Fail(st, "ErrUnregisterNonExistent") ELSE
  IF p.caller \notin Range(cur.owners)             THEN Fail(st, "ErrCallerAddressUnauthorized") ELSE
  IF st.epoch[eid] - cur.start > cur.unbond        THEN Fail(st, "ErrUnbondingPeriod") ELSE
  IF cur.name # p.name                             THEN Fail(st, "ErrAvsNameMismatch") ELSE
  Ok([st EXCEPT !.avs[p.a] = NoAvs])

UpdateAVS(st, p) ==
  LET cur == st.avs[p.a]
      eid == IF cur.ex /\ cur.eid # "" THEN cur.eid ELSE p.eid
      other == AvsByTask(st, p.t)
  IN
  IF ~EpochKnown(st, eid)             THEN Fail(st, "ErrEpochNotFound") ELSE
  IF ~cur.ex                          THEN Fail(st, "ErrUnregisterNonExistent") ELSE
  IF other # "" /\ other # p.a        THEN Fail(st, "ErrAlreadyRegistered") ELSE
  Ok([st EXCEPT !.avs[p.a] = [cur EXCEPT !.taddr   = IF p.t # "" THEN p.t ELSE @,
                                         !.unbond  = IF p.unbond > 0 THEN p.unbond ELSE @,
                                         !.minself = p.minself,
                                         !.eid     = IF p.eid # "" THEN p.eid ELSE @,
                                         !.start   = st.epoch[eid] + 1]])

(***************************************************************************)
(* keeper.go: OperatorOptAction -> x/operator opt.go: OptIn / OptOut        *)
(***************************************************************************)
OptIn(st, p) ==
  IF p.o \notin REGOPS                 THEN Fail(st, "ErrOperatorNotExist") ELSE
  IF ~st.avs[p.a].ex                   THEN Fail(st, "ErrNoSuchAvs") ELSE
  IF st.opt[<<p.o, p.a>>] = "in"       THEN Fail(st, "ErrAlreadyOptedIn") ELSE
  \* GetOrCalculateOperatorUSDValues (not opted in): value computed from the operator's assets
  IF NLt(VAL[p.o], MinSelfDec(st.avs[p.a])) THEN Fail(st, "ErrMinDelegationNotMet") ELSE
  IF st.usd[<<p.a, p.o>>].ex           THEN Fail(st, "ErrKeyAlreadyExist") ELSE
  Ok([st EXCEPT !.usd[<<p.a, p.o>>] = [ex |-> TRUE, self |-> N0, total |-> N0, active |-> N0],
                !.opt[<<p.o, p.a>>] = "in"])

OptOut(st, p) ==
  IF p.o \notin REGOPS                 THEN Fail(st, "ErrOperatorNotExist") ELSE
  IF ~st.avs[p.a].ex                   THEN Fail(st, "ErrNoSuchAvs") ELSE
  IF st.opt[<<p.o, p.a>>] # "in"       THEN Fail(st, "ErrNotOptedIn") ELSE
  Ok([st EXCEPT !.usd[<<p.a, p.o>>] = NoUsd, !.opt[<<p.o, p.a>>] = "out"])

(***************************************************************************)
(* keeper.go: RegisterBLSPublicKey                                         *)
(***************************************************************************)
RegisterBLS(st, p) ==
  IF p.cls = "junksig" THEN Fail(st, "ErrSigNotMatchPubKey") ELSE   \* SignatureFromBytes fails
  IF p.cls = "badpk"   THEN Fail(st, "PANIC") ELSE                   \* nil public key reaches Signature.Verify
  IF p.cls = "badsig"  THEN Fail(st, "ErrSigNotMatchPubKey") ELSE
  IF st.bls[p.o]       THEN Fail(st, "ErrAlreadyExists") ELSE
  Ok([st EXCEPT !.bls[p.o] = TRUE])

(***************************************************************************)
(* keeper.go: CreateAVSTask; task.go: GetTaskID                             *)
(***************************************************************************)
\* x/operator GetOptedInOperatorListByAVS: every operator that has an opted-info RECORD for the
\* AVS (the record survives an opt-out), in key order
OptRecordList(st, a) == SelectSeq(OORD, LAMBDA o : st.opt[<<o, a>>] # "none")

CreateTask(st, p) ==
  LET a == AvsByTask(st, p.t) IN
  IF a = ""                                      THEN Fail(st, "ErrUnregisterNonExistent") ELSE
  IF p.caller \notin Range(st.avs[a].owners)     THEN Fail(st, "ErrCallerAddressUnauthorized") ELSE
  IF ~st.avsusd[a].ex \/ ~NIsPos(st.avsusd[a].v) THEN Fail(st, "ErrVotingPowerIncorrect") ELSE
  IF ~EpochKnown(st, st.avs[a].eid)              THEN Fail(st, "ErrEpochNotFound") ELSE
  LET id == st.tnum[p.t] + 1
      task == [start |-> st.epoch[st.avs[a].eid] + 1, resp |-> p.resp, stat |-> p.stat, chal |-> p.chal,
               optin |-> OptRecordList(st, a), signed |-> <<>>, nosigned |-> <<>>, powers |-> <<>>, total |-> N0, actual |-> N0]
  IN Ok([st EXCEPT !.tnum[p.t] = id, !.tasks = Put(@, <<p.t, id>>, task)])

(***************************************************************************)
(* task.go: SetTaskResultInfo (through msg_server.go: SubmitTaskResult)     *)
(***************************************************************************)
StoredSig(sig) == IF sig = "empty" THEN "nil" ELSE sig    \* zero-length bytes are not written by protobuf
\* blst.VerifySignature(sig, keccak(resp), own registered key of the operator)
Verifies(sig, resp) == (sig = "g1" /\ resp = "r1") \/ (sig = "g2" /\ resp = "rw") \/ (sig = "g3" /\ resp = "r2")
RespHasTaskId(resp) == resp \in {"r1", "r2"}

Submit(st, p) ==
  LET tk == <<p.t, p.id>>
      rk == <<p.o, p.t, p.id>>
      cur == CurOf(st, p.t)
  IN
  IF p.from # p.o            THEN Fail(st, "ErrInvalidAddr") ELSE
  IF p.o \notin REGOPS       THEN Fail(st, "ErrOperatorNotExist") ELSE
  IF ~st.bls[p.o]            THEN Fail(st, "ErrPubKeyIsNotExists") ELSE
  IF ~Has(st.tasks, tk)      THEN Fail(st, "ErrTaskIsNotExists") ELSE
  IF ~cur.ok                 THEN Fail(st, "ErrEpochNotFound") ELSE
  LET task == st.tasks[tk] IN
  CASE p.stage = "1" ->
        IF Has(st.res, rk)                                       THEN Fail(st, "ErrResAlreadyExists") ELSE
        IF p.sig = "nil"                                         THEN Fail(st, "ErrParamNotEmptyError_sig") ELSE
        IF p.sig = "empty" /\ "EmptySigPhase1" \notin DEVS       THEN Fail(st, "ErrParamNotEmptyError_sig") ELSE
        IF p.resp # "nil"                                        THEN Fail(st, "ErrParamNotEmptyError_resp") ELSE
        IF cur.n > task.start + task.resp                        THEN Fail(st, "ErrSubmitTooLateError") ELSE
        Ok([st EXCEPT !.res = Put(@, rk, [stage |-> "1", sig |-> StoredSig(p.sig), resp |-> "nil", rhash |-> "", ver |-> FALSE, idok |-> FALSE])])
    [] p.stage = "2" ->
        IF p.resp = "nil"                                        THEN Fail(st, "ErrNotNull") ELSE
        IF ~Has(st.res, rk)                                      THEN Fail(st, "ErrInconsistentParams_noPhase1") ELSE
        IF st.res[rk].sig # StoredSig(p.sig)                     THEN Fail(st, "ErrInconsistentParams_sig") ELSE
        IF cur.n <= task.start + task.resp                       THEN Fail(st, "ErrSubmitTooSoonError") ELSE
        IF cur.n > task.start + task.resp + task.stat            THEN Fail(st, "ErrSubmitTooLateError") ELSE
        IF ~RespHasTaskId(p.resp)                                THEN Fail(st, "ErrInconsistentParams_taskId") ELSE
        IF ~Verifies(p.sig, p.resp)                              THEN Fail(st, "ErrSigVerifyError") ELSE
        \* the whole record is overwritten by the submitted one (also when a phase-two record is already stored)
        Ok([st EXCEPT !.res = Put(@, rk, [stage |-> "2", sig |-> StoredSig(p.sig), resp |-> p.resp, rhash |-> "h",
                                          ver |-> Verifies(StoredSig(p.sig), p.resp), idok |-> RespHasTaskId(p.resp)])])
    [] OTHER -> Fail(st, "ErrParamError")

(***************************************************************************)
(* keeper.go: RaiseAndResolveChallenge                                     *)
(***************************************************************************)
Challenge(st, p) ==
  LET tk == <<p.t, p.id>>
      rk == <<p.o, p.t, p.id>>
      cur == CurOf(st, p.t)
  IN
  IF ~Has(st.tasks, tk)                 THEN Fail(st, "ErrTaskNotExist") ELSE
  IF p.thash # "good" THEN (IF "ChallengeWrapNil" \in DEVS THEN Ok(st) ELSE Fail(st, "ErrHashMismatch")) ELSE
  IF ~Has(st.res, rk)                   THEN Fail(st, "ErrResultNotExist") ELSE
  IF st.res[rk].resp = "nil"            THEN Fail(st, "ErrUnmarshal") ELSE
  IF p.rhash # "good"                   THEN Fail(st, "ErrInconsistentParams") ELSE
  IF rk \in st.chal                     THEN Fail(st, "ErrAlreadyExists") ELSE
  IF ~cur.ok                            THEN Fail(st, "ErrEpochNotFound") ELSE
  LET task == st.tasks[tk] IN
  IF cur.n <= task.start + task.resp + task.stat             THEN Fail(st, "ErrSubmitTooSoonError") ELSE
  IF cur.n > task.start + task.resp + task.stat + task.chal  THEN Fail(st, "ErrSubmitTooLateError") ELSE
  Ok([st EXCEPT !.chal = @ \cup {rk}])

(***************************************************************************)
(* BeginBlock in which epoch N of TICKID ends.  Hook order (app.go):        *)
(* ... operator (UpdateVotingPower of every AVS of the identifier that has  *)
(* started) ... avs (task statistics); then the epoch number is advanced.   *)
(***************************************************************************)
\* x/operator abci.go: UpdateVotingPower for one AVS
UpdateVotingPower(st, a) ==
  LET av == st.avs[a]
      newUsd(o) == IF ~st.usd[<<a, o>>].ex THEN st.usd[<<a, o>>]
                   ELSE [ex |-> TRUE, self |-> VAL[o], total |-> VALT[o],
                         active |-> IF NGe(VAL[o], MinSelfDec(av)) THEN VALT[o] ELSE N0]
      act == {o \in OPS : st.usd[<<a, o>>].ex /\ NGe(VAL[o], MinSelfDec(av))}
  IN [st EXCEPT !.usd = [k \in DOMAIN @ |-> IF k[1] = a THEN newUsd(k[2]) ELSE @[k]],
                !.avsusd[a] = [ex |-> TRUE, v |-> SumF(act, LAMBDA o : VALT[o])]]

\* avs.go: GetEpochEndAVSs
EpochEndAVSs(st, n) == SelectSeq(AORD, LAMBDA a : st.avs[a].ex /\ st.avs[a].eid = TICKID /\ n >= st.avs[a].start - 1)

\* avs.go: GetTaskStatisticalEpochEndAVSs + task.go: GroupTasksByIDAndAddress: the task keys with
\* at least one stored result whose statistical period ends with epoch n
DueGroups(st, n) ==
  {tk \in DOMAIN st.tasks :
      /\ \E o \in OPS : Has(st.res, <<o, tk[1], tk[2]>>)
      /\ LET a == AvsByTask(st, tk[1]) IN a # "" /\ st.avs[a].eid = TICKID
      /\ n = st.tasks[tk].start + st.tasks[tk].resp + st.tasks[tk].stat}

\* impl_epoch_hook.go: AfterEpochEnd, one group.  Returns [task, panic]
StatsOfGroup(st, tk) ==
  LET a       == AvsByTask(st, tk[1])
      task    == st.tasks[tk]
      withRes == {o \in OPS : Has(st.res, <<o, tk[1], tk[2]>>)}
      signers == {o \in withRes : st.res[<<o, tk[1], tk[2]>>].sig # "nil"}
      signed  == OpsSeq(signers)
      power(o) == IF st.opt[<<o, a>>] = "in" THEN st.usd[<<a, o>>].active ELSE N0
      optin   == Range(task.optin)
      nos     == IF "SymDiff" \in DEVS THEN (optin \ signers) \cup (signers \ optin) ELSE optin \ signers
      sumP    == SumF(signers, power)
      total   == st.avsusd[a].v
      actual  == IF ~NIsZero(total) /\ ~NIsZero(sumP)
                 THEN NRem(DecMul(DecQuo(total, sumP, PREC), DecFromInt(100, PREC), PREC), U64)
                 ELSE task.actual
  IN
  \* no signer: GetTaskInfo("0", "") fails. Tree with the commented-out `continue`s (deviation EmptySigPhase1, L10):
  \* the nil taskInfo is dereferenced; with the `continue`s restored the group is skipped (task left as it is).
  \* Likewise for a missing AVS USD value (nil LegacyDec).
  IF signers = {} \/ ~st.avsusd[a].ex THEN [panic |-> "EmptySigPhase1" \in DEVS, task |-> task]
  ELSE [panic |-> FALSE,
        task |-> [task EXCEPT !.signed = signed, !.nosigned = OpsSeq(nos),
                              !.powers = [i \in 1..Len(signed) |-> [o |-> signed[i], p |-> power(signed[i])]],
                              !.total = total, !.actual = actual]]

Tick(st) ==
  LET n   == st.epoch[TICKID]
      s1  == FoldLeft(LAMBDA acc, a : UpdateVotingPower(acc, a), st, EpochEndAVSs(st, n))
      due == DueGroups(s1, n)
      rs  == [tk \in due |-> StatsOfGroup(s1, tk)]
  IN
  IF \E tk \in due : rs[tk].panic
  THEN Fail([st EXCEPT !.halted = TRUE], "PANIC")   \* BeginBlock panics: block not committed, node stops
  ELSE Ok([s1 EXCEPT !.tasks = [tk \in DOMAIN @ |-> IF tk \in due THEN rs[tk].task ELSE @[tk]],
                     !.epoch[TICKID] = n + 1])

Apply(st, ev, a) ==
  CASE ev = "RegisterAVS"   -> RegisterAVS(st, a)
    [] ev = "UpdateAVS"     -> UpdateAVS(st, a)
    [] ev = "DeregisterAVS" -> DeregisterAVS(st, a)
    [] ev = "OptIn"         -> OptIn(st, a)
    [] ev = "OptOut"        -> OptOut(st, a)
    [] ev = "RegisterBLS"   -> RegisterBLS(st, a)
    [] ev = "CreateTask"    -> CreateTask(st, a)
    [] ev = "Submit"        -> Submit(st, a)
    [] ev = "Challenge"     -> Challenge(st, a)
    [] ev = "Tick"          -> Tick(st)

(***************************************************************************)
(* Property C20, as predicates over what was OBSERVED: a pre-state, the     *)
(* event with its arguments, the reported result, the post-state.  Each     *)
(* failed clause yields a tag.  "accepted" = the call reported success.     *)
(* Nothing below refers to Apply.                                           *)
(***************************************************************************)
T(holds, tag) == IF holds THEN {} ELSE {tag}

\* --- state clauses -------------------------------------------------------
StateTags(st) ==
  \* a task-contract address is registered to at most one AVS
  T(\A a, b \in AVSS : (a # b /\ st.avs[a].ex /\ st.avs[b].ex /\ st.avs[a].taddr # "") => st.avs[a].taddr # st.avs[b].taddr,
    "C20_UniqueTaskAddr") \cup
  \* task identifiers per task contract: 1..counter, no gaps above the counter
  T(\A tk \in DOMAIN st.tasks : tk[2] >= 1 /\ tk[2] <= st.tnum[tk[1]], "C20_TaskIdRange") \cup
  \* a stored phase-two result is, at ALL times (not only when the first reveal was accepted), covered by a BLS
  \* signature that verifies over the stored response under the operator's registered key, and its response
  \* carries the task id
  T(\A rk \in DOMAIN st.res : st.res[rk].stage = "2" => st.res[rk].ver, "C20_StoredResultNotVerified") \cup
  T(\A rk \in DOMAIN st.res : st.res[rk].stage = "2" => st.res[rk].idok, "C20_StoredResultWrongTaskId")

\* --- registry / opt-in ---------------------------------------------------
RegistryTags(pre, post, ev, a, ok) ==
  (IF ev = "RegisterAVS" /\ ok THEN
      T(~pre.avs[a.a].ex, "C20_RegisterTwice") \cup
      T(a.t = "" \/ AvsByTask(pre, a.t) = "", "C20_TaskAddrTaken")
   ELSE {}) \cup
  (IF ev = "UpdateAVS" /\ ok /\ a.t # "" THEN
      T(AvsByTask(pre, a.t) \in {"", a.a}, "C20_TaskAddrTaken")
   ELSE {}) \cup
  (IF ev = "OptIn" /\ ok THEN
      T(pre.avs[a.a].ex, "C20_OptInUnregisteredAvs") \cup
      T(a.o \in REGOPS, "C20_OptInUnregisteredOperator") \cup
      T(~pre.avs[a.a].ex \/ NGe(VAL[a.o], MinSelfDec(pre.avs[a.a])), "C20_OptInBelowMin") \cup
      T(post.opt[<<a.o, a.a>>] = "in", "C20_OptInNoEffect")
   ELSE {}) \cup
  \* an operator becomes opted in only through an accepted OptIn of that (operator, AVS) pair
  T(\A k \in DOMAIN pre.opt : (post.opt[k] = "in" /\ pre.opt[k] # "in") => (ev = "OptIn" /\ ok /\ k = <<a.o, a.a>>),
    "C20_OptSetChanged")

\* --- task identifiers ----------------------------------------------------
TaskTags(pre, post, ev, a, ok) ==
  LET newT == DOMAIN post.tasks \ DOMAIN pre.tasks IN
  \* an accepted CreateTask creates exactly one task of that contract; its id is greater than every id
  \* handed out before (pre.tnum = the latest one) and is 1 for the first task
  (IF ev = "CreateTask" /\ ok THEN
      T(/\ Cardinality(newT) = 1
        /\ \A tk \in newT : tk[1] = a.t /\ tk[2] > pre.tnum[a.t] /\ (pre.tnum[a.t] = 0 => tk[2] = 1) /\ tk[2] <= post.tnum[a.t],
        "C20_TaskIdNotNext")
   ELSE T(newT = {}, "C20_TaskIdNotNext")) \cup
  \* the latest-id counter never goes back (ids would repeat)
  T(\A t \in TADDRS : post.tnum[t] >= pre.tnum[t], "C20_TaskCounterChanged") \cup
  \* a stored task is never overwritten or dropped (an id names one task, its windows are fixed)
  T(\A tk \in DOMAIN pre.tasks :
        /\ tk \in DOMAIN post.tasks
        /\ post.tasks[tk].start = pre.tasks[tk].start /\ post.tasks[tk].resp = pre.tasks[tk].resp
        /\ post.tasks[tk].stat = pre.tasks[tk].stat /\ post.tasks[tk].chal = pre.tasks[tk].chal,
    "C20_TaskChanged")

\* --- task results --------------------------------------------------------
InRange(lo, n, hi) == lo < n /\ n <= hi
\* ghosts carried along an observed behaviour: G.p1 = (operator, task) pairs whose phase-one submission was
\* accepted at some time, G.ch = pairs for which a challenge was accepted and recorded
ZeroG == [p1 |-> {}, ch |-> {}]
GhostStep(g, post, ev, a, ok) ==
  CASE ev = "Submit" /\ ok /\ a.stage = "1" -> [g EXCEPT !.p1 = @ \cup {<<a.o, a.t, a.id>>}]
    [] ev = "Challenge" /\ ok /\ <<a.o, a.t, a.id>> \in post.chal -> [g EXCEPT !.ch = @ \cup {<<a.o, a.t, a.id>>}]
    [] OTHER -> g

ResultTags(pre, post, g, ev, a, ok) ==
  (IF ev = "Submit" /\ ok THEN
      LET tk == <<a.t, a.id>>
          rk == <<a.o, a.t, a.id>>
          cur == CurOf(pre, a.t)
          known == Has(pre.tasks, tk) /\ cur.ok
          e1 == IF known THEN pre.tasks[tk].start + pre.tasks[tk].resp ELSE 0
          e2 == IF known THEN e1 + pre.tasks[tk].stat ELSE 0
      IN
      T(a.o \in REGOPS, "C20_ResultUnregisteredOperator") \cup
      T(a.from = a.o, "C20_ResultForeignSender") \cup
      T(pre.bls[a.o], "C20_ResultNoBlsKey") \cup
      T(Has(pre.tasks, tk), "C20_ResultNoTask") \cup
      T(~Has(pre.tasks, tk) \/ cur.ok, "C20_ResultNoEpoch") \cup
      T(a.stage \in {"1", "2"}, "C20_BadStage") \cup
      T(Has(post.res, rk) /\ post.res[rk].stage = a.stage, "C20_ResultNotStored") \cup
      (IF a.stage = "1" THEN
          T(~known \/ cur.n <= e1, "C20_P1Late") \cup
          T(~Has(pre.res, rk) /\ rk \notin g.p1, "C20_P1Twice")
       ELSE {}) \cup
      (IF a.stage = "2" THEN
          T(~known \/ InRange(e1, cur.n, e2), "C20_P2Window") \cup
          T(Has(pre.res, rk) /\ pre.res[rk].sig # "nil" /\ pre.res[rk].sig = a.sig, "C20_P2NoPhase1Sig") \cup
          T(RespHasTaskId(a.resp), "C20_P2WrongTaskId") \cup
          T(Verifies(a.sig, a.resp), "C20_P2BadSig")
       ELSE {})
   ELSE {}) \cup
  \* a stored result appears or changes only through an accepted submission of that (operator, task)
  T(\A rk \in DOMAIN post.res :
        (rk \in DOMAIN pre.res /\ post.res[rk] = pre.res[rk]) \/ (ev = "Submit" /\ ok /\ rk = <<a.o, a.t, a.id>>),
    "C20_ResultChanged")

\* --- challenges ----------------------------------------------------------
ChallengeTags(pre, post, g, ev, a, ok) ==
  (IF ev = "Challenge" /\ ok THEN
      LET tk == <<a.t, a.id>>
          rk == <<a.o, a.t, a.id>>
          cur == CurOf(pre, a.t)
          known == Has(pre.tasks, tk) /\ cur.ok
          e2 == IF known THEN pre.tasks[tk].start + pre.tasks[tk].resp + pre.tasks[tk].stat ELSE 0
      IN
      T(known /\ InRange(e2, cur.n, e2 + pre.tasks[tk].chal), "C20_ChallengeWindow") \cup
      T(rk \notin pre.chal /\ rk \notin g.ch, "C20_ChallengeTwice") \cup
      T(rk \in post.chal, "C20_ChallengeNoEffect")
   ELSE {}) \cup
  \* a challenge record appears only through an accepted challenge of that (operator, task)
  T(\A rk \in post.chal \ pre.chal : ev = "Challenge" /\ ok /\ rk = <<a.o, a.t, a.id>>, "C20_ChallengeChanged")

\* --- statistics ----------------------------------------------------------
StatsFields(task) == <<task.signed, task.nosigned, task.powers, task.total>>
IsSetSeq(s) == Cardinality(Range(s)) = Len(s)

\* the tasks whose statistical period ends with the epoch that ends in this Tick and that have at
\* least one accepted (= stored) result; accepted results are read from the pre-state, the powers
\* from the post-state (the voting-power update of the same epoch end precedes the statistics).
\* The non-signer and power clauses are evaluated for the tasks whose signer list is right (no
\* cascade of tags from one cause); a panic leaves no statistics at all.
ExpSigners(pre, tk) == {o \in OPS : Has(pre.res, <<o, tk[1], tk[2]>>)}
SignersRight(pre, post, tk) == IsSetSeq(post.tasks[tk].signed) /\ Range(post.tasks[tk].signed) = ExpSigners(pre, tk)
ExpNonSigners(pre, tk) == Range(pre.tasks[tk].optin) \ ExpSigners(pre, tk)

StatsTags(pre, post, ev, ok, panic) ==
  LET n   == pre.epoch[TICKID]
      due == IF ev = "Tick" THEN DueGroups(pre, n) ELSE {}
  IN
  (IF ev = "Tick" /\ due # {} THEN
      IF panic THEN {"C20_StatsPanic"} ELSE
      T(\A tk \in due : SignersRight(pre, post, tk), "C20_StatsSigners") \cup
      T(\A tk \in due : SignersRight(pre, post, tk) =>
           IsSetSeq(post.tasks[tk].nosigned) /\ Range(post.tasks[tk].nosigned) = ExpNonSigners(pre, tk),
        "C20_StatsNonSigners") \cup
      T(\A tk \in due : SignersRight(pre, post, tk) =>
           LET a   == AvsByTask(pre, tk[1])
               pw(o) == IF post.opt[<<o, a>>] = "in" THEN post.usd[<<a, o>>].active ELSE N0
           IN Range(post.tasks[tk].powers) = {[o |-> o, p |-> pw(o)] : o \in ExpSigners(pre, tk)} /\ IsSetSeq(post.tasks[tk].powers),
        "C20_StatsPower") \cup
      T(\A tk \in due : LET a == AvsByTask(pre, tk[1]) IN post.avsusd[a].ex /\ post.tasks[tk].total = post.avsusd[a].v,
        "C20_StatsTotal")
   ELSE {})

\* diagnostic detail attached to the tags of a Tick (used to recognise known findings exactly)
StatsDetail(pre, post) ==
  LET due == DueGroups(pre, pre.epoch[TICKID])
      K(tk, S) == {<<o, tk[1], tk[2]>> : o \in S}
      U(f(_)) == UNION {f(tk) : tk \in due}
      isNil(tk, o) == pre.res[<<o, tk[1], tk[2]>>].sig = "nil"
      live(tk) == tk \in DOMAIN post.tasks
  IN [ due       |-> due,
       allnil    |-> {tk \in due : \A o \in ExpSigners(pre, tk) : isNil(tk, o)},
       nilsig    |-> U(LAMBDA tk : K(tk, {o \in ExpSigners(pre, tk) : isNil(tk, o)})),
       outsiders |-> U(LAMBDA tk : K(tk, ExpSigners(pre, tk) \ Range(pre.tasks[tk].optin))),
       missing   |-> U(LAMBDA tk : IF live(tk) THEN K(tk, ExpSigners(pre, tk) \ Range(post.tasks[tk].signed)) ELSE {}),
       extra     |-> U(LAMBDA tk : IF live(tk) THEN K(tk, Range(post.tasks[tk].signed) \ ExpSigners(pre, tk)) ELSE {}),
       \* (non-signer clauses are evaluated for the tasks whose signer list is right)
       nosExtra  |-> U(LAMBDA tk : IF live(tk) /\ SignersRight(pre, post, tk) THEN K(tk, Range(post.tasks[tk].nosigned) \ ExpNonSigners(pre, tk)) ELSE {}),
       nosMissing |-> U(LAMBDA tk : IF live(tk) /\ SignersRight(pre, post, tk) THEN K(tk, ExpNonSigners(pre, tk) \ Range(post.tasks[tk].nosigned)) ELSE {}) ]

PropTags(pre, post, g, ev, a, ok, panic) ==
  StateTags(post) \cup RegistryTags(pre, post, ev, a, ok) \cup TaskTags(pre, post, ev, a, ok) \cup
  ResultTags(pre, post, g, ev, a, ok) \cup ChallengeTags(pre, post, g, ev, a, ok) \cup StatsTags(pre, post, ev, ok, panic)
=============================================================================
