SPECIFICATION PSpec
CONSTANTS
  SORD <- c_SORD
  OORD <- c_OORD
  AORD <- c_AORD
  KIND <- c_KIND
  DECI <- c_DECI
  PRICE <- c_PRICE
  PDEC <- c_PDEC
  REGISTERED = {"nst"}
  PREC = 100
  UNBOND = 1
  HOLDOPS = {}
  HOOKED = TRUE
  NSTA = "nst"
  MAXEFB = 32
  BMBYTES = 32
  BLCAP = 100
  DEVS = {}
  MODE = "ctx"
  IDX = {0, 1, 255}
  BYTESET = {0, 16, 24, 39, 56, 128, 255}
  MAXLEN = 2
  NS = {0, 1, 2}
INVARIANTS Agree EmitParse
CHECK_DEADLOCK FALSE
