---------------------------- MODULE Trace_NstFeed ----------------------------
(***************************************************************************)
(* Trace validation for the nstfeed family (C01 C09 C11, NST balance feed). *)
(* Input: trace.ndjson written by `harness nstfeed`.  Line kinds:           *)
(*   reset            header (constants) + initial projection              *)
(*   event lines      {ev, a, ok, panic, halt, st}: one per model event,    *)
(*                    executed on the real code (ctx mode: precompile /     *)
(*                    keeper entry points; abci mode: real blocks)          *)
(*   phase lines      {phase: TRUE, ev: BeginBlock|DeliverTx|EndBlock|      *)
(*                    Commit|end, panic}: abci mode, one per ABCI call      *)
(*   Parse lines      the real decoder on one payload (strict lane only)    *)
(* C..      property lane: the listed property on observed states           *)
(* STRICT_..  strict lane: observed step = NApply of spec/NstFeed.tla        *)
(***************************************************************************)
EXTENDS NstFeed, Json

Trace == ndJsonDeserialize("trace.ndjson")
Hdr   == Trace[1].cfg

t_SORD == Hdr.sord
t_OORD == Hdr.oord
t_AORD == Hdr.aord
t_KIND == Hdr.kind
t_REGISTERED == {Hdr.registered[i] : i \in DOMAIN Hdr.registered}
t_HOLDOPS == {Hdr.holdops[i] : i \in DOMAIN Hdr.holdops}
t_HOOKED == Hdr.hooked
t_DECI == Hdr.deci
t_PRICE == Hdr.price
t_PDEC == Hdr.pdec
t_UNBOND == Hdr.unbond
t_PREC == "1000000000000000000"
t_NSTA == Hdr.nsta
t_MAXEFB == Hdr.maxefb
t_BMBYTES == Hdr.bmbytes
t_BLCAP == Hdr.blcap
t_DEVS == {"FEEDSTOPS", "PRICEOVERFLOW"}     \* the deviations the pinned tree has

VARIABLES l, S, G, mode
vars == <<l, S, G, mode>>

Pick(SS) == CHOOSE x \in SS : TRUE
LFromLog(j) ==
  [ h      |-> j.h,
    total  |-> [a \in ASSETS |-> IF a \in DOMAIN j.total THEN j.total[a] ELSE N0],
    stk    |-> [k \in SKeys |->
                  LET R == {r \in Range(j.stk) : r.s = k[1] /\ r.a = k[2]} IN
                  IF R = {} THEN ZeroStk ELSE LET r == Pick(R) IN [ex |-> TRUE, dep |-> r.dep, wd |-> r.wd, pend |-> r.pend]],
    pool   |-> [k \in PKeys |->
                  LET R == {r \in Range(j.pool) : r.o = k[1] /\ r.a = k[2]} IN
                  IF R = {} THEN ZeroPool ELSE LET r == Pick(R) IN [ex |-> TRUE, amt |-> r.amt, pend |-> r.pend, tsh |-> r.tsh, osh |-> r.osh]],
    del    |-> [k \in DKeys |->
                  LET R == {r \in Range(j.del) : r.s = k[1] /\ r.a = k[2] /\ r.o = k[3]} IN
                  IF R = {} THEN ZeroDel ELSE LET r == Pick(R) IN [ex |-> TRUE, sh |-> r.sh, wait |-> r.wait]],
    slist  |-> [k \in PKeys |->
                  LET R == {r \in Range(j.slist) : r.o = k[1] /\ r.a = k[2]} IN
                  IF R = {} THEN [ex |-> FALSE, seq |-> <<>>] ELSE [ex |-> TRUE, seq |-> Pick(R).seq]],
    assoc  |-> [s \in STAKERS |->
                  LET R == {r \in Range(j.assoc) : r.s = s} IN IF R = {} THEN "" ELSE Pick(R).o],
    recs   |-> [k \in {<<r.o, r.start, r.nonce, r.txh>> : r \in Range(j.recs)} |->
                  LET r == Pick({x \in Range(j.recs) : <<x.o, x.start, x.nonce, x.txh>> = k}) IN
                  [s |-> r.s, a |-> r.a, o |-> r.o, start |-> r.start, nonce |-> r.nonce, txh |-> r.txh,
                   complete |-> r.complete, amt |-> r.amt, actual |-> r.actual]],
    idxS   |-> [k \in {<<r.s, r.a, r.nonce>> : r \in Range(j.idxS)} |->
                  Pick({x \in Range(j.idxS) : <<x.s, x.a, x.nonce>> = k}).k],
    idxP   |-> [k \in {<<r.complete, r.nonce>> : r \in Range(j.idxP)} |->
                  Pick({x \in Range(j.idxP) : <<x.complete, x.nonce>> = k}).k],
    hold   |-> [k \in {r.k : r \in {x \in Range(j.hold) : x.n > 0}} |-> Pick({x \in Range(j.hold) : x.k = k}).n],
    sinfo  |-> {<<r.o, r.id>> : r \in Range(j.sinfo)},
    bal    |-> [s \in STAKERS |-> IF s \in DOMAIN j.bal THEN j.bal[s] ELSE N0],
    escrow |-> j.escrow ]


NormHold(st) == [st EXCEPT !.hold = [k \in {x \in DOMAIN st.hold : st.hold[x] > 0} |-> st.hold[k]]]

OFromLog(j, gh) ==
  [ list |-> j.list,
    info |-> [s \in STAKERS |->
                LET R == {r \in Range(j.info) : r.s = s} IN
                IF R = {} THEN NoInfo ELSE LET r == Pick(R) IN
                [ex |-> TRUE, vals |-> r.vals, bal |-> r.bal, idx |-> r.idx, rid |-> r.rid, chg |-> r.chg, nbl |-> r.nbl, sidx |-> r.sidx]],
    p |-> j.p, next |-> j.next, skew |-> gh.skew, lstp |-> gh.lstp ]

\* skew and lstp are ghosts carried by the model (process memory / another token)
FromLog(j, gh) == [L |-> LFromLog(j.L), O |-> OFromLog(j.O, gh)]

InitG(st) ==
  [ZeroG EXCEPT !.cumDep = [a \in ASSETS |-> st.total[a]],
                !.cumSlash = [a \in ASSETS |-> IF KIND[a] = "nat" THEN N0 ELSE NSub(st.total[a], HeldBy(st, a))]]

T(holds, tag) == IF holds THEN {} ELSE {tag}

\* the model of the mode of this behaviour (MODE is a constant of NstFeed: two instances)
Ctx  == INSTANCE NstFeed WITH MODE <- "ctx"
Abci == INSTANCE NstFeed WITH MODE <- "abci"
ApplyM(m, st, ev, a) == IF m = "abci" THEN Abci!NApply(st, ev, a) ELSE Ctx!NApply(st, ev, a)

\* the payload and round id a feed-like event applies
EffRaw(m, pre, ev, a) ==
  IF ev = "Feed" THEN a.raw
  ELSE IF ev = "Carry" \/ (ev = "Price" /\ m = "abci" /\ pre.O.skew > 0) THEN (IF pre.O.next > 1 THEN pre.O.p ELSE <<>>)
  ELSE a.raw
EffRid(pre, ev, a) == IF ev = "Feed" THEN a.rid ELSE pre.O.next

SameButHeight(pre, post) == Unchanged([pre EXCEPT !.L.h = post.L.h], post)

PropTags(m, pre, post, g2, ev, a, ok) ==
  T(NEq(HeldBy(post.L, NSTA), Expected(g2, NSTA)), "C01_Conservation") \cup
  T(NEq(post.L.total[NSTA], NSub(g2.cumDep[NSTA], g2.cumWd[NSTA])), "C01_Published") \cup
  T(NonNegative(post.L), "C01_NonNegative") \cup
  T(OnlyBookedCreate(pre, post, ev, a, ok), "C01_OnlyDepositsCreate") \cup
  T(DecreaseWithinBooked(pre, post, ev), "C01_NstDecreaseExceedsBooked") \cup
  T(ok \/ ev = "EndBlock" \/ SameButHeight(pre, post), "C09_FailedButChanged") \cup
  (IF ev \in FeedLike THEN T(~StoppedOthers(pre, post, EffRaw(m, pre, ev, a), EffRid(pre, ev, a)), "C09_NstItemStopsOthers") ELSE {})

StrictTags(m, pre, post, ev, a, ok, panic) ==
  LET r == ApplyM(m, pre, ev, a)
      exp == [r.st EXCEPT !.L = NormHold([@ EXCEPT !.h = post.L.h])] IN
  T(exp = post, "STRICT_state_" \o ev) \cup
  T((r.err = "") = ok, "STRICT_result_" \o ev) \cup
  T((r.err = "PANIC") = panic, "STRICT_panic_" \o ev)

BlockPhases == {"BeginBlock", "EndBlock", "Commit", "DeliverTx"}

Init ==
  /\ l = 1
  /\ S = EmptyState
  /\ G = ZeroG
  /\ mode = "ctx"

Emit(ln, ev, tags) == tags = {} \/ PrintT("TAG " \o ToJson([l |-> ln, ev |-> ev, tags |-> tags]))

Next ==
  /\ l <= Len(Trace)
  /\ l' = l + 1
  /\ LET line == Trace[l] IN
     IF line.ev = "reset" THEN
       LET st == FromLog(line.st, [skew |-> 0, lstp |-> ""]) IN
       /\ S' = st /\ G' = InitG(st.L) /\ mode' = line.cfg.mode
     ELSE IF "phase" \in DOMAIN line THEN
       \* a panic that is not recovered by baseapp stops a real node (DeliverTx lines are the driver's recover()
       \* AROUND app.DeliverTx: baseapp's own recovery happens inside and shows as a rejected tx, not here)
       /\ UNCHANGED <<S, G, mode>>
       /\ Emit(l, line.ev, IF line.ev \in BlockPhases /\ line.panic THEN {"C11_Halt_" \o line.ev} ELSE {})
     ELSE IF line.ev = "Parse" THEN
       \* the decoder of the tree under test (DEVS): ok / returned error / panic, and the decoded map
       LET r == Parse(line.a.raw, line.a.n)
           cls == IF r.err \in {"", "PANIC"} THEN r.err ELSE "ERR"
           obs == [i \in {e.i : e \in Range(line.res.map)} |-> Pick({e \in Range(line.res.map) : e.i = i}).v] IN
       /\ UNCHANGED <<S, G, mode>>
       /\ Emit(l, "Parse", T(cls = line.res.err /\ (r.err = "" => r.map = obs), "STRICT_parse") \cup
                           T(ParseAgree(line.a.raw, line.a.n), "STRICT_parse_spec"))
     ELSE IF "st" \notin DOMAIN line THEN
       \* the event halted the chain (the C11 tag is on the phase line): did the model expect a panic here?
       /\ UNCHANGED <<S, G, mode>>
       /\ Emit(l, line.ev, T(ApplyM(mode, S, line.ev, line.a).err = "PANIC", "STRICT_halt_" \o line.ev))
     ELSE
       LET r    == ApplyM(mode, S, line.ev, line.a)
           post == FromLog(line.st, r.st.O)
           g2   == NGhost(G, line.ev, line.a, line.ok, S, post)
           tags == PropTags(mode, S, post, g2, line.ev, line.a, line.ok) \cup
                   StrictTags(mode, S, post, line.ev, line.a, line.ok, line.panic)
       IN /\ S' = post /\ G' = g2 /\ mode' = mode
          /\ Emit(l, line.ev, tags)

Spec == Init /\ [][Next]_vars
=============================================================================
