SPECIFICATION Spec
CONSTANTS
  IDORD <- g_IDORD
  TPL <- g_TPL
  GT <- c_GT
  STEPS = {1, 2, 3, 5, 11}
  MAXBLOCKS = 14
INVARIANTS EmitAtDepth
CHECK_DEADLOCK FALSE
