import java.math.BigInteger;
import tlc2.value.impl.BoolValue;
import tlc2.value.impl.IntValue;
import tlc2.value.impl.StringValue;
import tlc2.value.impl.Value;

// Module override for Num.tla: the same operators on arbitrary-size integers.
// Inputs: IntValue or StringValue holding a decimal integer. Outputs are canonical decimal
// StringValues. Arithmetic only.
public class Num {
  private static final BigInteger IMAX = BigInteger.valueOf(Integer.MAX_VALUE);
  private static final BigInteger IMIN = BigInteger.valueOf(-Integer.MAX_VALUE);

  private static BigInteger big(Value v) {
    if (v instanceof IntValue) return BigInteger.valueOf(((IntValue) v).val);
    if (v instanceof StringValue) return new BigInteger(((StringValue) v).val.toString());
    throw new RuntimeException("Num: not a number: " + v);
  }
  // canonical form under the override: ALWAYS a decimal string (TLC refuses to compare a string
  // with an integer, so one representation must be used for every amount in a trace run)
  private static Value can(BigInteger b) {
    return new StringValue(b.toString());
  }
  private static Value bool(boolean b) { return b ? BoolValue.ValTrue : BoolValue.ValFalse; }

  public static Value NC(Value a) { return can(big(a)); }
  public static Value NAbs(Value a) { return can(big(a).abs()); }
  public static Value NAdd(Value a, Value b) { return can(big(a).add(big(b))); }
  public static Value NSub(Value a, Value b) { return can(big(a).subtract(big(b))); }
  public static Value NMul(Value a, Value b) { return can(big(a).multiply(big(b))); }
  public static Value NNeg(Value a) { return can(big(a).negate()); }
  public static Value NQuo(Value a, Value b) { return can(big(a).divide(big(b))); }   // truncates toward zero, as big.Int.Quo
  public static Value NRem(Value a, Value b) { return can(big(a).remainder(big(b))); }
  public static Value NLt(Value a, Value b) { return bool(big(a).compareTo(big(b)) < 0); }
  public static Value NLe(Value a, Value b) { return bool(big(a).compareTo(big(b)) <= 0); }
  public static Value NGt(Value a, Value b) { return bool(big(a).compareTo(big(b)) > 0); }
  public static Value NGe(Value a, Value b) { return bool(big(a).compareTo(big(b)) >= 0); }
  public static Value NEq(Value a, Value b) { return bool(big(a).compareTo(big(b)) == 0); }
  public static Value NIsZero(Value a) { return bool(big(a).signum() == 0); }
  public static Value NIsPos(Value a) { return bool(big(a).signum() > 0); }
  public static Value NIsNeg(Value a) { return bool(big(a).signum() < 0); }
  public static Value NMin(Value a, Value b) { return can(big(a).min(big(b))); }
  public static Value NMax(Value a, Value b) { return can(big(a).max(big(b))); }
  public static Value NIsOdd(Value a) { return bool(big(a).testBit(0)); }
  public static Value NPow10(Value n) { return can(BigInteger.TEN.pow(big(n).intValueExact())); }
  public static Value NBitLen(Value a) { return IntValue.gen(big(a).abs().bitLength()); }
}
