SPECIFICATION Spec
CONSTANTS
  KEYBYSENT = FALSE
  OORD <- c_OORD
  AORD <- c_AORD
  AVSORD <- c_AVSORD
  EIDS <- c_EIDS
  DUR <- c_DUR
  DECI <- c_DECI
  LISTS <- c_LISTS
  PREC = 100
  AMTS = {0, 1, 3}
  PRS = {1, 3}
  PDS = {0, 1}
  MINS = {0, 1, 5}
  FRACS = {0, 1, 4}
  TSH = 4
  UNIT = 100
INVARIANTS LemStatement LemNonNeg LemMonoAmount LemMonoPrice
CHECK_DEADLOCK FALSE
