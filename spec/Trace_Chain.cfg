SPECIFICATION Spec
CONSTANTS
  OPS <- t_OPS
  KEYSEQ <- t_KEYSEQ
  GENVALS <- t_GENVALS
  UNB <- t_UNB
  UNBH <- t_UNBH
  DEVIATIONS <- t_DEV
POSTCONDITION Consumed
CHECK_DEADLOCK FALSE
