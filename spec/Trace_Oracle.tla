---------------------------- MODULE Trace_Oracle ----------------------------
(***************************************************************************)
(* Trace validation for the oracle family (C12, C14).                       *)
(*                                                                         *)
(* Input: trace.ndjson written by `harness oracle` (in-process twin runs)   *)
(* or assembled by tools/fam_oracle.py from `harness oracle-node` lives     *)
(* (one OS process per node life).  One line per event executed on the REAL *)
(* application: event, arguments, DeliverTx result, the projection `st` of  *)
(* the oracle's persisted and process-local state after the event, and      *)
(* `cst` / `cok`: the same observation made on the CONTINUOUS twin (same    *)
(* inputs, never restarted) at the same point.                              *)
(*                                                                         *)
(*   C12_.. / C14_..  property lane: the property evaluated on what the     *)
(*                    real code did (ghosts carried here)                   *)
(*   STRICT_..        strict lane: observed step # Apply(pre, ev, a) of     *)
(*                    spec/Oracle.tla with the FIX set of the current tree (drift, no verdict)*)
(***************************************************************************)
EXTENDS Oracle, Json

Trace == ndJsonDeserialize("trace.ndjson")

t_FORD == <<"f1", "f2", "f3">>

VARIABLES l, L, G, R
\* l: next line; L: observed state; G: submissions ghost; R: restart / failed-tx ghosts
vars == <<l, L, G, R>>

Rng(s) == {s[i] : i \in DOMAIN s}
One(S) == CHOOSE x \in S : TRUE

MsgsOf(m) == [i \in DOMAIN m |-> [f |-> m[i].f, v |-> m[i].v, ps |-> [k \in DOMAIN m[i].ps |-> [d |-> m[i].ps[k].d, p |-> m[i].ps[k].p]]]]

WorkerOf(x) ==
  [ sealed |-> x.sealed, price |-> x.price, live |-> x.live,
    fN |-> [v \in {y.v : y \in Rng(x.fN)} |-> One({y \in Rng(x.fN) : y.v = v}).s],
    fS |-> [v \in {y.v : y \in Rng(x.fS)} |-> One({y \in Rng(x.fS) : y.v = v}).s],
    calc |-> [i \in DOMAIN x.calc |-> [d |-> x.calc[i].d, pp |-> [k \in DOMAIN x.calc[i].pp |-> [p |-> x.calc[i].pp[k].p, w |-> x.calc[i].pp[k].w]], conf |-> x.calc[i].conf]],
    reports |-> [i \in DOMAIN x.reports |-> [v |-> x.reports[i].v, price |-> x.reports[i].price, has |-> x.reports[i].has, sp |-> x.reports[i].sp, sd |-> x.reports[i].sd]],
    rpower |-> x.rpower, ds |-> x.ds, final |-> x.final ]

FromLog(j, c) ==
  [ h |-> j.h, c |-> [c EXCEPT !.fd = j.afd], pw |-> j.powers, cv |-> j.cv, dv |-> j.dv, kfd |-> j.kfd, cfd |-> j.cfd,
    prices |-> [t \in TOKENS |->
                  LET P == {x \in Rng(j.prices) : x.t = t} IN
                  IF P = {} THEN [next |-> 1, list |-> <<>>]
                  ELSE LET x == One(P) IN [next |-> x.next, list |-> [i \in DOMAIN x.list |-> [r |-> x.list[i].r, p |-> x.list[i].p]]]],
    nonce |-> [k \in {<<x.v, x.f>> : x \in Rng(j.nonce)} |-> One({x \in Rng(j.nonce) : x.v = k[1] /\ x.f = k[2]}).n],
    rmsgs |-> [b \in {x.b : x \in Rng(j.rmsgs)} |-> MsgsOf(One({x \in Rng(j.rmsgs) : x.b = b}).msgs)],
    rmIdx |-> j.rmIdx, rparams |-> [b \in {x.b : x \in Rng(j.rparams)} |-> One({x \in Rng(j.rparams) : x.b = b}).fd], rpIdx |-> j.rpIdx, vub |-> j.vub,
    rounds |-> [f \in {x.f : x \in Rng(j.rounds)} |-> LET x == One({y \in Rng(j.rounds) : y.f = f}) IN [base |-> x.base, next |-> x.next, status |-> x.status]],
    aggs |-> [f \in {x.f : x \in Rng(j.aggs)} |-> WorkerOf(One({y \in Rng(j.aggs) : y.f = f}))],
    cmsgs |-> MsgsOf(j.cmsgs), cvu |-> j.cvu, cpu |-> j.cpu, upd |-> j.upd ]

\* things the model leaves out but the dump shows: if one of them is not as assumed the model does
\* not apply (strict lane): more than one price source, validator set differs from the configuration
Assumed(j, c) ==
  /\ ~j.agcNil
  /\ \A x \in Rng(j.aggs) : x.nsrc <= 1 /\ \A r \in Rng(x.reports) : r.nsrc <= 1

T(holds, tag) == IF holds THEN {} ELSE {tag}

(***************************************************************************)
(* property lane C12                                                        *)
(***************************************************************************)
Behind(c, post, hh) == {f \in FEEDERS : FeederLive(c, f, hh) /\ post.prices[TokOf(c, f)].next < NextLow(c, f, hh)}
Ahead(c, post, hh)  == {f \in FEEDERS : FeederLive(c, f, hh) /\ post.prices[TokOf(c, f)].next > NextHigh(c, f, hh)}

NewEntries(pre, post, t) == {x \in Rng(post.prices[t].list) : x.r >= pre.prices[t].next}
FeedersOfTok(c, t) == {f \in FEEDERS : c.fd[f].tok = t}
PresentF(c) == {f \in FEEDERS : Present(c.fd, f)}

C12State(post) ==
  T(\A t \in TOKENS : Consecutive(post.prices[t]), "C12_NotConsecutive") \cup
  T(\A t \in TOKENS : Retention(post.prices[t], post.c), "C12_Retention")

\* a tx recorded a price: some message of the tx is for a feeder of that token, the tx was accepted,
\* the accepted reports of that round (including this tx) carry a super-majority, and the recorded
\* value is a value a super-majority agreed on for one source round
C12Tx(pre, post, msgs, ok, subs) ==
  LET c == [pre.c EXCEPT !.pw = pre.dv]   \* the voting power that counts is x/dogfood's validator set, not the aggregator's belief
      rec == UNION {{[t |-> t, e |-> e] : e \in NewEntries(pre, post, t)} : t \in TOKENS}
      fOf(t) == {f \in FeedersOfTok(c, t) : \E i \in DOMAIN msgs : msgs[i].f = f}
  IN T(\A x \in rec : ok /\ fOf(x.t) # {}, "C12_RecordedByRejectedTx") \cup
     T(\A t \in TOKENS : post.prices[t].next <= pre.prices[t].next + 1, "C12_ClosedTwice") \cup
     T(\A x \in rec : \A f \in fOf(x.t) : Supermajority(c, subs, f, RoundIdx(c, f, pre.h)), "C12_FinalWithoutSupermajority") \cup
     T(\A x \in rec : \A f \in fOf(x.t) : x.e.p.some /\ Agreed(c, subs, f, RoundIdx(c, f, pre.h), x.e.p.v), "C12_NotAgreedValue")

\* EndBlock(hh): round arithmetic, and every entry added by EndBlock carries the previous price
C12End(pre, post) ==
  LET c == pre.c hh == pre.h IN
  T(Behind(c, post, hh) = {}, "C12_NoGaps_Behind") \cup
  T(Ahead(c, post, hh) = {}, "C12_NoGaps_Ahead") \cup
  T(\A t \in TOKENS : post.prices[t].next <= pre.prices[t].next + 1, "C12_ClosedTwice") \cup
  T(\A t \in TOKENS : \A e \in NewEntries(pre, post, t) :
        LET prev == {x \in Rng(pre.prices[t].list) \cup Rng(post.prices[t].list) : x.r = e.r - 1} IN
        prev # {} => e.p = One(prev).p, "C12_CarryNotPrevious")

(***************************************************************************)
(* property lane C14: after a restart the node shows what its continuous    *)
(* twin shows                                                               *)
(***************************************************************************)
C14Tags(post, twin, ok, cok, hashEq) ==
  T(ok = cok, "C14_TxResult") \cup
  T(Stored(post) = Stored(twin), "C14_Stored") \cup
  T(hashEq, "C14_AppHash")

\* what the rebuilt process-local state lacks or adds, per feeder, classified for the findings
\* protocol (diagnosis only: a C14 tag needs an OBSERVABLE difference)
HH(s) == s.h - 1
RelevantWorker(w) == [w EXCEPT !.fN = [v \in DOMAIN @ |-> Len(@[v])]]
WorkerOr0(s, f) == IF f \in DOMAIN s.aggs THEN RelevantWorker(s.aggs[f]) ELSE RelevantWorker(W0)
\* messages of validator v for feeder f in the part of the persisted log that recache replays
Replayed(post, f, v) ==
  LET lo == ReplayFrom(post) IN
  UNION {{<<b, i>> : i \in {k \in DOMAIN post.rmsgs[b] : post.rmsgs[b][k].f = f /\ post.rmsgs[b][k].v = v}} :
            b \in {x \in DOMAIN post.rmsgs : x >= lo /\ x < post.h}}
\* messages for feeder f that are stored for a block of the feeder's current window but lie before the
\* first replayed block (the replay window is computed from the package default MaxNonce = 3)
NotReplayed(post, f) ==
  LET lo == ReplayFrom(post) IN
  {b \in DOMAIN post.rmsgs : b < lo /\ b > post.rounds[f].base /\ \E i \in DOMAIN post.rmsgs[b] : post.rmsgs[b][i].f = f}
CauseOf(twin, post, f, l7, l7m, l26, fs) ==
  LET c == post.c IN
  IF f \in DOMAIN twin.rounds /\ f \notin DOMAIN post.rounds THEN
     IF twin.rounds[f].status = StatusOpen THEN {"ROUNDS_NOT_REBUILT"}
     ELSE IF FeederLive(c, f, HH(post)) THEN {"CLOSED_ROUND_NOT_REBUILT"} ELSE {}
  ELSE IF f \notin DOMAIN twin.rounds /\ f \in DOMAIN post.rounds THEN {"ROUND_INVENTED"}
  ELSE IF f \notin DOMAIN twin.rounds THEN {}
  ELSE IF twin.rounds[f].status = StatusClosed /\ post.rounds[f].status = StatusOpen THEN
     IF twin.prices[TokOf(c, f)].next = twin.rounds[f].next + 1 /\ HH(twin) - twin.rounds[f].base < c.mn
     THEN IF <<f, twin.rounds[f].base>> \in fs THEN {"FORCE_SEALED_ROUND_REOPENED"} ELSE {"FINALISED_ROUND_REOPENED"}
     ELSE IF f \in l7 THEN {"REJECTED_TX_CLOSED_ROUND_REOPENED"} ELSE {"CLOSED_ROUND_REOPENED"}
  ELSE IF twin.rounds[f].status = StatusOpen /\ post.rounds[f].status = StatusClosed THEN {"OPEN_ROUND_CLOSED"}
  ELSE IF twin.rounds[f] # post.rounds[f] THEN {"ROUND_DIFFERS"}
  ELSE IF twin.rounds[f].status = StatusOpen /\ WorkerOr0(twin, f) # WorkerOr0(post, f) THEN
     IF \E v \in DOMAIN post.c.pw : Cardinality(Replayed(post, f, v)) >= 2 THEN {"SECOND_MESSAGE_DROPPED"}
     ELSE IF f \in l7m THEN {"REJECTED_TX_REPORTS_LOST"}
     ELSE IF f \in l26 THEN {"REPLAY_LOG_PRUNED_EARLY"}
     ELSE IF NotReplayed(post, f) # {} THEN {"REPLAY_WINDOW_TOO_SHORT"}
     ELSE {"AGGREGATION_NOT_REBUILT"}
  ELSE {}

\* feeders on which the restarted node and its twin show different stored state
DivF(post, twin) ==
  {f \in {x \in FEEDERS : Present(post.c.fd, x)} :
     \/ post.prices[TokOf(post.c, f)] # twin.prices[TokOf(post.c, f)]
     \/ {k \in DOMAIN post.nonce : k[2] = f} # {k \in DOMAIN twin.nonce : k[2] = f}
     \/ \E k \in DOMAIN post.nonce \cap DOMAIN twin.nonce : k[2] = f /\ post.nonce[k] # twin.nonce[k]
     \/ post.rmIdx # twin.rmIdx
     \/ \E b \in DOMAIN post.rmsgs \cap DOMAIN twin.rmsgs :
           SelectSeq(post.rmsgs[b], LAMBDA m : m.f = f) # SelectSeq(twin.rmsgs[b], LAMBDA m : m.f = f)}

(***************************************************************************)
(* strict lane                                                             *)
(***************************************************************************)
Fields == {"h", "c", "pw", "cv", "dv", "prices", "nonce", "rmsgs", "rmIdx", "rparams", "rpIdx", "vub", "kfd", "rounds", "aggs", "cmsgs", "cvu", "cpu", "cfd", "upd"}
StrictTags(pre, post, ev, a, ok, j) ==
  LET r == Apply(pre, ev, a) IN
  T(Assumed(j, pre.c), "STRICT_assumption_" \o ev) \cup
  {"STRICT_state_" \o ev \o "_" \o k : k \in {x \in Fields : r.st[x] # post[x]}} \cup
  T((r.err = "") = ok, "STRICT_result_" \o ev)

(***************************************************************************)
(* replay                                                                  *)
(***************************************************************************)
R0 == [restarted |-> FALSE, cause |-> [f \in FEEDERS |-> {}], at |-> <<>>, l7 |-> {}, l7m |-> {}, rej |-> {}, l26 |-> {}, fs |-> {}]

Init == l = 1 /\ L = [h |-> 0] /\ G = [subs |-> {}] /\ R = R0

SetToSeq0(S) == SetToSortSeq(S, LAMBDA x, y : TRUE)

Emit(ln, ev, tags, r, post, twin, fin, msgsF) ==
  tags = {} \/
  LET c == post.c
      divf == DivF(post, twin) \cup (IF "C14_TxResult" \in tags THEN msgsF ELSE {})
      cf == IF divf = {} THEN FEEDERS ELSE divf
      hh == post.h - 1
      bh == Behind(c, post, hh)
      ah == Ahead(c, post, hh)
  IN PrintT("TAG " \o ToJson([l |-> ln, ev |-> ev, tags |-> tags,
        info |-> [ \* C14: feeders whose stored state differs from the twin's and what the restarts failed to rebuild for them
                   divf |-> divf, causes |-> UNION {r.cause[f] : f \in cf},
                   \* C12: feeders behind / ahead of the round arithmetic and the restart causes recorded for them
                   behind |-> bh, ahead |-> ah, gapCauses |-> UNION {r.cause[f] : f \in bh \cup ah},
                   \* lead L7: feeders whose round a REJECTED tx closed in memory / whose aggregation it changed
                   l7 |-> r.l7, l7m |-> r.l7m, l26 |-> r.l26,
                   \* feeders for which this tx recorded a price, and whether the recorded value is explained
                   \* by counting the reports of rejected txs as well
                   fin |-> fin.f, explainedByRejected |-> fin.x, finOutOfStep |-> fin.o,
                   at |-> r.at, h |-> post.h, mn |-> c.mn, vub |-> post.vub ]]))

NoFin == [f |-> {}, x |-> FALSE, o |-> FALSE]

Next ==
  /\ l <= Len(Trace)
  /\ l' = l + 1
  /\ LET line == Trace[l] IN
     IF line.ev = "reset" THEN
       LET st == FromLog(line.st, line.cfg) IN
       /\ L' = st /\ G' = [subs |-> {}] /\ R' = R0
       /\ Emit(l, "reset", T(st = InitState(line.cfg), "STRICT_state_reset") \cup C12State(st), R0, st, st, NoFin, {})
     ELSE IF line.ev = "Tx" THEN
       LET post == FromLog(line.st, L.c)
           twin == FromLog(line.cst, L.c)
           c    == [L.c EXCEPT !.pw = L.dv]
           a    == [msgs |-> [i \in DOMAIN line.a.msgs |-> [v |-> line.a.msgs[i].v, f |-> line.a.msgs[i].f, base |-> line.a.msgs[i].base,
                                nonce |-> line.a.msgs[i].nonce, ps |-> [k \in DOMAIN line.a.msgs[i].ps |-> [d |-> line.a.msgs[i].ps[k].d, p |-> line.a.msgs[i].ps[k].p]]]]]
           msgsF == {a.msgs[i].f : i \in DOMAIN a.msgs}
           g2   == IF line.ok THEN [G EXCEPT !.subs = AddSubs(@, c, L.h, a.msgs)] ELSE G
           \* lead L7: a rejected tx that nevertheless closed a round / changed an aggregation in memory
           l7   == IF ~line.ok THEN {f \in DOMAIN L.rounds \cap DOMAIN post.rounds : L.rounds[f].status = StatusOpen /\ post.rounds[f].status = StatusClosed} ELSE {}
           l7m  == IF ~line.ok THEN {f \in FEEDERS : WorkerOr0(L, f) # WorkerOr0(post, f)} ELSE {}
           r2   == [R EXCEPT !.l7 = @ \cup l7, !.l7m = @ \cup l7m,
                             !.rej = IF ~line.ok /\ l7m # {} THEN AddSubs(@, c, L.h, a.msgs) ELSE @]
           finF == {f \in {x \in msgsF : Present(c.fd, x)} : post.prices[TokOf(c, f)].next > L.prices[TokOf(c, f)].next}
           fin  == [f |-> finF,
                    \* the stored round id was already out of step with the round arithmetic before this tx
                    o |-> finF # {} /\ \A f \in finF : f \in DOMAIN L.rounds /\ L.rounds[f].next # L.prices[TokOf(c, f)].next,
                    x |-> finF # {} /\ \A f \in finF : \A e \in NewEntries(L, post, TokOf(c, f)) :
                             e.p.some /\ Supermajority(c, g2.subs \cup r2.rej, f, RoundIdx(c, f, L.h))
                                      /\ Agreed(c, g2.subs \cup r2.rej, f, RoundIdx(c, f, L.h), e.p.v)]
           tags == C12State(post) \cup C12Tx(L, post, a.msgs, line.ok, g2.subs) \cup
                   (IF R.restarted THEN C14Tags(post, twin, line.ok, line.cok, line.st.apphash = line.cst.apphash) ELSE {}) \cup
                   StrictTags(L, post, "Tx", a, line.ok, line.st)
       IN /\ L' = post /\ G' = g2 /\ R' = r2
          /\ Emit(l, "Tx", tags, r2, post, twin, fin, msgsF)
     ELSE IF line.ev \in {"Upd", "Add", "Stake"} THEN
       LET post == FromLog(line.st, L.c)
           twin == FromLog(line.cst, L.c)
           a    == IF line.ev = "Upd" THEN [f |-> line.a.f, end |-> line.a.end]
                   ELSE IF line.ev = "Stake" THEN [v |-> line.a.v, x |-> line.a.x]
                   ELSE [tok |-> line.a.tok, start |-> line.a.start, iv |-> line.a.iv, sr |-> line.a.sr]
           tags == C12State(post) \cup
                   T(\A t \in TOKENS : post.prices[t] = L.prices[t], "C12_RecordedByRejectedTx") \cup
                   (IF R.restarted THEN C14Tags(post, twin, line.ok, line.cok, line.st.apphash = line.cst.apphash) ELSE {}) \cup
                   StrictTags(L, post, line.ev, a, line.ok, line.st)
       IN /\ L' = post /\ G' = G /\ R' = R
          /\ Emit(l, line.ev, tags, R, post, twin, NoFin, {})
     ELSE IF line.panic THEN
       \* C11: BeginBlock / EndBlock / Commit panicked (the driver recovered it): the chain would halt here.
       \* The line carries no new projection; the behaviour ends.
       /\ L' = L /\ G' = G /\ R' = R
       /\ LET a == [restart |-> line.a.restart,
                    vu |-> [v \in {x.v : x \in Rng(line.a.vu)} |-> One({x \in Rng(line.a.vu) : x.v = v}).w]]
              \* diagnosis: the restart found no logged params older than its first replayed block
              E == EndBlock(L, a.vu)
              noParams == a.restart /\ ReplayFrom(E) < E.h /\ ~\E b \in DOMAIN E.rparams : b < ReplayFrom(E)
          IN PrintT("TAG " \o ToJson([l |-> l, ev |-> "EndBlock",
                       tags |-> {"C11_Halt"} \cup T(Apply(L, "EndBlock", a).err = "PANIC", "STRICT_result_EndBlock"),
                       info |-> [halt |-> line.err, h |-> L.h, restart |-> line.a.restart, at |-> R.at, mn |-> L.c.mn,
                                 noParamsBeforeReplay |-> noParams, rpIdx |-> E.rpIdx, rparams |-> DOMAIN E.rparams]]))
     ELSE
       LET post == FromLog(line.st, L.c)
           twin == FromLog(line.cst, L.c)
           a    == [restart |-> line.a.restart,
                    vu |-> [v \in {x.v : x \in Rng(line.a.vu)} |-> One({x \in Rng(line.a.vu) : x.v = v}).w]]
           \* lead L26: a block of the replay log that is still inside the window (b > h - MaxNonce) disappears
           gone == {b \in DOMAIN L.rmsgs : b \notin DOMAIN post.rmsgs /\ b > L.h - L.c.mn}
           \* rounds (feeder, base) that were open and are closed by an EndBlock that saw validator updates (force seal)
           fsN  == IF a.vu = <<>> THEN {} ELSE {<<f, L.rounds[f].base>> : f \in {x \in DOMAIN L.rounds : L.rounds[x].status = StatusOpen}}
           r1   == [R EXCEPT !.l26 = @ \cup UNION {{L.rmsgs[b][i].f : i \in DOMAIN L.rmsgs[b]} : b \in gone}, !.fs = @ \cup fsN]
           r2   == IF a.restart
                   THEN [r1 EXCEPT !.restarted = TRUE, !.cause = [f \in FEEDERS |-> @[f] \cup (IF Present(post.c.fd, f) THEN CauseOf(twin, post, f, r1.l7, r1.l7m, r1.l26, r1.fs) ELSE {})], !.at = Append(@, post.h)]
                   ELSE r1
           tags == C12State(post) \cup C12End(L, post) \cup
                   (IF r2.restarted THEN C14Tags(post, twin, line.ok, line.cok, line.st.apphash = line.cst.apphash) ELSE {}) \cup
                   StrictTags(L, post, "EndBlock", a, line.ok, line.st)
       IN /\ L' = post /\ G' = G /\ R' = r2
          /\ Emit(l, "EndBlock", tags, r2, post, twin, NoFin, {})

Spec == Init /\ [][Next]_vars

Consumed == TLCGet("stats").diameter - 1 = Len(Trace)
=============================================================================
