SPECIFICATION Spec
CONSTANTS
  SORD <- c_SORD
  OORD <- c_OORD
  AORD <- c_AORD
  KIND <- c_KIND
  DECI <- c_DECI
  PRICE <- c_PRICE
  PDEC <- c_PDEC
  PAYLOADS <- c_PAYLOADS
  REGISTERED = {"nst"}
  PREC = 100
  UNBOND = 1
  HOLDOPS = {}
  HOOKED = TRUE
  NSTA = "nst"
  MAXEFB = 2
  BMBYTES = 1
  BLCAP = 3
  DEVS = {}
  MODE = "ctx"
  STK = {"s1", "s2"}
  PKS = {"k1", "k2"}
  AMOUNTS = {1, 2, 3}
  DAMOUNTS = {1}
  RIDS = {1}
  NONCES = {1}
  TXHS = {"t1"}
  STRS = {}
  PRE <- c_NOPRE
  EVENTS = {"Deposit", "Withdraw", "Delegate", "Undelegate", "Feed", "Price", "Carry", "EndBlock"}
  MAXOPS = 5
  FAILBUDGET = 99
  MAXH = 3
VIEW View
INVARIANTS InvConservation InvPublished InvNonNeg InvAtomic InvAlive InvIsolated InvListInfo
CHECK_DEADLOCK FALSE
