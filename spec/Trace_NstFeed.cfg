SPECIFICATION Spec
CONSTANTS
  SORD <- t_SORD
  OORD <- t_OORD
  AORD <- t_AORD
  KIND <- t_KIND
  REGISTERED <- t_REGISTERED
  HOLDOPS <- t_HOLDOPS
  HOOKED <- t_HOOKED
  DECI <- t_DECI
  PRICE <- t_PRICE
  PDEC <- t_PDEC
  UNBOND <- t_UNBOND
  PREC <- t_PREC
  NSTA <- t_NSTA
  MAXEFB <- t_MAXEFB
  BMBYTES <- t_BMBYTES
  BLCAP <- t_BLCAP
  DEVS <- t_DEVS
  MODE = "ctx"
CHECK_DEADLOCK FALSE
