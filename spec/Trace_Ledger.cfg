SPECIFICATION Spec
CONSTANTS
  SORD <- t_SORD
  OORD <- t_OORD
  AORD <- t_AORD
  KIND <- t_KIND
  REGISTERED <- t_REGISTERED
  HOLDOPS <- t_HOLDOPS
  HOOKED <- t_HOOKED
  DECI <- t_DECI
  PRICE <- t_PRICE
  PDEC <- t_PDEC
  UNBOND <- t_UNBOND
  PREC <- t_PREC
POSTCONDITION Consumed
CHECK_DEADLOCK FALSE
