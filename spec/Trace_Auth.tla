----------------------------- MODULE Trace_Auth -----------------------------
(***************************************************************************)
(* Trace validation for the authorisation family (C10).                     *)
(*                                                                         *)
(* Input: trace.ndjson written by `harness auth`: per behaviour a `reset`   *)
(* line (chain class, projection of the base state) followed by one line    *)
(* per executed cell: entry point, caller identity, the entry point's own   *)
(* report (ok / out), the module stores whose content changed (fee payment  *)
(* and account sequence of the fee payer factored out) and the projection   *)
(* of the abstract state after the call.                                    *)
(*                                                                         *)
(*   C10_..    property lane: the statement of C10 evaluated on the         *)
(*             observed pre/post pair of the REAL code                      *)
(*   NOTE_..   observations that are not violations (kept in the evidence)  *)
(*   STRICT_.. strict lane: the observed step differs from Call(pre, e, c)  *)
(*             of spec/Auth.tla instantiated with the deviations of the     *)
(*             current tree (drift, never a violation)                      *)
(***************************************************************************)
EXTENDS Auth, Json

Trace == ndJsonDeserialize("trace.ndjson")

\* the code as it is (see NOTES-auth.md): the strict lane follows the code, deviations included.
\* DEV_OracleSigIgnored left the set with fix 873f403 (the oracle branch now uses the result of
\* VerifySignature).
\* DEV_OracleSignerInfoCount left it with fix 4bd9a0c (one signer info and one signature per required signer).
t_DEVS == {"DEV_ChallengeNoOwner", "DEV_OperatorBySender"}

VARIABLES l, S, mn
vars == <<l, S, mn>>

Range(f) == {f[x] : x \in DOMAIN f}

FromLog(j, mainnet) ==
  [ mainnet  |-> mainnet,
    gw       |-> j.gw,
    avs      |-> [a \in DOMAIN j.avs |-> [owners |-> Range(j.avs[a].owners), task |-> j.avs[a].task, ver |-> j.avs[a].ver]],
    usd      |-> Range(j.usd),
    tasks    |-> {[t |-> x.t, n |-> x.n] : x \in Range(j.tasks)},
    results  |-> {[o |-> x.o, t |-> x.t, n |-> x.n, s |-> x.s] : x \in Range(j.results)},
    chal     |-> {[o |-> x.o, t |-> x.t, n |-> x.n, by |-> x.by] : x \in Range(j.chal)},
    ops      |-> Range(j.ops),
    opt      |-> {[o |-> x.o, a |-> x.a] : x \in Range(j.opt)},
    bls      |-> Range(j.bls),
    ckey     |-> [o \in DOMAIN j.ckey |-> j.ckey[o]],
    prevkey  |-> Range(j.prevkey),
    vals     |-> Range(j.vals),
    nonce    |-> [k \in DOMAIN j.nonce |-> j.nonce[k]],
    round    |-> j.round,
    pv       |-> [m \in DOMAIN j.pv |-> j.pv[m]],
    assoc    |-> Range(j.assoc),
    natdel   |-> Range(j.natdel),
    newtoken |-> j.newtoken,
    chain102 |-> j.chain102,
    tokmeta  |-> j.tokmeta,
    funded   |-> j.funded ]

T(holds, tag) == IF holds THEN {} ELSE {tag}

\* property lane
PropertyTags(pre, post, e, c, mods) ==
  T(RejectNoChange(pre, post, e, c, mods), "C10_UnauthorizedEffect") \cup
  T(Binding(pre, post, e, c, mods), "C10_WrongPrincipal")

\* not violations: an unauthorised call that is answered with `true` / empty output / code 0 but
\* changes nothing (DESIGN C10, lead L21)
NoteTags(pre, post, e, c, mods, line) ==
  (IF c.via # "check" /\ ~StmtAuthorized(pre, e, c) /\ post = pre /\ mods = {} /\ (line.ok \/ line.out = "empty")
   THEN {"NOTE_SilentReject"} ELSE {}) \cup
  (IF c.via # "check" /\ StmtAuthorized(pre, e, c) /\ post = pre /\ mods = {} /\ line.ok
   THEN {"NOTE_SuccessWithoutEffect"} ELSE {}) \cup
  \* CheckTx runs the ante handlers only: a validly signed tx whose MESSAGE will be refused at
  \* delivery (wrong authority, operator mismatch) is admitted to the mempool
  (IF c.via = "check" /\ ~StmtAuthorized(pre, e, c) /\ line.ok
   THEN {"NOTE_AdmittedByCheckTx"} ELSE {})

\* strict lane
StrictTags(pre, post, e, c, mods, ok) ==
  LET r == Call(pre, e, c) IN
  T(r.ok = ok, "STRICT_result_" \o e) \cup
  T(r.mods = mods, "STRICT_mods_" \o e) \cup
  T(r.st = post, "STRICT_state_" \o e)

Init == l = 1 /\ S = <<>> /\ mn = TRUE

Next ==
  /\ l <= Len(Trace)
  /\ l' = l + 1
  /\ LET line == Trace[l] IN
     IF line.ev = "reset" THEN
       /\ mn' = line.cfg.mainnet
       /\ S' = FromLog(line.st, line.cfg.mainnet)
       \* the base state the code built = the base state of the model
       /\ LET tags == T(FromLog(line.st, line.cfg.mainnet) = BaseState(line.cfg.base, IF line.cfg.mainnet THEN "main" ELSE "test"), "STRICT_base_" \o line.cfg.base)
          IN tags = {} \/ PrintT("TAG " \o ToJson([l |-> l, ev |-> "reset", tags |-> tags]))
     ELSE
       LET post == FromLog(line.st, mn)
           e    == line.a.e
           c    == line.a.c
           mods == Range(line.changed)
           tags == PropertyTags(S, post, e, c, mods) \cup NoteTags(S, post, e, c, mods, line) \cup
                   StrictTags(S, post, e, c, mods, line.ok)
       IN /\ S' = post /\ mn' = mn
          /\ tags = {} \/ PrintT("TAG " \o ToJson([l |-> l, ev |-> e, tags |-> tags]))

Spec == Init /\ [][Next]_vars

Consumed == TLCGet("stats").diameter - 1 = Len(Trace)
=============================================================================
