------------------------------ MODULE Liveness ------------------------------
(***************************************************************************)
(* C11 - chain liveness.  The model is the block-processing skeleton of the *)
(* chain seen from the hazards that user inputs can plant in the store:     *)
(* which begin/end-block code can be reached with which stored state after  *)
(* which inputs.  Its actions are INPUT CLASSES (DESIGN.md 5, C11); the     *)
(* intended behaviour of every class is "rejected transaction or logged and *)
(* skipped item", so `halted` never becomes TRUE in the model.  The content *)
(* of the check is in the binding: TLC enumerates / samples hazard scripts, *)
(* the harness executes them with real ABCI calls, and the trace spec       *)
(* demands that no BeginBlock / EndBlock / Commit panicked and that the     *)
(* blocks after the script are still processed.                             *)
(*                                                                         *)
(* Abstract state (enough to make the scripts meaningful, i.e. to reach the *)
(* begin/end-block code with the hazardous stored state):                   *)
(*   stake[o]   value class of validator operator o: its own genesis stake  *)
(*              ("gen"), after a huge / big / tiny extra delegation, after  *)
(*              undelegating (almost) everything                            *)
(*   pend[o]    an undelegation of o is pending                             *)
(*   jailed[o], tomb[o]  slashing-module status                             *)
(*   age        blocks since the start (evidence refers to past heights)    *)
(***************************************************************************)
EXTENDS Naturals, Sequences, FiniteSets, TLC, Json

CONSTANTS VALS,      \* validator operators, e.g. {"o1","o2"}
          STAKERS,   \* e.g. {"s1"}
          MAXLEN     \* script length

VARIABLES stake, pend, jailed, tomb, blocks, halted, hist
vars == <<stake, pend, jailed, tomb, blocks, halted, hist>>

Classes == {"one", "mid", "big", "vast", "huge"}

Init ==
  /\ stake = [o \in VALS |-> "gen"]
  /\ pend = [o \in VALS |-> FALSE]
  /\ jailed = [o \in VALS |-> FALSE]
  /\ tomb = [o \in VALS |-> FALSE]
  /\ blocks = 1
  /\ halted = FALSE
  /\ hist = <<>>

Log(ev, a) == hist' = Append(hist, [ev |-> ev, a |-> a])

\* a staker deposits and delegates an amount of the given class to a validator operator
Stake(s, o, c) ==
  /\ stake' = [stake EXCEPT ![o] = c]
  /\ Log("Stake", [s |-> s, o |-> o, cls |-> c])
  /\ UNCHANGED <<pend, jailed, tomb, blocks, halted>>

\* the operator's self-staker (or a staker) undelegates everything but `keep` units
Unstake(s, o, keep) ==
  /\ pend' = [pend EXCEPT ![o] = TRUE]
  /\ stake' = [stake EXCEPT ![o] = IF keep = 0 THEN "zero" ELSE "tiny"]
  /\ Log("Unstake", [s |-> s, o |-> o, keep |-> keep])
  /\ UNCHANGED <<jailed, tomb, blocks, halted>>

Blocks(n) ==
  /\ blocks' = blocks + n
  /\ Log("Blocks", [n |-> n])
  /\ UNCHANGED <<stake, pend, jailed, tomb, halted>>

\* the dogfood epoch ends: voting power recomputed, validator set updated, queues drained
EpochEnd ==
  /\ blocks' = blocks + 1
  /\ pend' = [o \in VALS |-> FALSE]      \* (abstractly: may mature)
  /\ Log("EpochEnd", [x |-> 0])
  /\ UNCHANGED <<stake, jailed, tomb, halted>>

\* validator o stops / resumes signing (downtime slashing after the signed-blocks window)
Absent(o, on) ==
  /\ Log("Absent", [o |-> o, on |-> on])
  /\ UNCHANGED <<stake, pend, jailed, tomb, blocks, halted>>

\* double-sign evidence for an infraction `age` blocks ago, with the power of that time
Evidence(o, age, power) ==
  /\ ~tomb[o]
  /\ tomb' = [tomb EXCEPT ![o] = TRUE]
  /\ jailed' = [jailed EXCEPT ![o] = TRUE]
  /\ blocks' = blocks + 1
  /\ Log("Evidence", [o |-> o, age |-> age, power |-> power])
  /\ UNCHANGED <<stake, pend, halted>>

Next ==
  /\ Len(hist) < MAXLEN
  /\ \/ \E s \in STAKERS, o \in VALS, c \in Classes : Stake(s, o, c)
     \/ \E o \in VALS, keep \in {0, 1} : Unstake("self", o, keep)
     \/ \E s \in STAKERS, o \in VALS : stake[o] \in Classes /\ Unstake(s, o, 0)
     \/ \E n \in {1, 12, 60} : Blocks(n)
     \/ EpochEnd
     \/ \E o \in VALS, on \in {"0", "1"} : Absent(o, on)
     \/ \E o \in VALS, age \in {1, 5, 50}, p \in {1, 100} : Evidence(o, age, p)

Spec == Init /\ [][Next]_vars
View == <<stake, pend, jailed, tomb, halted, Len(hist)>>

\* C11 at model level: no input class halts block processing
Alive == ~halted

EmitAtDepth == Len(hist) < MAXLEN \/ PrintT("BEHAVIOUR " \o ToJson(hist))
=============================================================================
