--------------------------- MODULE MC_Ledger_goalS ---------------------------
\* repeated slashing of pending undelegation records (two slash ids)
EXTENDS MC_Ledger_q
c_WANTED == {"slash_caps_reduced_record", "slash_two_records", "slash_record_started_at_infraction_height",
             "slash_record_started_after_infraction_height"}
=============================================================================
