SPECIFICATION Spec
CONSTANTS
  VALS = {"v1", "v2", "v3", "v4", "v5"}
  FORD <- c_FORD
  TOKENS = {"t1", "t2"}
  FIX = {"L7", "L8", "L25S", "FROMTO", "WINDOW", "L26", "RPNIL"}
  CFGS <- t3_CFGS
  PSS <- t_PSS1
  PSS2 <- c_PSS2
  TWOMSG = FALSE
  BADBASE = FALSE
  BADNONCE = FALSE
  MAXH = 6
  MAXTX = 2
  MAXOPS = 99
  MAXRESTART = 1
  UPDENDS = {3}
  MAXUPD = 2
  ADDS <- t_ADDS
  MAXSTAKE = 0
  SECONDBAD = FALSE
  FAILBUDGET = 99
VIEW View
INVARIANTS InvNoGaps InvConsecutive InvRetention InvFinal InvCarry InvRestartEq InvNoHalt
CHECK_DEADLOCK FALSE
