SPECIFICATION Spec
CONSTANTS
  SORD <- c_SORD
  OORD <- c_OORD
  AORD <- c_AORD
  KIND <- c_KIND
  DECI <- c_DECI
  PRICE <- c_PRICE
  PDEC <- c_PDEC
  REGISTERED = {"lst","nst"}
  PREC = 100
  UNBOND = 2
  HOLDOPS = {"o1"}
  HOOKED = TRUE
  AMOUNTS = {1,2,3,5}
  NONCES = {1,2,3,4}
  TXHS = {"t1","t2"}
  MAXH = 8
  MAXOPS = 18
  FACTORS = {0,1,50,100}
  POWERS = {1,3,100}
  SLASHIDS = {"i1","i2"}
  NSTDELTAS <- c_NSTDELTAS
  GENBAL = 9
  FAILBUDGET = 3
  FRESH = TRUE
  WANTED = {}
  PREFUND = 0
  PREDEL = 0
  EVENTS = {"Deposit","Withdraw","Delegate","Undelegate","Associate","Dissociate","Slash","NstUpdate","ReleaseHold","EndBlock","MsgDelegate","MsgUndelegate"}
INVARIANTS EmitAtDepth
CHECK_DEADLOCK FALSE
