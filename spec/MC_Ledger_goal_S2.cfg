SPECIFICATION Spec
CONSTANTS
  SORD <- c_SORD
  OORD <- c_OORD
  AORD <- c_AORD
  KIND <- c_KIND
  DECI <- c_DECI
  PRICE <- c_PRICE
  PDEC <- c_PDEC
  NSTDELTAS = {}
  REGISTERED = {"lst"}
  PREC = 100
  UNBOND = 1
  HOLDOPS = {"o1"}
  HOOKED = TRUE
  AMOUNTS = {4}
  NONCES = {1,2}
  TXHS = {"t1"}
  MAXH = 3
  MAXOPS = 4
  FACTORS = {50,100}
  POWERS = {1,2,4,100}
  SLASHIDS = {"i1","i2"}
  GENBAL = 3
  FRESH = TRUE
  PREFUND = 8
  PREDEL = 4
  EVENTS = {"Undelegate","Slash","EndBlock"}
  FAILBUDGET = 99
  WANTED <- c_WANTED
VIEW ViewG
INVARIANTS EmitGoals
CHECK_DEADLOCK FALSE
