------------------------------- MODULE EvmTx -------------------------------
(***************************************************************************)
(* Ethereum transactions on exocore: admission (ante handler) and the       *)
(* fee / nonce / refund / revert accounting of an included transaction.     *)
(* Property C19.                                                           *)
(*                                                                         *)
(* Mirrors, in the code's order:                                           *)
(*   baseapp.runTx (DeliverTx)          block gas meter, ante cache, msg    *)
(*                                      cache, consumeBlockGas before Write *)
(*   app/ante/handler_options.go        newEVMAnteHandler decorator order   *)
(*   app/ante/evm/fees.go               EthMinGasPriceDecorator             *)
(*   app/ante/evm/setup_ctx.go          EthValidateBasicDecorator           *)
(*   app/ante/evm/eth.go                CanTransfer, EthGasConsume (VerifyFee,*)
(*                                      DeductTxCostsFromUserBalance, block *)
(*                                      gas limit), EthIncrementSenderSeq.  *)
(*   x/evm/keeper/state_transition.go   ApplyTransaction /                  *)
(*                                      ApplyMessageWithConfig (intrinsic   *)
(*                                      gas, minimum gas used, RefundGas)   *)
(*   x/evm/keeper/gas.go                RefundGas at msg.GasPrice()         *)
(*                                                                         *)
(* NOT modelled: EVM opcode semantics.  The gas consumed by the EVM and the *)
(* vm-error flag of an execution are INPUTS of Deliver (`x`), logged by the *)
(* harness.  What a SUCCESSFUL execution writes is known only for the       *)
(* harness' own fixture contracts (see Effects).                            *)
(*                                                                         *)
(* Style (DESIGN.md 3.1): the store is a value `st`; Deliver(st, t, x)      *)
(* returns [st, code, gu, vmfail].  Amounts go through spec/Num.tla.        *)
(*                                                                         *)
(* Event alphabet (what is generated and logged):                          *)
(*   Tx       a = [t |-> transaction, x |-> execution input]               *)
(*   NewBlock a = [bf |-> base fee of the new block, fc |-> fee collector]  *)
(***************************************************************************)
EXTENDS Num, Sequences, FiniteSets, TLC, FiniteSetsExt, SequencesExt, Folds

CONSTANTS
  ACCTS,      \* externally owned accounts that send / receive ("a1", "a2", "a3")
  CONTRACTS,  \* other tracked balances: fixture contracts and the assets precompile
  PREC,       \* LegacyDec unit (10^18 in the code)
  MINGP,      \* feemarket Params.MinGasPrice   (LegacyDec, scaled by PREC)
  MULT,       \* feemarket Params.MinGasMultiplier (LegacyDec, scaled by PREC)
  BLOCKGAS,   \* consensus Block.MaxGas; 0 = unlimited (-1 in the code)
  GATEWAY,    \* the party configured as assets Params.ExocoreLzAppAddress
  FIX,        \* gas schedule of the storage fixture "c" (London): [exec, cold, noop, set, reset, clear, quot]
  DEVS        \* named deviations of the code from the property that the model reproduces

Parties == ACCTS \cup CONTRACTS
Holders == Parties \cup {"fc", "sink"}

(***************************************************************************)
(* store                                                                   *)
(*   nonce[a]  auth sequence of a \in ACCTS                                 *)
(*   bal[p]    bank balance (evm denom) of p \in Parties                    *)
(*   fc        balance of the fee collector module account                  *)
(*   sink      sum of the balances of the addresses created by "new" txs    *)
(*   bg        gas consumed on the block gas meter                          *)
(*   bf        base fee of the current block                                *)
(*   stor[c]   slot 0 of fixture contract c                                 *)
(*   wd[a]     x/assets withdrawable amount of a as staker of the deposit   *)
(*             asset; dl[a] its delegation to the fixture operator          *)
(*             (x/delegation undelegatable share, 1:1 with tokens here)     *)
(*   avs       number of AVSs registered in x/avs                           *)
(*   dep       x/assets staking total of the deposit asset (restaking state *)
(*             reachable through the assets precompile)                     *)
(***************************************************************************)
Bal(st, h) == IF h = "fc" THEN st.fc ELSE IF h = "sink" THEN st.sink ELSE st.bal[h]
SetBal(st, h, v) ==
  IF h = "fc" THEN [st EXCEPT !.fc = v] ELSE IF h = "sink" THEN [st EXCEPT !.sink = v] ELSE [st EXCEPT !.bal[h] = v]
Move(st, from, to, amt) ==
  LET s1 == SetBal(st, from, NSub(Bal(st, from), amt)) IN SetBal(s1, to, NAdd(Bal(s1, to), amt))

(***************************************************************************)
(* transaction  t = [s, to, ty, gas, price, tip, value, nonce, intr,        *)
(*                   mode, word, op, amt]                                   *)
(*   ty    "leg" | "al" | "dyn";  price = gasPrice (leg, al) / gasFeeCap    *)
(*   tip   gasTipCap (dyn; = price otherwise)                               *)
(*   intr  intrinsic gas of the payload (core.IntrinsicGas), an input       *)
(*   mode/word/amt  what the fixture contract is asked to do (Effects)      *)
(***************************************************************************)
\* evmtypes.EffectiveGasPrice / core.Message.GasPrice() as built by AsMessage(signer, baseFee)
EffPrice(t, bf) == IF t.ty = "dyn" THEN NMin(NAdd(t.tip, bf), t.price) ELSE t.price
Fee(t, bf)      == NMul(t.gas, EffPrice(t, bf))
\* gasLimit.Mul(minGasMultiplier).TruncateInt()
MinUsed(t)      == NQuo(NMul(t.gas, MULT), PREC)
Creation(t)     == t.to \in {"new", "newp"}
Recipient(t)    == IF Creation(t) THEN "sink" ELSE t.to

R(st, code) == [st |-> st, code |-> code]

(***************************************************************************)
(* newEVMAnteHandler in DeliverTx mode.  Every failure leaves the store     *)
(* untouched (baseapp drops the ante cache); `code` is the ABCI code.       *)
(* EthMempoolFeeDecorator and EthAccountVerificationDecorator are CheckTx   *)
(* only.                                                                   *)
(***************************************************************************)
Ante(st, t) ==
  LET bf  == st.bf
      ep  == EffPrice(t, bf)
      fee == Fee(t, bf)
  IN
  \* baseapp.validateBasicTxMsgs (before the ante handler) -> DynamicFeeTx.Validate: tip cap above fee cap
  IF t.ty = "dyn" /\ NGt(t.tip, t.price) THEN R(st, 1012) ELSE
  \* EthMinGasPriceDecorator: fee < minGasPrice * gasLimit  (fee = effective fee; = gasPrice*gas for leg/al)
  IF ~NIsZero(MINGP) /\ NLt(NMul(fee, PREC), NMul(MINGP, t.gas)) THEN R(st, 13) ELSE
  \* CanTransferDecorator: fee cap below base fee; value above the (whole) balance
  IF NLt(t.price, bf) THEN R(st, 13) ELSE
  \* DEV_SplitBalanceCheck (F-C19-1): the code compares the balance with the value alone, before the fee is
  \* deducted (EthAccountVerificationDecorator, which checks the total cost, is skipped in DeliverTx).
  \* Without the deviation (fix-F-C19-1.patch): value + fee for the whole gas limit at the effective price.
  IF NIsPos(t.value) /\ NLt(st.bal[t.s], IF "DEV_SplitBalanceCheck" \in DEVS THEN t.value ELSE NAdd(t.value, fee)) THEN R(st, 5) ELSE
  \* EthGasConsumeDecorator: VerifyFee, DeductTxCostsFromUserBalance, block gas limit
  \* ClaimStakingRewardsIfNecessary: an empty fee has no staking denom (ErrInsufficientFee); a fee above
  \* the balance reaches dogfood's IterateDelegations, which panics ("unimplemented on this keeper");
  \* baseapp recovers the panic and rejects the tx (ErrPanic, code 111222)
  IF NIsZero(fee) THEN R(st, 13) ELSE
  IF NLt(st.bal[t.s], fee) THEN R(st, 111222) ELSE
  IF BLOCKGAS # 0 /\ t.gas > BLOCKGAS THEN R(st, 11) ELSE
  \* EthIncrementSenderSequenceDecorator
  IF t.nonce # st.nonce[t.s] THEN R(st, 3) ELSE
  R([Move(st, t.s, "fc", fee) EXCEPT !.nonce[t.s] = @ + 1], 0)

(***************************************************************************)
(* newEVMAnteHandler in CheckTx mode (mempool admission), evaluated on the   *)
(* state a DeliverTx of the same tx would meet.  Adds, to the DeliverTx      *)
(* path: EthAccountVerificationDecorator (CheckSenderBalance: balance >=     *)
(* value + gasLimit * FEE CAP) and the intrinsic-gas check of VerifyFee.     *)
(* (EthMempoolFeeDecorator is a no-op under London: base fee is never nil.)  *)
(* Returns the ABCI code.                                                   *)
(***************************************************************************)
AdmitCheck(st, t) ==
  LET bf  == st.bf
      fee == Fee(t, bf)
  IN
  IF t.ty = "dyn" /\ NGt(t.tip, t.price) THEN 1012 ELSE
  IF ~NIsZero(MINGP) /\ NLt(NMul(fee, PREC), NMul(MINGP, t.gas)) THEN 13 ELSE
  IF NLt(st.bal[t.s], NAdd(t.value, NMul(t.gas, t.price))) THEN 5 ELSE
  IF NLt(t.price, bf) THEN 13 ELSE
  IF t.gas < t.intr THEN 11 ELSE
  IF NIsZero(fee) THEN 13 ELSE
  IF BLOCKGAS # 0 /\ t.gas > BLOCKGAS THEN 11 ELSE
  IF t.nonce # st.nonce[t.s] THEN 3 ELSE 0

(***************************************************************************)
(* what a SUCCESSFUL execution of the harness' fixtures writes (value       *)
(* transfer included).  Fixture semantics, see harness/evmtx.go:            *)
(*   "c"   SSTORE(0, word); mode "rev" reverts, "oog" loops                 *)
(*   "pre" assets precompile depositLST called by the sender itself:        *)
(*         deposit when the sender is the gateway, else returns false       *)
(*   "gw"  gateway contract: forwards t.op (deposit / delegate / undelegate *)
(*         of t.amt for staker t.s) to the assets / delegation precompile;  *)
(*         reverts when that call fails or (mode "rev"/"irev") afterwards,  *)
(*         returning the precompile call's success flag as revert data      *)
(*   "w"   wrapper: calls gw, ignores the result, stores 2 (gw frame ok) /  *)
(*         1 (gw frame reverted) in slot 0 ("w") and 2 in slot 1 ("w1")     *)
(*         when the reverted gw frame reported a successful precompile call *)
(*   "new" contract creation; init code stores and returns a runtime        *)
(*   "newp" contract creation whose constructor registers the new contract  *)
(*         as an AVS through the avs precompile (0x..0901 registerAVS, any  *)
(*         contract may call it) and only then returns (mode "ok"),         *)
(*         REVERTs ("rev") or loops until out of gas ("oog"); the init code *)
(*         reverts by itself when the precompile call fails or returns      *)
(*         false, so a successful creation implies a registered AVS         *)
(***************************************************************************)
Effects(st, t, x) ==
  LET s1 == Move(st, t.s, Recipient(t), t.value)
      \* what the restaking precompile called by the gateway does for staker t.s (t.op):
      \*   "dep"  assets.depositLST                      staking total and withdrawable + amt
      \*   "dlg"  delegation.delegate to the operator    needs amt <= withdrawable, else returns false
      \*   "und"  delegation.undelegate                  needs amt <= delegated, else returns false
      \* (keeper errors become a `false` return value, never a revert)
      deposit(s) ==
        IF t.op = "dep" THEN [s EXCEPT !.dep = NAdd(@, t.amt), !.wd[t.s] = NAdd(@, t.amt)]
        ELSE IF t.op = "dlg" THEN
          (IF NLe(t.amt, s.wd[t.s]) THEN [s EXCEPT !.wd[t.s] = NSub(@, t.amt), !.dl[t.s] = NAdd(@, t.amt)] ELSE s)
        ELSE (IF NLe(t.amt, s.dl[t.s]) THEN [s EXCEPT !.dl[t.s] = NSub(@, t.amt)] ELSE s)
  IN
  IF t.to = "c" THEN [s1 EXCEPT !.stor["c"] = t.word]
  ELSE IF t.to = "pre" THEN (IF GATEWAY = t.s THEN deposit(s1) ELSE s1)
  ELSE IF t.to = "gw" THEN (IF GATEWAY = "gw" THEN deposit(s1) ELSE s1)
  ELSE IF t.to = "w" THEN
     \* x.wflag (2: the gateway frame succeeded, 1: it reverted) and x.inner (the reverted gateway frame
     \* reported a successful precompile call) are EVM-internal facts, logged inputs
     LET s2 == [s1 EXCEPT !.stor["w"] = x.wflag, !.stor["w1"] = IF x.inner THEN NC(2) ELSE NC(1)] IN
     IF GATEWAY # "gw" THEN s2
     ELSE IF NEq(x.wflag, 2) THEN deposit(s2)
     \* the reverted inner frame: the EVM journal does not cover keeper writes made by a precompile
     ELSE IF x.inner /\ "DEV_RevertedFrameKeepsPrecompileWrites" \in DEVS THEN deposit(s2) ELSE s2
  ELSE IF t.to = "newp" THEN [s1 EXCEPT !.avs = @ + 1]
  ELSE s1

(***************************************************************************)
(* baseapp.runTx(DeliverTx) + EthereumTx/ApplyTransaction.                  *)
(*   x = [gasEvm  |-> gas consumed by the EVM after the refund counter      *)
(*                    (temporaryGasUsed), an input                          *)
(*        vmfail  |-> the EVM reported an error (revert, out of gas, ...)   *)
(*        gasRej  |-> gas on the tx gas meter when the ante handler        *)
(*                    rejected the tx, an input]                           *)
(* returns [st, code, gu (gas on the tx gas meter = ResponseDeliverTx.      *)
(* GasUsed), vmfail]                                                       *)
(***************************************************************************)
(***************************************************************************)
(* Gas of a SUCCESSFUL call of the storage fixture "c" (SSTORE(0, word) and *)
(* a fixed tail of cheap opcodes), the one place where the EVM's refund      *)
(* counter is not zero.  go-ethereum gasSStoreEIP2929/3529 for a single      *)
(* SSTORE whose slot is untouched in this tx (original = current):          *)
(*   current = new           noop                                          *)
(*   current = 0, new # 0    set                                            *)
(*   current # 0             reset; new = 0 additionally earns the refund   *)
(*                           counter FIX.clear (SstoreClearsScheduleRefund)  *)
(* plus FIX.cold unless the slot is in the tx's access list (type "al").     *)
(* ApplyMessageWithConfig: temporaryGasUsed = intrinsic + execution (RAW);   *)
(* refund = GasToRefund(counter, RAW, quot) = min(counter, RAW \div quot);   *)
(* temporaryGasUsed -= refund; only THEN the minimum-gas floor is applied.   *)
(***************************************************************************)
CRaw(s, t) ==
  LET cur == s.stor["c"] IN
  NAdd(NAdd(t.intr, FIX.exec),
       NAdd(IF t.ty = "al" THEN 0 ELSE FIX.cold,
            IF NEq(cur, t.word) THEN FIX.noop ELSE IF NIsZero(cur) THEN FIX.set ELSE FIX.reset))
CCounter(s, t) == IF ~NIsZero(s.stor["c"]) /\ NIsZero(t.word) THEN FIX.clear ELSE 0
CGasEvm(s, t)  == LET raw == CRaw(s, t) IN NSub(raw, NMin(CCounter(s, t), NQuo(raw, FIX.quot)))
\* gas consumed by the EVM after the refund counter: computed for the storage fixture, an input otherwise
GasEvm(s, t, x) == IF t.to = "c" /\ ~x.vmfail THEN CGasEvm(s, t) ELSE x.gasEvm

Res(st, code, gu, vmfail) == [st |-> st, code |-> code, gu |-> gu, vmfail |-> vmfail]

Deliver(st, t, x) ==
  \* "no block gas left to run tx"
  IF BLOCKGAS # 0 /\ NGe(st.bg, BLOCKGAS) THEN Res(st, 11, 0, FALSE) ELSE
  LET a == Ante(st, t) IN
  \* a rejected tx still puts the gas its ante handler consumed on the block gas meter (consumeBlockGas is
  \* deferred); how much depends on KV reads and is an input (x.gasRej)
  IF a.code # 0 THEN Res([st EXCEPT !.bg = NAdd(@, x.gasRej)], a.code, x.gasRej, FALSE) ELSE
  LET s1 == a.st   \* ante cache written: fee for the whole gas limit deducted, nonce incremented
      over(g) == BLOCKGAS # 0 /\ NGt(NAdd(st.bg, g), BLOCKGAS)
  IN
  \* ApplyMessageWithConfig: leftoverGas < intrinsicGas -> error; ApplyTransaction consumes the whole limit
  IF t.gas < t.intr THEN
     Res([s1 EXCEPT !.bg = NAdd(@, t.gas)], IF over(t.gas) THEN 11 ELSE 1, t.gas, FALSE)
  ELSE
  LET gasUsed == NMax(MinUsed(t), GasEvm(s1, t, x))
      \* message cache: EVM effects (only if no vm error), RefundGas at the purchase price
      s2 == IF x.vmfail THEN s1 ELSE Effects(s1, t, x)
      s3 == Move(s2, "fc", t.s, NMul(NSub(t.gas, gasUsed), EffPrice(t, st.bf)))
  IN
  \* consumeBlockGas() panics before msCache.Write(): the message effects and the refund are dropped
  IF over(gasUsed) THEN Res([s1 EXCEPT !.bg = NAdd(@, gasUsed)], 11, gasUsed, x.vmfail)
  ELSE Res([s3 EXCEPT !.bg = NAdd(@, gasUsed)], 0, gasUsed, x.vmfail)

(***************************************************************************)
(* ONE Cosmos tx carrying several MsgEthereumTx: ts, xs sequences.          *)
(* Every ante decorator loops over all messages before the next decorator   *)
(* runs; only EthGasConsumeDecorator (fees, one after the other) and        *)
(* EthIncrementSenderSequenceDecorator (sequences) write.  runMsgs executes *)
(* the messages in order on ONE message cache: an error of any message      *)
(* (intrinsic gas) or the block gas meter overflowing drops the effects and *)
(* refunds of ALL of them, while every fee for the whole gas limit and      *)
(* every nonce increment stay.                                              *)
(***************************************************************************)
SumGas(ts) == FoldLeft(LAMBDA acc, t : acc + t.gas, 0, ts)
FirstNonZero(cs) == IF \E i \in DOMAIN cs : cs[i] # 0 THEN cs[CHOOSE i \in DOMAIN cs : cs[i] # 0 /\ \A j \in DOMAIN cs : cs[j] # 0 => i <= j] ELSE 0

RECURSIVE ConsumeFees(_, _, _)
ConsumeFees(st, ts, i) ==
  IF i > Len(ts) THEN R(st, 0) ELSE
  LET t == ts[i]  fee == Fee(t, st.bf) IN
  IF NIsZero(fee) THEN R(st, 13) ELSE
  IF NLt(st.bal[t.s], fee) THEN R(st, 111222) ELSE ConsumeFees(Move(st, t.s, "fc", fee), ts, i + 1)

RECURSIVE BumpNonces(_, _, _)
BumpNonces(st, ts, i) ==
  IF i > Len(ts) THEN R(st, 0) ELSE
  IF ts[i].nonce # st.nonce[ts[i].s] THEN R(st, 3) ELSE BumpNonces([st EXCEPT !.nonce[ts[i].s] = @ + 1], ts, i + 1)

AnteBatch(st, ts) ==
  LET bf == st.bf
      basic == FirstNonZero([i \in DOMAIN ts |-> IF ts[i].ty = "dyn" /\ NGt(ts[i].tip, ts[i].price) THEN 1012 ELSE 0])
      mingp == FirstNonZero([i \in DOMAIN ts |-> IF ~NIsZero(MINGP) /\ NLt(NMul(Fee(ts[i], bf), PREC), NMul(MINGP, ts[i].gas)) THEN 13 ELSE 0])
      cantr == FirstNonZero([i \in DOMAIN ts |->
                 IF NLt(ts[i].price, bf) THEN 13
                 ELSE IF NIsPos(ts[i].value) /\ NLt(st.bal[ts[i].s], IF "DEV_SplitBalanceCheck" \in DEVS THEN ts[i].value ELSE NAdd(ts[i].value, Fee(ts[i], bf))) THEN 5
                 ELSE 0])
  IN
  IF basic # 0 THEN R(st, basic) ELSE
  IF mingp # 0 THEN R(st, mingp) ELSE
  IF cantr # 0 THEN R(st, cantr) ELSE
  LET f == ConsumeFees(st, ts, 1) IN
  IF f.code # 0 THEN R(st, f.code) ELSE
  IF BLOCKGAS # 0 /\ SumGas(ts) > BLOCKGAS THEN R(st, 11) ELSE
  LET n == BumpNonces(f.st, ts, 1) IN
  IF n.code # 0 THEN R(st, n.code) ELSE R(n.st, 0)

BRes(st, code, gu, gus, vmfails) == [st |-> st, code |-> code, gu |-> gu, gus |-> gus, vmfails |-> vmfails]

DeliverBatch(st, ts, xs) ==
  IF BLOCKGAS # 0 /\ NGe(st.bg, BLOCKGAS) THEN BRes(st, 11, 0, <<>>, <<>>) ELSE
  LET a == AnteBatch(st, ts) IN
  IF a.code # 0 THEN BRes([st EXCEPT !.bg = NAdd(@, xs[1].gasRej)], a.code, xs[1].gasRej, <<>>, <<>>) ELSE
  LET s1 == a.st
      over(g) == BLOCKGAS # 0 /\ NGt(NAdd(st.bg, g), BLOCKGAS)
      step(acc, i) ==
        IF acc.err THEN acc ELSE
        LET t == ts[i]  x == xs[i] IN
        IF t.gas < t.intr THEN [acc EXCEPT !.err = TRUE] ELSE
        LET gasUsed == NMax(MinUsed(t), GasEvm(acc.st, t, x))
            s2 == IF x.vmfail THEN acc.st ELSE Effects(acc.st, t, x)
            s3 == Move(s2, "fc", t.s, NMul(NSub(t.gas, gasUsed), EffPrice(t, st.bf)))
            \* DEV_BatchCreateResetsNonce (F-C19-3): the creation path of ApplyMessageWithConfig "takes over the nonce
            \* management" - SetNonce(sender, msg.Nonce()) before evm.Create, SetNonce(sender, msg.Nonce()+1) after - and
            \* the committed statedb overwrites the sequence the ante handler had already advanced for ALL messages of
            \* the Cosmos tx: later messages of the same sender lose their increment.  (No effect on a one-message tx.)
            s4 == IF Creation(t) /\ ~x.vmfail /\ "DEV_BatchCreateResetsNonce" \in DEVS
                  THEN [s3 EXCEPT !.nonce[t.s] = t.nonce + 1] ELSE s3
        IN [st |-> s4, gus |-> Append(acc.gus, gasUsed), vmfails |-> Append(acc.vmfails, x.vmfail), total |-> NAdd(acc.total, gasUsed), err |-> FALSE]
      e == FoldLeft(step, [st |-> s1, gus |-> <<>>, vmfails |-> <<>>, total |-> NC(0), err |-> FALSE], [i \in DOMAIN ts |-> i])
      sum == SumGas(ts)
  IN
  IF e.err THEN BRes([s1 EXCEPT !.bg = NAdd(@, sum)], IF over(sum) THEN 11 ELSE 1, sum, <<>>, <<>>)
  ELSE IF over(e.total) THEN BRes([s1 EXCEPT !.bg = NAdd(@, e.total)], 11, e.total, e.gus, e.vmfails)
  ELSE BRes([e.st EXCEPT !.bg = NAdd(@, e.total)], 0, e.total, e.gus, e.vmfails)

\* block boundary: the block gas meter restarts; the new base fee (x/feemarket BeginBlock) and the
\* fee collector balance (drained / refilled by distribution and mint) are inputs
\* (a.wd: undelegations that mature in EndBlock return to the withdrawable amount)
NewBlock(st, a) == [st EXCEPT !.bg = NC(0), !.bf = a.bf, !.fc = a.fc, !.wd = a.wd]

Apply(st, ev, a) ==
  IF ev = "Tx" THEN Deliver(st, a.t, a.x)
  ELSE IF ev = "Batch" THEN DeliverBatch(st, a.ts, a.xs)
  ELSE Res(NewBlock(st, a), 0, 0, FALSE)

(***************************************************************************)
(* PROPERTY C19 on one observed (or modelled) DeliverTx step                *)
(*   pre, post : stores;  t : the transaction;                              *)
(*   o = [code, gu, vmfail] : ResponseDeliverTx code / gas used, VmError    *)
(* Returns the set of violated clauses.                                     *)
(***************************************************************************)
T(holds, tag) == IF holds THEN {} ELSE {tag}

\* the statement's admission checks against the state the transaction meets
Admissible(st, t) ==
  /\ t.nonce = st.nonce[t.s]
  /\ NGe(st.bal[t.s], NAdd(t.value, Fee(t, st.bf)))
  /\ NGe(t.price, st.bf)
  /\ NGe(NMul(EffPrice(t, st.bf), PREC), MINGP)
  /\ (BLOCKGAS = 0 \/ t.gas <= BLOCKGAS)

SameRestaking(pre, post) == post.dep = pre.dep /\ post.wd = pre.wd /\ post.dl = pre.dl /\ post.avs = pre.avs

Changed(pre, post) ==
  \/ post.nonce # pre.nonce \/ post.bal # pre.bal \/ post.fc # pre.fc \/ post.sink # pre.sink
  \/ post.stor # pre.stor \/ post.dep # pre.dep \/ post.wd # pre.wd \/ post.dl # pre.dl \/ post.avs # pre.avs

\* a transaction is included when it was executed (code 0) or left any trace at all
Included(pre, post, o) == o.code = 0 \/ Changed(pre, post)
\* failed: the Cosmos tx failed after the ante handler, or the EVM reported an error
Failed(o) == o.code # 0 \/ o.vmfail
\* gas the sender is charged for: the reported gas used; the whole limit when the tx failed outside the EVM
GasCharged(t, o) == IF o.code = 0 THEN o.gu ELSE t.gas

Delta(pre, post, h) == NSub(Bal(post, h), Bal(pre, h))
ExpDelta(pre, t, o, h) ==
  LET fee == NMul(GasCharged(t, o), EffPrice(t, pre.bf))
      val == IF Failed(o) THEN N0 ELSE t.value
  IN NAdd(IF h = t.s THEN NNeg(NAdd(fee, val)) ELSE N0,
          NAdd(IF h = Recipient(t) THEN val ELSE N0, IF h = "fc" THEN fee ELSE N0))

SumH(f(_)) == MapThenFoldSet(LAMBDA x, y : NAdd(x, y), N0, f, LAMBDA S : CHOOSE x \in S : TRUE, Holders)

C19Tags(pre, post, t, o) ==
  LET inc == Included(pre, post, o) IN
  T(inc => post.nonce = [pre.nonce EXCEPT ![t.s] = @ + 1], "C19_Nonce") \cup
  T(o.code = 0 => NLe(MinUsed(t), o.gu) /\ NLe(o.gu, t.gas), "C19_GasBounds") \cup
  T(inc => NEq(Delta(pre, post, t.s), ExpDelta(pre, t, o, t.s)), "C19_SenderPays") \cup
  T(inc => NEq(Delta(pre, post, "fc"), ExpDelta(pre, t, o, "fc")), "C19_CollectorReceives") \cup
  T(inc => \A h \in Holders \ {t.s, "fc"} : NEq(Delta(pre, post, h), ExpDelta(pre, t, o, h)), "C19_RecipientGets") \cup
  T(inc => NIsZero(SumH(LAMBDA h : Delta(pre, post, h))), "C19_ZeroSum") \cup
  T((inc /\ Failed(o)) => post.stor = pre.stor /\ SameRestaking(pre, post), "C19_FailedChangedState") \cup
  T(~Admissible(pre, t) => (o.code # 0 /\ ~Changed(pre, post)), "C19_InadmissibleIncluded") \cup
  \* a call frame that the wrapper fixture observed as reverted must leave no restaking state behind
  T((o.code = 0 /\ ~o.vmfail /\ t.to = "w" /\ NEq(post.stor["w"], 1)) => SameRestaking(pre, post), "C19_RevertedFrameKeptState")

(***************************************************************************)
(* C19 on one observed (or modelled) Cosmos tx with several Ethereum txs.   *)
(*   o = [code, gu, gus, vmfails]; the per-message result of message i is   *)
(*   [code, gus[i], vmfails[i]] (code # 0: every message failed, each is    *)
(*   charged for its whole gas limit).  Balances are only observable around *)
(*   the whole Cosmos tx, so the money clauses compare, per holder, the     *)
(*   observed change with the SUM of what the clauses demand per message.   *)
(***************************************************************************)
ObsOf(o, i) == [code |-> o.code, gu |-> IF o.code = 0 THEN o.gus[i] ELSE 0, vmfail |-> IF o.code = 0 THEN o.vmfails[i] ELSE FALSE]

\* admission of every message against the state its predecessors' ante effects leave (fee deducted, sequence bumped)
RECURSIVE AdmissibleSeq(_, _, _)
AdmissibleSeq(st, ts, i) ==
  IF i > Len(ts) THEN TRUE ELSE
  /\ Admissible(st, ts[i])
  /\ AdmissibleSeq([Move(st, ts[i].s, "fc", Fee(ts[i], st.bf)) EXCEPT !.nonce[ts[i].s] = @ + 1], ts, i + 1)

C19BatchTags(pre, post, ts, o) ==
  LET inc == o.code = 0 \/ Changed(pre, post)
      I   == DOMAIN ts
      senders == {ts[i].s : i \in I}
      exp(h) == FoldLeft(LAMBDA acc, i : NAdd(acc, ExpDelta(pre, ts[i], ObsOf(o, i), h)), N0, [i \in I |-> i])
      okd(h) == NEq(Delta(pre, post, h), exp(h))
  IN
  T(inc => post.nonce = [a \in DOMAIN pre.nonce |-> pre.nonce[a] + Cardinality({i \in I : ts[i].s = a})], "C19_Nonce") \cup
  T(o.code = 0 => \A i \in I : NLe(MinUsed(ts[i]), o.gus[i]) /\ NLe(o.gus[i], ts[i].gas), "C19_GasBounds") \cup
  T(inc => \A h \in senders : okd(h), "C19_SenderPays") \cup
  T(inc => okd("fc"), "C19_CollectorReceives") \cup
  T(inc => \A h \in Holders \ (senders \cup {"fc"}) : okd(h), "C19_RecipientGets") \cup
  T(inc => NIsZero(SumH(LAMBDA h : Delta(pre, post, h))), "C19_ZeroSum") \cup
  T((inc /\ \A i \in I : Failed(ObsOf(o, i))) => post.stor = pre.stor /\ SameRestaking(pre, post), "C19_FailedChangedState") \cup
  T(~(AdmissibleSeq(pre, ts, 1) /\ (BLOCKGAS = 0 \/ SumGas(ts) <= BLOCKGAS)) => (o.code # 0 /\ ~Changed(pre, post)), "C19_InadmissibleIncluded")
=============================================================================
