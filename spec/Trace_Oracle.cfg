SPECIFICATION Spec
CONSTANTS
  VALS = {"v1", "v2", "v3", "v4", "v5"}
  FORD <- t_FORD
  TOKENS = {"t1", "t2"}
  FIX = {"FROMTO", "WINDOW", "L26", "L8", "L25S", "RPNIL"}
POSTCONDITION Consumed
CHECK_DEADLOCK FALSE
