SPECIFICATION Spec
CONSTANTS
  VALS = {"v1", "v2", "v3"}
  FORD <- t_FORD
  TOKENS = {"t1", "t2"}
  FIX = {"FROMTO", "WINDOW", "L26"}
POSTCONDITION Consumed
CHECK_DEADLOCK FALSE
