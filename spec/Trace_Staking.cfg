SPECIFICATION Spec
CONSTANTS
  OORD <- t_OORD
  KORD <- t_KORD
  GENVALS <- t_GENVALS
  DECI <- t_DECI
  UNBOND <- t_UNBOND
  PREC <- t_PREC
  DEVS <- t_DEVS
POSTCONDITION Consumed
CHECK_DEADLOCK FALSE
