------------------------------- MODULE Oracle -------------------------------
(***************************************************************************)
(* Price oracle of exocore (x/oracle): round lifecycle, aggregation, the    *)
(* persisted replay log and the rebuild of the process-local state after a  *)
(* restart.  Properties C12 (rounds) and C14 (restart equivalence).          *)
(*                                                                         *)
(* The state is ONE VALUE S with two groups of fields:                      *)
(*   persisted (x/oracle KV store)                                          *)
(*     prices[t]  = [next, list = <<[r, p]>>]   keeper/prices.go            *)
(*     nonce[<<v,f>>]                            keeper/nonce.go             *)
(*     rmsgs[b], rmIdx                           recent_msg.go, index        *)
(*     rparams[b] = feeders of the params committed at block b, rpIdx        *)
(*     kfd = feeders of the stored Params        params.go                   *)
(*     vub                                       validator_update_block.go   *)
(*   process-local (package variables of keeper/single.go, hook H1)         *)
(*     rounds[f] = [base, next, status]          aggregator/context.go       *)
(*     aggs[f]   = worker (filter, calculator, aggregator)                   *)
(*     cmsgs, cvu, cpu, cfd (cached params item) cache/caches.go             *)
(*     c.fd = feeders of agc.params (the params the aggregator works with)   *)
(*     upd                                       updatedFeederIDs            *)
(*   plus h (height of the block being executed), c (the configuration) and  *)
(*   pw (agc.validatorsPower), cv (the validator map of the package-level    *)
(*   cache cs, a separate copy that the EndBlock merges validator updates    *)
(*   into) and dv (x/dogfood's stored validator set, read after a restart).  *)
(* Entry points are FUNCTIONS transcribed step by step from the Go code:    *)
(*   DeliverTx  ante (IncrementSequenceDecorator: nonces) + msg_server_     *)
(*              create_price.go + aggregator/*.go                            *)
(*   EndBlock   x/oracle/module.go: EndBlock, followed by Commit and the    *)
(*              BeginBlock of the next height                               *)
(*   Recache    keeper/single.go: recacheAggregatorContext (a restart)      *)
(*                                                                         *)
(* Scope: one deterministic source (id 1), rule "all sources", consensus    *)
(* mode ASAP, threshold 2/3, constant validator set and constant params     *)
(* (no MsgUpdateParams, no dogfood validator update): DESIGN.md 5/C12.      *)
(*                                                                         *)
(* FIX is a set of names of repairs applied to the MODEL (DESIGN 3.1,       *)
(* "deviations are named").  FIX = {} is the pinned snapshot d81977c; trace  *)
(* validation uses the set of the current tree.  With every fix on, the     *)
(* C12/C14 invariants hold in the bounded model.                            *)
(*   "L7"     a failed tx also restores the process-local state             *)
(*   "L8"     recache replays cached messages with distinct nonces          *)
(*   "L25"    the finalising message stays in the replay log (first         *)
(*            proposal; changes what an existing unit test asserts)         *)
(*   "L25S"   recache closes a rebuilt round whose id is already stored     *)
(*            (second proposal, fix-F-C14-L25-L8-v2.patch)                  *)
(*   "FROMTO" recache prepares the rounds also when its window is empty     *)
(*            (exocore c90bb94)                                             *)
(*   "WINDOW" recache computes its window from the stored MaxNonce, not     *)
(*            from the package default 3 (exocore 686d836)                  *)
(*   "L26"    cache pruning does not wrap around in the first blocks        *)
(*            (exocore a7fa8b9)                                             *)
(*   "RPNIL"  cacheParams.commit keeps the params of the index entry it     *)
(*            keeps (proposal fix-F-C11-RPNIL.patch)                        *)
(* The CURRENT tree (with dd9e699 and ec9ed9e) is                 *)
(* FIX = {"FROMTO","WINDOW","L26","L8","L25S","RPNIL"} (Trace_Oracle.cfg,   *)
(* MC_Oracle_gen*.cfg).                                                     *)
(***************************************************************************)
EXTENDS Num, Sequences, FiniteSets, TLC, SequencesExt, FiniteSetsExt, Folds

CONSTANTS
  VALS,      \* validator ids ("v1", ...)
  FORD,      \* sequence of feeder ids in id order (<<"f1","f2">>)
  TOKENS,    \* token ids ("t1", ...)
  FIX        \* set of repairs applied to the model (see above)

FEEDERS == {FORD[i] : i \in DOMAIN FORD}

Put(f, k, v) == [x \in DOMAIN f \cup {k} |-> IF x = k THEN v ELSE f[x]]
Del(f, k)    == [x \in DOMAIN f \ {k} |-> f[x]]
RestrictTo(f, D) == [x \in D |-> f[x]]
Pick(S) == CHOOSE x \in S : TRUE
RangeOf(s) == {s[i] : i \in DOMAIN s}
SeqOfRange(a, b) == [i \in 1..(IF b >= a THEN b - a + 1 ELSE 0) |-> a + i - 1]

None    == [some |-> FALSE, v |-> N0]
Some(x) == [some |-> TRUE, v |-> x]

\* common.ExceedsThreshold: power * ThresholdB > total * ThresholdA, (A, B) = (2, 3)
Exceeds(p, t) == p * 3 > t * 2

PowerOf(c, V) == MapThenFoldSet(LAMBDA x, y : x + y, 0, LAMBDA v : c.pw[v], LAMBDA T : CHOOSE x \in T : TRUE, V)
Total(c) == PowerOf(c, DOMAIN c.pw)
NVals(c) == Cardinality(DOMAIN c.pw)

\* common.BigIntList.Median (sort, odd: middle, even: mean of the two middle ones, Div)
Median(s) ==
  LET t == SortSeq(s, LAMBDA a, b : NLt(a, b))
      l == Len(t)
  IN IF l % 2 = 1 THEN t[(l \div 2) + 1] ELSE NQuo(NAdd(t[(l \div 2) + 1], t[l \div 2]), 2)

(***************************************************************************)
(* configuration helpers                                                   *)
(***************************************************************************)
TokOf(c, f) == c.fd[f].tok
\* every configuration names all ids of FORD; an id that is not (yet) a feeder of the params is ABSENT
ABSENT == [tok |-> "", start |-> 0, iv |-> 1, sr |-> 0, end |-> 0]
Present(fd, f) == fd[f].tok # ""

StatusOpen == 1
StatusClosed == 2

KVFields == {"prices", "nonce", "rmsgs", "rmIdx", "rparams", "rpIdx", "vub", "kfd"}

\* the persisted part of B with everything else of A
WithKVOf(A, B) == [A EXCEPT !.prices = B.prices, !.nonce = B.nonce, !.rmsgs = B.rmsgs, !.rmIdx = B.rmIdx,
                            !.rparams = B.rparams, !.rpIdx = B.rpIdx, !.vub = B.vub, !.kfd = B.kfd]
\* the process-local part of B with everything else of A
WithMemOf(A, B) == [A EXCEPT !.rounds = B.rounds, !.aggs = B.aggs, !.cmsgs = B.cmsgs, !.cvu = B.cvu, !.cpu = B.cpu, !.upd = B.upd, !.cfd = B.cfd, !.c = B.c, !.cv = B.cv, !.pw = B.pw]

(***************************************************************************)
(* genesis: InitChain + BeginBlock(1) (initAggregatorContext:               *)
(* PrepareRoundEndBlock(0) is a no-op, both cache flags are set)            *)
(***************************************************************************)
InitState(c) ==
  [ h |-> 1, c |-> c, pw |-> c.pw, cv |-> c.pw, dv |-> c.pw,
    prices |-> [t \in TOKENS |-> IF c.gen[t] > 0 THEN [next |-> 2, list |-> <<[r |-> 1, p |-> Some(NC(c.gen[t]))]>>]
                                 ELSE [next |-> 1, list |-> <<>>]],
    nonce |-> <<>>, rmsgs |-> <<>>, rmIdx |-> <<>>, rparams |-> <<>>, rpIdx |-> <<>>, vub |-> 0, kfd |-> c.fd,
    rounds |-> <<>>, aggs |-> <<>>, cmsgs |-> <<>>, cvu |-> TRUE, cpu |-> TRUE, cfd |-> c.fd, upd |-> <<>> ]

(***************************************************************************)
(* worker = filter + calculator + aggregator   (aggregator/worker.go)       *)
(***************************************************************************)
W0 == [sealed |-> FALSE, price |-> None, live |-> TRUE, fN |-> <<>>, fS |-> <<>>, calc |-> <<>>,
       reports |-> <<>>, rpower |-> 0, ds |-> "", final |-> None]

\* worker.seal: f, c, a dropped
Sealed(price) == [sealed |-> TRUE, price |-> Some(price), live |-> FALSE, fN |-> <<>>, fS |-> <<>>, calc |-> <<>>,
                  reports |-> <<>>, rpower |-> 0, ds |-> "", final |-> None]

\* filter.filtrate + addPSource (filter.go); common.Set.Add refuses when full or present
Filtrate(w, v, nonce, ps, c) ==
  LET nset == IF v \in DOMAIN w.fN THEN w.fN[v] ELSE <<>>
      okN  == Len(nset) < c.mn /\ ~(\E i \in DOMAIN nset : nset[i] = nonce)
      w1   == [w EXCEPT !.fN = Put(w.fN, v, IF okN THEN Append(nset, nonce) ELSE nset)]
  IN IF ~okN THEN [w |-> w1, list |-> <<>>]
     ELSE LET dset == IF v \in DOMAIN w1.fS THEN w1.fS[v] ELSE <<>>
              step(acc, e) == IF Len(acc.d) < c.md /\ ~(\E i \in DOMAIN acc.d : acc.d[i] = e.d)
                              THEN [d |-> Append(acc.d, e.d), l |-> Append(acc.l, e)] ELSE acc
              r == FoldLeft(step, [d |-> dset, l |-> <<>>], ps)
          IN [w |-> [w1 EXCEPT !.fS = Put(w1.fS, v, r.d)], list |-> r.l]

\* aggregator.fillPrice, deterministic-source branch: a new report gets a slot for source 1 whose
\* price is copied from any existing report when the source already has a confirmed round
AggFill(w, v, c) ==
  LET newSrc(ww, r) ==
        LET copy(acc, rep) == IF rep.has /\ rep.sp.some THEN [sp |-> rep.sp, sd |-> rep.sd] ELSE acc
            got == IF ww.ds # "" THEN FoldLeft(copy, [sp |-> None, sd |-> ""], ww.reports) ELSE [sp |-> None, sd |-> ""]
        IN [r EXCEPT !.has = TRUE, !.sp = got.sp, !.sd = got.sd]
      idx == {i \in DOMAIN w.reports : w.reports[i].v = v}
  IN IF idx # {} THEN
       LET i == Pick(idx) IN IF w.reports[i].has THEN w ELSE [w EXCEPT !.reports[i] = newSrc(w, w.reports[i])]
     ELSE
       LET r0 == [v |-> v, price |-> None, has |-> FALSE, sp |-> None, sd |-> ""]
           w1 == [w EXCEPT !.reports = Append(w.reports, r0), !.rpower = w.rpower + c.pw[v]]
       IN [w1 EXCEPT !.reports[Len(w1.reports)] = newSrc(w1, r0)]

NoConf == [some |-> FALSE, d |-> "", p |-> N0]

\* calculator.fillPrice for source 1 (calculator.go): getOrNewRound, updatePriceAndPower, the two breaks
CalcFill(w, list, v, c) ==
  IF \E i \in DOMAIN w.calc : w.calc[i].conf.some THEN [w |-> w, conf |-> NoConf]
  ELSE
    LET pw == c.pw[v]
        total == Total(c)
        step(acc, e) ==
          IF acc.stop THEN acc ELSE
          LET calc == acc.w.calc
              idx  == {i \in DOMAIN calc : calc[i].d = e.d}
          IN IF idx # {} /\ calc[Pick(idx)].conf.some THEN acc
             ELSE IF idx = {} /\ Len(calc) >= c.md * NVals(c) THEN acc
             ELSE
               LET calc1 == IF idx = {} THEN Append(calc, [d |-> e.d, pp |-> <<>>, conf |-> None]) ELSE calc
                   i  == IF idx = {} THEN Len(calc1) ELSE Pick(idx)
                   rd == calc1[i]
                   j  == {k \in DOMAIN rd.pp : rd.pp[k].p = e.p}
                   u  == IF j # {} THEN
                           LET k == Pick(j) np == rd.pp[k].w + pw IN
                           [rd |-> [rd EXCEPT !.pp[k].w = np, !.conf = IF Exceeds(np, total) THEN Some(rd.pp[k].p) ELSE None], upd |-> TRUE]
                         ELSE IF Len(rd.pp) < NVals(c) THEN
                           [rd |-> [rd EXCEPT !.pp = Append(@, [p |-> e.p, w |-> pw]), !.conf = IF Exceeds(pw, total) THEN Some(e.p) ELSE None], upd |-> TRUE]
                         ELSE [rd |-> rd, upd |-> FALSE]
                   hit == u.upd /\ u.rd.conf.some
               IN [w |-> [acc.w EXCEPT !.calc = [calc1 EXCEPT ![i] = u.rd]],
                   conf |-> IF hit THEN [some |-> TRUE, d |-> rd.d, p |-> u.rd.conf.v] ELSE acc.conf,
                   stop |-> hit]
        r == FoldLeft(step, [w |-> w, conf |-> NoConf, stop |-> FALSE], list)
    IN [w |-> r.w, conf |-> r.conf]

\* aggregator.confirmDSPrice.  The calculator never confirms a second round of a source
\* (hasConfirmedDetID), so the "id < detID" replacement branch is unreachable and not modelled.
Confirm(w, cf) ==
  IF w.ds # "" THEN w
  ELSE [w EXCEPT !.ds = cf.d,
                 !.reports = [i \in DOMAIN @ |-> IF @[i].price.some \/ ~@[i].has THEN @[i]
                                                 ELSE [@[i] EXCEPT !.sd = cf.d, !.sp = Some(cf.p)]]]

\* aggregator.aggregate + reportPrice.aggregate.  A nil price among two or more reports makes
\* BigIntList.Less dereference nil (lead L22): result "PANIC".
Aggregate(w, c) ==
  IF w.final.some THEN [w |-> w, final |-> w.final, panic |-> FALSE]
  ELSE IF Exceeds(w.rpower, Total(c)) /\ w.ds # "" THEN
    LET reps == [i \in DOMAIN w.reports |-> IF w.reports[i].price.some THEN w.reports[i]
                                            ELSE [w.reports[i] EXCEPT !.price = w.reports[i].sp]]
        w1   == [w EXCEPT !.reports = reps]
        nils == {i \in DOMAIN reps : ~reps[i].price.some}
    IN IF nils # {} /\ Len(reps) > 1 THEN [w |-> w1, final |-> None, panic |-> TRUE]
       ELSE IF nils # {} THEN [w |-> w1, final |-> None, panic |-> FALSE]
       ELSE LET fin == Some(Median([i \in DOMAIN reps |-> reps[i].price.v]))
            IN [w |-> [w1 EXCEPT !.final = fin], final |-> fin, panic |-> FALSE]
  ELSE [w |-> w, final |-> None, panic |-> FALSE]

NoItem == [has |-> FALSE, tok |-> "", price |-> N0, round |-> 0]

\* AggregatorContext.FillPrice (context.go).  Returns the state (process-local part changed),
\* the final price item, the filtered list and what happens to the message cache.
FillPrice(S, m) ==
  LET c  == [S.c EXCEPT !.pw = S.pw]   \* thresholds and report powers use the CURRENT validator powers
      f  == m.f
      w0 == IF f \in DOMAIN S.aggs THEN S.aggs[f] ELSE W0
      S0 == [S EXCEPT !.aggs = Put(S.aggs, f, w0)]
  IN IF w0.sealed THEN [S |-> S0, item |-> NoItem, list |-> <<>>, err |-> "sealed"]
     ELSE
       LET fl == Filtrate(w0, m.v, m.nonce, m.ps, c) IN
       IF fl.list = <<>> THEN [S |-> [S0 EXCEPT !.aggs[f] = fl.w], item |-> NoItem, list |-> <<>>, err |-> "ignored"]
       ELSE
         LET w1 == AggFill(fl.w, m.v, c)
             cf == CalcFill(w1, fl.list, m.v, c)
             w2 == IF cf.conf.some THEN Confirm(cf.w, cf.conf) ELSE cf.w
             ag == Aggregate(w2, c)
         IN IF ag.panic THEN [S |-> [S0 EXCEPT !.aggs[f] = ag.w], item |-> NoItem, list |-> fl.list, err |-> "PANIC"]
            ELSE IF ag.final.some THEN
              IF f \notin DOMAIN S0.rounds THEN [S |-> [S0 EXCEPT !.aggs[f] = ag.w], item |-> NoItem, list |-> fl.list, err |-> "PANIC"]
              ELSE [S |-> [S0 EXCEPT !.aggs[f] = Sealed(ag.final.v), !.rounds[f].status = StatusClosed],
                    item |-> [has |-> TRUE, tok |-> TokOf(c, f), price |-> ag.final.v, round |-> S0.rounds[f].next],
                    list |-> fl.list, err |-> ""]
            ELSE [S |-> [S0 EXCEPT !.aggs[f] = ag.w], item |-> NoItem, list |-> fl.list, err |-> ""]

\* AggregatorContext.checkMsg / sanityCheck for the message alphabet of this model
CheckMsg(S, m) ==
  IF m.v \notin DOMAIN S.c.pw THEN "not validator"
  ELSE IF Len(m.ps) = 0 \/ Len(m.ps) > S.c.md THEN "source"
  ELSE IF m.f \notin DOMAIN S.rounds \/ S.rounds[m.f].status # StatusOpen THEN "context"
  ELSE IF m.base # S.rounds[m.f].base THEN "baseblock"
  ELSE ""

(***************************************************************************)
(* stored prices (keeper/prices.go)                                         *)
(***************************************************************************)
\* AppendPriceTR: only the expected next round id; drops round next - MaxSizePrices (uint64
\* arithmetic: the subtraction wraps below zero, then the key does not exist)
AppendPriceTR(S, tok, p, round) ==
  LET pr == S.prices[tok] IN
  IF pr.next # round THEN [S |-> S, ok |-> FALSE]
  ELSE LET l1 == Append(pr.list, [r |-> pr.next, p |-> p])
           l2 == IF pr.next > S.c.ms THEN SelectSeq(l1, LAMBDA e : e.r # pr.next - S.c.ms) ELSE l1
       IN [S |-> [S EXCEPT !.prices[tok] = [next |-> pr.next + 1, list |-> l2]], ok |-> TRUE]

\* GrowRoundID: carry the latest price forward (or an empty price when there is none)
GrowRoundID(S, tok) ==
  LET pr == S.prices[tok]
      L  == {i \in DOMAIN pr.list : pr.list[i].r = pr.next - 1}
  IN IF pr.next > 1 /\ L # {} THEN AppendPriceTR(S, tok, pr.list[Pick(L)].p, pr.next).S
     ELSE AppendPriceTR(S, tok, None, pr.next).S

RemoveNonces(S, f) == [S EXCEPT !.nonce = RestrictTo(@, {k \in DOMAIN @ : k[2] # f})]
AddZeroNonces(S, f) == [S EXCEPT !.nonce = [k \in DOMAIN @ \cup {<<v, f>> : v \in DOMAIN S.c.pw} |-> IF k \in DOMAIN @ THEN @[k] ELSE 0]]

(***************************************************************************)
(* DeliverTx of a tx made of MsgCreatePrice messages                        *)
(*   ante: IncrementSequenceDecorator -> CheckAndIncreaseNonce per message  *)
(*         (an ante failure discards everything)                            *)
(*   msgs: msg_server_create_price.go: CreatePrice, in the SDK's per-tx     *)
(*         cache: a failing message discards the KV writes of ALL messages  *)
(*         of the tx but keeps the ante writes - and keeps every change     *)
(*         made to the package-level aggregator / cache (lead L7)           *)
(***************************************************************************)
Ante(S, msgs) ==
  LET step(acc, m) ==
        IF acc.err # "" THEN acc
        ELSE IF m.nonce > S.c.mn THEN [acc EXCEPT !.err = "nonce too large"]
        ELSE IF <<m.v, m.f>> \notin DOMAIN acc.nonce THEN [acc EXCEPT !.err = "feeder not found"]
        ELSE IF acc.nonce[<<m.v, m.f>>] + 1 = m.nonce THEN [acc EXCEPT !.nonce[<<m.v, m.f>>] = m.nonce]
        ELSE [acc EXCEPT !.err = "nonce not consecutive"]
  IN FoldLeft(step, [nonce |-> S.nonce, err |-> ""], msgs)

CreatePrice(S, m) ==
  LET ce == CheckMsg(S, m) IN
  IF ce # "" THEN [S |-> S, err |-> ce]
  ELSE LET fp == FillPrice(S, m) IN
       IF fp.err # "" THEN [S |-> fp.S, err |-> fp.err]
       ELSE IF fp.item.has THEN
         LET ap == AppendPriceTR(fp.S, fp.item.tok, Some(fp.item.price), fp.item.round)
             S1 == IF ap.ok THEN ap.S ELSE GrowRoundID(fp.S, fp.item.tok)
             S2 == RemoveNonces(S1, m.f)
             S3 == IF "L25" \in FIX
                   THEN [S2 EXCEPT !.cmsgs = Append(@, [f |-> m.f, v |-> m.v, ps |-> fp.list])]
                   ELSE [S2 EXCEPT !.cmsgs = SelectSeq(@, LAMBDA x : x.f # m.f)]
         IN [S |-> [S3 EXCEPT !.upd = Append(@, m.f)], err |-> ""]
       ELSE [S |-> [fp.S EXCEPT !.cmsgs = Append(@, [f |-> m.f, v |-> m.v, ps |-> fp.list])], err |-> ""]

DeliverTx(S, msgs) ==
  LET an == Ante(S, msgs) IN
  IF an.err # "" THEN [st |-> S, err |-> "ante: " \o an.err]
  ELSE
    LET S1 == [S EXCEPT !.nonce = an.nonce]
        step(acc, m) == IF acc.err # "" THEN acc ELSE CreatePrice(acc.S, m)
        run == FoldLeft(step, [S |-> S1, err |-> ""], msgs)
    IN IF run.err = "" THEN [st |-> run.S, err |-> ""]
       ELSE IF "L7" \in FIX THEN [st |-> S1, err |-> run.err]
       ELSE [st |-> WithKVOf(run.S, S1), err |-> run.err]

(***************************************************************************)
(* EndBlock (x/oracle/module.go) + Commit + BeginBlock of the next height   *)
(***************************************************************************)
\* AggregatorContext.SealRound(ctx at height h, force).  Go iterates a map; the body for
\* one feeder touches only that feeder's entries, so the order is irrelevant (fold in id order).
SealRound(S, h, force) ==
  LET c == S.c
      step(acc, f) ==
        IF f \notin DOMAIN acc.rounds THEN acc ELSE
        LET r == acc.rounds[f]
            fd == c.fd[f]
            expired == fd.end > 0 /\ h >= fd.end
            oow == h - r.base >= c.mn
            a1 == IF r.status = StatusOpen /\ (expired \/ oow \/ force)
                  THEN [rounds |-> IF expired THEN Del(acc.rounds, f) ELSE [acc.rounds EXCEPT ![f].status = StatusClosed],
                        aggs |-> Del(acc.aggs, f), failed |-> Append(acc.failed, fd.tok), sealed |-> Append(acc.sealed, f)]
                  ELSE acc
        IN IF f \in DOMAIN a1.aggs /\ a1.aggs[f].sealed
           THEN [a1 EXCEPT !.aggs = Del(@, f), !.sealed = Append(@, f)] ELSE a1
  IN FoldLeft(step, [rounds |-> S.rounds, aggs |-> S.aggs, failed |-> <<>>, sealed |-> <<>>], FORD)

\* AggregatorContext.PrepareRoundEndBlock(block)
Prepare(rounds, aggs, block, c) ==
  IF block < 1 THEN [rounds |-> rounds, aggs |-> aggs, new |-> <<>>] ELSE
  LET step(acc, f) ==
        LET fd == c.fd[f] IN
        IF ~Present(c.fd, f) \/ (fd.end > 0 /\ fd.end <= block) \/ fd.start > block THEN acc ELSE
        LET delta == block - fd.start
            left  == delta % fd.iv
            count == delta \div fd.iv
            base  == block - left
            next  == fd.sr + count
        IN IF f \notin DOMAIN acc.rounds THEN
             [acc EXCEPT !.rounds = Put(@, f, [base |-> base, next |-> next, status |-> IF left >= c.mn THEN StatusClosed ELSE StatusOpen]),
                         !.new = IF left = 0 THEN Append(@, f) ELSE @]
           ELSE IF left = 0 THEN
             [acc EXCEPT !.rounds[f] = [base |-> base, next |-> next, status |-> StatusOpen],
                         !.new = Append(@, f), !.aggs = Del(@, f)]
           ELSE IF acc.rounds[f].status = StatusOpen /\ left >= c.mn THEN [acc EXCEPT !.rounds[f].status = StatusClosed]
           ELSE acc
  IN FoldLeft(step, [rounds |-> rounds, aggs |-> aggs, new |-> <<>>], FORD)

\* cache.cacheMsgs.commit.  Snapshot d81977c: uint64 `block - MaxNonce` wraps for block < MaxNonce (lead
\* L26): no index entry is "> threshold" and every older entry is pruned.  Since a7fa8b9 ("L26" in FIX) the
\* threshold is 0 for block <= MaxNonce.
CommitMsgs(S, h) ==
  LET idx == S.rmIdx
      keep(b) == IF "L26" \in FIX THEN b > (IF h > S.c.mn THEN h - S.c.mn ELSE 0) ELSE h >= S.c.mn /\ b > h - S.c.mn
      firstKept == {i \in DOMAIN idx : keep(idx[i])}
      n == IF firstKept = {} THEN Len(idx) ELSE Min(firstKept) - 1    \* number of pruned leading entries
      pruned == {idx[i] : i \in 1..n}
  IN [S EXCEPT !.rmsgs = Put(RestrictTo(@, DOMAIN @ \ pruned), h, S.cmsgs),
               !.rmIdx = Append(SubSeq(idx, n + 1, Len(idx)), h),
               !.cmsgs = <<>>]

\* cache.cacheParams.commit (same wrap with >=; keeps the last index entry)
CommitParams(S, h) ==
  LET idx == S.rpIdx
      keep(b) == IF "L26" \in FIX THEN b >= (IF h > S.c.mn THEN h - S.c.mn ELSE 0) ELSE h >= S.c.mn /\ b >= h - S.c.mn
      firstKept == {i \in DOMAIN idx : keep(idx[i])}
      n0 == IF firstKept = {} THEN Len(idx) ELSE Min(firstKept) - 1
      pruned == {idx[i] : i \in 1..n0}
      \* "RPNIL": always keep the newest of the old entries (recache needs the params in force before its first block)
      n == IF "RPNIL" \in FIX THEN (IF n0 > 0 THEN n0 - 1 ELSE 0) ELSE IF n0 > 0 /\ n0 = Len(idx) THEN n0 - 1 ELSE n0
      \* the code deletes the store entries of ALL n0 leading index entries and only then keeps the last index
      \* entry (`i--`): the index can name a block whose params are gone, and recache can be left without any
      \* params older than its first replayed block (agc.params nil).  "RPNIL" in FIX: delete only what leaves the index.
      gone == IF "RPNIL" \in FIX THEN {idx[i] : i \in 1..n} ELSE pruned
  IN [S EXCEPT !.rparams = Put(RestrictTo(@, DOMAIN @ \ gone), h, S.cfd),
               !.rpIdx = Append(SubSeq(idx, n + 1, Len(idx)), h),
               !.cpu = FALSE,
               !.c.fd = S.cfd]      \* module.go: paramsUpdated -> agc.SetParams(cached params)

\* vu = the validator updates x/dogfood produced in this block (function validator -> new power, <<>> = none):
\* the cache of validators is updated (power 0 removes), the aggregator gets the new powers and every open
\* round is force-sealed; the validator-update block is stored by CommitCache.
ApplyVU(pw, vu) == LET m == [v \in DOMAIN pw \cup DOMAIN vu |-> IF v \in DOMAIN vu THEN vu[v] ELSE pw[v]]
                   IN RestrictTo(m, {v \in DOMAIN m : m[v] # 0})
EndBlock(S, vu) ==
  LET c  == S.c
      h  == S.h
      \* x/dogfood applied vu to its stored set earlier in this block; the oracle merges vu into the CACHE's validator
      \* map (cs.AddCache(ItemV)) and gives the aggregator every validator of the cache (cs.GetCache -> SetValidatorPowers)
      S0 == IF vu = <<>> THEN S
            ELSE [S EXCEPT !.dv = ApplyVU(S.dv, vu), !.cv = ApplyVU(S.cv, vu), !.pw = ApplyVU(S.cv, vu),
                           !.cvu = @ \/ ApplyVU(S.cv, vu) # S.cv]
      sr == SealRound(S0, h, vu # <<>>)
      S1 == [S0 EXCEPT !.rounds = sr.rounds, !.aggs = sr.aggs]
      S2 == FoldLeft(LAMBDA acc, f : RemoveNonces(acc, f), S1, sr.sealed)
      S3 == FoldLeft(LAMBDA acc, t : GrowRoundID(acc, t), S2, sr.failed)
      S4 == IF S3.cmsgs # <<>> THEN CommitMsgs(S3, h) ELSE S3
      S5 == IF S4.cvu THEN [S4 EXCEPT !.vub = h, !.cvu = FALSE] ELSE S4
      S6 == IF S5.cpu THEN CommitParams(S5, h) ELSE S5
      S7 == [S6 EXCEPT !.upd = <<>>]
      pr == Prepare(S7.rounds, S7.aggs, h, S7.c)
      S8 == [S7 EXCEPT !.rounds = pr.rounds, !.aggs = pr.aggs]
      S9 == FoldLeft(LAMBDA acc, f : AddZeroNonces(acc, f), S8, pr.new)
  IN [S9 EXCEPT !.h = h + 1]

(***************************************************************************)
(* Restart: the package variables are gone; GetAggregatorContext rebuilds   *)
(* them in the BeginBlock of height H from the store                        *)
(* (keeper/single.go: recacheAggregatorContext, then Cache.SkipCommit)      *)
(***************************************************************************)
\* Snapshot d81977c: `from` is computed from the package variable common.MaxNonce BEFORE the stored params
\* are loaded (setCommonParams runs later in the function): in a fresh process that is the compiled-in
\* default 3, whatever Params.MaxNonce is.  Since 686d836 ("WINDOW" in FIX) the stored MaxNonce is used.
DefaultMaxNonce == 3
ReplayFrom0(S) == S.h - (IF "WINDOW" \in FIX THEN S.c.mn ELSE DefaultMaxNonce) + 1
\* first block replayed by recache
ReplayFrom(S) == IF S.vub >= ReplayFrom0(S) THEN S.vub + 1 ELSE ReplayFrom0(S)

\* "L25S" (proposal fix-F-C14-L25-L8-v2.patch): AggregatorContext.CloseFinalizedRounds - a rebuilt open round
\* whose round id is already recorded in the store is closed and its worker dropped
CloseFinalized(A) ==
  IF "L25S" \notin FIX THEN A ELSE
  LET fin == {f \in DOMAIN A.rounds : A.rounds[f].status = StatusOpen /\ A.prices[TokOf(A.c, f)].next > A.rounds[f].next}
  IN [A EXCEPT !.rounds = [f \in DOMAIN @ |-> IF f \in fin THEN [@[f] EXCEPT !.status = StatusClosed] ELSE @[f]],
               !.aggs = RestrictTo(@, DOMAIN @ \ fin)]

\* recache works with the params it finds in the RecentParams log; agc.params is nil until one is selected.
\* With nil params PrepareRoundEndBlock does nothing (protobuf getter on a nil pointer), but newWorker
\* (GetTokenInfo) and SealRound's feeder lookup dereference it: PANIC in BeginBlock.
WithFd(S, fd) == [S EXCEPT !.c.fd = fd]
MaxOf(B) == CHOOSE x \in B : \A y \in B : y <= x

Recache(S) ==
  LET H  == S.h
      from0 == ReplayFrom0(S)
      to == H
      \* caches after recache: params item = the stored params (AddCache(ItemP(GetParams))), flags cleared by SkipCommit
      \* validator powers and the cache's validator map are both rebuilt from x/dogfood's stored set
      E  == [S EXCEPT !.rounds = <<>>, !.aggs = <<>>, !.cmsgs = <<>>, !.cvu = FALSE, !.cpu = FALSE, !.upd = <<>>, !.cfd = S.kfd,
                      !.pw = S.dv, !.cv = S.dv]
      \* the last lines of recache: agc.params := stored params
      Fin(A) == CloseFinalized(WithFd(A, S.kfd))
      Ok(A) == [st |-> Fin(A), err |-> ""]
  IN IF S.vub = 0 \/ DOMAIN S.rparams = {} THEN
       \* first start: initAggregatorContext (params from the store)
       LET pr == Prepare(<<>>, <<>>, H - 1, WithFd(S, S.kfd).c)
       IN [st |-> [WithFd(E, S.kfd) EXCEPT !.rounds = pr.rounds, !.aggs = pr.aggs, !.cvu = TRUE, !.cpu = TRUE], err |-> ""]
     ELSE
       LET from == IF S.vub >= from0 THEN S.vub + 1 ELSE from0 IN
       IF from >= to THEN
         \* params = the newest entry of the log
         LET fd == S.rparams[MaxOf(DOMAIN S.rparams)] IN
         IF "FROMTO" \in FIX THEN LET pr == Prepare(<<>>, <<>>, to - 1, WithFd(S, fd).c) IN Ok([E EXCEPT !.rounds = pr.rounds, !.aggs = pr.aggs])
         ELSE Ok(E)
       ELSE
         LET \* params selection: the newest logged params older than block b and newer than the last selection
             pick(acc, b) == LET B == {x \in DOMAIN S.rparams : x < b /\ x > acc.prev} IN
                             IF B = {} THEN acc ELSE [acc EXCEPT !.prev = MaxOf(B), !.nil = FALSE, !.A = WithFd(@, S.rparams[MaxOf(B)])]
             block(acc0, b) ==
               IF acc0.panic THEN acc0 ELSE
               LET acc == pick(acc0, b)
                   c  == acc.A.c
                   pr == IF acc.nil THEN [rounds |-> acc.A.rounds, aggs |-> acc.A.aggs] ELSE Prepare(acc.A.rounds, acc.A.aggs, b - 1, c)
                   A1 == [acc.A EXCEPT !.rounds = pr.rounds, !.aggs = pr.aggs]
                   msgs == IF b \in DOMAIN S.rmsgs THEN S.rmsgs[b] ELSE <<>>
                   \* replayed messages carry no base block and nonce 0 ("L8": 1, 2, ... per validator and feeder);
                   \* errors are ignored, panics are not
                   fill(a, i) ==
                     IF a.panic THEN a ELSE
                     LET k  == <<msgs[i].v, msgs[i].f>>
                         n  == IF k \in DOMAIN a.rn THEN a.rn[k] + 1 ELSE 1
                         fp == FillPrice(a.A, [v |-> msgs[i].v, f |-> msgs[i].f, base |-> 0, ps |-> msgs[i].ps,
                                               nonce |-> IF "L8" \in FIX THEN n ELSE 0])
                     IN [A |-> fp.S, rn |-> Put(a.rn, k, n), panic |-> acc.nil \/ fp.err = "PANIC"]
                   A2 == FoldLeft(fill, [A |-> A1, rn |-> acc.rn, panic |-> FALSE], [i \in DOMAIN msgs |-> i])
                   sealPanic == acc.nil /\ \E f \in DOMAIN A2.A.rounds : A2.A.rounds[f].status = StatusOpen
                   sr == IF acc.nil THEN [rounds |-> A2.A.rounds, aggs |-> A2.A.aggs] ELSE SealRound(A2.A, b, FALSE)
               IN [acc EXCEPT !.A = [A2.A EXCEPT !.rounds = sr.rounds, !.aggs = sr.aggs], !.rn = A2.rn, !.panic = A2.panic \/ sealPanic]
             R0 == FoldLeft(block, [A |-> E, rn |-> <<>>, prev |-> 0, nil |-> TRUE, panic |-> FALSE], SeqOfRange(from, to - 1))
             R1 == pick(R0, to)
             pr == IF R1.nil THEN [rounds |-> R1.A.rounds, aggs |-> R1.A.aggs] ELSE Prepare(R1.A.rounds, R1.A.aggs, to - 1, R1.A.c)
         IN IF R0.panic THEN [st |-> S, err |-> "PANIC"]
            ELSE Ok([R1.A EXCEPT !.rounds = pr.rounds, !.aggs = pr.aggs])

\* msg_server_update_params.go: UpdateParams with one TokenFeeder in the message;
\* Params.UpdateTokenFeeder (which always works on the LATEST feeder of the message's token) + Params.Validate,
\* then SetParams and cs.AddCache(ItemP).  Two message shapes:
\*   "Upd" [f, end]              TokenID = token of feeder f, EndBlock = end, nothing else set
\*   "Add" [tok, start, iv, sr]  TokenID, StartBaseBlock, Interval, StartRoundID set, EndBlock = 0
IdsOf(fd, tok) == {i \in DOMAIN FORD : fd[FORD[i]].tok = tok}
LatestOf(fd, tok) == FORD[Max(IdsOf(fd, tok))]
NextFree(fd) == LET A == {i \in DOMAIN FORD : ~Present(fd, FORD[i])} IN IF A = {} THEN "" ELSE FORD[Min(A)]
\* Params.Validate, the token-feeder part (feeders in id order; one chain of feeders per token)
ValidFeeders(fd, mn) ==
  \A i \in DOMAIN FORD :
    LET f == FORD[i] x == fd[f] IN
    Present(fd, f) =>
      /\ x.sr >= 1 /\ x.iv >= 1 /\ x.start >= 1
      /\ (x.end > 0 => x.start < x.end /\ (x.end - x.start) % x.iv >= mn)
      /\ x.iv >= 2 * mn
      /\ LET P == {j \in IdsOf(fd, x.tok) : j < i} IN
         P # {} => LET p == fd[FORD[Max(P)]] IN
                   p.end # 0 /\ p.end < x.start /\ x.sr = p.sr + (p.end - p.start) \div p.iv + 1
SetFeeders(S, fd) ==
  IF ~ValidFeeders(fd, S.c.mn) THEN [st |-> S, err |-> "invalid params"]
  ELSE [st |-> [S EXCEPT !.kfd = fd, !.cfd = fd, !.cpu = TRUE], err |-> ""]

UpdateParams(S, a) ==
  LET h  == S.h
      f  == LatestOf(S.kfd, S.kfd[a.f].tok)
      tf == S.kfd[f]
      bad == IF tf.start > h THEN a.end = 0 \/ a.end <= h           \* not started yet: EndBlock must lie in the future
             ELSE IF tf.end = 0 \/ tf.end > h THEN a.end = 0 \/ a.end <= h   \* running
             ELSE TRUE                                             \* stopped: StartBaseBlock (0) <= height
  IN IF ~Present(S.kfd, a.f) \/ bad THEN [st |-> S, err |-> "invalid tokenFeeder to update"]
     ELSE SetFeeders(S, [S.kfd EXCEPT ![f].end = a.end])

AddFeeder(S, a) ==
  LET h == S.h
      nf == [tok |-> a.tok, start |-> a.start, iv |-> a.iv, sr |-> a.sr, end |-> 0]
  IN IF IdsOf(S.kfd, a.tok) = {} THEN
       \* first feeder of the token: appended as it is
       IF NextFree(S.kfd) = "" THEN [st |-> S, err |-> "out of model: no free feeder id"]
       ELSE SetFeeders(S, [S.kfd EXCEPT ![NextFree(S.kfd)] = nf])
     ELSE
       LET f == LatestOf(S.kfd, a.tok) tf == S.kfd[f] IN
       IF tf.start > h THEN
         \* latest feeder not started yet: its start block and interval are replaced (the round id is not)
         IF a.start <= h THEN [st |-> S, err |-> "invalid StartBaseBlock"]
         ELSE SetFeeders(S, [S.kfd EXCEPT ![f].start = a.start, ![f].iv = a.iv])
       ELSE IF tf.end = 0 \/ tf.end > h THEN [st |-> S, err |-> "invalid EndBlock"]   \* running: only EndBlock may be set
       ELSE
         \* latest feeder stopped: a new feeder resumes the token with the next round id
         IF a.start <= h \/ a.sr # tf.sr + (tf.end - tf.start) \div tf.iv + 1 THEN [st |-> S, err |-> "invalid StartBaseBlock or StartRoundID"]
         ELSE IF NextFree(S.kfd) = "" THEN [st |-> S, err |-> "out of model: no free feeder id"]
         ELSE SetFeeders(S, [S.kfd EXCEPT ![NextFree(S.kfd)] = nf])

(***************************************************************************)
(* entry point table                                                        *)
(***************************************************************************)
Apply(S, ev, a) ==
  IF ev = "Tx" THEN DeliverTx(S, a.msgs)
  ELSE IF ev = "EndBlock" THEN
    LET E == EndBlock(S, a.vu) IN IF a.restart THEN Recache(E) ELSE [st |-> E, err |-> ""]
  ELSE IF ev = "Upd" THEN UpdateParams(S, a)
  ELSE IF ev = "Add" THEN AddFeeder(S, a)
  ELSE IF ev = "Stake" THEN [st |-> S, err |-> ""]     \* a delegation: no oracle state changes until the epoch ends
  ELSE [st |-> S, err |-> "unknown event"]

(***************************************************************************)
(* PROPERTY C12 - predicates over (configuration, stored prices, ghosts)    *)
(***************************************************************************)
\* index of the round of feeder f whose window contains block h (blocks base+1 .. base+mn)
RoundIdx(c, f, h) == (h - 1 - c.fd[f].start) \div c.fd[f].iv

FeederLive(c, f, hh) == Present(c.fd, f) /\ hh >= c.fd[f].start /\ (c.fd[f].end = 0 \/ hh < c.fd[f].end)

\* NoGaps, evaluated right after the EndBlock of height hh (DESIGN 5/C12): the stored next round
\* id of the feeder's token as a function of the height alone
NextLow(c, f, hh) ==
  LET k == (hh - c.fd[f].start) \div c.fd[f].iv
      left == (hh - c.fd[f].start) % c.fd[f].iv
  IN IF left = 0 THEN c.fd[f].sr + k ELSE IF left < c.mn THEN c.fd[f].sr + k ELSE c.fd[f].sr + k + 1
NextHigh(c, f, hh) ==
  LET k == (hh - c.fd[f].start) \div c.fd[f].iv
      left == (hh - c.fd[f].start) % c.fd[f].iv
  IN IF left = 0 THEN c.fd[f].sr + k ELSE c.fd[f].sr + k + 1

\* stored round ids are consecutive and end at next - 1
Consecutive(pr) ==
  /\ \A i \in DOMAIN pr.list : pr.list[i].r = pr.next - 1 - (Len(pr.list) - i)
Retention(pr, c) == Len(pr.list) <= c.ms

\* submissions: set of [f, k, v, d, p] (accepted reports of round k of feeder f)
SubsOf(subs, f, k) == {s \in subs : s.f = f /\ s.k = k}
\* FinalOnlyWithSupermajority + Median (one deterministic source: every reporting validator's value
\* is the value agreed for the source round, and the median of equal values is that value)
Supermajority(c, subs, f, k) ==
  Exceeds(PowerOf(c, {s.v : s \in SubsOf(subs, f, k)}), Total(c))
Agreed(c, subs, f, k, price) ==
  \E s \in SubsOf(subs, f, k) :
     /\ s.p = price
     /\ Exceeds(PowerOf(c, {x.v : x \in {y \in SubsOf(subs, f, k) : y.d = s.d /\ y.p = s.p}}), Total(c))

\* ghost update: the reports of an ACCEPTED tx (code 0) executed in block h
AddSubs(subs, c, h, msgs) ==
  subs \cup UNION {{[f |-> msgs[i].f, k |-> RoundIdx(c, msgs[i].f, h), v |-> msgs[i].v, d |-> msgs[i].ps[j].d, p |-> msgs[i].ps[j].p] :
                       j \in DOMAIN msgs[i].ps} : i \in DOMAIN msgs}

(***************************************************************************)
(* PROPERTY C14 - what a node shows to the outside                          *)
(***************************************************************************)
Stored(S) == [prices |-> S.prices, nonce |-> S.nonce, rmsgs |-> S.rmsgs, rmIdx |-> S.rmIdx,
              rparams |-> S.rparams, rpIdx |-> S.rpIdx, vub |-> S.vub, kfd |-> S.kfd]
Mem(S) == [pw |-> S.pw, cv |-> S.cv, rounds |-> S.rounds, aggs |-> S.aggs, cmsgs |-> S.cmsgs, cvu |-> S.cvu, cpu |-> S.cpu, upd |-> S.upd, cfd |-> S.cfd, afd |-> S.c.fd]
=============================================================================
