SPECIFICATION Spec
CONSTANTS
  VALS = {"v1", "v2", "v3"}
  OTHERS = {"a1"}
  POWER <- c_POWER
  FIDS = {1}
  FEED <- c_FEED2
  MAXNONCE = 1
  MAXDETID = 1
  THA = 2
  THB = 3
  DETS = {"d1", "d2"}
  DEV = {"L7"}
  MAXH = 7
  MAXTX = 3
  MAXCHK = 2
  MAXOPS = 26
  MUTS = {"feeder", "baseP", "baseM", "gap", "repeat", "huge", "dec", "ts4", "ts5", "ts6", "src", "oor", "nosrc", "detall"}
  MUTSC = {"feeder", "baseP", "baseM", "gap", "repeat", "huge", "dec", "ts4", "ts5", "ts6", "src", "oor", "nosrc", "detall"}
  MUTS2 = {"baseP", "gap", "dec", "ts6", "src", "oor", "repeat"}
  SIGS = {"zero", "forged", "pkmismatch", "none"}
  MODES = {"deliver", "check", "recheck"}
  VALOUT = {}
  MAXEP = 0
  EMITLVL = 90
  BIAS = TRUE
INVARIANTS EmitAtDepth
CHECK_DEADLOCK FALSE
