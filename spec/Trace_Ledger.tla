---------------------------- MODULE Trace_Ledger ----------------------------
(***************************************************************************)
(* Trace validation for the ledger family (C01 C02 C03 C04 C09-ledger).     *)
(*                                                                         *)
(* Input: trace.ndjson written by `harness ledger` - one line per event     *)
(* executed on the REAL keepers: event name, concrete arguments, reported   *)
(* result, and the full ledger projection after the event.                  *)
(*                                                                         *)
(* Every line is consumed (the run is a deterministic replay).  For each    *)
(* step two families of checks are evaluated and reported as TAG lines:     *)
(*   C..  property lane : the property's predicates on the OBSERVED states  *)
(*                        and on observed pre/post pairs (ghosts carried    *)
(*                        here).  A tag = the real code violated a property.*)
(*   STRICT_.. strict lane : observed post-state / result differ from       *)
(*                        Apply(pre, event, args) of spec/Ledger.tla, i.e.  *)
(*                        the code no longer follows the model (drift).     *)
(***************************************************************************)
EXTENDS Ledger, Json

Trace == ndJsonDeserialize("trace.ndjson")
Hdr   == Trace[1].cfg

\* constants of Ledger are bound to the trace header (cfg: X <- t_X)
t_SORD == Hdr.sord
t_OORD == Hdr.oord
t_AORD == Hdr.aord
t_KIND == Hdr.kind
t_REGISTERED == {Hdr.registered[i] : i \in DOMAIN Hdr.registered}
t_HOLDOPS == {Hdr.holdops[i] : i \in DOMAIN Hdr.holdops}
t_HOOKED == Hdr.hooked
t_DECI == Hdr.deci
t_PRICE == Hdr.price
t_PDEC == Hdr.pdec
t_UNBOND == Hdr.unbond
t_PREC == "1000000000000000000"

VARIABLES l, L, G, O, cov
\* l: next line; L: observed store; G: ghosts (cumulative flows); O: exit-path ghosts
\*   O.orig[k]   = [s, a, o, amt, complete] of every record ever seen, as first seen
\*   O.gone      = keys of records that were released
\*   cov: coverage goals (Ledger!Goals) reached so far by the real executions of this trace
vars == <<l, L, G, O, cov>>


(***************************************************************************)
(* logged projection -> store value (same constructors as the model)        *)
(***************************************************************************)
Pick(S) == CHOOSE x \in S : TRUE
FromLog(j) ==
  [ h      |-> j.h,
    total  |-> [a \in ASSETS |-> IF a \in DOMAIN j.total THEN j.total[a] ELSE N0],
    stk    |-> [k \in SKeys |->
                  LET R == {r \in Range(j.stk) : r.s = k[1] /\ r.a = k[2]} IN
                  IF R = {} THEN ZeroStk ELSE LET r == Pick(R) IN [ex |-> TRUE, dep |-> r.dep, wd |-> r.wd, pend |-> r.pend]],
    pool   |-> [k \in PKeys |->
                  LET R == {r \in Range(j.pool) : r.o = k[1] /\ r.a = k[2]} IN
                  IF R = {} THEN ZeroPool ELSE LET r == Pick(R) IN [ex |-> TRUE, amt |-> r.amt, pend |-> r.pend, tsh |-> r.tsh, osh |-> r.osh]],
    del    |-> [k \in DKeys |->
                  LET R == {r \in Range(j.del) : r.s = k[1] /\ r.a = k[2] /\ r.o = k[3]} IN
                  IF R = {} THEN ZeroDel ELSE LET r == Pick(R) IN [ex |-> TRUE, sh |-> r.sh, wait |-> r.wait]],
    slist  |-> [k \in PKeys |->
                  LET R == {r \in Range(j.slist) : r.o = k[1] /\ r.a = k[2]} IN
                  IF R = {} THEN [ex |-> FALSE, seq |-> <<>>] ELSE [ex |-> TRUE, seq |-> Pick(R).seq]],
    assoc  |-> [s \in STAKERS |->
                  LET R == {r \in Range(j.assoc) : r.s = s} IN IF R = {} THEN "" ELSE Pick(R).o],
    recs   |-> [k \in {<<r.o, r.start, r.nonce, r.txh>> : r \in Range(j.recs)} |->
                  LET r == Pick({x \in Range(j.recs) : <<x.o, x.start, x.nonce, x.txh>> = k}) IN
                  [s |-> r.s, a |-> r.a, o |-> r.o, start |-> r.start, nonce |-> r.nonce, txh |-> r.txh,
                   complete |-> r.complete, amt |-> r.amt, actual |-> r.actual]],
    idxS   |-> [k \in {<<r.s, r.a, r.nonce>> : r \in Range(j.idxS)} |->
                  Pick({x \in Range(j.idxS) : <<x.s, x.a, x.nonce>> = k}).k],
    idxP   |-> [k \in {<<r.complete, r.nonce>> : r \in Range(j.idxP)} |->
                  Pick({x \in Range(j.idxP) : <<x.complete, x.nonce>> = k}).k],
    hold   |-> [k \in {r.k : r \in {x \in Range(j.hold) : x.n > 0}} |-> Pick({x \in Range(j.hold) : x.k = k}).n],
    sinfo  |-> {<<r.o, r.id>> : r \in Range(j.sinfo)},
    bal    |-> [s \in STAKERS |-> IF s \in DOMAIN j.bal THEN j.bal[s] ELSE N0],
    escrow |-> j.escrow ]

\* the model keeps a zero hold count as "absent"; normalise the model side the same way
NormHold(st) == [st EXCEPT !.hold = [k \in {x \in DOMAIN st.hold : st.hold[x] > 0} |-> st.hold[k]]]

InitG(st) ==
  [ZeroG EXCEPT !.cumDep = [a \in ASSETS |-> st.total[a]],
                !.cumSlash = [a \in ASSETS |-> IF KIND[a] = "nat" THEN N0 ELSE NSub(st.total[a], HeldBy(st, a))]]
InitO(st) ==
  [orig |-> [k \in DOMAIN st.recs |-> [s |-> st.recs[k].s, a |-> st.recs[k].a, o |-> st.recs[k].o, amt |-> st.recs[k].amt, complete |-> st.recs[k].complete]],
   gone |-> {}]

(***************************************************************************)
(* property lane                                                           *)
(***************************************************************************)
T(holds, tag) == IF holds THEN {} ELSE {tag}

StateTags(st, g) ==
  T(Conservation(st, g), "C01_Conservation") \cup T(Published(st, g), "C01_Published") \cup
  T(EscrowCovers(st), "C01_Escrow") \cup T(NonNegative(st), "C01_NonNegative") \cup
  T(ShareSum(st), "C02_ShareSum") \cup T(SelfShare(st), "C02_SelfShare") \cup
  T(ListExact(st), "C02_ListExact") \cup T(EmptyPool(st), "C02_EmptyPool") \cup
  T(PendingSums(st), "C03_PendingSums") \cup T(IndexBijective(st), "C03_IndexBijective")

AbsDiffLe1(x, y) == NLe(NSub(x, y), 1) /\ NLe(NSub(y, x), 1)

\* C02 fairness: a (un)delegation by one staker moves nobody else's redeemable value by more than 1
Fair(pre, post, a) ==
  \A k \in DKeys : (k[1] # a.s /\ k[2] = a.a /\ k[3] = a.o) =>
      AbsDiffLe1(Val(pre, k[1], k[2], k[3]), Val(post, k[1], k[2], k[3]))

NewRecKeys(pre, post) == DOMAIN post.recs \ DOMAIN pre.recs

\* what a staker holds in the open: withdrawable (LST/NST) or bank balance (native)
Liquid(st, s, a) == IF KIND[a] = "nat" THEN (IF s \in DOMAIN st.bal THEN st.bal[s] ELSE N0) ELSE st.stk[<<s, a>>].wd

StepTags(pre, post, ev, a, ok, o) ==
  LET sameRecs == /\ DOMAIN pre.recs \subseteq DOMAIN post.recs
                  /\ \A k \in DOMAIN pre.recs :
                        /\ post.recs[k].s = pre.recs[k].s /\ post.recs[k].a = pre.recs[k].a
                        /\ post.recs[k].amt = pre.recs[k].amt
                        /\ post.recs[k].complete = pre.recs[k].complete
                        /\ (ev \notin {"Slash", "NstUpdate"} => post.recs[k].actual = pre.recs[k].actual)
                        /\ NLe(post.recs[k].actual, pre.recs[k].actual)
  IN
  \* --- C01: only deposits / positive NST adjustments create value ---
  T(\A x \in ASSETS : KIND[x] = "nat" \/ ~NGt(HeldBy(post, x), HeldBy(pre, x)) \/
        (ok /\ ((ev = "Deposit" /\ a.a = x) \/ (ev = "NstUpdate" /\ a.a = x /\ NIsPos(a.d)))),
    "C01_OnlyDepositsCreate") \cup
  \* --- C01: a negative NST adjustment takes exactly the requested amount out of the ledger as long as
  \*     the staker's withdrawable balance and pending undelegations cover it (integer arithmetic, no
  \*     rounding involved); beyond that it continues into the delegated shares (rounded per operator),
  \*     and it never takes more than requested (up to the precision of the 18-decimal proportion) ---
  (IF ev = "NstUpdate" /\ ok /\ NIsNeg(a.d) THEN
     LET want == NNeg(a.d)
         liquid == NAdd(pre.stk[<<a.s, a.a>>].wd,
                        SumF({k \in DOMAIN pre.recs : pre.recs[k].s = a.s /\ pre.recs[k].a = a.a}, LAMBDA k : pre.recs[k].actual))
         dec == NSub(HeldBy(pre, a.a), HeldBy(post, a.a))
         recsOf == {k \in DOMAIN pre.recs : pre.recs[k].s = a.s /\ pre.recs[k].a = a.a}
         owedBefore == SumF(recsOf, LAMBDA k : pre.recs[k].actual)
         owedAfter  == SumF({k \in recsOf : k \in DOMAIN post.recs}, LAMBDA k : post.recs[k].actual)
         fromPending == NMin(NMax(0, NSub(want, pre.stk[<<a.s, a.a>>].wd)), owedBefore)
         \* the part that reaches the delegated shares is removed with the 18-decimal proportion
         \* remaining / delegated, rounded half-even: it may exceed the request by at most one unit of the last
         \* decimal of that proportion times the delegated amount, plus one unit per operator
         slack == NAdd(DecTruncInt(HeldBy(pre, a.a), PREC), Cardinality(OPERATORS))
     IN T(NLe(dec, NAdd(want, slack)) /\ NGe(dec, NMin(want, liquid)), "C01_NstAdjustmentNotApplied") \cup
        \* C03: the part of the decrease that falls on pending undelegations is recorded in them
        \* ("recorded amount less any slashing applied while it was pending")
        T(NEq(NSub(owedBefore, owedAfter), fromPending), "C03_PendingSlashNotRecorded")
   ELSE {}) \cup
  \* --- C09: a reported failure leaves no trace ---
  T(ok \/ ev = "EndBlock" \/ post = pre, "C09_FailedButChanged") \cup
  \* --- C02: fairness and amounts of share-moving operations ---
  (IF ev \in {"Delegate", "Undelegate"} /\ ok THEN T(Fair(pre, post, a), "C02_Fair") ELSE {}) \cup
  (IF ev = "Delegate" /\ ok /\ ~NIsPos(pre.del[<<a.s, a.a, a.o>>].sh)
   THEN T(LET v == Val(post, a.s, a.a, a.o) IN NLe(v, a.x) /\ NGe(v, NSub(a.x, 1)), "C02_RoundTripIn") ELSE {}) \cup
  (IF ev = "Undelegate" /\ ok
   THEN T(\A k \in NewRecKeys(pre, post) : NLe(post.recs[k].amt, a.x) /\ NGe(post.recs[k].amt, NSub(a.x, 1)), "C02_RoundTripOut") ELSE {}) \cup
  \* --- C03: acceptance ---
  \* "within the staker's current position": x <= sh*amt/tsh as exact rationals (the rounded query
  \* value Val may exceed the exact value by less than one unit)
  (IF ev = "Undelegate" /\ NIsPos(a.x) /\ pre.del[<<a.s, a.a, a.o>>].ex /\ pre.pool[<<a.o, a.a>>].ex
      /\ NIsPos(pre.pool[<<a.o, a.a>>].tsh)
      /\ NLe(NMul(a.x, pre.pool[<<a.o, a.a>>].tsh), NMul(pre.del[<<a.s, a.a, a.o>>].sh, pre.pool[<<a.o, a.a>>].amt))
   THEN T(ok, "C03_AcceptUndelegate") ELSE {}) \cup
  (IF ev = "Withdraw" /\ KIND[a.a] # "nat" /\ a.a \in REGISTERED /\ NLe(a.x, pre.stk[<<a.s, a.a>>].wd) /\ ~NIsNeg(a.x)
   THEN T(ok, "C03_AcceptWithdraw") ELSE {}) \cup
  \* --- C03: exactly one record per accepted request, nothing overwritten ---
  (IF ev = "Undelegate" /\ ok
   THEN T(/\ Cardinality(NewRecKeys(pre, post)) = 1
          /\ Cardinality(DOMAIN post.idxS) = Cardinality(DOMAIN pre.idxS) + 1
          /\ Cardinality(DOMAIN post.idxP) = Cardinality(DOMAIN pre.idxP) + 1
          /\ \A k \in NewRecKeys(pre, post) :
                LET r == post.recs[k] IN
                /\ r.s = a.s /\ r.a = a.a /\ r.o = a.o /\ r.start = pre.h
                /\ r.actual = r.amt
                /\ k \notin o.gone /\ k \notin DOMAIN o.orig,
          "C03_OneRecord") ELSE {}) \cup
  (IF ev # "EndBlock" THEN T(sameRecs, "C03_RecordLostOrChanged") ELSE {}) \cup
  (IF ev = "MsgUndelegate" /\ ok
   THEN T(/\ Cardinality(NewRecKeys(pre, post)) = Len(a.items)
          /\ Cardinality(DOMAIN post.idxS) = Cardinality(DOMAIN pre.idxS) + Len(a.items)
          /\ Cardinality(DOMAIN post.idxP) = Cardinality(DOMAIN pre.idxP) + Len(a.items)
          /\ \A k \in NewRecKeys(pre, post) : post.recs[k].s = a.s /\ post.recs[k].a = "nat" /\ k \notin o.gone /\ k \notin DOMAIN o.orig,
          "C03_OneRecord") ELSE {}) \cup
  (IF ev \notin {"Undelegate", "MsgUndelegate", "EndBlock"} THEN T(DOMAIN post.recs = DOMAIN pre.recs, "C03_SpuriousRecord") ELSE {}) \cup
  \* --- C03: release timing and credit at EndBlock(h), h = pre.h ---
  (IF ev = "EndBlock" THEN
     LET rel == DOMAIN pre.recs \ DOMAIN post.recs
         due(k) == pre.recs[k].complete <= pre.h /\ HoldOf(pre, k) = 0
     IN T(\A k \in rel : pre.recs[k].complete <= pre.h, "C03_ReleasedEarly") \cup
        T(\A k \in rel : HoldOf(pre, k) = 0, "C03_ReleasedWhileHeld") \cup
        T(\A k \in DOMAIN pre.recs : due(k) => k \in rel, "C03_NotReleasedWhenDue") \cup
        T(DOMAIN post.recs \subseteq DOMAIN pre.recs, "C03_SpuriousRecord") \cup
        T(\A k \in DOMAIN post.recs :
             /\ post.recs[k].amt = pre.recs[k].amt /\ post.recs[k].actual = pre.recs[k].actual
             /\ post.recs[k].s = pre.recs[k].s
             /\ (post.recs[k].complete # pre.recs[k].complete =>
                    HoldOf(pre, k) > 0 /\ pre.recs[k].complete <= pre.h /\ post.recs[k].complete = pre.h + 1),
          "C03_RecordLostOrChanged") \cup
        \* C09 (block-end item isolation): an item that could not be processed leaves no partial effect
        T((\E k \in DOMAIN pre.recs : due(k) /\ k \in DOMAIN post.recs) => PendingSums(post) \/ ~PendingSums(pre),
          "C09_EndBlockItemPartial") \cup
        T(\A s \in STAKERS, x \in ASSETS :
             NEq(NSub(Liquid(post, s, x), Liquid(pre, s, x)),
                 SumF({k \in rel : pre.recs[k].s = s /\ pre.recs[k].a = x}, LAMBDA k : pre.recs[k].actual)),
          "C03_Credit")
   ELSE {}) \cup
  \* --- C04: slashing ---
  (IF ev = "Slash" /\ ok THEN
     LET pr == SlashProportion(pre, a)
         p  == pr.p
         lo(base) == DecTruncInt(DecMulInt(NMax(0, NSub(p, 1)), base), PREC)
         hi(base) == DecTruncInt(DecMulInt(NMin(PREC, NAdd(p, 1)), base), PREC)
         atRisk(k) == pre.recs[k].o = a.o /\ pre.recs[k].start >= a.infr
         cutRec(k) == NSub(pre.recs[k].actual, post.recs[k].actual)
         cutPool(x) == NSub(pre.pool[<<a.o, x>>].amt, post.pool[<<a.o, x>>].amt)
     IN T(pr.err = "" /\ ~NIsNeg(p) /\ NLe(p, PREC), "C04_Proportion") \cup
        T(\A x \in ASSETS : pre.pool[<<a.o, x>>].ex =>
              NGe(cutPool(x), lo(pre.pool[<<a.o, x>>].amt)) /\ NLe(cutPool(x), hi(pre.pool[<<a.o, x>>].amt)),
          "C04_SameFractionPools") \cup
        T(\A k \in DOMAIN pre.recs : (atRisk(k) /\ k \in DOMAIN post.recs) =>
              /\ NGe(cutRec(k), NMin(pre.recs[k].actual, lo(pre.recs[k].amt)))
              /\ NLe(cutRec(k), NMin(pre.recs[k].actual, hi(pre.recs[k].amt))),
          "C04_SameFractionUndelegations") \cup
        T(\A k \in DOMAIN pre.recs : (~atRisk(k) /\ k \in DOMAIN post.recs) => post.recs[k] = pre.recs[k],
          "C04_NotAtRiskTouched") \cup
        T(/\ post.stk = pre.stk /\ post.total = pre.total /\ post.bal = pre.bal /\ post.escrow = pre.escrow
          /\ post.assoc = pre.assoc /\ post.idxS = pre.idxS /\ post.idxP = pre.idxP /\ post.hold = pre.hold
          /\ \A k \in PKeys : k[1] # a.o => post.pool[k] = pre.pool[k] /\ post.slist[k] = pre.slist[k]
          /\ \A k \in PKeys : k[1] = a.o => post.pool[k].pend = pre.pool[k].pend
          /\ \A k \in DKeys : k[3] # a.o => post.del[k] = pre.del[k]
          /\ \A k \in DKeys : k[3] = a.o =>
                /\ post.del[k].wait = pre.del[k].wait
                /\ (post.del[k].sh = pre.del[k].sh \/ (NIsZero(post.del[k].sh) /\ NIsZero(post.pool[<<k[3], k[2]>>].amt))),
          "C04_Frame") \cup
        T(<<a.o, a.id>> \notin pre.sinfo, "C04_ReplayAccepted")
   ELSE {}) \cup
  (IF ev = "Slash" /\ <<a.o, a.id>> \in pre.sinfo THEN T(post = pre, "C04_ReplaySlashedAgain") ELSE {})

\* C04 "the recorded execution equals the actual reductions" needs the logged slash info
RecordedTags(pre, post, a, ok, jinfo) ==
  IF ~ok THEN {} ELSE
  LET R == {r \in Range(jinfo) : r.o = a.o /\ r.id = a.id} IN
  IF R = {} THEN {"C04_NotRecorded"} ELSE
  LET r == Pick(R) IN
  T(\A x \in ASSETS : pre.pool[<<a.o, x>>].ex =>
        \E e \in Range(r.pools) : e.a = x /\ NEq(e.cut, NSub(pre.pool[<<a.o, x>>].amt, post.pool[<<a.o, x>>].amt)),
    "C04_RecordedPools") \cup
  T(NEq(SumF(DOMAIN r.und, LAMBDA i : r.und[i].cut),
        SumF({k \in DOMAIN pre.recs : k \in DOMAIN post.recs}, LAMBDA k : NSub(pre.recs[k].actual, post.recs[k].actual))),
    "C04_RecordedUndelegations")

(***************************************************************************)
(* strict lane                                                             *)
(***************************************************************************)
StrictTags(pre, post, ev, a, ok, panic) ==
  LET r == Apply(pre, ev, a) IN
  T(NormHold(r.st) = post, "STRICT_state_" \o ev) \cup
  T((r.err = "") = ok, "STRICT_result_" \o ev) \cup
  T((r.err = "PANIC") = panic, "STRICT_panic_" \o ev)

(***************************************************************************)
(* replay                                                                  *)
(***************************************************************************)
OStep(o, pre, post) ==
  [orig |-> [k \in DOMAIN o.orig \cup DOMAIN post.recs |->
               IF k \in DOMAIN o.orig THEN o.orig[k]
               ELSE [s |-> post.recs[k].s, a |-> post.recs[k].a, o |-> post.recs[k].o, amt |-> post.recs[k].amt, complete |-> post.recs[k].complete]],
   gone |-> o.gone \cup (DOMAIN pre.recs \ DOMAIN post.recs)]

Init ==
  /\ l = 1
  /\ L = EmptyStore
  /\ G = ZeroG
  /\ O = [orig |-> <<>>, gone |-> {}]
  /\ cov = {}

Next ==
  /\ l <= Len(Trace)
  /\ l' = l + 1
  /\ LET line == Trace[l] IN
     IF line.ev = "reset" THEN
       LET st == FromLog(line.st) IN
       /\ L' = st /\ G' = InitG(st) /\ O' = InitO(st) /\ cov' = cov
       /\ (l < Len(Trace) \/ PrintT("COV " \o ToJson(cov)))
       /\ LET tags == StateTags(st, InitG(st)) IN tags = {} \/ PrintT("TAG " \o ToJson([l |-> l, ev |-> "reset", tags |-> tags]))
     ELSE
       LET post == FromLog(line.st)
           g2   == GhostStep(G, line.ev, line.a, line.ok, L, post)
           tags == StateTags(post, g2) \cup StepTags(L, post, line.ev, line.a, line.ok, O) \cup
                   (IF line.ev = "Slash" THEN RecordedTags(L, post, line.a, line.ok, line.st.sinfo) ELSE {}) \cup
                   StrictTags(L, post, line.ev, line.a, line.ok, line.panic)
           c2   == cov \cup Goals(L, line.ev, line.a, Apply(L, line.ev, line.a))
       IN /\ L' = post /\ G' = g2 /\ O' = OStep(O, L, post) /\ cov' = c2
          /\ (l < Len(Trace) \/ PrintT("COV " \o ToJson(c2)))
          /\ tags = {} \/ PrintT("TAG " \o ToJson([l |-> l, ev |-> line.ev, tags |-> tags]))

Spec == Init /\ [][Next]_vars

Consumed == TLCGet("stats").diameter - 1 = Len(Trace)
=============================================================================
