SPECIFICATION Spec
CONSTANTS
  DEVS <- t_DEVS
CHECK_DEADLOCK FALSE
