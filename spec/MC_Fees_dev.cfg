SPECIFICATION Spec
CONSTANTS
  OPS <- c_OPS
  SELF <- c_SELF
  ASSETS <- c_ASSETS
  IDORD <- c_IDORD
  PWS <- c_PWS
  RATESETS <- c_RATES
  IDPAIRS <- c_IDPAIRS
  STAKERS = {"s1", "s2"}
  PREC = 100
  DEVIATIONS = {"L11"}
  EXTRAS = {0}
  TAXES = {0, 2}
  REWARDS = {0, 5}
  FEES = {0, 7, 100}
  PATHS = {"bank"}
  BURNS = {1}
  DELAMTS = {1}
  MAXDEL = 1
  MAXUPD = 0
  MAXJAIL = 0
  MAXEPOCHS = 3
  MAXOPS = 5
  GENSUPPLY = 10
VIEW View
INVARIANTS InvSupplyDelta InvAllMoved InvBooked InvSolvent InvProportional InvCommission InvStakerPart InvNonNegative InvNoPanic
CHECK_DEADLOCK FALSE
