------------------------------ MODULE MC_Fees ------------------------------
(* Bounded exhaustive / simulation model of the fees family (C17).          *)
(* One behaviour = Setup (a world: validator powers, commission rates,      *)
(* community tax, epoch reward, distribution and mint identifiers) followed *)
(* by fee income, burns, delegations and blocks that end any subset of the  *)
(* epoch identifiers.  The environment of the allocation (staker entries    *)
(* per operator) is derived from the delegations with the simple valuation  *)
(* "power = tokens delegated" (price 1, decimals 0, nothing slashed), which *)
(* is what the harness worlds realise.                                      *)
EXTENDS Fees, Json

CONSTANTS
  OPS,        \* sequence of operator ids, in validator store order
  SELF,       \* sequence of the operators' self-staker ids, aligned with OPS
  STAKERS,    \* set of staker ids
  ASSETS,     \* sequence of asset ids; validators self-delegate in ASSETS[1]
  PWS,        \* set of power vectors (sequences aligned with OPS; 0 = not a validator)
  RATESETS,   \* set of commission-rate vectors (Dec, aligned with OPS)
  TAXES, REWARDS,
  IDPAIRS,    \* set of <<distribution identifier, mint identifier>>
  EXTRAS,     \* subset of {0, 1, 2}: no second AVS / a second AVS (asset ASSETS[2] only) listed BEFORE / AFTER the chain AVS
  FEES, PATHS, BURNS, DELAMTS,
  MAXDEL,     \* delegations per behaviour
  MAXUPD,     \* parameter updates (MsgUpdateParams: tax, reward) per behaviour
  MAXJAIL,    \* validators jailed per behaviour (the validator keeps its power, all its stakers' active value becomes 0)
  MAXEPOCHS,  \* blocks with at least one epoch end per behaviour
  MAXOPS,     \* events per behaviour (Setup included)
  GENSUPPLY

VARIABLES st, env, dels, hist, chk, nep, nup
vars == <<st, env, dels, hist, chk, nep, nup>>

IDS == Range(IDORD)
OpSet == Range(OPS)
IdxOf(o) == CHOOSE i \in DOMAIN OPS : OPS[i] = o

AllTrue == [supply |-> TRUE, moved |-> TRUE, booked |-> TRUE, prop |-> TRUE, split |-> TRUE, part |-> TRUE, panic |-> FALSE]

NoEnv == [tax |-> N0, reward |-> N0, distId |-> "", mintId |-> "", ltp |-> N0, vals |-> <<>>,
          rate |-> EmptyFn, ent |-> EmptyFn, pw |-> <<>>, xa |-> 0, jailed |-> {}]

Init ==
  /\ st = [ZeroSt EXCEPT !.supply = GENSUPPLY]
  /\ env = NoEnv
  /\ dels = <<>>
  /\ hist = <<>>
  /\ chk = AllTrue
  /\ nep = 0
  /\ nup = 0

\* ----- environment derived from the world and the delegations -----
StakerList(ds, pw, o, a) ==
  LET own == IF a = ASSETS[1] /\ pw[IdxOf(o)] > 0 THEN <<SELF[IdxOf(o)]>> ELSE <<>>
      step(acc, d) == IF d.o = o /\ d.a = a /\ d.s \notin Range(acc) THEN Append(acc, d.s) ELSE acc
  IN FoldLeft(step, own, ds)
PowerOfStaker(ds, pw, o, s) ==
  LET selfp == IF s = SELF[IdxOf(o)] THEN pw[IdxOf(o)] ELSE 0
      amt   == FoldLeft(LAMBDA acc, d : IF d.o = o /\ d.s = s THEN acc + d.x ELSE acc, 0, ds)
  IN DecFromInt(selfp + amt, PREC)
BaseEntries(ds, pw, o) ==
  FoldLeft(LAMBDA acc, a : LET sl == StakerList(ds, pw, o, a) IN
                           acc \o [i \in DOMAIN sl |-> [s |-> sl[i], p |-> PowerOfStaker(ds, pw, o, sl[i])]],
           <<>>, ASSETS)
\* entries contributed by a second AVS that accepts only ASSETS[2]: the staker's value there counts that asset only
ExtraEntries(ds, pw, o) ==
  LET a2 == ASSETS[Len(ASSETS)]
      sl == StakerList(ds, pw, o, a2)
      pa(s) == DecFromInt(FoldLeft(LAMBDA acc, d : IF d.o = o /\ d.s = s /\ d.a = a2 THEN acc + d.x ELSE acc, 0, ds), PREC)
  IN [i \in DOMAIN sl |-> [s |-> sl[i], p |-> pa(sl[i])]]
Entries(ds, pw, o, xa) ==
  IF xa = 1 THEN ExtraEntries(ds, pw, o) \o BaseEntries(ds, pw, o)
  ELSE IF xa = 2 THEN BaseEntries(ds, pw, o) \o ExtraEntries(ds, pw, o)
  ELSE BaseEntries(ds, pw, o)
\* a jailed operator is not active: CalculateUSDValueForStaker returns 0 for every one of its stakers
EntOf(ds, pw, xa, jl) ==
  [o \in OpSet |-> IF o \in jl THEN [i \in DOMAIN Entries(ds, pw, o, xa) |-> [s |-> Entries(ds, pw, o, xa)[i].s, p |-> N0]]
                   ELSE Entries(ds, pw, o, xa)]

Setup(pw, rate, tax, reward, ids, xa) ==
  /\ hist = <<>>
  /\ env' = [tax |-> tax, reward |-> reward, distId |-> ids[1], mintId |-> ids[2],
             ltp |-> FoldLeft(LAMBDA acc, i : acc + pw[i], 0, [i \in DOMAIN OPS |-> i]),
             vals |-> SelectSeq([i \in DOMAIN OPS |-> [o |-> OPS[i], pw |-> pw[i]]], LAMBDA v : v.pw > 0),
             rate |-> [o \in OpSet |-> rate[IdxOf(o)]],
             ent |-> EntOf(<<>>, pw, xa, {}), pw |-> pw, xa |-> xa, jailed |-> {}]
  /\ hist' = <<[ev |-> "Setup", a |-> [pw |-> pw, rate |-> rate, tax |-> tax, reward |-> reward,
                                       distId |-> ids[1], mintId |-> ids[2], xa |-> xa, prec |-> PREC]]>>
  /\ UNCHANGED <<st, dels, chk, nep, nup>>

Do(ev, a) ==
  /\ hist # <<>>
  /\ Len(hist) < MAXOPS
  /\ LET r == Apply(st, env, IF ev = "Block" THEN "BeginBlock" ELSE ev, a)
         e2 == IF ev = "Block" THEN "BeginBlock" ELSE ev IN
     /\ st' = r.st
     /\ chk' = [supply |-> SupplyDelta(st, r.st, env, e2, a, TRUE),
                moved  |-> AllMoved(st, r.st, env, e2, a),
                booked |-> Booked(st, r.st),
                prop   |-> Proportional(st, r.st, env, e2, a),
                split  |-> CommissionSplit(st, r.st, env),
                part   |-> StakerPart(st, r.st),
                panic  |-> r.panic]
  /\ hist' = Append(hist, [ev |-> ev, a |-> a])

Next ==
  \/ \E pw \in PWS, rate \in RATESETS, tax \in TAXES, reward \in REWARDS, ids \in IDPAIRS, xa \in EXTRAS : Setup(pw, rate, tax, reward, ids, xa)
  \/ \E x \in FEES, p \in PATHS : Do("FeeIncome", [x |-> x, path |-> p]) /\ UNCHANGED <<env, dels, nep, nup>>
  \/ \E x \in BURNS : hist # <<>> /\ x <= st.supply /\ Do("Burn", [x |-> x]) /\ UNCHANGED <<env, dels, nep, nup>>
  \/ \E s \in STAKERS, ai \in DOMAIN ASSETS, o \in OpSet, x \in DELAMTS :
        /\ hist # <<>>
        /\ Len(dels) < MAXDEL
        /\ env.pw[IdxOf(o)] > 0
        /\ Do("Delegate", [s |-> s, a |-> ASSETS[ai], o |-> o, x |-> x])
        /\ dels' = Append(dels, [s |-> s, a |-> ASSETS[ai], o |-> o, x |-> x])
        /\ env' = [env EXCEPT !.ent = EntOf(dels', env.pw, env.xa, env.jailed)]
        /\ UNCHANGED <<nep, nup>>
  \/ \E o \in OpSet :
        /\ hist # <<>>
        /\ env.pw[IdxOf(o)] > 0 /\ o \notin env.jailed /\ Cardinality(env.jailed) < MAXJAIL
        /\ Do("Jail", [o |-> o])
        /\ env' = [env EXCEPT !.jailed = @ \cup {o}, !.ent = EntOf(dels, env.pw, env.xa, env.jailed \cup {o})]
        /\ UNCHANGED <<dels, nep, nup>>
  \/ \E tax \in TAXES, reward \in REWARDS :
        /\ hist # <<>> /\ nup < MAXUPD
        /\ <<tax, reward>> # <<env.tax, env.reward>>
        /\ Do("UpdateParams", [tax |-> tax, reward |-> reward])
        /\ env' = [env EXCEPT !.tax = tax, !.reward = reward]
        /\ nup' = nup + 1
        /\ UNCHANGED <<dels, nep>>
  \/ \E tax \in TAXES, reward \in REWARDS :      \* the same messages on a discarded branch of state: nothing is configured
        /\ hist # <<>> /\ nup < MAXUPD
        /\ <<tax, reward>> # <<env.tax, env.reward>>
        /\ Do("UpdateParamsDropped", [tax |-> tax, reward |-> reward])
        /\ nup' = nup + 1
        /\ UNCHANGED <<env, dels, nep>>
  \/ \E ended \in SUBSET IDS :
        /\ ended # {} => nep < MAXEPOCHS
        /\ Do("Block", [ended |-> ended])
        /\ nep' = IF ended # {} THEN nep + 1 ELSE nep
        /\ UNCHANGED <<env, dels, nup>>

Spec == Init /\ [][Next]_vars

View == <<st, env, dels, chk, nep, nup>>

\* ----- invariants: property C17 on the model -----
InvSupplyDelta   == chk.supply
InvAllMoved      == chk.moved
InvBooked        == chk.booked
InvSolvent       == Solvent(st)
InvProportional  == chk.prop
InvCommission    == chk.split
InvStakerPart    == chk.part
InvNonNegative   == NonNegative(st)
InvNoPanic       == ~chk.panic

\* behaviour generation: print the history once it reaches the depth bound
EmitAtDepth == Len(hist) < MAXOPS \/ PrintT("BEHAVIOUR " \o ToJson(hist))
=============================================================================
