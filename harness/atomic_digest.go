// Full state digest for the atomic family (C09): per KV store of the application the sorted
// key/value dump (sha256, first 16 hex digits), plus the digest of the oracle module's process
// memory (aggregator context, caches; hook H1 + reflection walker of the oracle family).
//
// Two snapshots are compared by store; for a differing store the first differing key is reported
// so that a violation is explainable.  Which stores the property protects is decided by the trace
// spec (Trace_Atomic!PROTECTED); fee / sequence / nonce effects are exempt:
//   * store "acc" (account numbers, sequences) and "evm"/"feemarket" (EVM nonces, gas bookkeeping)
//     are logged but not protected;
//   * inside store "oracle" the validator report nonces (prefix "Nonce/" resp. the key prefix of
//     types.NonceKeyPrefix) are left out of the protected digest "oracle" and digested separately
//     as "oracle#nonce" (the ante handler of a price transaction advances them whether or not the
//     messages succeed).
package main

import (
	"bytes"
	"crypto/sha256"
	"encoding/hex"
	"encoding/json"
	"fmt"
	"sort"

	sdk "github.com/cosmos/cosmos-sdk/types"

	exocoreapp "github.com/ExocoreNetwork/exocore/app"
	oraclekeeper "github.com/ExocoreNetwork/exocore/x/oracle/keeper"
	oracletypes "github.com/ExocoreNetwork/exocore/x/oracle/types"
)

// every store key name app.go mounts (names that do not exist in this tree are skipped)
var atomicStoreNames = []string{"acc", "bank", "staking", "distribution", "slashing", "gov", "params", "upgrade", "evidence", "capability",
	"feegrant", "authz", "ibc", "transfer", "icahost", "evm", "feemarket", "erc20", "epochs", "consensus", "crisis", "recovery", "vesting",
	"assets", "delegation", "reward", "exoslash", "operator", "avs", "oracle", "exomint", "dogfood", "feedistribution", "feedistribu", "appchaincoordinator"}

type kvSnap map[string]map[string]string // store -> key -> value

func atomicSnapshot(app *exocoreapp.ExocoreApp, ctx sdk.Context) kvSnap {
	s := kvSnap{}
	noncePrefix := oracletypes.KeyPrefix(oracletypes.NonceKeyPrefix)
	for _, n := range atomicStoreNames {
		k := app.GetKey(n)
		if k == nil {
			continue
		}
		m := map[string]string{}
		var nm map[string]string
		if n == "oracle" {
			nm = map[string]string{}
		}
		it := ctx.KVStore(k).Iterator(nil, nil)
		for ; it.Valid(); it.Next() {
			if nm != nil && bytes.HasPrefix(it.Key(), noncePrefix) {
				nm[string(it.Key())] = string(it.Value())
				continue
			}
			m[string(it.Key())] = string(it.Value())
		}
		it.Close()
		s[n] = m
		if nm != nil {
			s["oracle#nonce"] = nm
		}
	}
	return s
}

func digestOf(m map[string]string) string {
	keys := make([]string, 0, len(m))
	for k := range m {
		keys = append(keys, k)
	}
	sort.Strings(keys)
	h := sha256.New()
	for _, k := range keys {
		fmt.Fprintf(h, "%d:%d:", len(k), len(m[k]))
		h.Write([]byte(k))
		h.Write([]byte(m[k]))
	}
	return hex.EncodeToString(h.Sum(nil))[:16]
}

func (s kvSnap) digests() map[string]string {
	out := map[string]string{}
	for n, m := range s {
		out[n] = digestOf(m)
	}
	return out
}

func printableKey(k string) string {
	for _, c := range []byte(k) {
		if c < 0x20 || c > 0x7e {
			return "0x" + hex.EncodeToString([]byte(k))
		}
	}
	return k
}

// first differing key per store (sorted order): "+key" added, "-key" deleted, "~key" value changed
func snapDiff(a, b kvSnap) map[string]string {
	out := map[string]string{}
	for n := range b {
		var ks []string
		for k, v := range b[n] {
			if ov, ok := a[n][k]; !ok {
				ks = append(ks, "+"+printableKey(k))
			} else if ov != v {
				ks = append(ks, "~"+printableKey(k))
			}
		}
		for k := range a[n] {
			if _, ok := b[n][k]; !ok {
				ks = append(ks, "-"+printableKey(k))
			}
		}
		if len(ks) > 0 {
			sort.Slice(ks, func(i, j int) bool { return ks[i][1:] < ks[j][1:] })
			s := ks[0]
			if len(s) > 120 {
				s = s[:120]
			}
			out[n] = fmt.Sprintf("%s (%d keys differ)", s, len(ks))
		}
	}
	return out
}

// ---------------------------------------------------------------------------------------------
// oracle process memory

func oracleMemTree() interface{} { return rwalk(oraclekeeper.VerifRoots()) }

func treeDigest(t interface{}) string {
	bz, err := json.Marshal(t)
	must(err)
	h := sha256.Sum256(bz)
	return hex.EncodeToString(h[:])[:16]
}

// path of the first difference between two walked trees ("" = equal)
func treeDiff(a, b interface{}, path string) string {
	switch x := a.(type) {
	case rnode:
		y, ok := b.(rnode)
		if !ok {
			return path + ": shape"
		}
		names := map[string]bool{}
		for n := range x {
			names[n] = true
		}
		for n := range y {
			names[n] = true
		}
		var ns []string
		for n := range names {
			ns = append(ns, n)
		}
		sort.Strings(ns)
		for _, n := range ns {
			if d := treeDiff(x[n], y[n], path+"."+n); d != "" {
				return d
			}
		}
		return ""
	case []rkv:
		y, ok := b.([]rkv)
		if !ok {
			return path + ": shape"
		}
		if len(x) != len(y) {
			return fmt.Sprintf("%s: map size %d -> %d", path, len(x), len(y))
		}
		for i := range x {
			if x[i].KS != y[i].KS {
				return fmt.Sprintf("%s: key %s -> %s", path, x[i].KS, y[i].KS)
			}
			if d := treeDiff(x[i].V, y[i].V, path+"["+x[i].KS+"]"); d != "" {
				return d
			}
		}
		return ""
	case []interface{}:
		y, ok := b.([]interface{})
		if !ok {
			return path + ": shape"
		}
		if len(x) != len(y) {
			return fmt.Sprintf("%s: length %d -> %d", path, len(x), len(y))
		}
		for i := range x {
			if d := treeDiff(x[i], y[i], fmt.Sprintf("%s[%d]", path, i)); d != "" {
				return d
			}
		}
		return ""
	}
	ja, _ := json.Marshal(a)
	jb, _ := json.Marshal(b)
	if !bytes.Equal(ja, jb) {
		s := fmt.Sprintf("%s: %s -> %s", path, ja, jb)
		if len(s) > 200 {
			s = s[:200]
		}
		return s
	}
	return ""
}

// fullDigest = store digests + "mem:oracle"
type fullDigest struct {
	snap kvSnap
	mem  interface{}
}

func takeDigest(app *exocoreapp.ExocoreApp, ctx sdk.Context) fullDigest {
	return fullDigest{snap: atomicSnapshot(app, ctx), mem: oracleMemTree()}
}

func (d fullDigest) asMap() map[string]string {
	m := d.snap.digests()
	m["mem:oracle"] = treeDigest(d.mem)
	return m
}

func digestDiff(a, b fullDigest) map[string]string {
	out := snapDiff(a.snap, b.snap)
	if d := treeDiff(a.mem, b.mem, "mem"); d != "" {
		out["mem:oracle"] = d
	}
	return out
}
