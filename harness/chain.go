// Chain family node driver (C08 determinism, C18 genesis round trip).
//
//	harness chain-node --db <dir> --script <file> --from h0 --to h1 --out <obs.ndjson>
//	        [--export-at h[,h..] --export-out <prefix>] [--init-from-export <file>] [--run <id>] [--role <r>]
//
// One OS process = one node life.  The process opens a goleveldb-backed ExocoreApp, runs InitChain
// (deterministic genesis derived from the script header, or an exported genesis document) when the
// DB is empty, otherwise continues from the last committed version, and executes blocks h0+1..h1
// of the script with REAL ABCI calls (BeginBlock with votes / evidence, DeliverTx of signed txs,
// EndBlock, Commit).  After every block it writes one observation line.
package main

import (
	"bytes"
	"crypto/sha256"
	"encoding/hex"
	"encoding/json"
	"flag"
	"fmt"
	"math/big"
	"os"
	"runtime/debug"
	"sort"
	"strconv"
	"strings"
	"time"

	sdkmath "cosmossdk.io/math"
	dbm "github.com/cometbft/cometbft-db"
	abci "github.com/cometbft/cometbft/abci/types"
	tmproto "github.com/cometbft/cometbft/proto/tendermint/types"
	"github.com/cosmos/cosmos-sdk/client"
	"github.com/cosmos/cosmos-sdk/crypto/keys/ed25519"
	cryptotypes "github.com/cosmos/cosmos-sdk/crypto/types"
	"github.com/cosmos/cosmos-sdk/store/rootmulti"
	storetypes "github.com/cosmos/cosmos-sdk/store/types"
	sdk "github.com/cosmos/cosmos-sdk/types"
	"github.com/cosmos/cosmos-sdk/types/tx/signing"
	authsigning "github.com/cosmos/cosmos-sdk/x/auth/signing"
	banktypes "github.com/cosmos/cosmos-sdk/x/bank/types"
	slashingtypes "github.com/cosmos/cosmos-sdk/x/slashing/types"
	stakingtypes "github.com/cosmos/cosmos-sdk/x/staking/types"
	"github.com/ethereum/go-ethereum/accounts/abi"
	"github.com/ethereum/go-ethereum/common"
	"github.com/ethereum/go-ethereum/common/hexutil"
	ethcrypto "github.com/ethereum/go-ethereum/crypto"
	"github.com/prysmaticlabs/prysm/v4/crypto/bls/blst"
	blscommon "github.com/prysmaticlabs/prysm/v4/crypto/bls/common"
	ethtypes "github.com/ethereum/go-ethereum/core/types"
	"github.com/evmos/evmos/v16/crypto/ethsecp256k1"
	evmtypes "github.com/evmos/evmos/v16/x/evm/types"

	exocoreapp "github.com/ExocoreNetwork/exocore/app"
	assetsprecompile "github.com/ExocoreNetwork/exocore/precompiles/assets"
	avsprecompile "github.com/ExocoreNetwork/exocore/precompiles/avs"
	delegationprecompile "github.com/ExocoreNetwork/exocore/precompiles/delegation"
	testutiltx "github.com/ExocoreNetwork/exocore/testutil/tx"
	keytypes "github.com/ExocoreNetwork/exocore/types/keys"
	"github.com/ExocoreNetwork/exocore/utils"
	assetstypes "github.com/ExocoreNetwork/exocore/x/assets/types"
	avstypes "github.com/ExocoreNetwork/exocore/x/avs/types"
	delegationtypes "github.com/ExocoreNetwork/exocore/x/delegation/types"
	dogfoodtypes "github.com/ExocoreNetwork/exocore/x/dogfood/types"
	epochstypes "github.com/ExocoreNetwork/exocore/x/epochs/types"
	exominttypes "github.com/ExocoreNetwork/exocore/x/exomint/types"
	distributiontypes "github.com/ExocoreNetwork/exocore/x/feedistribution/types"
	operatortypes "github.com/ExocoreNetwork/exocore/x/operator/types"
	"github.com/ExocoreNetwork/exocore/x/oracle"
	oraclekeeper "github.com/ExocoreNetwork/exocore/x/oracle/keeper"
	oracletypes "github.com/ExocoreNetwork/exocore/x/oracle/types"
)

// ---------------------------------------------------------------------------------------------
// script format

type ChainCfg struct {
	NOperators   int      `json:"nOperators"`   // o1..oN registered in genesis
	NStakers     int      `json:"nStakers"`     // s1..sM funded accounts; the LAST one is the gateway EOA
	Validators   []int    `json:"validators"`   // 1-based operator numbers that are genesis validators (power 100 each)
	Assets       []string `json:"assets"`       // model ids of LST assets, e.g. ["lst","lst2"]
	Decimals     []uint32 `json:"decimals"`     // per asset
	Prices       []string `json:"prices"`       // per asset genesis oracle price (integer string)
	EpochsUnbond uint32   `json:"epochsUnbond"` // dogfood EpochsUntilUnbonded
	MaxVals      uint32   `json:"maxVals"`
	OracleStart  uint64   `json:"oracleStart"`    // StartBaseBlock of every token feeder
	OracleIntvl  uint64   `json:"oracleInterval"` // Interval of every token feeder
	SlashWindow  int64    `json:"slashWindow"`    // x/slashing SignedBlocksWindow
	EpochSeconds int64    `json:"epochSeconds"`   // duration of the "minute" epoch used by dogfood/mint/distribution
	// oracle stress worlds: ExtraFeeders additional tokens + feeders (not bound to an asset); feeder f (1-based) starts at
	// OracleStart + ((f-1)/2)*OracleStagger, i.e. pairs of feeders share a window and the pairs are staggered
	ExtraFeeders  int    `json:"extraFeeders,omitempty"`
	OracleStagger uint64 `json:"oracleStagger,omitempty"`
}

type TxDesc struct {
	K   string `json:"k"`             // kind
	S   string `json:"s,omitempty"`   // staker model id / sender
	O   string `json:"o,omitempty"`   // operator model id / receiver
	A   string `json:"a,omitempty"`   // asset model id
	X   string `json:"x,omitempty"`   // amount (decimal string, base units)
	N   uint64 `json:"n,omitempty"`   // layer-zero nonce / oracle nonce
	Key string `json:"key,omitempty"` // consensus key label
	F   uint64 `json:"f,omitempty"`   // oracle feeder id
	P   string `json:"p,omitempty"`   // oracle price
	D   string `json:"d,omitempty"`   // oracle det id
}

type EvidenceDesc struct {
	Key string `json:"key"` // consensus key label of the offender
	H   int64  `json:"h"`   // infraction height
}

type BlockDesc struct {
	Dt       int64          `json:"dt"`                 // seconds added to the previous block time (default 1)
	Txs      []TxDesc       `json:"txs"`                // in delivery order
	Miss     []string       `json:"miss,omitempty"`     // consensus key labels that did NOT sign the previous block
	Evidence []EvidenceDesc `json:"evidence,omitempty"` // duplicate-vote evidence delivered with this block
	M        json.RawMessage `json:"m,omitempty"`        // model-level description of the block (spec/Chain.tla), not an input
}

type Script struct {
	ID     string      `json:"id"`
	Cfg    ChainCfg    `json:"cfg"`
	Blocks []BlockDesc `json:"blocks"` // Blocks[i] describes height i+1
}

func canon(v interface{}) []byte {
	bz, err := json.Marshal(v)
	must(err)
	return bz
}

// input prefix: hash chain over the genesis description and the block inputs delivered so far
func (s *Script) prefix(h int64) string {
	p := sha256.Sum256(append([]byte("genesis:"), canon(s.Cfg)...))
	cur := p[:]
	for i := int64(1); i <= h; i++ {
		b := s.Blocks[i-1]
		b.M = nil
		x := sha256.Sum256(append(append([]byte{}, cur...), canon(b)...))
		cur = x[:]
	}
	return hex.EncodeToString(cur[:12])
}

func (s *Script) timeAt(gen time.Time, h int64) time.Time {
	t := gen
	for i := int64(1); i <= h; i++ {
		dt := s.Blocks[i-1].Dt
		if dt <= 0 {
			dt = 1
		}
		t = t.Add(time.Duration(dt) * time.Second)
	}
	return t
}

// ---------------------------------------------------------------------------------------------
// genesis

type genCaptured struct {
	w  *World
	gs map[string]json.RawMessage
}

const chainEpochID = "minute"

// chainGenesis builds the identities and the deterministic genesis of a script WITHOUT running
// InitChain (NewWorld is aborted from its GenesisMut hook once the document is complete).
func chainGenesis(cc ChainCfg) (w *World, appState []byte) {
	gc := DefaultGenCfg()
	gc.NOperators = cc.NOperators
	gc.NStakers = cc.NStakers
	gc.Assets = nil
	for i, a := range cc.Assets {
		gc.Assets = append(gc.Assets, AssetCfg{ID: a, Decimals: cc.Decimals[i], Price: cc.Prices[i], PriceDec: 0, NST: strings.HasPrefix(a, "nst")})
	}
	gc.Validators = nil
	for _, v := range cc.Validators {
		gc.Validators = append(gc.Validators, ValCfg{Op: v - 1, Power: 100})
	}
	gc.MaxVals = cc.MaxVals
	gc.EpochsUnbond = cc.EpochsUnbond
	gc.DogfoodEpoch = chainEpochID
	es := cc.EpochSeconds
	if es == 0 {
		es = 60
	}
	gc.Epochs = []EpochCfg{{ID: chainEpochID, Duration: time.Duration(es) * time.Second}}
	gc.OracleMut = func(p *oracletypes.Params, g *oracletypes.GenesisState) {
		for x := 0; x < cc.ExtraFeeders; x++ {
			tid := uint64(len(p.Tokens))
			p.Tokens = append(p.Tokens, &oracletypes.Token{Name: fmt.Sprintf("X%d", x+1), ChainID: 1, ContractAddress: "0x", Decimal: 0, Active: true})
			p.TokenFeeders = append(p.TokenFeeders, &oracletypes.TokenFeeder{TokenID: tid, RuleID: 1, StartRoundID: 2, StartBaseBlock: cc.OracleStart, Interval: cc.OracleIntvl})
			g.PricesList = append(g.PricesList, oracletypes.Prices{TokenID: tid, NextRoundID: 2, PriceList: []*oracletypes.PriceTimeRound{{Price: "1", Decimal: 0, RoundID: 1}}})
		}
		for i := range p.TokenFeeders {
			if i == 0 {
				continue
			}
			p.TokenFeeders[i].StartBaseBlock = cc.OracleStart + uint64((i-1)/2)*cc.OracleStagger
			p.TokenFeeders[i].Interval = cc.OracleIntvl
			p.TokenFeeders[i].StartRoundID = 2 // genesis prices are round 1, next round id 2
		}
	}
	gc.GenesisMut = func(w *World, gs map[string]json.RawMessage) {
		cdc := w.App.AppCodec()
		// gateway = last staker
		var ag assetstypes.GenesisState
		cdc.MustUnmarshalJSON(gs[assetstypes.ModuleName], &ag)
		ag.Params.ExocoreLzAppAddress = strings.ToLower(w.StAddrs[len(w.StAddrs)-1].String())
		for i := range ag.Tokens {
			// GenesisState.Validate wants lower-case token addresses
			ag.Tokens[i].AssetBasicInfo.Address = strings.ToLower(ag.Tokens[i].AssetBasicInfo.Address)
		}
		gs[assetstypes.ModuleName] = cdc.MustMarshalJSON(&ag)
		// short slashing window
		var sg slashingtypes.GenesisState
		cdc.MustUnmarshalJSON(gs[slashingtypes.ModuleName], &sg)
		if cc.SlashWindow > 0 {
			sg.Params.SignedBlocksWindow = cc.SlashWindow
		}
		sg.Params.MinSignedPerWindow = sdk.NewDecWithPrec(5, 1)
		sg.Params.DowntimeJailDuration = 5 * time.Second
		gs[slashingtypes.ModuleName] = cdc.MustMarshalJSON(&sg)
		// mint on the short epoch
		var mg exominttypes.GenesisState
		cdc.MustUnmarshalJSON(gs[exominttypes.ModuleName], &mg)
		mg.Params.EpochIdentifier = chainEpochID
		mg.Params.EpochReward = sdkmath.NewInt(1000000007)
		gs[exominttypes.ModuleName] = cdc.MustMarshalJSON(&mg)
		panic(genCaptured{w, gs})
	}
	defer func() {
		r := recover()
		c, ok := r.(genCaptured)
		if !ok {
			panic(r)
		}
		w = c.w
		bz, err := json.MarshalIndent(c.gs, "", " ")
		must(err)
		appState = bz
	}()
	NewWorld(gc)
	return
}

// ---------------------------------------------------------------------------------------------
// node

type Node struct {
	w       *World
	app     *exocoreapp.ExocoreApp
	sc      *Script
	txCfg   client.TxConfig
	assetsP *assetsprecompile.Precompile
	delegP  *delegationprecompile.Precompile
	avsP    *avsprecompile.Precompile
	run     string
	role    string
	tw      *TraceWriter
	imported bool
	fresh    bool // InitChain ran in this process and no block has begun yet
}

var listedModules = []string{"assets", "delegation", "operator", "dogfood", "epochs", "oracle", "exomint", "feedistribution"}

func runChainNode(args []string) int {
	fs := flag.NewFlagSet("chain-node", flag.ExitOnError)
	dbDir := fs.String("db", "", "goleveldb directory")
	scriptPath := fs.String("script", "", "block script (JSON)")
	from := fs.Int64("from", 0, "last height already executed")
	to := fs.Int64("to", 0, "last height to execute")
	out := fs.String("out", "", "observations (ndjson)")
	exportAt := fs.String("export-at", "", "comma separated heights after whose commit the genesis is exported")
	exportOut := fs.String("export-out", "", "path prefix of exported documents (<prefix><h>.json)")
	initFrom := fs.String("init-from-export", "", "exported document to run InitChain on (fresh DB)")
	run := fs.String("run", "r0", "run id")
	role := fs.String("role", "node", "node | orig | imp")
	fs.Parse(args)

	bz, err := os.ReadFile(*scriptPath)
	must(err)
	var sc Script
	must(json.Unmarshal(bz, &sc))
	if *to > int64(len(sc.Blocks)) {
		*to = int64(len(sc.Blocks))
	}
	exports := map[int64]bool{}
	for _, s := range strings.Split(*exportAt, ",") {
		if s != "" {
			h, err := strconv.ParseInt(s, 10, 64)
			must(err)
			exports[h] = true
		}
	}

	w, appState := chainGenesis(sc.Cfg)
	oraclekeeper.ResetAggregatorContext()
	oraclekeeper.ResetCache()
	oraclekeeper.ResetAggregatorContextCheckTx()
	db, err := dbm.NewGoLevelDB("application", *dbDir)
	must(err)
	defer db.Close()
	app := NewApp(db, w.Cfg.ChainID)
	w.App = app
	n := &Node{w: w, app: app, sc: &sc, txCfg: app.GetTxConfig(), run: *run, role: *role}
	n.assetsP, err = assetsprecompile.NewPrecompile(app.AssetsKeeper, app.AuthzKeeper)
	must(err)
	n.delegP, err = delegationprecompile.NewPrecompile(app.AssetsKeeper, app.DelegationKeeper, app.AuthzKeeper)
	must(err)
	n.avsP, err = avsprecompile.NewPrecompile(app.AVSManagerKeeper, app.AuthzKeeper)
	must(err)
	n.tw = NewTraceWriter(*out)
	defer n.tw.Close()
	for _, b := range sc.Blocks {
		for _, t := range b.Txs {
			if t.Key != "" && !strings.HasPrefix(t.Key, "from:") && t.K != "depnst" && t.K != "wdnst" {
				n.consKey(t.Key)
			}
		}
		for _, m := range b.Miss {
			n.consKey(m)
		}
		for _, e := range b.Evidence {
			n.consKey(e.Key)
		}
	}

	if app.LastBlockHeight() == 0 {
		if *initFrom != "" {
			if !n.initFromExport(*initFrom, *from) {
				return 0
			}
		} else {
			if *from != 0 {
				panic("fresh DB but --from != 0")
			}
			var gs map[string]json.RawMessage
			must(json.Unmarshal(appState, &gs))
			for m, e := range n.validateListed(gs) {
				if e != "" {
					panic(fmt.Sprintf("harness genesis invalid for module %s: %s", m, e))
				}
			}
			app.InitChain(abci.RequestInitChain{Time: w.Cfg.GenesisTime, ChainId: w.Cfg.ChainID, Validators: []abci.ValidatorUpdate{},
				ConsensusParams: exocoreapp.DefaultConsensusParams, AppStateBytes: appState, InitialHeight: 1})
			n.fresh = true
		}
	} else if app.LastBlockHeight() != *from {
		panic(fmt.Sprintf("DB is at height %d, --from %d", app.LastBlockHeight(), *from))
	}

	for h := *from + 1; h <= *to; h++ {
		if !n.block(h) {
			break
		}
		if exports[h] {
			n.export(h, fmt.Sprintf("%s%d.json", *exportOut, h))
		}
	}
	return 0
}

func init() {
	commands["chain-node"] = runChainNode
}

// TLC's Json module rejects null: replace every nil by an empty array, strip non-ASCII from strings
func sanitize(v interface{}) interface{} {
	switch x := v.(type) {
	case nil:
		return []interface{}{}
	case map[string]interface{}:
		for k, e := range x {
			x[k] = sanitize(e)
		}
		return x
	case []interface{}:
		for i, e := range x {
			x[i] = sanitize(e)
		}
		return x
	case string:
		ok := true
		for _, c := range x {
			if c < 32 || c > 126 {
				ok = false
			}
		}
		if ok {
			return x
		}
		var sb strings.Builder
		for _, c := range x {
			if c < 32 || c > 126 {
				sb.WriteByte('?')
			} else {
				sb.WriteRune(c)
			}
		}
		return sb.String()
	}
	return v
}

func (n *Node) emit(line map[string]interface{}) {
	bz, err := json.Marshal(line)
	must(err)
	var g map[string]interface{}
	d := json.NewDecoder(bytes.NewReader(bz))
	d.UseNumber()
	must(d.Decode(&g))
	n.tw.Emit(sanitize(g).(map[string]interface{}))
}

// ---------------------------------------------------------------------------------------------
// one block

func (n *Node) validatorsNow(ctx sdk.Context) []dogfoodtypes.ExocoreValidator {
	vals := n.app.StakingKeeper.GetAllExocoreValidators(ctx)
	sort.Slice(vals, func(i, j int) bool { return bytes.Compare(vals[i].Address, vals[j].Address) < 0 })
	return vals
}

func (n *Node) consLabel(addr []byte) string {
	for l, k := range n.w.ConsKeys {
		if bytes.Equal(k.PubKey().Address(), addr) {
			return l
		}
	}
	return hex.EncodeToString(addr)
}

func (n *Node) consKey(label string) *ed25519.PrivKey {
	k, ok := n.w.ConsKeys[label]
	if !ok {
		k = ConsKey(label)
		n.w.ConsKeys[label] = k
	}
	return k
}

// block executes height h; returns false when the chain halted (panic outside DeliverTx)
func (n *Node) block(h int64) (alive bool) {
	bd := n.sc.Blocks[h-1]
	app := n.app
	t := n.sc.timeAt(n.w.Cfg.GenesisTime, h)
	obs := map[string]interface{}{}
	line := map[string]interface{}{"ev": "obs", "script": n.sc.ID, "run": n.run, "role": n.role, "h": h, "prefix": n.sc.prefix(h)}
	phase := "begin"
	defer func() {
		if r := recover(); r != nil {
			// a panic outside DeliverTx halts a real node: record it as the observation of this block
			msg := fmt.Sprint(r)
			if os.Getenv("VERIF_CHAIN_DEBUG") != "" {
				fmt.Fprintln(os.Stderr, "HALT", phase, msg, string(debug.Stack()))
			}
			if len(msg) > 300 {
				msg = msg[:300]
			}
			where := firstExocoreFrame(string(debug.Stack()))
			line["halt"] = map[string]interface{}{"phase": phase, "panic": msg, "where": where}
			line["obs"] = map[string]interface{}{"halt": phase + " @ " + where}
			n.emit(line)
			alive = false
		}
	}()

	// --- BeginBlock: votes of the validator set as stored before this block
	cctx := app.NewContext(true, tmproto.Header{Height: app.LastBlockHeight(), ChainID: n.w.Cfg.ChainID})
	if n.fresh {
		// right after InitChain the genesis writes live in the deliver state only
		cctx = app.BaseApp.NewContext(false, tmproto.Header{Height: h, ChainID: n.w.Cfg.ChainID})
	}
	vals := n.validatorsNow(cctx)
	miss := map[string]bool{}
	for _, m := range bd.Miss {
		miss[m] = true
	}
	var votes []abci.VoteInfo
	var proposer []byte
	totalPower := int64(0)
	for _, v := range vals {
		if proposer == nil {
			proposer = v.Address
		}
		totalPower += v.Power
		if n.fresh && !n.imported {
			continue // the first block of a chain carries no last commit; an imported chain is fed the SAME inputs as the original
		}
		votes = append(votes, abci.VoteInfo{Validator: abci.Validator{Address: v.Address, Power: v.Power}, SignedLastBlock: !miss[n.consLabel(v.Address)]})
	}
	var byz []abci.Misbehavior
	for _, e := range bd.Evidence {
		k := n.consKey(e.Key)
		pw := int64(0)
		for _, v := range vals {
			if bytes.Equal(v.Address, k.PubKey().Address()) {
				pw = v.Power
			}
		}
		byz = append(byz, abci.Misbehavior{Type: abci.MisbehaviorType_DUPLICATE_VOTE, Validator: abci.Validator{Address: k.PubKey().Address(), Power: pw},
			Height: e.H, Time: n.sc.timeAt(n.w.Cfg.GenesisTime, e.H), TotalVotingPower: totalPower})
	}
	hdr := tmproto.Header{Height: h, Time: t, ChainID: n.w.Cfg.ChainID, ProposerAddress: proposer, AppHash: app.LastCommitID().Hash}
	app.BeginBlock(abci.RequestBeginBlock{Header: hdr, LastCommitInfo: abci.CommitInfo{Votes: votes}, ByzantineValidators: byz})
	n.fresh = false

	// --- DeliverTx
	phase = "deliver"
	var txObs []map[string]interface{}
	for i, td := range bd.Txs {
		ctx := app.BaseApp.NewContext(false, hdr)
		txbz, berr := n.buildTx(ctx, td, h)
		if berr != nil {
			txObs = append(txObs, map[string]interface{}{"i": i, "k": td.K, "build": berr.Error(), "code": -1})
			continue
		}
		res := app.DeliverTx(abci.RequestDeliverTx{Tx: txbz})
		to := map[string]interface{}{"i": i, "k": td.K, "code": res.Code, "cs": res.Codespace, "data": shortHash(res.Data), "gw": res.GasWanted, "gu": res.GasUsed,
			"evh": eventsHash(res.Events)}
		if res.Code != 0 {
			lg := res.Log
			if len(lg) > 600 {
				lg = lg[:600]
			}
			to["log"] = lg
		}
		if os.Getenv("VERIF_CHAIN_DEBUG") != "" && td.K == "price" {
			for _, e := range res.Events {
				if e.Type == "create_price" {
					fmt.Fprintln(os.Stderr, "PRICE", h, td.Key, td.F, res.Code, e.String())
				}
			}
		}
		if ok, known := n.precompileOK(td, res); known {
			to["pok"] = ok
		}
		txObs = append(txObs, to)
	}

	// --- EndBlock / Commit
	phase = "end"
	eres := app.EndBlock(abci.RequestEndBlock{Height: h})
	phase = "commit"
	cres := app.Commit()

	var vus []map[string]interface{}
	for _, vu := range eres.ValidatorUpdates {
		vus = append(vus, map[string]interface{}{"key": n.consLabel(pubKeyAddr(vu)), "pk": hex.EncodeToString(vu.PubKey.GetEd25519()), "power": vu.Power})
	}
	cpu := ""
	if eres.ConsensusParamUpdates != nil {
		bz, _ := eres.ConsensusParamUpdates.Marshal()
		cpu = shortHash(bz)
	}
	obs["apphash"] = hex.EncodeToString(cres.Data)
	if txObs == nil {
		txObs = []map[string]interface{}{}
	}
	if vus == nil {
		vus = []map[string]interface{}{}
	}
	// tx results without the diagnostic fields
	var txr []map[string]interface{}
	for _, t := range txObs {
		r := map[string]interface{}{}
		for k, v := range t {
			if k != "log" && k != "k" && k != "build" && k != "evh" {
				r[k] = v
			}
		}
		txr = append(txr, r)
	}
	if txr == nil {
		txr = []map[string]interface{}{}
	}
	obs["txs"] = txr
	obs["valupd"] = vus
	obs["cpupd"] = cpu
	line["endev"] = eventsHash(eres.Events)
	dg, pdg := n.digests()
	obs["dg"] = dg
	line["obs"] = obs
	line["pdg"] = pdg
	line["txinfo"] = txObs
	oks := []bool{}
	for _, t := range txObs {
		ok := fmt.Sprint(t["code"]) == "0"
		if p, has := t["pok"]; has && p == false {
			ok = false
		}
		oks = append(oks, ok)
	}
	line["oks"] = oks
	if len(bd.M) > 0 {
		line["m"] = bd.M
	}
	line["st"] = n.project()
	line["query"] = n.nativeQuery()
	n.emit(line)
	return true
}

// first frame of the panicking goroutine that lies in exocore's x/ or app/ packages
func firstExocoreFrame(stack string) string {
	seenPanic := false
	for _, l := range strings.Split(stack, "\n") {
		if strings.HasPrefix(l, "panic(") {
			seenPanic = true
			continue
		}
		if !seenPanic || strings.HasPrefix(l, "\t") {
			continue
		}
		const pfx = "github.com/ExocoreNetwork/exocore/"
		if strings.HasPrefix(l, pfx) && !strings.Contains(l, "verifharness") {
			f := strings.TrimPrefix(l, pfx)
			if i := strings.LastIndex(f, "("); i > 0 {
				f = f[:i]
			}
			return f
		}
	}
	return "?"
}

// assets.GetStakerSpecifiedAssetInfo for the native token (Go-map loop over the staker's delegations): only reachable
// through the gRPC query at this commit (the reward precompile stops at ErrNotSupportYet); logged, not part of C08
func (n *Node) nativeQuery() map[string]interface{} {
	ctx := n.app.NewContext(true, tmproto.Header{Height: n.app.LastBlockHeight(), ChainID: n.w.Cfg.ChainID})
	out := map[string]interface{}{}
	for i, a := range n.w.StAddrs {
		sid, _ := assetstypes.GetStakerIDAndAssetIDFromStr(assetstypes.ExocoreChainLzID, a.String(), "")
		info, err := n.app.AssetsKeeper.GetStakerSpecifiedAssetInfo(ctx, sid, assetstypes.ExocoreAssetID)
		if err != nil {
			out[fmt.Sprintf("s%d", i+1)] = "err"
			continue
		}
		out[fmt.Sprintf("s%d", i+1)] = info.TotalDepositAmount.String() + "/" + info.PendingUndelegationAmount.String()
	}
	return out
}

func pubKeyAddr(vu abci.ValidatorUpdate) []byte {
	pk := ed25519.PubKey{Key: vu.PubKey.GetEd25519()}
	return pk.Address()
}

func shortHash(b []byte) string {
	if len(b) == 0 {
		return ""
	}
	s := sha256.Sum256(b)
	return hex.EncodeToString(s[:8])
}

func eventsHash(evs []abci.Event) string {
	h := sha256.New()
	for _, e := range evs {
		h.Write([]byte(e.Type))
		h.Write([]byte{0})
		for _, a := range e.Attributes {
			h.Write([]byte(a.Key))
			h.Write([]byte{1})
			h.Write([]byte(a.Value))
			h.Write([]byte{2})
		}
	}
	return hex.EncodeToString(h.Sum(nil)[:8])
}

// ---------------------------------------------------------------------------------------------
// digests of the committed stores

func (n *Node) storeKeys() map[string]storetypes.StoreKey {
	rs := n.app.CommitMultiStore().(*rootmulti.Store)
	out := map[string]storetypes.StoreKey{}
	for name, k := range rs.StoreKeysByName() {
		if _, ok := k.(*storetypes.KVStoreKey); ok {
			out[name] = k
		}
	}
	return out
}

// digestsOf computes, for every KV store, sha256 over the sorted (key,value) pairs; for the listed
// modules additionally one digest per first key byte ("prefix"), so that a difference is
// localised to a collection.
func digestsOf(get func(k storetypes.StoreKey) sdk.KVStore, keys map[string]storetypes.StoreKey) (map[string]string, map[string]map[string]string) {
	listed := map[string]bool{}
	for _, m := range listedModules {
		listed[m] = true
	}
	dg := map[string]string{}
	pdg := map[string]map[string]string{}
	for name, k := range keys {
		st := get(k)
		it := st.Iterator(nil, nil)
		h := sha256.New()
		cnt := 0
		type hh interface {
			Write([]byte) (int, error)
			Sum([]byte) []byte
		}
		per := map[byte]hh{}
		for ; it.Valid(); it.Next() {
			kk, vv := it.Key(), it.Value()
			var l [8]byte
			wr := func(x hh) {
				big.NewInt(int64(len(kk))).FillBytes(l[:])
				x.Write(l[:])
				x.Write(kk)
				big.NewInt(int64(len(vv))).FillBytes(l[:])
				x.Write(l[:])
				x.Write(vv)
			}
			wr(h)
			cnt++
			if listed[name] && len(kk) > 0 {
				p, ok := per[kk[0]]
				if !ok {
					p = sha256.New()
					per[kk[0]] = p
				}
				wr(p)
			}
		}
		it.Close()
		if cnt == 0 {
			dg[name] = ""
		} else {
			dg[name] = hex.EncodeToString(h.Sum(nil)[:10])
		}
		if listed[name] {
			m := map[string]string{}
			for b, p := range per {
				m[fmt.Sprintf("%02x", b)] = hex.EncodeToString(p.Sum(nil)[:10])
			}
			pdg[name] = m
		}
	}
	return dg, pdg
}

func (n *Node) digests() (map[string]string, map[string]map[string]string) {
	cms := n.app.CommitMultiStore()
	return digestsOf(func(k storetypes.StoreKey) sdk.KVStore { return cms.GetKVStore(k) }, n.storeKeys())
}

// ---------------------------------------------------------------------------------------------
// transactions

func (n *Node) acct(label string) *ethsecp256k1.PrivKey {
	var i int
	if _, err := fmt.Sscanf(label, "o%d", &i); err == nil && i >= 1 && i <= len(n.w.OpKeys) {
		return n.w.OpKeys[i-1]
	}
	if _, err := fmt.Sscanf(label, "s%d", &i); err == nil && i >= 1 && i <= len(n.w.StKeys) {
		return n.w.StKeys[i-1]
	}
	if label == "gw" {
		return n.w.StKeys[len(n.w.StKeys)-1]
	}
	return EthKey("acct:" + label)
}

func accAddr(k *ethsecp256k1.PrivKey) sdk.AccAddress { return sdk.AccAddress(k.PubKey().Address().Bytes()) }

func (n *Node) buildTx(ctx sdk.Context, td TxDesc, h int64) (bz []byte, err error) {
	defer func() {
		if r := recover(); r != nil {
			err = fmt.Errorf("build panic: %v", r)
		}
	}()
	amt := func() *big.Int {
		b, ok := new(big.Int).SetString(td.X, 10)
		if !ok {
			panic("bad amount " + td.X)
		}
		return b
	}
	w := n.w
	switch td.K {
	case "dep", "wd":
		m := assetsprecompile.MethodDepositLST
		if td.K == "wd" {
			m = assetsprecompile.MethodWithdrawLST
		}
		in, e := n.assetsP.ABI.Pack(m, uint32(LzID), cpad32(w.AssetAddr[td.A].Bytes()), cpad32(w.St(td.S).Bytes()), amt())
		must(e)
		return n.ethTx(ctx, n.acct(td.gwOr()), n.assetsP.Address(), in)
	case "del", "undel":
		m := delegationprecompile.MethodDelegate
		if td.K == "undel" {
			m = delegationprecompile.MethodUndelegate
		}
		in, e := n.delegP.ABI.Pack(m, uint32(LzID), td.N, cpad32(w.AssetAddr[td.A].Bytes()), cpad32(w.St(td.S).Bytes()), []byte(w.Op(td.O).String()), amt())
		must(e)
		return n.ethTx(ctx, n.acct(td.gwOr()), n.delegP.Address(), in)
	case "assoc":
		in, e := n.delegP.ABI.Pack(delegationprecompile.MethodAssociateOperatorWithStaker, uint32(LzID), cpad32(w.St(td.S).Bytes()), []byte(w.Op(td.O).String()))
		must(e)
		return n.ethTx(ctx, n.acct(td.gwOr()), n.delegP.Address(), in)
	case "dissoc":
		in, e := n.delegP.ABI.Pack(delegationprecompile.MethodDissociateOperatorFromStaker, uint32(LzID), cpad32(w.St(td.S).Bytes()))
		must(e)
		return n.ethTx(ctx, n.acct(td.gwOr()), n.delegP.Address(), in)
	case "regop":
		k := n.acct(td.O)
		a := accAddr(k).String()
		msg := &operatortypes.RegisterOperatorReq{FromAddress: a, Info: &operatortypes.OperatorInfo{EarningsAddr: a, OperatorMetaInfo: "op " + td.O,
			Commission: stakingtypes.NewCommission(sdk.ZeroDec(), sdk.ZeroDec(), sdk.ZeroDec())}}
		return n.cosmosTx(ctx, k, msg)
	case "optin":
		k := n.acct(td.O)
		msg := &operatortypes.OptIntoAVSReq{FromAddress: accAddr(k).String(), AvsAddress: w.AvsAddr}
		if td.Key != "" {
			msg.PublicKeyJSON = keytypes.NewWrappedConsKeyFromSdkKey(n.consKey(td.Key).PubKey()).ToJSON()
		}
		return n.cosmosTx(ctx, k, msg)
	case "setkey":
		k := n.acct(td.O)
		msg := &operatortypes.SetConsKeyReq{Address: accAddr(k).String(), AvsAddress: w.AvsAddr,
			PublicKeyJSON: keytypes.NewWrappedConsKeyFromSdkKey(n.consKey(td.Key).PubKey()).ToJSON()}
		return n.cosmosTx(ctx, k, msg)
	case "optout":
		k := n.acct(td.O)
		return n.cosmosTx(ctx, k, &operatortypes.OptOutOfAVSReq{FromAddress: accAddr(k).String(), AvsAddress: w.AvsAddr})
	case "ndel", "nundel":
		k := n.acct(td.S)
		base := &delegationtypes.DelegationIncOrDecInfo{FromAddress: accAddr(k).String(),
			PerOperatorAmounts: []delegationtypes.KeyValue{{Key: w.Op(td.O).String(), Value: &delegationtypes.ValueField{Amount: sdkmath.NewIntFromBigInt(amt())}}}}
		if td.K == "ndel" {
			return n.cosmosTx(ctx, k, &delegationtypes.MsgDelegation{AssetID: assetstypes.ExocoreAssetID, BaseInfo: base})
		}
		return n.cosmosTx(ctx, k, &delegationtypes.MsgUndelegation{AssetID: assetstypes.ExocoreAssetID, BaseInfo: base})
	case "send":
		k := n.acct(td.S)
		msg := banktypes.NewMsgSend(accAddr(k), accAddr(n.acct(td.O)), sdk.NewCoins(sdk.NewCoin(utils.BaseDenom, sdkmath.NewIntFromBigInt(amt()))))
		return n.cosmosTx(ctx, k, msg)
	case "unjail":
		k := n.acct(td.O)
		return n.cosmosTx(ctx, k, slashingtypes.NewMsgUnjail(sdk.ValAddress(accAddr(k))))
	case "price":
		return n.priceTx(ctx, td, h)
	case "depnst", "wdnst":
		m := assetsprecompile.MethodDepositNST
		if td.K == "wdnst" {
			m = assetsprecompile.MethodWithdrawNST
		}
		in, e := n.assetsP.ABI.Pack(m, uint32(LzID), h256("nstvalidator:"+td.Key), cpad32(w.St(td.S).Bytes()), amt())
		must(e)
		return n.ethTx(ctx, n.acct("gw"), n.assetsP.Address(), in)
	case "avsreg": // the EOA td.S plays the AVS contract (AVS address = task address = caller)
		c := n.acct(td.S)
		self := common.BytesToAddress(c.PubKey().Address().Bytes())
		var aids []string
		for _, a := range strings.Split(td.A, ",") {
			aids = append(aids, w.AssetID[a])
		}
		in, e := n.avsP.ABI.Pack(avsprecompile.MethodRegisterAVS, self, "avs-"+td.S, uint64(1), self, self, self, []string{accAddr(c).String()},
			aids, uint64(2), uint64(0), chainEpochID, []uint64{1, 1, 5, 5})
		must(e)
		return n.ethTx(ctx, c, n.avsP.Address(), in)
	case "avsopt":
		in, e := n.avsP.ABI.Pack(avsprecompile.MethodRegisterOperatorToAVS, common.BytesToAddress(w.Op(td.O).Bytes()))
		must(e)
		return n.ethTx(ctx, n.acct(td.S), n.avsP.Address(), in)
	case "avsbls":
		sk := blsKeyOf(td.O)
		msg := h256("blsreg:" + td.O)
		in, e := n.avsP.ABI.Pack(avsprecompile.MethodRegisterBLSPublicKey, common.BytesToAddress(w.Op(td.O).Bytes()), "bls-"+td.O, sk.PublicKey().Marshal(), sk.Sign(msg).Marshal(), msg)
		must(e)
		return n.ethTx(ctx, n.acct(td.S), n.avsP.Address(), in)
	case "avstask":
		c := n.acct(td.S)
		self := common.BytesToAddress(c.PubKey().Address().Bytes())
		in, e := n.avsP.ABI.Pack(avsprecompile.MethodCreateAVSTask, self, fmt.Sprintf("task-%d", td.N), h256(fmt.Sprintf("taskhash:%s:%d", td.S, td.N)), uint64(1), uint64(1), uint64(60), uint64(1))
		must(e)
		return n.ethTx(ctx, c, n.avsP.Address(), in)
	case "avsres": // MsgSubmitTaskResult of operator td.O for task td.N of contract td.S, stage td.D ("1" | "2")
		k := n.acct(td.O)
		resp, _ := avstypes.MarshalTaskResponse(avstypes.TaskResponse{TaskID: td.N, NumberSum: big.NewInt(int64(40 + td.N))})
		sig := blsKeyOf(td.O).Sign(ethcrypto.Keccak256Hash(resp).Bytes()).Marshal()
		info := &avstypes.TaskResultInfo{OperatorAddress: accAddr(k).String(), TaskContractAddress: common.BytesToAddress(n.acct(td.S).PubKey().Address().Bytes()).String(),
			TaskId: td.N, BlsSignature: sig, Stage: avstypes.TwoPhaseCommitOne}
		if td.D == "2" {
			info.Stage = avstypes.TwoPhaseCommitTwo
			info.TaskResponse = resp
		}
		return n.cosmosTx(ctx, k, &avstypes.SubmitTaskResultReq{FromAddress: accAddr(k).String(), Info: info})
	}
	return nil, fmt.Errorf("unknown tx kind %q", td.K)
}

func (td TxDesc) gwOr() string {
	if td.K != "" && td.Key != "" && strings.HasPrefix(td.Key, "from:") {
		return strings.TrimPrefix(td.Key, "from:")
	}
	return "gw"
}

func cpad32(b []byte) []byte {
	out := make([]byte, 32)
	copy(out, b)
	return out
}

func (n *Node) ethTx(ctx sdk.Context, k *ethsecp256k1.PrivKey, to common.Address, input []byte) ([]byte, error) {
	from := common.BytesToAddress(k.PubKey().Address().Bytes())
	chainID := n.app.EvmKeeper.ChainID()
	nonce := n.app.EvmKeeper.GetNonce(ctx, from)
	baseFee := n.app.FeeMarketKeeper.GetBaseFee(ctx)
	if baseFee == nil {
		baseFee = big.NewInt(0)
	}
	feeCap := new(big.Int).Add(new(big.Int).Mul(baseFee, big.NewInt(2)), big.NewInt(1000000000))
	args := &evmtypes.EvmTxArgs{ChainID: chainID, Nonce: nonce, To: &to, Amount: big.NewInt(0), GasLimit: 600000,
		GasFeeCap: feeCap, GasTipCap: big.NewInt(1), Input: input, Accesses: &ethtypes.AccessList{}}
	msg := evmtypes.NewTx(args)
	msg.From = from.String()
	signer := ethtypes.LatestSignerForChainID(chainID)
	if err := msg.Sign(signer, testutiltx.NewSigner(k)); err != nil {
		return nil, err
	}
	tx, err := testutiltx.PrepareEthTx(n.txCfg, n.app, nil, msg)
	if err != nil {
		return nil, err
	}
	return n.txCfg.TxEncoder()(tx)
}

func (n *Node) cosmosTx(ctx sdk.Context, k *ethsecp256k1.PrivKey, msgs ...sdk.Msg) ([]byte, error) {
	gp := sdkmath.NewIntFromBigInt(new(big.Int).Add(big.NewInt(1000000000), zeroIfNil(n.app.FeeMarketKeeper.GetBaseFee(ctx))))
	tx, err := testutiltx.PrepareCosmosTx(ctx, n.app, testutiltx.CosmosTxArgs{TxCfg: n.txCfg, Priv: k, ChainID: n.w.Cfg.ChainID, Gas: 800000, GasPrice: &gp, Msgs: msgs})
	if err != nil {
		return nil, err
	}
	return n.txCfg.TxEncoder()(tx)
}

func blsKeyOf(label string) blscommon.SecretKey {
	for i := 0; ; i++ {
		b := h256(fmt.Sprintf("bls:%s#%d", label, i))
		b[0] &= 0x3f
		if k, err := blst.SecretKeyFromBytes(b); err == nil {
			return k
		}
	}
}

func zeroIfNil(b *big.Int) *big.Int {
	if b == nil {
		return big.NewInt(0)
	}
	return b
}

// oracle price message signed with a consensus key
func (n *Node) priceTx(ctx sdk.Context, td TxDesc, h int64) ([]byte, error) {
	k := n.consKey(td.Key)
	creator := sdk.AccAddress(k.PubKey().Address()).String()
	p := n.app.OracleKeeper.GetParams(ctx)
	if int(td.F) >= len(p.TokenFeeders) {
		return nil, fmt.Errorf("no feeder %d", td.F)
	}
	f := p.TokenFeeders[td.F]
	based := uint64(0)
	if uint64(h-1) >= f.StartBaseBlock {
		d := uint64(h-1) - f.StartBaseBlock
		based = uint64(h-1) - d%f.Interval
	}
	ts := ctx.BlockTime().UTC().Format("2006-01-02 15:04:05")
	msg := oracletypes.NewMsgCreatePrice(creator, td.F, []*oracletypes.PriceSource{{SourceID: 1, Prices: []*oracletypes.PriceTimeDetID{{Price: td.P, Decimal: 0, Timestamp: ts, DetID: td.D}}}}, based, int32(td.N))
	tb := n.txCfg.NewTxBuilder()
	must(tb.SetMsgs(msg))
	tb.SetGasLimit(300000)
	mode := n.txCfg.SignModeHandler().DefaultMode()
	var pk cryptotypes.PubKey = k.PubKey()
	sig := signing.SignatureV2{PubKey: pk, Data: &signing.SingleSignatureData{SignMode: mode}, Sequence: 0}
	must(tb.SetSignatures(sig))
	bytesToSign, err := n.txCfg.SignModeHandler().GetSignBytes(mode, authsigning.SignerData{ChainID: n.w.Cfg.ChainID}, tb.GetTx())
	if err != nil {
		return nil, err
	}
	sbz, err := k.Sign(bytesToSign)
	if err != nil {
		return nil, err
	}
	sig.Data = &signing.SingleSignatureData{SignMode: mode, Signature: sbz}
	must(tb.SetSignatures(sig))
	return n.txCfg.TxEncoder()(tb.GetTx())
}

// precompileOK decodes the `success` output of a precompile call from the MsgEthereumTxResponse
func (n *Node) precompileOK(td TxDesc, res abci.ResponseDeliverTx) (ok bool, known bool) {
	var a abi.ABI
	var m string
	switch td.K {
	case "dep":
		a, m = n.assetsP.ABI, assetsprecompile.MethodDepositLST
	case "wd":
		a, m = n.assetsP.ABI, assetsprecompile.MethodWithdrawLST
	case "del":
		a, m = n.delegP.ABI, delegationprecompile.MethodDelegate
	case "undel":
		a, m = n.delegP.ABI, delegationprecompile.MethodUndelegate
	case "assoc":
		a, m = n.delegP.ABI, delegationprecompile.MethodAssociateOperatorWithStaker
	case "dissoc":
		a, m = n.delegP.ABI, delegationprecompile.MethodDissociateOperatorFromStaker
	case "depnst":
		a, m = n.assetsP.ABI, assetsprecompile.MethodDepositNST
	case "wdnst":
		a, m = n.assetsP.ABI, assetsprecompile.MethodWithdrawNST
	case "avsreg":
		a, m = n.avsP.ABI, avsprecompile.MethodRegisterAVS
	case "avsopt":
		a, m = n.avsP.ABI, avsprecompile.MethodRegisterOperatorToAVS
	case "avsbls":
		a, m = n.avsP.ABI, avsprecompile.MethodRegisterBLSPublicKey
	case "avstask":
		a, m = n.avsP.ABI, avsprecompile.MethodCreateAVSTask
	default:
		return false, false
	}
	if res.Code != 0 {
		return false, true
	}
	r, err := evmtypes.DecodeTxResponse(res.Data)
	if err != nil || r.VmError != "" {
		return false, true
	}
	out, err := a.Unpack(m, r.Ret)
	if err != nil || len(out) == 0 {
		return false, true
	}
	b, _ := out[0].(bool)
	return b, true
}

// ---------------------------------------------------------------------------------------------
// projection of the modelled part of the state (spec/Chain.tla) read from the committed state

func (n *Node) opLabel(bech string) string {
	if m, ok := n.w.OpModel[bech]; ok {
		return m
	}
	return bech
}

func (n *Node) project() map[string]interface{} {
	app := n.app
	ctx := app.NewContext(true, tmproto.Header{Height: app.LastBlockHeight(), ChainID: n.w.Cfg.ChainID})
	return n.projectCtx(ctx)
}

func (n *Node) recLabel(key []byte) string {
	f, err := delegationtypes.ParseUndelegationRecordKey(key)
	if err != nil {
		if len(key) == 20 {
			return n.addrLabel(key) // an address where a record key should be (L12)
		}
		return "?" + hex.EncodeToString(key)
	}
	return fmt.Sprintf("%s/%d/%d", n.opLabel(f.OperatorAddr), f.BlockHeight, f.LzNonce)
}

func (n *Node) projectCtx(ctx sdk.Context) map[string]interface{} {
	app := n.app
	st := map[string]interface{}{}
	ei, _ := app.EpochsKeeper.GetEpochInfo(ctx, chainEpochID)
	st["ep"] = ei.CurrentEpoch
	st["epStartH"] = ei.CurrentEpochStartHeight
	// validator set
	vals := []string{}
	for _, v := range n.validatorsNow(ctx) {
		vals = append(vals, n.consLabel(v.Address))
	}
	sort.Strings(vals)
	st["vals"] = vals
	// dogfood queues
	optq := []map[string]interface{}{}
	for _, e := range app.StakingKeeper.GetAllOptOutsToFinish(ctx) {
		var ops []string
		for _, a := range e.OperatorAccAddrs {
			ops = append(ops, n.opLabel(a))
		}
		optq = append(optq, map[string]interface{}{"e": e.Epoch, "l": ops})
	}
	st["optq"] = optq
	// raw scans of the two queues whose exported getters are under suspicion (L12)
	st["pruneq"] = n.scanEpochQueue(ctx, dogfoodtypes.ConsensusAddrsToPruneBytePrefix, func(bz []byte) []string {
		var l dogfoodtypes.ConsensusAddresses
		must(l.Unmarshal(bz))
		var out []string
		for _, a := range l.List {
			out = append(out, n.addrLabel(a))
		}
		return out
	})
	st["matq"] = n.scanEpochQueue(ctx, dogfoodtypes.UnbondingReleaseMaturityBytePrefix, func(bz []byte) []string {
		var l dogfoodtypes.UndelegationRecordKeys
		must(l.Unmarshal(bz))
		var out []string
		for _, a := range l.List {
			out = append(out, n.recLabel(a))
		}
		return out
	})
	kv := ctx.KVStore(app.GetKey(dogfoodtypes.StoreKey))
	optfin := map[string]interface{}{}
	it := sdk.KVStorePrefixIterator(kv, []byte{dogfoodtypes.OperatorOptOutFinishEpochBytePrefix})
	for ; it.Valid(); it.Next() {
		optfin[n.opLabel(sdk.AccAddress(it.Key()[1:]).String())] = int64(sdk.BigEndianToUint64(it.Value()))
	}
	it.Close()
	st["optfin"] = optfin
	mate := map[string]interface{}{}
	it = sdk.KVStorePrefixIterator(kv, []byte{dogfoodtypes.UndelegationMaturityEpochByte})
	for ; it.Valid(); it.Next() {
		mate[n.recLabel(it.Key()[1:])] = int64(sdk.BigEndianToUint64(it.Value()))
	}
	it.Close()
	st["mate"] = mate
	// delegation: records and hold counts
	recs := map[string]interface{}{}
	undels, _ := app.DelegationKeeper.AllUndelegations(ctx)
	for _, r := range undels {
		key := delegationtypes.GetUndelegationRecordKey(r.BlockNumber, r.LzTxNonce, r.TxHash, r.OperatorAddr)
		recs[n.recLabel(key)] = map[string]interface{}{"complete": r.CompleteBlockNumber, "amt": NI(r.Amount), "actual": NI(r.ActualCompletedAmount)}
	}
	st["recs"] = recs
	hold := map[string]interface{}{}
	dkv := ctx.KVStore(app.GetKey(delegationtypes.StoreKey))
	it = sdk.KVStorePrefixIterator(dkv, delegationtypes.GetUndelegationOnHoldKey(nil))
	for ; it.Valid(); it.Next() {
		c := sdk.BigEndianToUint64(it.Value())
		if c > 0 {
			hold[n.recLabel(it.Key()[1:])] = c
		}
	}
	it.Close()
	st["hold"] = hold
	// operator: keys, opt-in, removal marker
	ops := map[string]interface{}{}
	for i, a := range n.w.OpAddrs {
		o := fmt.Sprintf("o%d", i+1)
		found, wk, _ := app.OperatorKeeper.GetOperatorConsKeyForChainID(ctx, a, n.w.ChainIDNoRev)
		key := ""
		if found && wk != nil {
			key = n.consLabel(wk.ToConsAddr())
		}
		hasPrev, pk, _ := app.OperatorKeeper.GetOperatorPrevConsKeyForChainID(ctx, a, n.w.ChainIDNoRev)
		prev := ""
		if hasPrev && pk != nil {
			prev = n.consLabel(pk.ToConsAddr())
		}
		ops[o] = map[string]interface{}{
			"key": key, "prev": prev,
			"opted":    app.OperatorKeeper.IsOptedIn(ctx, a.String(), n.w.AvsAddr),
			"removing": app.OperatorKeeper.IsOperatorRemovingKeyFromChainID(ctx, a, n.w.ChainIDNoRev),
			"jailed":   app.OperatorKeeper.IsOperatorJailedForChainID(ctx, sdk.ConsAddress(consAddrOrNil(wk)), n.w.ChainIDNoRev),
			"usd":      n.usdClass(ctx, a),
		}
	}
	st["ops"] = ops
	rev := map[string]interface{}{}
	okv := ctx.KVStore(app.GetKey(operatortypes.StoreKey))
	pfx := operatortypes.ChainIDAndAddrKey(operatortypes.BytePrefixForChainIDAndConsKeyToOperator, n.w.ChainIDNoRev, nil)
	it = sdk.KVStorePrefixIterator(okv, pfx)
	for ; it.Valid(); it.Next() {
		rev[n.consLabel(it.Key()[len(pfx):])] = n.opLabel(sdk.AccAddress(it.Value()).String())
	}
	it.Close()
	st["rev"] = rev
	return st
}

func (n *Node) usdClass(ctx sdk.Context, a sdk.AccAddress) string {
	if !n.app.OperatorKeeper.IsOptedIn(ctx, a.String(), n.w.AvsAddr) {
		return "none"
	}
	v, err := n.app.OperatorKeeper.GetOperatorOptedUSDValue(ctx, n.w.AvsAddr, a.String())
	if err != nil {
		return "none"
	}
	if v.ActiveUSDValue.IsNil() || !v.ActiveUSDValue.IsPositive() {
		return "zero"
	}
	return "pos"
}

func consAddrOrNil(wk keytypes.WrappedConsKey) []byte {
	if wk == nil {
		return nil
	}
	return wk.ToConsAddr()
}

func (n *Node) scanEpochQueue(ctx sdk.Context, pfx byte, dec func([]byte) []string) []map[string]interface{} {
	kv := ctx.KVStore(n.app.GetKey(dogfoodtypes.StoreKey))
	it := sdk.KVStorePrefixIterator(kv, []byte{pfx})
	defer it.Close()
	out := []map[string]interface{}{}
	for ; it.Valid(); it.Next() {
		out = append(out, map[string]interface{}{"e": int64(sdk.BigEndianToUint64(it.Key()[1:])), "l": dec(it.Value())})
	}
	return out
}

// ---------------------------------------------------------------------------------------------
// export / import (C18)

type exportFile struct {
	Height          int64                  `json:"height"`
	AppState        json.RawMessage        `json:"app_state"`
	ConsensusParams *tmproto.ConsensusParams `json:"consensus_params"`
}

// per listed module: ValidateGenesis of its part of the document
func (n *Node) validateListed(appState map[string]json.RawMessage) map[string]string {
	cdc := n.app.AppCodec()
	res := map[string]string{}
	chk := func(name string, f func(raw json.RawMessage) error) {
		defer func() {
			if r := recover(); r != nil {
				res[name] = fmt.Sprint("panic: ", r)
			}
		}()
		raw, ok := appState[name]
		if !ok {
			res[name] = "missing from document"
			return
		}
		if err := f(raw); err != nil {
			res[name] = err.Error()
		} else {
			res[name] = ""
		}
	}
	chk("assets", func(raw json.RawMessage) error {
		var g assetstypes.GenesisState
		if err := cdc.UnmarshalJSON(raw, &g); err != nil {
			return err
		}
		return g.Validate()
	})
	chk("delegation", func(raw json.RawMessage) error {
		var g delegationtypes.GenesisState
		if err := cdc.UnmarshalJSON(raw, &g); err != nil {
			return err
		}
		return g.Validate()
	})
	chk("operator", func(raw json.RawMessage) error {
		var g operatortypes.GenesisState
		if err := cdc.UnmarshalJSON(raw, &g); err != nil {
			return err
		}
		return g.Validate()
	})
	chk("dogfood", func(raw json.RawMessage) error {
		var g dogfoodtypes.GenesisState
		if err := cdc.UnmarshalJSON(raw, &g); err != nil {
			return err
		}
		return g.Validate()
	})
	chk("epochs", func(raw json.RawMessage) error {
		var g epochstypes.GenesisState
		if err := cdc.UnmarshalJSON(raw, &g); err != nil {
			return err
		}
		return g.Validate()
	})
	chk("oracle", func(raw json.RawMessage) error {
		var g oracletypes.GenesisState
		if err := cdc.UnmarshalJSON(raw, &g); err != nil {
			return err
		}
		return g.Validate()
	})
	chk("exomint", func(raw json.RawMessage) error {
		var g exominttypes.GenesisState
		if err := cdc.UnmarshalJSON(raw, &g); err != nil {
			return err
		}
		return g.Validate()
	})
	chk("feedistribution", func(raw json.RawMessage) error {
		var g distributiontypes.GenesisState
		if err := cdc.UnmarshalJSON(raw, &g); err != nil {
			return err
		}
		return g.Validate()
	})
	return res
}

// canonical per-module document digests + the parts of the documents the model transcribes
func (n *Node) docInfo(appState map[string]json.RawMessage) (map[string]string, map[string]interface{}) {
	dd := map[string]string{}
	for _, m := range listedModules {
		raw, ok := appState[m]
		if !ok {
			dd[m] = "missing"
			continue
		}
		var v interface{}
		must(json.Unmarshal(raw, &v))
		dd[m] = shortHash(canon(v))
		if mv, ok := v.(map[string]interface{}); ok {
			for f, fv := range mv {
				dd[m+"."+f] = shortHash(canon(fv))
			}
		}
	}
	doc := map[string]interface{}{}
	cdc := n.app.AppCodec()
	if raw, ok := appState["dogfood"]; ok {
		var g dogfoodtypes.GenesisState
		if err := cdc.UnmarshalJSON(raw, &g); err == nil {
			optq := []map[string]interface{}{}
			for _, e := range g.OptOutExpiries {
				var l []string
				for _, a := range e.OperatorAccAddrs {
					l = append(l, n.opLabel(a))
				}
				optq = append(optq, map[string]interface{}{"e": e.Epoch, "l": l})
			}
			pruneq := []map[string]interface{}{}
			for _, e := range g.ConsensusAddrsToPrune {
				var l []string
				for _, a := range e.ConsAddrs {
					ca, err := sdk.ConsAddressFromBech32(a)
					if err != nil {
						l = append(l, "?"+a)
					} else {
						l = append(l, n.addrLabel(ca))
					}
				}
				pruneq = append(pruneq, map[string]interface{}{"e": e.Epoch, "l": l})
			}
			matq := []map[string]interface{}{}
			for _, e := range g.UndelegationMaturities {
				var l []string
				for _, a := range e.UndelegationRecordKeys {
					bz, err := hexutil.Decode(a)
					if err != nil {
						l = append(l, "?"+a)
					} else if len(bz) == 20 {
						l = append(l, n.addrLabel(bz))
					} else {
						l = append(l, n.recLabel(bz))
					}
				}
				matq = append(matq, map[string]interface{}{"e": e.Epoch, "l": l})
			}
			vs := []string{}
			for _, v := range g.ValSet {
				wk := keytypes.NewWrappedConsKeyFromHex(v.PublicKey)
				vs = append(vs, n.consLabel(wk.ToConsAddr()))
			}
			sort.Strings(vs)
			doc["dogfood"] = map[string]interface{}{"optq": optq, "pruneq": pruneq, "matq": matq, "vals": vs}
		}
	}
	if raw, ok := appState["delegation"]; ok {
		var g delegationtypes.GenesisState
		if err := cdc.UnmarshalJSON(raw, &g); err == nil {
			recs := map[string]interface{}{}
			for _, r := range g.Undelegations {
				key := delegationtypes.GetUndelegationRecordKey(r.BlockNumber, r.LzTxNonce, r.TxHash, r.OperatorAddr)
				recs[n.recLabel(key)] = map[string]interface{}{"complete": r.CompleteBlockNumber, "amt": NI(r.Amount), "actual": NI(r.ActualCompletedAmount)}
			}
			doc["delegation"] = map[string]interface{}{"recs": recs}
		}
	}
	if raw, ok := appState["epochs"]; ok {
		var g epochstypes.GenesisState
		if err := cdc.UnmarshalJSON(raw, &g); err == nil {
			for _, e := range g.Epochs {
				if e.Identifier == chainEpochID {
					doc["epochs"] = map[string]interface{}{"ep": e.CurrentEpoch, "epStartH": e.CurrentEpochStartHeight}
				}
			}
		}
	}
	return dd, doc
}

// addrLabel names a 20-byte address whatever it is (operator account or consensus address)
func (n *Node) addrLabel(a []byte) string {
	if m, ok := n.w.OpModel[sdk.AccAddress(a).String()]; ok {
		return m
	}
	return n.consLabel(a)
}

func (n *Node) export(h int64, path string) {
	line := map[string]interface{}{"ev": "export", "script": n.sc.ID, "run": n.run, "role": n.role, "h": h, "prefix": n.sc.prefix(h)}
	defer func() {
		if r := recover(); r != nil {
			line["panic"] = fmt.Sprint(r)
			line["ok"] = false
			n.emit(line)
		}
	}()
	exp, err := n.app.ExportAppStateAndValidators(false, nil, nil)
	if err != nil {
		line["ok"] = false
		line["err"] = err.Error()
		n.emit(line)
		return
	}
	var appState map[string]json.RawMessage
	must(json.Unmarshal(exp.AppState, &appState))
	line["ok"] = true
	line["height"] = exp.Height
	line["valid"] = n.validateListed(appState)
	dd, doc := n.docInfo(appState)
	line["docdg"] = dd
	line["doc"] = doc
	_, pdg := n.digests()
	line["pdg"] = pdg
	line["st"] = n.project()
	if path != "" {
		bz, err := json.Marshal(exportFile{Height: exp.Height, AppState: exp.AppState, ConsensusParams: exp.ConsensusParams})
		must(err)
		must(os.WriteFile(path, bz, 0o644))
	}
	n.emit(line)
}

// listed modules re-exported from a context (deliver state right after InitChain)
func (n *Node) reexport(ctx sdk.Context) (res map[string]json.RawMessage, errs map[string]string) {
	cdc := n.app.AppCodec()
	res = map[string]json.RawMessage{}
	errs = map[string]string{}
	do := func(name string, f func() json.RawMessage) {
		defer func() {
			if r := recover(); r != nil {
				errs[name] = fmt.Sprint(r)
			}
		}()
		res[name] = f()
	}
	app := n.app
	do("assets", func() json.RawMessage { return cdc.MustMarshalJSON(app.AssetsKeeper.ExportGenesis(ctx)) })
	do("delegation", func() json.RawMessage { return cdc.MustMarshalJSON(app.DelegationKeeper.ExportGenesis(ctx)) })
	do("operator", func() json.RawMessage { return cdc.MustMarshalJSON(app.OperatorKeeper.ExportGenesis(ctx)) })
	do("dogfood", func() json.RawMessage { return cdc.MustMarshalJSON(app.StakingKeeper.ExportGenesis(ctx)) })
	do("epochs", func() json.RawMessage { return cdc.MustMarshalJSON(app.EpochsKeeper.ExportGenesis(ctx)) })
	do("oracle", func() json.RawMessage { return cdc.MustMarshalJSON(oracle.ExportGenesis(ctx, app.OracleKeeper)) })
	do("exomint", func() json.RawMessage { return cdc.MustMarshalJSON(app.ExomintKeeper.ExportGenesis(ctx)) })
	do("feedistribution", func() json.RawMessage { return cdc.MustMarshalJSON(app.DistrKeeper.ExportGenesis(ctx)) })
	return
}

func (n *Node) initFromExport(path string, from int64) (alive bool) {
	line := map[string]interface{}{"ev": "import", "script": n.sc.ID, "run": n.run, "role": n.role, "h": from, "prefix": n.sc.prefix(from)}
	defer func() {
		if r := recover(); r != nil {
			msg := fmt.Sprint(r)
			if len(msg) > 400 {
				msg = msg[:400]
			}
			line["ok"] = false
			line["panic"] = msg
			n.emit(line)
			alive = false
		}
	}()
	bz, err := os.ReadFile(path)
	must(err)
	var ef exportFile
	must(json.Unmarshal(bz, &ef))
	if ef.Height != from+1 {
		panic(fmt.Sprintf("export height %d but --from %d", ef.Height, from))
	}
	n.app.InitChain(abci.RequestInitChain{Time: n.w.Cfg.GenesisTime, ChainId: n.w.Cfg.ChainID, Validators: []abci.ValidatorUpdate{},
		ConsensusParams: ef.ConsensusParams, AppStateBytes: ef.AppState, InitialHeight: ef.Height})
	n.imported = true
	n.fresh = true
	ctx := n.app.BaseApp.NewContext(false, tmproto.Header{Height: ef.Height, ChainID: n.w.Cfg.ChainID, Time: n.w.Cfg.GenesisTime})
	line["ok"] = true
	_, pdg := digestsOf(func(k storetypes.StoreKey) sdk.KVStore { return ctx.KVStore(k) }, n.storeKeys())
	line["pdg"] = pdg
	line["st"] = n.projectCtx(ctx)
	re, errs := n.reexport(ctx)
	dd, doc := n.docInfo(re)
	line["docdg"] = dd
	line["doc"] = doc
	line["reexportErr"] = errs
	n.emit(line)
	return true
}
