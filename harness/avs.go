// AVS family driver (ctx-mode): executes TLC-generated behaviours of MC_Avs against the real
// x/avs keeper, the real x/operator opt-in/out code, the real msg server (SubmitTaskResult) and
// the real BeginBlocker (epoch hooks: operator voting power update, AVS task statistics) of a
// full ExocoreApp, and records, after every event, the complete projection of the family's
// abstract state (spec/Avs.tla store) for trace validation by spec/Trace_Avs.tla.
//
// Entry points (what the AVS precompile / the cosmos message route call):
//
//	RegisterAVS / UpdateAVS / DeregisterAVS -> AVSManagerKeeper.UpdateAVSInfo
//	OptIn / OptOut                          -> AVSManagerKeeper.OperatorOptAction -> OperatorKeeper.OptIn/OptOut
//	RegisterBLS                             -> AVSManagerKeeper.RegisterBLSPublicKey
//	CreateTask                              -> AVSManagerKeeper.CreateAVSTask
//	Submit                                  -> avskeeper.MsgServerImpl.SubmitTaskResult (message decoded from wire bytes)
//	Challenge                               -> AVSManagerKeeper.RaiseAndResolveChallenge
//	Tick                                    -> app.BeginBlocker with the header time advanced by 61 s
//	                                           (x/epochs ticks "minute": operator + avs AfterEpochEnd hooks run)
//
// Addresses are passed in the canonical forms the precompile produces (EIP-55 hex for AVS and task
// contract addresses, bech32 for operators / owners).
package main

import (
	"bytes"
	"encoding/json"
	"flag"
	"fmt"
	"math/big"
	"sort"
	"strconv"
	"strings"
	"time"

	abci "github.com/cometbft/cometbft/abci/types"
	"github.com/cosmos/cosmos-sdk/store/prefix"
	sdk "github.com/cosmos/cosmos-sdk/types"
	"github.com/ethereum/go-ethereum/common"
	"github.com/ethereum/go-ethereum/crypto"
	"github.com/prysmaticlabs/prysm/v4/crypto/bls/blst"
	blscommon "github.com/prysmaticlabs/prysm/v4/crypto/bls/common"

	sdkmath "cosmossdk.io/math"
	assetskeeper "github.com/ExocoreNetwork/exocore/x/assets/keeper"
	assetstypes "github.com/ExocoreNetwork/exocore/x/assets/types"
	avskeeper "github.com/ExocoreNetwork/exocore/x/avs/keeper"
	avstypes "github.com/ExocoreNetwork/exocore/x/avs/types"
	delegationtypes "github.com/ExocoreNetwork/exocore/x/delegation/types"
	operatortypes "github.com/ExocoreNetwork/exocore/x/operator/types"
)

type avsDriver struct {
	w   *World
	ctx sdk.Context

	avsAddr  map[string]common.Address // "a1" ->
	avsModel map[string]string         // lower-case hex -> "a1"
	tAddr    map[string]common.Address // "t1" ->
	tModel   map[string]string
	acct     map[string]string // "o1".."u1","w1","w2" -> bech32
	acctM    map[string]string // bech32 -> model id
	oord     []string          // operator ids (registered or not) in bech32 order
	regops   []string
	bls      map[string]blscommon.SecretKey // op id -> key
	halted   bool
	val      map[string]Num
	valt     map[string]Num
}

func avsBlsKey(label string) blscommon.SecretKey {
	for i := 0; ; i++ {
		b := h256(fmt.Sprintf("bls:%s#%d", label, i))
		b[0] &= 0x3f
		k, err := blst.SecretKeyFromBytes(b)
		if err == nil {
			return k
		}
	}
}

func sortedAddrs(labels []string) []common.Address {
	var out []common.Address
	for _, l := range labels {
		out = append(out, AddrOf(EthKey(l)))
	}
	sort.Slice(out, func(i, j int) bool { return bytes.Compare(out[i].Bytes(), out[j].Bytes()) < 0 })
	return out
}

func newAvsDriver(w *World) *avsDriver {
	d := &avsDriver{w: w, avsAddr: map[string]common.Address{}, avsModel: map[string]string{}, tAddr: map[string]common.Address{},
		tModel: map[string]string{}, acct: map[string]string{}, acctM: map[string]string{}, bls: map[string]blscommon.SecretKey{}, val: map[string]Num{}, valt: map[string]Num{}}
	for i, a := range sortedAddrs([]string{"avsA", "avsB"}) {
		m := fmt.Sprintf("a%d", i+1)
		d.avsAddr[m] = a
		d.avsModel[strings.ToLower(a.String())] = m
	}
	for i, a := range sortedAddrs([]string{"taskA", "taskB"}) {
		m := fmt.Sprintf("t%d", i+1)
		d.tAddr[m] = a
		d.tModel[strings.ToLower(a.String())] = m
	}
	for i, a := range w.OpAddrs {
		m := fmt.Sprintf("o%d", i+1)
		d.acct[m] = a.String()
		d.regops = append(d.regops, m)
	}
	d.acct["u1"] = sdk.AccAddress(w.StAddrs[0].Bytes()).String() // an account that is NOT a registered operator
	d.acct["w1"] = sdk.AccAddress(AddrOf(EthKey("owner1")).Bytes()).String()
	d.acct["w2"] = sdk.AccAddress(AddrOf(EthKey("owner2")).Bytes()).String()
	for m, b := range d.acct {
		d.acctM[b] = m
	}
	d.oord = append([]string{}, d.regops...)
	d.oord = append(d.oord, "u1")
	sort.Slice(d.oord, func(i, j int) bool { return d.acct[d.oord[i]] < d.acct[d.oord[j]] })
	for _, o := range d.oord {
		d.bls[o] = avsBlsKey(o)
	}
	return d
}

func (d *avsDriver) assetIDs() []string { return []string{d.w.AssetID[d.w.Cfg.Assets[0].ID]} }

// self-delegated and total USD value of every operator (o3: no stake of its own, 80 delegated by a staker that is
// not associated with it; the others: self = total),
// computed by the REAL x/operator code for the asset set every model AVS supports
func (d *avsDriver) computeVals() {
	k := d.w.App
	assets := map[string]interface{}{}
	for _, id := range d.assetIDs() {
		info, err := k.AssetsKeeper.GetStakingAssetInfo(d.ctx, id)
		must(err)
		assets[id] = info
	}
	decimals, err := k.AssetsKeeper.GetAssetsDecimal(d.ctx, assets)
	must(err)
	prices, err := k.OracleKeeper.GetMultipleAssetsPrices(d.ctx, assets)
	must(err)
	for _, o := range d.oord {
		si, err := k.OperatorKeeper.CalculateUSDValueForOperator(d.ctx, false, d.acct[o], assets, decimals, prices)
		must(err)
		d.val[o] = ND(si.SelfStaking)
		d.valt[o] = ND(si.Staking)
	}
}

func (d *avsDriver) epochs() map[string]int64 {
	out := map[string]int64{}
	for _, e := range d.w.App.EpochsKeeper.AllEpochInfos(d.ctx) {
		out[e.Identifier] = e.CurrentEpoch
	}
	return out
}

func (d *avsDriver) cfgJSON() map[string]interface{} {
	aord := []string{"a1", "a2"}
	tord := []string{"t1", "t2"}
	ep := d.epochs()
	var eids []string
	for e := range ep {
		eids = append(eids, e)
	}
	sort.Strings(eids)
	return map[string]interface{}{"aord": aord, "tord": tord, "oord": d.oord, "regops": d.regops, "val": d.val, "valt": d.valt,
		"epoch0": ep, "epochids": eids, "tickid": "minute", "owners": []string{"w1", "w2"}}
}

func runAvs(args []string) int {
	fs := flag.NewFlagSet("avs", flag.ExitOnError)
	in := fs.String("in", "", "behaviours (ndjson of event arrays)")
	out := fs.String("out", "", "trace output (ndjson)")
	_ = fs.Int64("seed", 1, "seed")
	fs.Parse(args)

	gc := DefaultGenCfg()
	gc.NOperators = 3
	gc.NStakers = 2
	gc.Validators = []ValCfg{{Op: 0, Power: 100}, {Op: 1, Power: 50}}
	w := NewWorld(gc)
	tw := NewTraceWriter(*out)
	defer tw.Close()
	base := newAvsDriver(w)
	base.ctx = w.Ctx
	// a third-party delegation: staker s2 (not associated with any operator) deposits and delegates 80 to o3, which
	// has no stake of its own - its total value exceeds a minimum self-delegation its self value does not meet
	{
		aaddr := w.AssetAddr[gc.Assets[0].ID].Bytes()
		saddr := w.StAddrs[1].Bytes()
		x := sdkmath.NewIntWithDecimal(80, int(gc.Assets[0].Decimals))
		must(w.App.AssetsKeeper.PerformDepositOrWithdraw(w.Ctx, &assetskeeper.DepositWithdrawParams{ClientChainLzID: LzID, Action: assetstypes.DepositLST, AssetsAddress: aaddr, StakerAddress: saddr, OpAmount: x}))
		must(w.App.DelegationKeeper.DelegateTo(w.Ctx, &delegationtypes.DelegationOrUndelegationParams{ClientChainID: LzID, Action: assetstypes.DelegateTo, AssetsAddress: aaddr, OperatorAddress: w.OpAddrs[2], StakerAddress: saddr, OpAmount: x}))
	}
	base.computeVals()

	behaviours := ReadBehaviours(*in)
	for bi, b := range behaviours {
		ctx, _ := w.Ctx.CacheContext()
		d := *base
		d.ctx = ctx
		d.halted = false
		tw.Emit(map[string]interface{}{"ev": "reset", "b": bi, "cfg": d.cfgJSON(), "st": d.project()})
		for _, e := range b {
			d.exec(e, tw)
		}
	}
	fmt.Printf("avs: behaviours=%d events=%d\n", len(behaviours), tw.n)
	return 0
}

func init() { commands["avs"] = runAvs }

func (d *avsDriver) exec(e BEvent, tw *TraceWriter) {
	args := map[string]interface{}{}
	for k, raw := range e.A {
		var v interface{}
		json.Unmarshal(raw, &v)
		args[k] = v
	}
	var err error
	panicked := ""
	func() {
		defer func() {
			if r := recover(); r != nil {
				panicked = fmt.Sprint(r)
			}
		}()
		err = d.call(e)
	}()
	ev := map[string]interface{}{"ev": e.Ev, "a": args, "ok": err == nil && panicked == "", "panic": panicked != "", "st": d.project()}
	if err != nil {
		ev["err"] = err.Error()
	}
	if panicked != "" {
		ev["err"] = "PANIC: " + panicked
	}
	tw.Emit(ev)
}

func (d *avsDriver) avsHex(m string) string {
	if a, ok := d.avsAddr[m]; ok {
		return a.String()
	}
	return m
}
func (d *avsDriver) taskHex(m string) string {
	if m == "" {
		return ""
	}
	if a, ok := d.tAddr[m]; ok {
		return a.String()
	}
	return m
}

func taskHash(good bool) []byte {
	if good {
		return h256("taskhash")
	}
	return h256("another task hash")
}

func respBytes(cls string, id uint64) []byte {
	switch cls {
	case "r1":
		bz, _ := avstypes.MarshalTaskResponse(avstypes.TaskResponse{TaskID: id, NumberSum: big.NewInt(1)})
		return bz
	case "r2": // a DIFFERENT response that carries the same task id
		bz, _ := avstypes.MarshalTaskResponse(avstypes.TaskResponse{TaskID: id, NumberSum: big.NewInt(2)})
		return bz
	case "rw": // well-formed response that carries ANOTHER task id
		bz, _ := avstypes.MarshalTaskResponse(avstypes.TaskResponse{TaskID: id + 7, NumberSum: big.NewInt(1)})
		return bz
	case "rj":
		return []byte("{not json")
	}
	return nil
}

func (d *avsDriver) otherOp(o string) string {
	for i, x := range d.oord {
		if x == o {
			return d.oord[(i+1)%len(d.oord)]
		}
	}
	return d.oord[0]
}

func (d *avsDriver) sigBytes(cls, o string, id uint64) []byte {
	sign := func(who, resp string) []byte {
		dg := crypto.Keccak256Hash(respBytes(resp, id))
		return d.bls[who].Sign(dg.Bytes()).Marshal()
	}
	switch cls {
	case "g1":
		return sign(o, "r1")
	case "g2":
		return sign(o, "rw")
	case "g3":
		return sign(o, "r2")
	case "x1":
		return sign(d.otherOp(o), "r1")
	case "junk":
		return h256("junk")[:10]
	case "empty":
		return []byte{}
	}
	return nil
}

func (d *avsDriver) call(e BEvent) error {
	w, ctx := d.w, d.ctx
	k := w.App
	switch e.Ev {
	case "RegisterAVS", "UpdateAVS":
		p := &avstypes.AVSRegisterOrDeregisterParams{
			AvsAddress: d.avsHex(e.str("a")), TaskAddr: d.taskHex(e.str("t")), MinSelfDelegation: uint64(e.i64("minself")),
			EpochIdentifier: e.str("eid"), UnbondingPeriod: uint64(e.i64("unbond")), CallerAddress: d.acct["w1"],
		}
		if e.Ev == "RegisterAVS" {
			p.Action = avskeeper.RegisterAction
			p.AvsName = "n1"
			p.MinStakeAmount = 1
			p.SlashContractAddr = common.BytesToAddress(h256("slash")[:20]).String()
			p.RewardContractAddr = common.BytesToAddress(h256("reward")[:20]).String()
			p.AvsOwnerAddress = []string{d.acct["w1"]}
			p.AssetID = d.assetIDs()
			p.MinOptInOperators, p.MinTotalStakeAmount, p.AvsReward, p.AvsSlash = 1, 1, 5, 5
		} else {
			p.Action = avskeeper.UpdateAction
		}
		return k.AVSManagerKeeper.UpdateAVSInfo(ctx, p)
	case "DeregisterAVS":
		p := &avstypes.AVSRegisterOrDeregisterParams{AvsAddress: d.avsHex(e.str("a")), CallerAddress: d.acct[e.str("caller")], AvsName: e.str("name"), Action: avskeeper.DeRegisterAction}
		return k.AVSManagerKeeper.UpdateAVSInfo(ctx, p)
	case "OptIn", "OptOut":
		p := &avskeeper.OperatorOptParams{OperatorAddress: d.acct[e.str("o")], AvsAddress: d.avsHex(e.str("a")), Action: avskeeper.RegisterAction}
		if e.Ev == "OptOut" {
			p.Action = avskeeper.DeRegisterAction
		}
		return k.AVSManagerKeeper.OperatorOptAction(ctx, p)
	case "RegisterBLS":
		o, cls := e.str("o"), e.str("cls")
		msg := h256("blsreg:" + o)
		p := &avskeeper.BlsParams{Operator: d.acct[o], Name: "key-" + o, PubKey: d.bls[o].PublicKey().Marshal(), PubkeyRegistrationMessageHash: msg,
			PubkeyRegistrationSignature: d.bls[o].Sign(msg).Marshal()}
		switch cls {
		case "badsig": // proof of possession made with another key
			p.PubkeyRegistrationSignature = d.bls[d.otherOp(o)].Sign(msg).Marshal()
		case "junksig":
			p.PubkeyRegistrationSignature = h256("junk")[:10]
		case "badpk": // bytes that are not a BLS public key
			p.PubKey = make([]byte, 48)
		}
		return k.AVSManagerKeeper.RegisterBLSPublicKey(ctx, p)
	case "CreateTask":
		p := &avskeeper.TaskInfoParams{TaskContractAddress: d.taskHex(e.str("t")), TaskName: "task", Hash: taskHash(true), CallerAddress: d.acct[e.str("caller")],
			TaskResponsePeriod: uint64(e.i64("resp")), TaskStatisticalPeriod: uint64(e.i64("stat")), TaskChallengePeriod: uint64(e.i64("chal")), ThresholdPercentage: 60}
		return k.AVSManagerKeeper.CreateAVSTask(ctx, p)
	case "Submit":
		o, id := e.str("o"), uint64(e.i64("id"))
		info := &avstypes.TaskResultInfo{OperatorAddress: d.acct[o], TaskContractAddress: d.taskHex(e.str("t")), TaskId: id, Stage: e.str("stage"),
			BlsSignature: d.sigBytes(e.str("sig"), o, id), TaskResponse: respBytes(e.str("resp"), id)}
		req := &avstypes.SubmitTaskResultReq{FromAddress: d.acct[e.str("from")], Info: info}
		// go through the wire format, as a delivered transaction would: a field that is PRESENT with
		// length zero (class "empty") is appended explicitly - canonical marshalling would drop it
		bz, err := info.Marshal()
		must(err)
		if e.str("sig") == "empty" {
			bz = append(bz, 0x22, 0x00) // field 4 (bls_signature), wire type 2, length 0
		}
		dec := &avstypes.TaskResultInfo{}
		must(dec.Unmarshal(bz))
		req.Info = dec
		_, err = avskeeper.NewMsgServerImpl(k.AVSManagerKeeper).SubmitTaskResult(sdk.WrapSDKContext(ctx), req)
		return err
	case "Challenge":
		id := uint64(e.i64("id"))
		// class "good" = the ABI digest of the response that is stored for (operator, task) (of r1 when none is stored)
		tr := avstypes.TaskResponse{TaskID: id, NumberSum: big.NewInt(1)}
		if stored, err := k.AVSManagerKeeper.GetTaskResultInfo(ctx, d.acct[e.str("o")], d.tAddr[e.str("t")].String(), id); err == nil {
			if parsed, err := avstypes.UnmarshalTaskResponse(stored.TaskResponse); err == nil && parsed.NumberSum != nil {
				tr = parsed
			}
		}
		rh, _ := avstypes.GetTaskResponseDigestEncodeByAbi(tr)
		rhash := rh[:]
		if e.str("rhash") != "good" {
			rhash = h256("another response hash")
		}
		opAcc, err := sdk.AccAddressFromBech32(d.acct[e.str("o")])
		must(err)
		p := &avskeeper.ChallengeParams{TaskContractAddress: d.tAddr[e.str("t")], TaskHash: taskHash(e.str("thash") == "good"), TaskID: id,
			OperatorAddress: opAcc, TaskResponseHash: rhash, CallerAddress: d.acct["w2"]}
		return k.AVSManagerKeeper.RaiseAndResolveChallenge(ctx, p)
	case "Tick":
		h := ctx.BlockHeader()
		h.Height++
		h.Time = h.Time.Add(61 * time.Second)
		cc, write := ctx.WithBlockHeader(h).CacheContext()
		func() {
			defer func() {
				if r := recover(); r != nil {
					// a panic in BeginBlock is not recovered by baseapp: the block is never committed and the
					// node stops. Nothing of the block is kept.
					d.halted = true
					panic(r)
				}
			}()
			k.BeginBlocker(cc, abci.RequestBeginBlock{Header: h})
		}()
		write()
		d.ctx = ctx.WithBlockHeader(h)
		return nil
	}
	return fmt.Errorf("unknown event %s", e.Ev)
}

// ---------------------------------------------------------------------------------------------
// projection

func (d *avsDriver) opM(bech string) string {
	if m, ok := d.acctM[bech]; ok {
		return m
	}
	return bech
}
func (d *avsDriver) avsM(hexs string) string {
	if m, ok := d.avsModel[strings.ToLower(hexs)]; ok {
		return m
	}
	return hexs
}
func (d *avsDriver) taskM(hexs string) string {
	if hexs == "" {
		return ""
	}
	if m, ok := d.tModel[strings.ToLower(hexs)]; ok {
		return m
	}
	return hexs
}
func (d *avsDriver) opsM(l []string) []string {
	out := []string{}
	for _, x := range l {
		out = append(out, d.opM(x))
	}
	return out
}

func (d *avsDriver) sigToken(bz []byte, o string, id uint64) string {
	if len(bz) == 0 {
		return "nil"
	}
	if _, known := d.bls[o]; known {
		for _, c := range []string{"g1", "g2", "g3", "x1", "junk"} {
			if bytes.Equal(bz, d.sigBytes(c, o, id)) {
				return c
			}
		}
	}
	return "0x" + hexOf(bz)
}
func respToken(bz []byte, id uint64) string {
	if len(bz) == 0 {
		return "nil"
	}
	for _, c := range []string{"r1", "r2", "rw", "rj"} {
		if bytes.Equal(bz, respBytes(c, id)) {
			return c
		}
	}
	return "0x" + hexOf(bz)
}

func (d *avsDriver) project() map[string]interface{} {
	w, ctx := d.w, d.ctx
	k := w.App
	st := map[string]interface{}{"halted": d.halted, "h": ctx.BlockHeight()}
	st["epoch"] = d.epochs()

	// AVS registry: every stored AVSInfo (the dogfood AVS created at genesis is listed as "other")
	avs := []map[string]interface{}{}
	nOther := 0
	k.AVSManagerKeeper.IterateAVSInfo(ctx, func(_ int64, a avstypes.AVSInfo) bool {
		m := d.avsM(a.AvsAddress)
		if m == a.AvsAddress {
			nOther++
			if a.TaskAddr == "" {
				return false
			}
		}
		hasAsset := false
		for _, x := range a.AssetIDs {
			if x == d.assetIDs()[0] {
				hasAsset = true
			}
		}
		avs = append(avs, map[string]interface{}{"a": m, "name": a.Name, "taddr": d.taskM(a.TaskAddr), "owners": d.opsM(a.AvsOwnerAddress), "minself": a.MinSelfDelegation,
			"eid": a.EpochIdentifier, "start": a.StartingEpoch, "unbond": a.AvsUnbondingPeriod, "asset": hasAsset})
		return false
	})
	st["avs"] = avs
	st["otherAvs"] = nOther
	// the keeper's own lookups, as the property's observe_at lists them
	bytask := map[string]string{}
	for m, a := range d.tAddr {
		bytask[m] = d.avsM(k.AVSManagerKeeper.GetAVSInfoByTaskAddress(ctx, a.String()).AvsAddress)
	}
	st["bytask"] = bytask

	// x/operator: opt records and USD values of the model AVSs
	opt := []map[string]interface{}{}
	ois, _ := k.OperatorKeeper.GetAllOptedInfo(ctx)
	for _, oi := range ois {
		keys, err := assetstypes.ParseJoinedStoreKey([]byte(oi.Key), 2)
		if err != nil {
			continue
		}
		a := d.avsM(keys[1])
		if a == keys[1] {
			continue
		}
		s := "in"
		if oi.OptInfo.OptedOutHeight != operatortypes.DefaultOptedOutHeight {
			s = "out"
		}
		opt = append(opt, map[string]interface{}{"o": d.opM(keys[0]), "a": a, "s": s})
	}
	st["opt"] = opt
	optlist := map[string][]string{}
	for m, a := range d.avsAddr {
		l, _ := k.OperatorKeeper.GetOptedInOperatorListByAVS(ctx, a.String())
		optlist[m] = d.opsM(l)
	}
	st["optlist"] = optlist
	usd := []map[string]interface{}{}
	uvs, _ := k.OperatorKeeper.GetAllOperatorUSDValues(ctx)
	for _, uv := range uvs {
		keys, err := assetstypes.ParseJoinedStoreKey([]byte(uv.Key), 2)
		if err != nil {
			continue
		}
		a := d.avsM(keys[0])
		if a == keys[0] {
			continue
		}
		usd = append(usd, map[string]interface{}{"a": a, "o": d.opM(keys[1]), "self": ND(uv.OptedUSDValue.SelfUSDValue), "total": ND(uv.OptedUSDValue.TotalUSDValue), "active": ND(uv.OptedUSDValue.ActiveUSDValue)})
	}
	st["usd"] = usd
	avsusd := []map[string]interface{}{}
	avs2, _ := k.OperatorKeeper.GetAllAVSUSDValues(ctx)
	for _, v := range avs2 {
		a := d.avsM(v.AVSAddr)
		if a == v.AVSAddr {
			continue
		}
		avsusd = append(avsusd, map[string]interface{}{"a": a, "v": ND(v.Value.Amount)})
	}
	st["avsusd"] = avsusd

	// BLS keys
	bls := []map[string]interface{}{}
	for _, o := range d.oord {
		pk, err := k.AVSManagerKeeper.GetOperatorPubKey(ctx, d.acct[o])
		if err != nil {
			continue
		}
		own := bytes.Equal(pk.PubKey, d.bls[o].PublicKey().Marshal())
		bls = append(bls, map[string]interface{}{"o": o, "own": own})
	}
	st["bls"] = bls

	// task id counters (raw scan)
	astore := ctx.KVStore(k.GetKey(avstypes.StoreKey))
	tnum := []map[string]interface{}{}
	it := sdk.KVStorePrefixIterator(prefix.NewStore(astore, avstypes.KeyPrefixLatestTaskNum), nil)
	for ; it.Valid(); it.Next() {
		tnum = append(tnum, map[string]interface{}{"t": d.taskM(common.BytesToAddress(it.Key()).String()), "n": sdk.BigEndianToUint64(it.Value())})
	}
	it.Close()
	st["tnum"] = tnum

	// tasks
	tasks := []map[string]interface{}{}
	k.AVSManagerKeeper.IterateTaskAVSInfo(ctx, func(_ int64, t avstypes.TaskInfo) bool {
		powers := []map[string]interface{}{}
		if t.OperatorActivePower != nil {
			for _, p := range t.OperatorActivePower.OperatorPowerList {
				powers = append(powers, map[string]interface{}{"o": d.opM(p.OperatorAddr), "p": ND(p.SelfActivePower)})
			}
		}
		tasks = append(tasks, map[string]interface{}{"t": d.taskM(t.TaskContractAddress), "id": t.TaskId, "start": t.StartingEpoch, "resp": t.TaskResponsePeriod,
			"stat": t.TaskStatisticalPeriod, "chal": t.TaskChallengePeriod, "optin": d.opsM(t.OptInOperators), "signed": d.opsM(t.SignedOperators),
			"nosigned": d.opsM(t.NoSignedOperators), "powers": powers, "total": ND(t.TaskTotalPower), "actual": NU64(t.ActualThreshold),
			"hashok": bytes.Equal(t.Hash, taskHash(true))})
		return false
	})
	st["tasks"] = tasks

	// results
	res := []map[string]interface{}{}
	k.AVSManagerKeeper.IterateResultInfo(ctx, func(_ int64, r avstypes.TaskResultInfo) bool {
		o := d.opM(r.OperatorAddress)
		rh := ""
		if r.TaskResponseHash != "" {
			rh = "other"
			if r.TaskResponseHash == crypto.Keccak256Hash(r.TaskResponse).String() {
				rh = "h"
			}
		}
		// state predicate of C20 on the STORED record, recomputed here with the real blst code: does the stored
		// signature verify over keccak(stored response) under the operator's REGISTERED key, and does the stored
		// response carry the task id (both false for a record without response, i.e. phase one only)
		ver, idok := false, false
		if len(r.TaskResponse) > 0 {
			if pk, err := k.AVSManagerKeeper.GetOperatorPubKey(ctx, r.OperatorAddress); err == nil {
				if pub, err := blst.PublicKeyFromBytes(pk.PubKey); err == nil && pub != nil {
					func() {
						defer func() { _ = recover() }()
						okv, err := blst.VerifySignature(r.BlsSignature, crypto.Keccak256Hash(r.TaskResponse), pub)
						ver = okv && err == nil
					}()
				}
			}
			if parsed, err := avstypes.UnmarshalTaskResponse(r.TaskResponse); err == nil {
				idok = parsed.TaskID == r.TaskId
			}
		}
		res = append(res, map[string]interface{}{"o": o, "t": d.taskM(r.TaskContractAddress), "id": r.TaskId, "stage": r.Stage,
			"sig": d.sigToken(r.BlsSignature, o, r.TaskId), "resp": respToken(r.TaskResponse, r.TaskId), "rhash": rh, "ver": ver, "idok": idok})
		return false
	})
	st["res"] = res

	// challenges (raw scan): key = operator/taskaddr/id
	chal := []map[string]interface{}{}
	it = sdk.KVStorePrefixIterator(prefix.NewStore(astore, avstypes.KeyPrefixTaskChallengeResult), nil)
	for ; it.Valid(); it.Next() {
		parts := strings.Split(string(it.Key()), "/")
		if len(parts) != 3 {
			continue
		}
		id, _ := strconv.ParseUint(parts[2], 10, 64)
		chal = append(chal, map[string]interface{}{"o": d.opM(parts[0]), "t": d.taskM(parts[1]), "id": id,
			"exists": k.AVSManagerKeeper.IsExistTaskChallengedInfo(ctx, parts[0], parts[1], id)})
	}
	it.Close()
	st["chal"] = chal
	return st
}
